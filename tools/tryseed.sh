#!/bin/bash
# usage: tryseed.sh <name> <patch.diff> <CHECK> [<CHECK>...]
# applies the patch to a scratch worktree of /repo HEAD, builds, runs the given checks (quick) against it, removes the worktree.
name=$1; patch=$2; shift 2
export GOFLAGS=-mod=mod GOPROXY=off GOSUMDB=off GOTOOLCHAIN=local
wt=/tmp/lead/$name
rm -rf $wt; mkdir -p /tmp/lead
git -C /repo worktree add --detach $wt HEAD > /dev/null 2>&1 || { echo "worktree failed"; exit 2; }
if ! git -C $wt apply $patch; then echo "PATCH DOES NOT APPLY"; git -C /repo worktree remove --force $wt; exit 2; fi
if ! (cd $wt && go build ./... ); then echo "BUILD FAILS"; git -C /repo worktree remove --force $wt; exit 2; fi
cd /verif
for c in "$@"; do
  VERIF_REPO=$wt ./check $c > /tmp/seedrun_${name}_${c}.log 2>&1
  rc=$?
  echo "SEED $name check=$c exit=$rc violations=$(grep -c '^VIOLATION' /tmp/seedrun_${name}_${c}.log)"
done
git -C /repo worktree remove --force $wt
