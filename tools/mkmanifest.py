#!/usr/bin/env python3
"""Writes /verif/MANIFEST.json from the table below (single source of truth for the registered checks)."""
import json, os, sys
HERE = os.path.dirname(os.path.dirname(os.path.abspath(__file__)))
sys.path.insert(0, os.path.join(HERE, "tools"))
from manifest_table import CHECKS, NOT_APPLICABLE, HOOK_COMMITS, ENGINES, NOTES

props = [json.loads(l)["id"] for l in open(os.path.join(HERE, "properties.jsonl"))]
checks = []
for pid in props:
    if pid not in CHECKS:
        continue
    c = CHECKS[pid]
    checks.append({
        "property_id": pid,
        "quick_cmd": "./check %s --tier quick" % pid,
        "thorough_cmd": "./check %s --tier thorough" % pid,
        "evidence_file": "/verif/evidence/%s.json" % pid,
        "replay_cmd_template": "./check %s --replay {path}" % pid,
        "engine": c["engine"],
        "level_claimed": {"category": "model_checking", "text": c["text"], "design_ref": c["design_ref"]},
        "level_note": c["note"],
        "technique": c["technique"],
    })
na = [{"property_id": p, "reason": NOT_APPLICABLE.get(p, "check not built yet in this round; see DESIGN.md section 9 (growth plan)")}
      for p in props if p not in CHECKS]
m = {
    "version": 1,
    "setup_cmd": "./setup.sh",
    "hooks": {
        "guard": "verif",
        "enable": "go build -tags verif (the harness module /verif/harness replaces github.com/awslabs/ar-go-tools => /repo and is rebuilt by every check)",
        "baseline_off_cmd": "cd /repo && GOFLAGS=-mod=mod GOPROXY=off GOSUMDB=off GOTOOLCHAIN=local go test -vet=off -count=1 -timeout 25m ./...",
        "source_commits": HOOK_COMMITS,
        "add_only": True,
    },
    "engines": ENGINES,
    "checks": checks,
    "notes": NOTES,
    "not_applicable": na,
}
json.dump(m, open(os.path.join(HERE, "MANIFEST.json"), "w"), indent=1)
# known findings: one committed file assembled from known_findings.d/*.json (development time only)
import glob
ents = []
for f in sorted(glob.glob(os.path.join(HERE, "known_findings.d", "*.json"))):
    ents += json.load(open(f))
json.dump({"comment": "status known: printed as KNOWN-FINDING while the pinned input still fails; status fixed: suppresses nothing (see DESIGN.md 2.6)",
           "findings": ents}, open(os.path.join(HERE, "known_findings.json"), "w"), indent=1)
print("wrote MANIFEST.json: %d checks, %d not_applicable" % (len(checks), len(na)))
