#!/usr/bin/env python3
"""exploration helper (development only): K=3 plain chains over container/field/call/iface/value families under one
field-sensitive and one insensitive configuration; dumps the misses for characterising known findings"""
import json, os, sys
sys.path.insert(0, "/verif/lib"); sys.path.insert(0, "/verif")
import vlib, sem, semgen
ctx = vlib.Ctx("EXP", "thorough", int(os.environ.get("VERIF_SEED", "1")))
try:
    bins = ctx.build(["semdrive"])
    fams = ["container", "field", "call", "iface", "value", "closure"]
    chains = sem.enum_chains(ctx, 3, ["plain"], maxdeco=0, tag="k3", fams=fams)
    chains = [c for c in chains if len(c) == 3]
    print("chains", len(chains)); sys.stdout.flush()
    cfgs = {"t000": {}, "t100": {"field-sensitive": True}}
    progs = sem.build_programs(ctx, chains, cfgs, lambda ch, name: semgen.build_chain(ch, name=name))
    sem.drive(ctx, bins, progs, taint=list(cfgs), nproc=8)
    ok = [p for p in progs if p.facts is not None]
    truth, misses = sem.tlc_batches(ctx, ok, "Obs_Taint", "Obs_Taint.cfg", sem.taint_facts_of, nbatch=6)
    with open(os.environ.get("OUT", "/tmp/explore_fs.ndjson"), "w") as fh:
        for m in misses:
            fh.write(json.dumps({"chain": m["prog"].meta["chain"], "cfg": m["cfg"], "src": m["src"], "sink": m["sink"]}) + "\n")
        for p in progs:
            if p.facts is None:
                fh.write(json.dumps({"chain": p.meta["chain"], "absent": (p.absent or "")[:2000]}) + "\n")
    print("programs", len(progs), "misses", len(misses))
finally:
    ctx.cleanup()
