#!/bin/bash
# usage: confirmseed2.sh <name> <patch.diff> '<setup shell commands run in the worktree ($WT)>' '<demo command run in the worktree; exit 0 = pass>' [go test packages...]
# confirms: patch applies, build ok, demo PASSES without and FAILS with the change, the listed existing tests pass with it.
name=$1; patch=$2; setup=$3; demo=$4; shift 4
export GOFLAGS=-mod=mod GOPROXY=off GOSUMDB=off GOTOOLCHAIN=local
WT=/tmp/lead/conf_$name
rm -rf $WT; mkdir -p /tmp/lead
git -C /repo worktree add --detach $WT HEAD > /dev/null 2>&1 || exit 2
export WT
(cd $WT && eval "$setup") || { echo "SETUP FAILED"; git -C /repo worktree remove --force $WT; exit 2; }
(cd $WT && eval "$demo" > /tmp/conf_${name}_clean.log 2>&1); echo "CONFIRM $name demo on clean tree: exit=$? (expect 0)"
git -C $WT apply $patch || { echo "PATCH DOES NOT APPLY"; git -C /repo worktree remove --force $WT; exit 2; }
(cd $WT && go build ./... ) || { echo BUILD FAILS; git -C /repo worktree remove --force $WT; exit 2; }
(cd $WT && eval "$demo" > /tmp/conf_${name}_patched.log 2>&1); echo "CONFIRM $name demo on patched tree: exit=$? (expect != 0)"
# remove demo files before running the existing tests
(cd $WT && git clean -fdq . ; true)
for p in "$@"; do
  (cd $WT && go test -vet=off -count=1 -p 2 -timeout 90m $p > /tmp/conf_${name}_tests.log 2>&1); echo "CONFIRM $name existing tests $p with the change: exit=$?"
done
git -C /repo worktree remove --force $WT
