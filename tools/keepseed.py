#!/usr/bin/env python3
"""keepseed.py <name> <agent out dir> <property> <caught_by> <change> <needs> <confirmed...>: store a confirmed seeded change"""
import json, os, shutil, sys
name, src, prop, caught, change, needs = sys.argv[1:7]
confirmed = sys.argv[7:]
dst = os.path.join("/verif/seeded", name)
if os.path.exists(dst):
    shutil.rmtree(dst)
os.makedirs(dst)
for f in os.listdir(src):
    p = os.path.join(src, f)
    if os.path.isdir(p):
        # keep small demo directories only
        size = sum(os.path.getsize(os.path.join(r, x)) for r, _, fs in os.walk(p) for x in fs)
        if size < 200000:
            shutil.copytree(p, os.path.join(dst, f))
    elif os.path.getsize(p) < 300000:
        shutil.copy(p, dst)
json.dump({"property": prop, "change": change, "needs": needs, "caught_by": caught,
           "ran": confirmed, "origin": "independent sub-agent given only the property text (tools/seedprompt.py)"},
          open(os.path.join(dst, "meta.json"), "w"), indent=1)
print("kept", dst, os.listdir(dst))
