#!/usr/bin/env python3
"""(Re)writes section 12 of DESIGN.md from design.d/00-lead.md, design.d/C*.md, known_findings.json and seeded/*/meta.json."""
import glob, json, os, re
HERE = os.path.dirname(os.path.dirname(os.path.abspath(__file__)))
p = os.path.join(HERE, "DESIGN.md")
s = open(p).read()
marker = "\n## 12. As built: implementation status, deviations, findings, seeded changes\n"
if marker in s:
    s = s[:s.index(marker)]
out = [marker, "",
       "This section is assembled by `tools/mkdesign.py` from `design.d/*.md` (one file per property, written by the",
       "builder of that check), `known_findings.json` and `seeded/*/meta.json`.", ""]
out.append(open(os.path.join(HERE, "design.d", "00-lead.md")).read())
out.append("\n### 12.3 Per-property notes of the builders\n")
for f in sorted(glob.glob(os.path.join(HERE, "design.d", "C*.md"))):
    pid = os.path.basename(f)[:-3]
    txt = open(f).read().strip()
    # demote headings so that they nest under 12.3
    txt = re.sub(r"(?m)^(#+) ", lambda m: "#" * min(6, len(m.group(1)) + 3) + " ", txt)
    out.append("\n#### %s\n\n%s\n" % (pid, txt))
out.append("\n### 12.4 Genuine defects of the pinned tree (known findings and repairs)\n")
kf = json.load(open(os.path.join(HERE, "known_findings.json")))["findings"]
out.append("| property | id | status | what fails |")
out.append("|---|---|---|---|")
for e in kf:
    props = ",".join(e.get("properties", [e.get("property", "?")]))
    st = e.get("status", "?") + ((" " + e.get("commit", "")) if e.get("status") == "fixed" else "")
    out.append("| %s | `%s` | %s | %s |" % (props, e["id"], st, e.get("what", "").replace("|", "\\|").replace("\n", " ")[:400]))
out.append("\n### 12.5 Seeded changes (independent sub-agents) and which check catches them\n")
rows = []
for f in sorted(glob.glob(os.path.join(HERE, "seeded", "*", "meta.json"))):
    m = json.load(open(f))
    rows.append("| `%s` | %s | %s | %s | %s |" % (os.path.basename(os.path.dirname(f)), m.get("property"), m.get("change", "").replace("|", "\\|")[:200],
                                                 m.get("needs", "").replace("|", "\\|")[:200], m.get("caught_by", "")))
if rows:
    out.append("| seeded change | breaks | change | needs in order to manifest | caught by |")
    out.append("|---|---|---|---|---|")
    out += rows
else:
    out.append("(none kept yet)")
extra = os.path.join(HERE, "design.d", "99-false-alarms.md")
if os.path.exists(extra):
    out.append("\n### 12.6 False alarms met during development and what was done\n")
    out.append(open(extra).read())
open(p, "w").write(s.rstrip("\n") + "\n" + "\n".join(out) + "\n")
print("DESIGN.md section 12 rewritten (%d findings, %d seeded)" % (len(kf), len(rows)))
