#!/bin/bash
# usage: confirmseed.sh <name> <patch.diff> <demo_test.go> <pkgdir> <TestName> [extra test packages...]
# confirms: patch applies, build ok, demo PASSES without and FAILS with the change, touched-package tests pass with it.
name=$1; patch=$2; demo=$3; pkg=$4; tname=$5; shift 5
export GOFLAGS=-mod=mod GOPROXY=off GOSUMDB=off GOTOOLCHAIN=local
wt=/tmp/lead/conf_$name
rm -rf $wt; mkdir -p /tmp/lead
git -C /repo worktree add --detach $wt HEAD > /dev/null 2>&1 || exit 2
cp $demo $wt/$pkg/
(cd $wt && go test -vet=off -count=1 -run "$tname" ./$pkg/ > /tmp/conf_${name}_clean.log 2>&1); echo "demo on clean tree: exit=$? (expect 0)"
git -C $wt apply $patch || { echo "PATCH DOES NOT APPLY"; exit 2; }
(cd $wt && go build ./... ) || { echo BUILD FAILS; exit 2; }
(cd $wt && go test -vet=off -count=1 -run "$tname" ./$pkg/ > /tmp/conf_${name}_patched.log 2>&1); echo "demo on patched tree: exit=$? (expect != 0)"
rm -f $wt/$pkg/$(basename $demo)
for p in "$@"; do
  (cd $wt && go test -vet=off -count=1 -p 4 -timeout 60m $p > /tmp/conf_${name}_tests.log 2>&1); echo "existing tests $p with the change: exit=$?"
done
git -C /repo worktree remove --force $wt
