#!/usr/bin/env python3
"""development helper: run the taint pipeline on a few explicit chains and print misses
usage: trychains.py 'copy:plain,fload:then' 'valerr_else:iife' ...   (env MODE=taint|bt)"""
import os, sys
sys.path.insert(0, "/verif/lib"); sys.path.insert(0, "/verif")
import vlib, sem, semgen
mode = os.environ.get("MODE", "taint")
ctx = vlib.Ctx("DEV", "quick", 1)
try:
    bins = ctx.build(["semdrive"])
    chains = [[tuple(x.split(":")) for x in a.split(",")] for a in sys.argv[1:]]
    if mode in ("taint", "esc"):
        cfgs = sem.TAINT_CONFIGS if mode == "taint" else sem.ESC_CONFIGS
        runs = sem.ALL_TAINT_RUNS if mode == "taint" else list(cfgs)
        sg = bool(os.environ.get("SRCGO")); kg = bool(os.environ.get("SINKGO"))
        progs = sem.build_programs(ctx, chains, cfgs, lambda ch, name: semgen.build_chain(ch, name=name, src_in_go=sg, sink_in_go=kg))
        sem.drive(ctx, bins, progs, taint=runs)
        for p in progs:
            if p.facts is None:
                print("ABSENT", p.meta["chain"], p.absent[:2000])
        ok = [p for p in progs if p.facts]
        truth, misses = sem.tlc_batches(ctx, ok, "Obs_Taint", "Obs_Taint.cfg", sem.taint_facts_of, nbatch=1)
    else:
        progs = sem.build_programs(ctx, chains, sem.BT_CONFIGS, lambda ch, name: semgen.build_chain(ch, name=name, sink_kind="bt", source_kind="origin"))
        sem.drive(ctx, bins, progs, backtrace=list(sem.BT_CONFIGS))
        for p in progs:
            if p.facts is None:
                print("ABSENT", p.meta["chain"], p.absent[:2000])
        ok = [p for p in progs if p.facts]
        truth, misses = sem.tlc_batches(ctx, ok, "Obs_Back", "Obs_Back.cfg", sem.bt_facts_of, nbatch=1, extra_out="illformed.ndjson")
    for p in ok:
        ev = sorted({(t["ev"]["e"], t["ev"]["a"], t["ev"]["b"], t["ev"]["v"]) for t in truth if t["prog"] is p and t["ev"]["e"] in ("flow", "bt")})
        ms = {}
        for m in misses:
            if m["prog"] is p:
                ms.setdefault((m["src"], m["sink"], sem.bits_of(m["dec"]), bool(m.get("illformed"))), []).append(m["cfg"])
        print("CHAIN", p.meta["chain"], "truth", ev, "MISSES", ms if ms else "-")
    if os.environ.get("SHOW"):
        for p in ok:
            src = open(os.path.join(p.dir, "main.go")).read()
            print(src[src.index("func main"):])
            print(p.facts)
finally:
    ctx.cleanup()
