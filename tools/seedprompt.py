#!/usr/bin/env python3
"""prints the prompt given to an independent 'seeding' sub-agent for one property (only the property text)"""
import json, sys
pid = sys.argv[1]
tag = sys.argv[2] if len(sys.argv) > 2 else "a"
for l in open('/verif/properties.jsonl'):
    p = json.loads(l)
    if p['id'] == pid:
        break
d = "/tmp/seed/%s%s" % (pid, tag)
print(f"""You are testing how robust a Go static-analysis code base is against subtle regressions. The code base is awslabs/ar-go-tools ("Argot": pointer, escape, dataflow/taint, backtrace, reachability, defer and may-panic analyses over golang.org/x/tools SSA). It is checked out (git) at /repo. DO NOT modify /repo itself and DO NOT read or use anything under /verif (it must stay independent of your work). Work only in your own scratch git worktree:

    mkdir -p {d} && git -C /repo worktree add --detach {d}/repo HEAD

Environment: no network. Use `export GOFLAGS=-mod=mod GOPROXY=off GOSUMDB=off GOTOOLCHAIN=local`. The machine is shared and loaded: run one thing at a time, `go test -p 2`, be patient with slow tests.

Here is a semantic property of the code base that users rely on:

  Title: {p['title']}
  Statement: {p['statement']}
  Quantifier: {p['quantifier']['text']}
  Code it is anchored in: {', '.join(p['anchors']['files'])}

Your task: produce TWO different, realistic source changes (two separate patches touching different mechanisms/sites; each small, the kind of slip or "optimisation" a maintainer could plausibly commit) to the code in {d}/repo such that, for EACH change taken alone:
  1. the repository still compiles: `go build ./...`;
  2. the repository's existing tests still pass — run at least `go test -vet=off -count=1 -p 2 ./<every package you touched>/...` and the packages that directly exercise it (e.g. for analysis/dataflow changes also ./analysis/taint/... and ./analysis/backtrace/...; these take 5–20 minutes on this machine, be patient); say exactly which test commands you ran and their result;
  3. the property above is BROKEN by the change: there is a concrete input (program / configuration / schedule / sequence of calls) on which the changed code violates the statement while the unchanged code satisfies it;
  4. the violation needs something specific to manifest — a particular control-flow shape, a multi-step sequence, an unusual but valid input, a particular interleaving, or two cooperating sites that each look fine alone — NOT something that ordinary use or the existing tests would expose at once (if an existing test fails, the change is not acceptable; find a subtler one).
Do not weaken or edit tests. Do not add build tags. Prefer changes inside the files listed above.

For each change deliver, under {d}/out/<n>/ (n = 1, 2):
  - patch.diff  : `git -C {d}/repo diff` of that change alone (apply/revert changes with git stash / git checkout so the two patches are independent and each applies to a clean HEAD with `git apply`);
  - a demonstration: a small self-contained Go test file or small Go program + instructions (demo.md with the exact commands) that FAILS (or prints a wrong result) with the change and PASSES (prints the right result) without it, run against {d}/repo (e.g. a _test.go file you copy into a package directory of the worktree, or a tiny module under {d}/out/<n>/demo with `replace github.com/awslabs/ar-go-tools => {d}/repo` and a copy of {d}/repo/go.sum); show the output you observed in both states;
  - meta.md: which part of the statement is violated, what exactly is needed for the violation to manifest, why the existing tests do not notice.
When finished leave the worktree in place (clean HEAD, no uncommitted changes) — the coordinator removes it — and reply with a short summary of the two changes (files/functions touched, the trigger, test commands run and results). If after honest effort you can only produce one acceptable change, deliver one and say so.""")
