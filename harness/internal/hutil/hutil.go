// Package hutil has helpers shared by the harness commands.
package hutil

import (
	"bufio"
	"encoding/json"
	"fmt"
	"os"

	"github.com/awslabs/ar-go-tools/analysis"
	"golang.org/x/tools/go/packages"
	"golang.org/x/tools/go/ssa"
)

// Load loads the package in dir exactly like the argot CLI does (analysis.LoadProgram).
func Load(dir string, rewrites bool, patterns ...string) (*ssa.Program, []*packages.Package, error) {
	if len(patterns) == 0 {
		patterns = []string{"."}
	}
	cfg := &packages.Config{Mode: analysis.PkgLoadMode, Tests: false, Dir: dir}
	return analysis.LoadProgram(analysis.LoadProgramOptions{
		BuildMode:     ssa.InstantiateGenerics,
		ApplyRewrites: rewrites,
		PackageConfig: cfg,
	}, patterns)
}

// Out is an ndjson writer.
type Out struct {
	w *bufio.Writer
	f *os.File
}

// NewOut opens path for writing ("-" is stdout).
func NewOut(path string) *Out {
	if path == "-" || path == "" {
		return &Out{w: bufio.NewWriter(os.Stdout)}
	}
	f, err := os.Create(path)
	if err != nil {
		fmt.Fprintln(os.Stderr, err)
		os.Exit(2)
	}
	return &Out{w: bufio.NewWriterSize(f, 1<<20), f: f}
}

// Put writes one record.
func (o *Out) Put(v any) {
	b, err := json.Marshal(v)
	if err != nil {
		fmt.Fprintln(os.Stderr, err)
		os.Exit(2)
	}
	o.w.Write(b)
	o.w.WriteByte('\n')
}

// Close flushes.
func (o *Out) Close() {
	o.w.Flush()
	if o.f != nil {
		o.f.Close()
	}
}
