// taintrace: runs the REAL taint analysis (analysis.LoadProgram / taint.Analyze, as cmd/argot/taint does) on
// one program under every requested combination of the options report-summaries / report-coverage /
// report-paths / summarize-on-demand.  checks/c20.py builds it with -race; the race detector's reports go to
// stderr, bracketed by "C20RUN begin <key>" / "C20RUN end <key>" marker lines so that every report can be
// attributed to one run.
//
// Schedules (binding B4 for spec/BuildGraphConc.tla), selected with -mode:
//
//	pre   (always, once per process when some run reports summaries) the harness computes the expected summaries with
//	      the same calls as the first half of taint.Analyze: real parallel initialisation + summary worker pool
//	free  the analyzer's goroutines run as the Go scheduler decides (a seeded jitter delays the summary writer)
//	meet  the counterexample TLC finds for BuildGraphConc!NoRace with a detached writer: the writer reads the
//	      summaries while the analysis goroutine builds summaries on demand (writes them), with no
//	      synchronisation in between.  The writer is held at its start gate until the analysis goroutine reaches
//	      the end of its first on-demand summary construction (hook VerifOnSummaryConstructed); the analysis
//	      goroutine waits there (bounded by -writerwait) until the writer has passed its gate; then both run.
//	      Without on-demand constructions this is the schedule `hold`.
//	hold  the counterexample TLC finds for BuildGraphConc!ReportComplete / NoRace with a detached writer:
//	      the summaries-writer goroutine is held at the verif gate "summaries-writer-start" until the analysis
//	      has RETURNED; the report files are inspected at that moment; then the writer is released.
//	      The hold/release uses no synchronisation the race detector can see (a flag read and written in
//	      go:norace functions), so that no happens-before edge is introduced between STEP 3 of BuildGraph and
//	      the writer.  A gate called on the goroutine that runs the analysis (a synchronous writer) never
//	      blocks; a held gate gives up after -holdmax.
//
// Output (ndjson, -out): one record per run, see spec/BuildGraphObs.tla.
package main

import (
	"bufio"
	"encoding/json"
	"flag"
	"fmt"
	"math/rand"
	"os"
	"path/filepath"
	"runtime"
	"sort"
	"strings"
	"sync/atomic"
	"time"

	"github.com/awslabs/ar-go-tools/analysis"
	"github.com/awslabs/ar-go-tools/analysis/config"
	"github.com/awslabs/ar-go-tools/analysis/dataflow"
	"github.com/awslabs/ar-go-tools/analysis/taint"
	"golang.org/x/tools/go/packages"
	"golang.org/x/tools/go/ssa"
	"verifharness/internal/hutil"
)

type rec struct {
	Key       string   `json:"key"`
	Prog      string   `json:"prog"`
	Mode      string   `json:"mode"`
	Rep       int      `json:"rep"`
	Sum       bool     `json:"sum"` // report-summaries
	Cov       bool     `json:"cov"` // report-coverage
	Paths     bool     `json:"paths"`
	Ondemand  bool     `json:"ondemand"`
	Returned  bool     `json:"returned"`
	Err       string   `json:"err"`
	Detached  bool     `json:"detached"`  // the summaries writer ran on another goroutine than the analysis
	Writers   int      `json:"writers"`   // writer-start gates seen (all goroutines)
	Ended     int      `json:"ended"`     // writer-end gates seen by the time the run was closed
	HeldOut   int      `json:"heldout"`   // held gates that gave up waiting (schedule not enforced)
	MainHeld  int64    `json:"mainheld"`  // ms the analysis goroutine was held (mode meet)
	MainOut   bool     `json:"mainout"`   // ... and gave up waiting for a writer
	Expected  []string `json:"expected"`  // summaries that exist before BuildGraph ("name#k")
	AtReturn  []string `json:"atreturn"`  // summary headers in the summaries report(s) when Analyze returned
	After     []string `json:"after"`     // the same after the writer(s) ended
	SumFiles  int      `json:"sumfiles"`  // number of summaries-*.out files
	TimesRows int      `json:"timesrows"` // rows of summary-times-*.csv when Analyze returned
	CovFiles  int      `json:"covfiles"`
	FlowFiles int      `json:"flowfiles"`
	FlowsBad  int      `json:"flowsbad"` // flow-*.out files without the Source/Sink/Trace sections
	Pairs     int      `json:"pairs"`    // (sink, source) pairs in the result
	Gbase     int      `json:"gbase"`
	Gafter    int      `json:"gafter"`
	Ms        int64    `json:"ms"`
}

// ---------------------------------------------------------------------------------------------------------
// gate

var holdFlag int32   // 1: writers are held
var endedPlain int64 // writer-end gates on other goroutines (read without synchronisation by the held analysis)

//go:norace
func peekHold() int32 { return holdFlag }

//go:norace
func setHold(v int32) { holdFlag = v }

//go:norace
func peekEnded() int64 { return endedPlain }

//go:norace
func bumpEnded() { endedPlain++ }

var passedPlain int64 // detached writers that have left their start gate

//go:norace
func peekPassed() int64 { return passedPlain }

//go:norace
func bumpPassed() { passedPlain++ }

var (
	analyzeGoid string // goroutine running taint.Analyze (written before any analysis goroutine exists)
	mode        string
	holdMax     time.Duration
	jitterUs    int64
	nStart      int64 // writer-start gates on other goroutines
	nStartSame  int64 // writer-start gates on the analysis goroutine
	nEnd        int64
	nHeldOut    int64

	// only touched by the goroutine that runs the analysis
	curSum       bool
	hookDone     bool
	startSame0   int64
	passedPlain0 int64
	mainHeldMs   int64
	mainHeldOut  bool
	writerWaitMx time.Duration
)

// onSummary is VerifOnSummaryConstructed: in mode meet it releases the held writer and holds the analysis
// goroutine until the writer runs (once per run).
func onSummary(_ *dataflow.AnalyzerState, _ *dataflow.SummaryGraph) {
	if mode != "meet" || goid() != analyzeGoid || !curSum || hookDone {
		return
	}
	hookDone = true
	if atomic.LoadInt64(&nStartSame)-startSame0 > 0 {
		return // the writer ran synchronously on this goroutine: nothing to meet
	}
	t0 := time.Now()
	deadline := t0.Add(writerWaitMx)
	setHold(0)
	for peekPassed() == passedPlain0 {
		if time.Now().After(deadline) {
			mainHeldOut = true
			break
		}
		time.Sleep(50 * time.Microsecond)
	}
	// let the writer get into its loop (it reads the summaries this goroutine is about to write)
	time.Sleep(500 * time.Microsecond)
	mainHeldMs = time.Since(t0).Milliseconds()
}

func goid() string {
	var buf [64]byte
	n := runtime.Stack(buf[:], false)
	f := strings.Fields(string(buf[:n]))
	if len(f) >= 2 {
		return f[1]
	}
	return "?"
}

func gate(point string) {
	same := goid() == analyzeGoid
	switch point {
	case "summaries-writer-start":
		if same {
			atomic.AddInt64(&nStartSame, 1)
			return
		}
		atomic.AddInt64(&nStart, 1)
		if mode == "hold" || mode == "meet" {
			deadline := time.Now().Add(holdMax)
			for peekHold() == 1 {
				if time.Now().After(deadline) {
					atomic.AddInt64(&nHeldOut, 1)
					break
				}
				time.Sleep(200 * time.Microsecond)
			}
		} else if jitterUs > 0 {
			time.Sleep(time.Duration(jitterUs) * time.Microsecond)
		}
		bumpPassed()
	case "summaries-writer-end":
		atomic.AddInt64(&nEnd, 1)
		if !same {
			bumpEnded()
		}
	}
}

// ---------------------------------------------------------------------------------------------------------

func settle(want int, d time.Duration) int {
	deadline := time.Now().Add(d)
	for {
		n := runtime.NumGoroutine()
		if n <= want || time.Now().After(deadline) {
			return n
		}
		time.Sleep(2 * time.Millisecond)
	}
}

// number the occurrences of equal names: multiset -> set of "name#k"
func numbered(names []string) []string {
	sort.Strings(names)
	out := make([]string, 0, len(names))
	cnt := map[string]int{}
	for _, n := range names {
		cnt[n]++
		out = append(out, fmt.Sprintf("%s#%d", n, cnt[n]))
	}
	return out
}

// headers of the summaries report: BuildGraph writes, per non-nil summary, "<Parent.String()>:\n" followed by
// the summary's subgraph (lines starting with "subgraph", a tab, or "}") and an empty line.
func summaryHeaders(dir string) (headers []string, files int) {
	ms, _ := filepath.Glob(filepath.Join(dir, "summaries-*.out"))
	for _, m := range ms {
		files++
		fh, err := os.Open(m)
		if err != nil {
			continue
		}
		sc := bufio.NewScanner(fh)
		sc.Buffer(make([]byte, 1<<20), 1<<28)
		for sc.Scan() {
			l := sc.Text()
			if l == "" || strings.HasPrefix(l, "\t") || strings.HasPrefix(l, "subgraph") || strings.HasPrefix(l, "}") ||
				strings.HasPrefix(l, " ") {
				continue
			}
			if strings.HasSuffix(l, ":") {
				headers = append(headers, strings.TrimSuffix(l, ":"))
			}
		}
		fh.Close()
	}
	return numbered(headers), files
}

func countLines(glob string) (files, lines int) {
	ms, _ := filepath.Glob(glob)
	for _, m := range ms {
		files++
		b, err := os.ReadFile(m)
		if err == nil {
			lines += strings.Count(string(b), "\n")
		}
	}
	return
}

func flowFiles(dir string) (n, bad int) {
	ms, _ := filepath.Glob(filepath.Join(dir, "flow-*.out"))
	for _, m := range ms {
		n++
		b, _ := os.ReadFile(m)
		s := string(b)
		if !(strings.Contains(s, "Source: ") && strings.Contains(s, "Sink: ") && strings.Contains(s, "Trace:\n")) {
			bad++
		}
	}
	return
}

func loadConfig(path string, sum, cov, paths, ondemand bool, reports string) (*config.Config, error) {
	cfg, err := config.LoadFromFiles(path)
	if err != nil {
		return nil, err
	}
	cfg.ReportSummaries, cfg.ReportCoverage, cfg.ReportPaths, cfg.SummarizeOnDemand = sum, cov, paths, ondemand
	cfg.ReportNoCalleeSites = false
	cfg.ReportsDir = reports
	if reports != "" {
		if err := os.MkdirAll(reports, 0o755); err != nil {
			return nil, err
		}
	}
	return cfg, nil
}

// expectedSummaries: the summaries that exist when the intra-procedural pass is over, i.e. before BuildGraph is
// entered (every one of them is in the map, non-nil, for the whole of BuildGraph, so any complete report lists it).
// Same steps as the first half of taint.Analyze.
func expectedSummaries(cfgPath string, ondemand bool, prog *ssa.Program, pkgs []*packages.Package) ([]string, error) {
	cfg, err := loadConfig(cfgPath, false, false, false, ondemand, "")
	if err != nil {
		return nil, err
	}
	state, err := dataflow.NewInitializedAnalyzerState(prog, pkgs, config.NewLogGroup(cfg), cfg)
	if err != nil {
		return nil, err
	}
	if err := taint.AnalysisPreamble(state); err != nil {
		return nil, err
	}
	numRoutines := runtime.NumCPU() - 1
	if numRoutines <= 0 {
		numRoutines = 1
	}
	analysis.RunIntraProceduralPass(state, numRoutines, analysis.IntraAnalysisParams{
		ShouldBuildSummary: dataflow.ShouldBuildSummary,
		ShouldTrack:        taint.IsNodeOfInterest,
	})
	var names []string
	for _, s := range state.FlowGraph.Summaries {
		if s != nil && s.Parent != nil {
			names = append(names, s.Parent.String())
		}
	}
	return numbered(names), nil
}

func main() {
	dir := flag.String("dir", ".", "module directory of the program")
	cfgPath := flag.String("config", "", "config file")
	name := flag.String("name", "prog", "program name for the records")
	combos := flag.String("combos", "all", "comma separated 4-bit strings sum,cov,paths,ondemand (e.g. 1000,0000) or 'all'")
	flag.StringVar(&mode, "mode", "free", "free | hold | meet")
	flag.DurationVar(&writerWaitMx, "writerwait", 5*time.Second, "mode meet: how long the analysis goroutine waits for a detached writer to run")
	reps := flag.Int("reps", 1, "repetitions per combination")
	out := flag.String("out", "-", "output ndjson")
	reports := flag.String("reports", "", "directory under which the report directories are created")
	seed := flag.Int64("seed", 1, "seed of the jitter")
	flag.DurationVar(&holdMax, "holdmax", 120*time.Second, "a held gate gives up after this long")
	flag.Parse()
	if *cfgPath == "" {
		*cfgPath = filepath.Join(*dir, "config.yaml")
	}
	var list []string
	if *combos == "all" {
		for i := 0; i < 16; i++ {
			list = append(list, fmt.Sprintf("%04b", i))
		}
	} else {
		list = strings.Split(*combos, ",")
	}
	rnd := rand.New(rand.NewSource(*seed))

	prog, pkgs, err := hutil.Load(*dir, true)
	if err != nil {
		fmt.Fprintln(os.Stderr, "load:", err)
		os.Exit(2)
	}
	analyzeGoid = goid()
	dataflow.VerifGate = gate
	dataflow.VerifOnSummaryConstructed = onSummary

	of := os.Stdout
	if *out != "-" {
		of, err = os.OpenFile(*out, os.O_CREATE|os.O_WRONLY|os.O_APPEND, 0o644)
		if err != nil {
			fmt.Fprintln(os.Stderr, err)
			os.Exit(2)
		}
	}
	enc := json.NewEncoder(of)

	// the summaries that exist before BuildGraph do not depend on the options (one summary, built or not, per
	// reachable function): computed once per process, and only if some run reports summaries
	var expected []string
	for _, c := range list {
		if len(c) == 4 && c[0] == '1' {
			// the pre-pass runs the real parallel initialisation and the real summary worker pool: it is a run of
			// its own (schedule "pre", no report option), so that race reports during it are attributed to it
			pre := rec{Key: *name + "/pre/0000/0", Prog: *name, Mode: "pre", Expected: []string{}, AtReturn: []string{},
				After: []string{}, Gbase: runtime.NumGoroutine()}
			fmt.Fprintf(os.Stderr, "C20RUN begin %s\n", pre.Key)
			t0 := time.Now()
			e, err := expectedSummaries(*cfgPath, false, prog, pkgs)
			pre.Ms = time.Since(t0).Milliseconds()
			pre.Gafter = settle(pre.Gbase, 30*time.Second)
			fmt.Fprintf(os.Stderr, "C20RUN end %s\n", pre.Key)
			if err != nil {
				fmt.Fprintln(os.Stderr, "expected summaries:", err)
				os.Exit(2)
			}
			pre.Returned = true
			if err := enc.Encode(pre); err != nil {
				fmt.Fprintln(os.Stderr, err)
				os.Exit(2)
			}
			expected = e
			break
		}
	}

	for _, c := range list {
		if len(c) != 4 {
			fmt.Fprintln(os.Stderr, "bad combo", c)
			os.Exit(2)
		}
		for rep := 0; rep < *reps; rep++ {
			r := rec{Prog: *name, Mode: mode, Rep: rep, Sum: c[0] == '1', Cov: c[1] == '1', Paths: c[2] == '1',
				Ondemand: c[3] == '1', Expected: []string{}, AtReturn: []string{}, After: []string{}}
			r.Key = fmt.Sprintf("%s/%s/%s/%d", *name, mode, c, rep)
			rdir := ""
			if r.Sum || r.Cov || r.Paths {
				rdir = filepath.Join(*reports, strings.ReplaceAll(r.Key, "/", "_"))
			}
			cfg, err := loadConfig(*cfgPath, r.Sum, r.Cov, r.Paths, r.Ondemand, rdir)
			if err != nil {
				fmt.Fprintln(os.Stderr, "config:", err)
				os.Exit(2)
			}
			if r.Sum {
				r.Expected = expected
			}
			jitterUs = int64(rnd.Intn(3)) * int64(rnd.Intn(1500))
			s0, s0same, e0, h0 := atomic.LoadInt64(&nStart), atomic.LoadInt64(&nStartSame), atomic.LoadInt64(&nEnd),
				atomic.LoadInt64(&nHeldOut)
			r.Gbase = runtime.NumGoroutine()
			curSum, hookDone, startSame0, passedPlain0, mainHeldMs, mainHeldOut = r.Sum, false, s0same, peekPassed(), 0, false
			fmt.Fprintf(os.Stderr, "C20RUN begin %s\n", r.Key)
			if mode == "hold" || mode == "meet" {
				setHold(1)
			}
			t0 := time.Now()
			res, aerr := taint.Analyze(cfg, prog, pkgs)
			r.Ms = time.Since(t0).Milliseconds()
			r.Returned = true
			if aerr != nil {
				r.Err = aerr.Error()
			}
			// ---- the analysis has returned: the report files must be complete now
			if rdir != "" {
				r.AtReturn, r.SumFiles = summaryHeaders(rdir)
				_, r.TimesRows = countLines(filepath.Join(rdir, "summary-times-*.csv"))
				r.CovFiles, _ = countLines(filepath.Join(rdir, "coverage-*.out"))
				r.FlowFiles, r.FlowsBad = flowFiles(rdir)
			}
			if res.TaintFlows != nil {
				for _, srcs := range res.TaintFlows.Sinks {
					r.Pairs += len(srcs)
				}
			}
			// ---- release the writers (hold) and wait for them
			setHold(0)
			deadline := time.Now().Add(holdMax)
			for atomic.LoadInt64(&nEnd)-e0 < atomic.LoadInt64(&nStart)-s0 && time.Now().Before(deadline) {
				time.Sleep(time.Millisecond)
			}
			r.Gafter = settle(r.Gbase, 30*time.Second)
			r.Writers = int(atomic.LoadInt64(&nStart) - s0 + atomic.LoadInt64(&nStartSame) - s0same)
			r.Detached = atomic.LoadInt64(&nStart)-s0 > 0
			r.Ended = int(atomic.LoadInt64(&nEnd) - e0)
			r.HeldOut = int(atomic.LoadInt64(&nHeldOut) - h0)
			r.MainHeld, r.MainOut = mainHeldMs, mainHeldOut
			if rdir != "" {
				r.After, _ = summaryHeaders(rdir)
			}
			fmt.Fprintf(os.Stderr, "C20RUN end %s\n", r.Key)
			if err := enc.Encode(r); err != nil {
				fmt.Fprintln(os.Stderr, err)
				os.Exit(2)
			}
		}
	}
	of.Close()
}
