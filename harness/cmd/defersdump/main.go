// defersdump: runs the real defers.AnalyzeFunction on every function (with at least one defer) of the
// packages loaded from a directory and dumps, per function, the real SSA CFG projected on
// defer/rundefers/mark instructions together with the real analysis result (ndjson, one record per function).
package main

import (
	"flag"
	"fmt"
	"go/constant"
	"os"
	"sort"
	"strings"

	"github.com/awslabs/ar-go-tools/analysis/config"
	"github.com/awslabs/ar-go-tools/analysis/defers"
	"golang.org/x/tools/go/ssa"
	"golang.org/x/tools/go/ssa/ssautil"
	"verifharness/internal/hutil"
)

type ins struct {
	K    string `json:"k"` // defer | rundefers
	B    int    `json:"b"`
	I    int    `json:"i"`
	Line int    `json:"line"` // source line (defer) or id of the preceding mark(N) call (rundefers), 0 if none
}
type blk struct {
	Succ []int `json:"succ"`
	Code []ins `json:"code"`
}
type pt struct {
	B int `json:"b"`
	I int `json:"i"`
}
type rset struct {
	B      int    `json:"b"`
	I      int    `json:"i"`
	Stacks [][]pt `json:"stacks"`
}
type rec struct {
	Name    string `json:"name"`
	Pkg     string `json:"pkg"`
	Blocks  []blk  `json:"blocks"`
	Bounded bool   `json:"bounded"`
	Sets    []rset `json:"sets"`
	NDefer  int    `json:"ndefer"`
	NStacks int    `json:"nstacks"`
	Recover int    `json:"recover"` // index of the recover block or -1
}

func markID(b *ssa.BasicBlock, upto int) int {
	for j := upto - 1; j >= 0; j-- {
		if c, ok := b.Instrs[j].(*ssa.Call); ok {
			if f := c.Call.StaticCallee(); f != nil && f.Name() == "mark" && len(c.Call.Args) == 1 {
				if k, ok := c.Call.Args[0].(*ssa.Const); ok && k.Value != nil {
					if v, ok := constant.Int64Val(k.Value); ok {
						return int(v)
					}
				}
			}
		}
	}
	return 0
}

func main() {
	dir := flag.String("dir", ".", "module directory")
	out := flag.String("out", "-", "output ndjson")
	only := flag.String("only", "", "only functions of packages with this path prefix ('' = all)")
	maxStacks := flag.Int("maxstacks", 4000, "skip functions with more reported stacks than this")
	flag.Parse()
	prog, _, err := hutil.Load(*dir, false, flag.Args()...)
	if err != nil {
		fmt.Fprintln(os.Stderr, "load:", err)
		os.Exit(2)
	}
	fns := []*ssa.Function{}
	for f := range ssautil.AllFunctions(prog) {
		if len(f.Blocks) == 0 {
			continue
		}
		if *only != "" && (f.Pkg == nil || !strings.HasPrefix(f.Pkg.Pkg.Path(), *only)) {
			continue
		}
		fns = append(fns, f)
	}
	sort.Slice(fns, func(i, j int) bool { return fns[i].String() < fns[j].String() })
	lg := config.NewLogGroup(config.NewDefault())
	o := hutil.NewOut(*out)
	defer o.Close()
	skipped := 0
	for _, f := range fns {
		nd := 0
		r := rec{Name: f.String(), Recover: -1, Sets: []rset{}, Blocks: []blk{}}
		if f.Pkg != nil {
			r.Pkg = f.Pkg.Pkg.Path()
		}
		if f.Recover != nil {
			r.Recover = f.Recover.Index
		}
		for _, b := range f.Blocks {
			bb := blk{Succ: []int{}, Code: []ins{}}
			for _, s := range b.Succs {
				bb.Succ = append(bb.Succ, s.Index)
			}
			for j, in := range b.Instrs {
				switch in.(type) {
				case *ssa.Defer:
					nd++
					bb.Code = append(bb.Code, ins{"defer", b.Index, j, prog.Fset.Position(in.Pos()).Line})
				case *ssa.RunDefers:
					bb.Code = append(bb.Code, ins{"rundefers", b.Index, j, markID(b, j)})
				}
			}
			r.Blocks = append(r.Blocks, bb)
		}
		if nd == 0 {
			continue
		}
		res := defers.AnalyzeFunction(f, lg)
		r.Bounded = res.DeferStackBounded
		r.NDefer = nd
		for rd, ss := range res.RunDeferSets {
			var idx int
			for j, in := range rd.Block().Instrs {
				if in == ssa.Instruction(rd) {
					idx = j
				}
			}
			rs := rset{B: rd.Block().Index, I: idx, Stacks: [][]pt{}}
			for _, s := range ss {
				st := []pt{}
				for _, e := range s {
					st = append(st, pt{e.Block, e.Ins})
				}
				rs.Stacks = append(rs.Stacks, st)
				r.NStacks++
			}
			r.Sets = append(r.Sets, rs)
		}
		sort.Slice(r.Sets, func(i, j int) bool {
			if r.Sets[i].B != r.Sets[j].B {
				return r.Sets[i].B < r.Sets[j].B
			}
			return r.Sets[i].I < r.Sets[j].I
		})
		if r.NStacks > *maxStacks {
			skipped++
			continue
		}
		o.Put(r)
	}
	fmt.Fprintf(os.Stderr, "defersdump: %d functions, %d skipped (too many stacks)\n", len(fns), skipped)
}
