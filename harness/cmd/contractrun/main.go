// contractrun: loads the Go program in -dir exactly like the argot CLI does and runs the REAL taint.Analyze once
// per configuration file given in -configs (comma separated; the program is loaded afresh for each configuration so
// that no state is shared).  Dumps, per configuration, the reported source->sink flows as pairs of source lines
// (ndjson, one record per configuration).  Used by C10 (generated dataflow-specs) and C09 (std summaries).
package main

import (
	"flag"
	"fmt"
	"os"
	"path/filepath"
	"runtime/debug"
	"sort"
	"strings"
	"time"

	"github.com/awslabs/ar-go-tools/analysis"
	"github.com/awslabs/ar-go-tools/analysis/config"
	"github.com/awslabs/ar-go-tools/analysis/taint"
	"golang.org/x/tools/go/packages"
	"golang.org/x/tools/go/ssa"
	"verifharness/internal/hutil"
)

type flow struct {
	SrcFile  string `json:"sf"`
	SrcLine  int    `json:"sl"`
	SinkFile string `json:"kf"`
	SinkLine int    `json:"kl"`
}

type rec struct {
	Config  string  `json:"config"`
	Ok      bool    `json:"ok"`
	Err     string  `json:"err"`
	Flows   []flow  `json:"flows"`
	LoadS   float64 `json:"load_s"`
	TaintS  float64 `json:"taint_s"`
	NFuncs  int     `json:"nfuncs"`
	Summary int     `json:"nsummaries"`
}

// loader returns the program; with -share the same loaded program is reused for all configurations, with -noexport the
// (expensive, irrelevant for the analysis) compilation of export data by `go list -export` is skipped: packages are
// type-checked from source either way.
type loaded struct {
	prog *ssa.Program
	pkgs []*packages.Package
	err  error
	secs float64
}

var shared *loaded

func load(dir string, rewrites, share, noexport bool) *loaded {
	if share && shared != nil {
		return shared
	}
	t0 := time.Now()
	l := &loaded{}
	if noexport {
		cfg := &packages.Config{Mode: analysis.PkgLoadMode &^ packages.NeedExportFile, Tests: false, Dir: dir}
		l.prog, l.pkgs, l.err = analysis.LoadProgram(analysis.LoadProgramOptions{
			BuildMode: ssa.InstantiateGenerics, ApplyRewrites: rewrites, PackageConfig: cfg}, []string{"."})
	} else {
		l.prog, l.pkgs, l.err = hutil.Load(dir, rewrites)
	}
	l.secs = time.Since(t0).Seconds()
	if share {
		shared = l
	}
	return l
}

func one(dir, cfgPath string, rewrites, share, noexport bool) (r rec) {
	r.Config = filepath.Base(cfgPath)
	r.Flows = []flow{}
	defer func() {
		if e := recover(); e != nil {
			r.Ok = false
			r.Err = fmt.Sprintf("panic: %v\n%s", e, debug.Stack())
		}
	}()
	cfg, err := config.LoadFromFiles(cfgPath)
	if err != nil {
		r.Err = "config: " + err.Error()
		return
	}
	l := load(dir, rewrites, share, noexport)
	prog, pkgs, err := l.prog, l.pkgs, l.err
	if err != nil {
		r.Err = "load: " + err.Error()
		return
	}
	r.LoadS = l.secs
	t1 := time.Now()
	res, err := taint.Analyze(cfg, prog, pkgs)
	r.TaintS = time.Since(t1).Seconds()
	if err != nil {
		r.Err = "analyze: " + err.Error()
		if res.TaintFlows == nil {
			return
		}
	}
	if res.TaintFlows == nil {
		r.Err += " (no TaintFlows)"
		return
	}
	if res.State != nil && res.State.FlowGraph != nil {
		r.Summary = len(res.State.FlowGraph.Summaries)
	}
	seen := map[flow]bool{}
	for sink, sources := range res.TaintFlows.Sinks {
		if sink.Instr == nil {
			continue
		}
		kp := prog.Fset.Position(sink.Instr.Pos())
		for source := range sources {
			if source.Instr == nil {
				continue
			}
			sp := prog.Fset.Position(source.Instr.Pos())
			f := flow{filepath.Base(sp.Filename), sp.Line, filepath.Base(kp.Filename), kp.Line}
			if !seen[f] {
				seen[f] = true
				r.Flows = append(r.Flows, f)
			}
		}
	}
	sort.Slice(r.Flows, func(i, j int) bool {
		a, b := r.Flows[i], r.Flows[j]
		if a.SrcFile != b.SrcFile {
			return a.SrcFile < b.SrcFile
		}
		if a.SrcLine != b.SrcLine {
			return a.SrcLine < b.SrcLine
		}
		if a.SinkFile != b.SinkFile {
			return a.SinkFile < b.SinkFile
		}
		return a.SinkLine < b.SinkLine
	})
	r.Ok = err == nil
	return
}

func main() {
	dir := flag.String("dir", ".", "module directory of the program")
	cfgs := flag.String("configs", "", "comma separated list of config files")
	out := flag.String("out", "-", "output ndjson")
	rewrites := flag.Bool("rewrites", true, "apply the source rewrites the CLI applies")
	share := flag.Bool("share", false, "load the program once and analyse it under every configuration")
	noexport := flag.Bool("noexport", false, "do not ask go list for export data (no compilation)")
	flag.Parse()
	if *cfgs == "" {
		fmt.Fprintln(os.Stderr, "no -configs")
		os.Exit(2)
	}
	// the analyzer logs to stdout; keep our output separate
	o := hutil.NewOut(*out)
	defer o.Close()
	for _, c := range strings.Split(*cfgs, ",") {
		o.Put(one(*dir, c, *rewrites, *share, *noexport))
	}
}
