// escdump: runs the REAL escape analysis of /repo (build tag verif) on one program and records, as ndjson,
//
//	<out>.merge.ndjson     one record per sampled EscapeGraph.Merge event: snapshots of receiver-before (pre), argument
//	                       (h), receiver-after (post) plus what the REAL operations return for the commuted merge, the
//	                       repeated merge, both associations with a third recorded graph k, and LessEqual queries
//	<out>.transfer.ndjson  one record per sampled SSA instruction: the (pre, post) pairs the analysis itself applied
//	                       the transfer function to (time order), the result of re-applying the REAL transfer function
//	                       to the same inputs once the analysis is finished (fixed summaries), and seeded *weakened*
//	                       inputs (sub-graphs rebuilt through the real AddNode/AddEdge/MergeNodeStatus) pushed through
//	                       the REAL transfer function (Call instructions instantiate callee summaries)
//	<out>.final.ndjson     one record per function / block: the final summary graph and the block-end graphs of the
//	                       default run and of runs with seeded random block- and function-worklist orders
//	<out>.fix.ndjson       one record per block of every summarised function: the block-end graph the analysis stopped
//	                       with and the result of re-evaluating the block equation with the real operations (Merge of
//	                       the final block-end graphs of all predecessors, then the real transfer functions)
//	<out>.stats.json       counters (events seen, kept, skipped by size, panics of the transfer function on weakened inputs)
//
// Nothing is decided here: the TLA+ module EscapeLatticeTrace checks the records.
package main

import (
	"crypto/sha1"
	"encoding/hex"
	"encoding/json"
	"flag"
	"fmt"
	"math/rand"
	"os"
	"path/filepath"
	"regexp"
	"sort"
	"strings"
	"time"

	"github.com/awslabs/ar-go-tools/analysis/config"
	"github.com/awslabs/ar-go-tools/analysis/dataflow"
	"github.com/awslabs/ar-go-tools/analysis/escape"
	"golang.org/x/tools/go/ssa"
	"verifharness/internal/hutil"
)

// G is the wire format of a graph: n = [[id, kind, status]...], e = [[src, dst, flags]...] (flags: 1 int, 2 ext, 4 sub)
type G struct {
	N [][3]int `json:"n"`
	E [][3]int `json:"e"`
}

// GL is a graph with canonical (creation-order independent) node labels, index-aligned with N
type GL struct {
	N [][3]int `json:"n"`
	E [][3]int `json:"e"`
	L []string `json:"l"`
}

func snap(g *escape.EscapeGraph) G {
	s := escape.VerifSnapshot(g)
	r := G{N: make([][3]int, 0, len(s.Nodes)), E: make([][3]int, 0, len(s.Edges))}
	for _, n := range s.Nodes {
		r.N = append(r.N, [3]int{n.ID, n.Kind, n.Status})
	}
	for _, e := range s.Edges {
		r.E = append(r.E, [3]int{e.Src, e.Dst, e.Flags})
	}
	return r
}

func (g G) key() string {
	b, _ := json.Marshal(g)
	h := sha1.Sum(b)
	return hex.EncodeToString(h[:8])
}

// labels computes node labels that do not depend on node numbers: kind:debug, refined by two rounds of
// colour refinement over the flagged edges (a canonical construction: isomorphic graphs get equal label bags).
func labelled(g *escape.EscapeGraph) GL {
	s := escape.VerifSnapshot(g)
	base := map[int]string{}
	for _, n := range s.Nodes {
		base[n.ID] = fmt.Sprintf("%d:%s", n.Kind, n.Debug)
		if n.Kind == 8 {
			// KindUnknown: one node per function, named after whichever unknown callee came first in a Go map
			// iteration ("unknown return of <callee>"); the name is not part of the graph
			base[n.ID] = "8:unknown return"
		}
	}
	cur := base
	for round := 0; round < 2; round++ {
		nb := map[int][]string{}
		for _, e := range s.Edges {
			nb[e.Src] = append(nb[e.Src], fmt.Sprintf(">%d%s", e.Flags, cur[e.Dst]))
			nb[e.Dst] = append(nb[e.Dst], fmt.Sprintf("<%d%s", e.Flags, cur[e.Src]))
		}
		next := map[int]string{}
		for _, n := range s.Nodes {
			l := nb[n.ID]
			sort.Strings(l)
			h := sha1.Sum([]byte(cur[n.ID] + "|" + strings.Join(l, ",")))
			next[n.ID] = hex.EncodeToString(h[:6])
		}
		cur = next
	}
	r := GL{N: [][3]int{}, E: [][3]int{}, L: []string{}}
	for _, n := range s.Nodes {
		r.N = append(r.N, [3]int{n.ID, n.Kind, n.Status})
		r.L = append(r.L, base[n.ID]+"#"+cur[n.ID])
	}
	for _, e := range s.Edges {
		r.E = append(r.E, [3]int{e.Src, e.Dst, e.Flags})
	}
	return r
}

type mergeRec struct {
	Prog  string `json:"prog"`
	Fn    string `json:"fn"`
	Seq   int    `json:"seq"`
	Src   string `json:"src"` // "event": an EscapeGraph.Merge call of the analysis; "synth": real Merge of two real graphs of one function
	Pre   G      `json:"pre"`
	H     G      `json:"h"`
	Post  G      `json:"post"`
	HPre  G      `json:"hpre"`  // real h.Merge(pre)
	Idem  G      `json:"idem"`  // real post.Merge(post)
	K     G      `json:"k"`     // a third recorded graph of the same function
	Left  G      `json:"left"`  // real (pre+h)+k
	Right G      `json:"right"` // real pre+(h+k)
	// real LessEqual answers: pre<=post, h<=post, post<=pre, post<=h, pre<=k, h<=k, post<=k, k<=post
	Leq []bool `json:"leq"`
	grp any
}

type wpair struct {
	Pre  G `json:"pre"`
	Post G `json:"post"`
}
type tentry struct {
	Pre  G       `json:"pre"`
	Post G       `json:"post"` // as applied by the analysis itself
	Re   G       `json:"re"`   // re-applied after the analysis finished
	Weak []wpair `json:"weak"`
}
type transferRec struct {
	Prog  string   `json:"prog"`
	Fn    string   `json:"fn"`
	Instr string   `json:"instr"`
	Kind  string   `json:"kind"`
	Pos   string   `json:"pos"`
	Ents  []tentry `json:"ents"`
}
type fixRec struct {
	Prog   string   `json:"prog"`
	Fn     string   `json:"fn"`
	Block  int      `json:"block"`
	End    G        `json:"end"` // block-end graph the analysis stopped with
	Out    G        `json:"out"` // real Merge of the final block-end graphs of ALL predecessors, then the real transfer functions
	Instrs []string `json:"instrs"`
}
type finalRec struct {
	Prog  string   `json:"prog"`
	Fn    string   `json:"fn"`
	What  string   `json:"what"` // "summary" or "block N"
	Runs  []GL     `json:"runs"`
	Order []string `json:"order"`
}

func safeClone(g *escape.EscapeGraph) *escape.EscapeGraph { return g.Clone() }

// lawRec applies the REAL operations to (pre, h, post = pre.Merge(h), k) and records what they return.
func lawRec(prog, src string, seq int, pre, h, post, k *escape.EscapeGraph) *mergeRec {
	r := &mergeRec{Prog: prog, Src: src, Seq: seq, Pre: snap(pre), H: snap(h), Post: snap(post), K: snap(k)}
	c := safeClone(h) // commuted
	c.Merge(pre)
	r.HPre = snap(c)
	c = safeClone(post) // repeated
	c.Merge(post)
	r.Idem = snap(c)
	c = safeClone(post) // (pre + h) + k
	c.Merge(k)
	r.Left = snap(c)
	t := safeClone(h) // pre + (h + k)
	t.Merge(k)
	c = safeClone(pre)
	c.Merge(t)
	r.Right = snap(c)
	r.Leq = []bool{leq(pre, post), leq(h, post), leq(post, pre), leq(post, h), leq(pre, k), leq(h, k), leq(post, k), leq(k, post)}
	return r
}

func leq(a, b *escape.EscapeGraph) bool { r, _ := a.LessEqual(b); return r }

// weaken rebuilds a sub-graph of g through the real API only.
func weaken(g *escape.EscapeGraph, rnd *rand.Rand, p float64) *escape.EscapeGraph {
	s := escape.VerifSnapshot(g)
	byID := escape.VerifNodesOf(g)
	w := escape.VerifEmptyLike(g)
	for _, n := range s.Nodes {
		if rnd.Float64() < p {
			escape.VerifAddNode(w, byID[n.ID])
		}
	}
	for _, e := range s.Edges {
		for _, bit := range []int{1, 2, 4} {
			if e.Flags&bit == 0 {
				continue
			}
			q := p
			if bit == 4 {
				q = 0.5 + p/2
			}
			if rnd.Float64() < q {
				escape.VerifAddEdge(w, byID[e.Src], byID[e.Dst], bit)
			}
		}
	}
	present := map[int]bool{}
	for _, n := range escape.VerifSnapshot(w).Nodes {
		present[n.ID] = true
	}
	for _, n := range s.Nodes {
		if present[n.ID] && n.Status > 0 && rnd.Float64() < p {
			escape.VerifSetStatus(w, byID[n.ID], n.Status)
		}
	}
	return w
}

// statusMin rebuilds g with all its nodes and edges but without any explicit status raise: every status falls to
// what the intrinsic statuses and the propagation along the kept edges give.  With cut = true the edges that leave
// an intrinsically non-local node (Param, Load, Global, Unknown) are dropped as well, so that nothing is escaped or
// leaked except those nodes themselves.  Both are sub-graphs of g built through the real API only.
func statusMin(g *escape.EscapeGraph, cut bool) *escape.EscapeGraph {
	s := escape.VerifSnapshot(g)
	byID := escape.VerifNodesOf(g)
	w := escape.VerifEmptyLike(g)
	kind := map[int]int{}
	for _, n := range s.Nodes {
		escape.VerifAddNode(w, byID[n.ID])
		kind[n.ID] = n.Kind
	}
	for _, e := range s.Edges {
		k := kind[e.Src]
		if cut && (k == 1 || k == 2 || k == 3 || k == 8) {
			continue
		}
		escape.VerifAddEdge(w, byID[e.Src], byID[e.Dst], e.Flags)
	}
	return w
}

func apply(prog *escape.ProgramAnalysisState, f *ssa.Function, instr ssa.Instruction, g *escape.EscapeGraph) (ok bool) {
	defer func() {
		if r := recover(); r != nil {
			ok = false
		}
	}()
	return escape.VerifTransfer(prog, f, instr, g)
}

func main() {
	dir := flag.String("dir", ".", "program directory")
	name := flag.String("name", "", "program name used in the records")
	out := flag.String("out", "esc", "output prefix")
	seed := flag.Int64("seed", 1, "seed")
	perms := flag.Int("perms", 3, "number of runs with permuted worklists")
	maxNodes := flag.Int("maxnodes", 40, "largest graph (nodes) passed on to TLC")
	maxMerge := flag.Int("maxmerge", 400, "merge events kept")
	maxInstr := flag.Int("maxinstr", 150, "instructions kept")
	maxPairs := flag.Int("maxpairs", 5, "recorded applications kept per instruction")
	nWeak := flag.Int("weak", 2, "seeded random weakened inputs per kept application (two systematic ones are always made)")
	maxFinal := flag.Int("maxfinal", 80, "largest final/block-end graph (nodes) compared across runs")
	synthPerFn := flag.Int("synthperfn", 6, "real merges of recorded graphs attempted per function")
	maxSynth := flag.Int("maxsynth", 400, "real merges of recorded graphs kept")
	pkgFilter := flag.String("pkgfilter", "", "escape pkg-filter regex ('' = the main package path, or the program's escape-config.json)")
	budget := flag.Duration("budget", 10*time.Minute, "start no further permuted run once this much time has passed since the program was loaded")
	flag.Parse()
	if *name == "" {
		*name = filepath.Base(*dir)
	}
	t0 := time.Now()
	rnd := rand.New(rand.NewSource(*seed))
	stats := map[string]any{"prog": *name}
	defer func() {
		b, _ := json.Marshal(stats)
		os.WriteFile(*out+".stats.json", b, 0o644)
	}()

	prog, pkgs, err := hutil.Load(*dir, true)
	if err != nil {
		fmt.Fprintln(os.Stderr, "load:", err)
		stats["error"] = "load: " + err.Error()
		os.Exit(3)
	}
	mainPath := ""
	for _, p := range pkgs {
		if p.Name == "main" {
			mainPath = p.PkgPath
		}
	}
	cfg := config.NewDefault()
	cfg.LogLevel = int(config.ErrLevel)
	// escape configuration: the program's own function table, package filter forced to something small
	esc := map[string]any{}
	if b, err := os.ReadFile(filepath.Join(*dir, "escape-config.json")); err == nil {
		_ = json.Unmarshal(b, &esc)
	}
	if *pkgFilter != "" {
		esc["pkg-filter"] = *pkgFilter
	} else if _, ok := esc["pkg-filter"]; !ok {
		esc["pkg-filter"] = "^" + regexp.QuoteMeta(mainPath)
	}
	eb, _ := json.Marshal(esc)
	cfg.EscapeConfigFile = "inline"
	if err := config.LoadEscape(cfg, eb); err != nil {
		fmt.Fprintln(os.Stderr, "escape config:", err)
		stats["error"] = "escape config: " + err.Error()
		os.Exit(3)
	}
	state, err := dataflow.NewInitializedAnalyzerState(prog, pkgs, config.NewLogGroup(cfg), cfg)
	if err != nil {
		fmt.Fprintln(os.Stderr, "state:", err)
		stats["error"] = "state: " + err.Error()
		os.Exit(3)
	}
	stats["load_s"] = time.Since(t0).Seconds()
	tLoaded := time.Now()

	// ------------------------------------------------------------------ run 0: default order, everything observed
	seen, tooBig, dup, trivialKept := 0, 0, 0, 0
	kept := []*mergeRec{}
	keys := map[string]bool{}
	pool := map[any][]*escape.EscapeGraph{}
	hardCap := *maxMerge * 6
	escape.VerifMergeObserver = func(pre, h, post *escape.EscapeGraph) {
		seen++
		if len(kept) >= hardCap {
			return
		}
		sp, sh := snap(pre), snap(h)
		if len(sp.N)+len(sh.N) > 2**maxNodes {
			tooBig++
			return
		}
		spost := snap(post)
		if len(spost.N) > *maxNodes {
			tooBig++
			return
		}
		k := sp.key() + sh.key()
		if keys[k] {
			dup++
			return
		}
		trivial := len(sp.N) == 0 || len(sh.N) == 0
		if trivial && trivialKept > hardCap/5 {
			return
		}
		keys[k] = true
		if trivial {
			trivialKept++
		}
		grp := escape.VerifGroupKey(post)
		hc, postc := safeClone(h), safeClone(post)
		var kg *escape.EscapeGraph
		if pl := pool[grp]; len(pl) > 0 {
			kg = pl[rnd.Intn(len(pl))]
		} else {
			kg = postc
		}
		r := lawRec(*name, "event", seen, pre, hc, postc, kg)
		r.grp = grp
		kept = append(kept, r)
		if len(spost.N) > 0 && len(pool[grp]) < 64 {
			pool[grp] = append(pool[grp], postc)
		}
	}
	escape.VerifSetMonotonicityRecording(true)
	escape.VerifBlockOrder, escape.VerifFuncOrder = nil, nil
	t1 := time.Now()
	ea0, err := escape.EscapeAnalysis(state, state.PointerAnalysis.CallGraph.Root)
	if err != nil {
		fmt.Fprintln(os.Stderr, "escape analysis:", err)
		stats["error"] = "escape: " + err.Error()
		os.Exit(3)
	}
	escape.VerifMergeObserver = nil
	transfers := escape.VerifRecordedTransfers()
	escape.VerifSetMonotonicityRecording(false)
	run0 := time.Since(t1)
	stats["run0_s"] = run0.Seconds()

	finals0 := escape.VerifFinalGraphs(ea0)
	fnOfGroup := map[any]string{}
	fnames := []string{}
	fnByName := map[string]*ssa.Function{}
	for f := range finals0 {
		fnOfGroup[escape.VerifGroupKeyOf(ea0, f)] = f.String()
		fnames = append(fnames, f.String())
		fnByName[f.String()] = f
	}
	sort.Strings(fnames)
	stats["functions"] = len(fnames)

	// ---- is the state the analysis stopped in a fixpoint of the block equations?  (before anything else touches the
	// node groups: re-applying transfer functions may extend their load history)
	xo := hutil.NewOut(*out + ".fix.ndjson")
	fixKept, fixBig, fixPanic := 0, 0, 0
	for _, fn := range fnames {
		f := fnByName[fn]
		bes := escape.VerifBlockEnds(ea0, f)
		if len(bes) == 0 {
			continue
		}
		initial := escape.VerifInitialGraph(ea0, f)
		for _, b := range f.Blocks {
			end := bes[b.Index]
			if end == nil {
				continue
			}
			send := snap(end)
			if len(send.N) > *maxFinal {
				fixBig++
				continue
			}
			g := escape.VerifEmptyLike(end)
			if len(b.Preds) == 0 {
				g.Merge(initial)
			} else {
				for _, p := range b.Preds {
					if pg := bes[p.Index]; pg != nil {
						g.Merge(pg)
					}
				}
			}
			ok := true
			instrs := []string{}
			for _, in := range b.Instrs {
				instrs = append(instrs, in.String())
				if !apply(ea0, f, in, g) {
					ok = false
					break
				}
			}
			if !ok {
				fixPanic++
				continue
			}
			fixKept++
			xo.Put(fixRec{Prog: *name, Fn: fn, Block: b.Index, End: send, Out: snap(g), Instrs: instrs})
		}
	}
	xo.Close()
	stats["fix_kept"], stats["fix_toobig"], stats["fix_panics"] = fixKept, fixBig, fixPanic

	// ---- real merges of pairs / triples of real graphs of the same function (block ends, final graph, inputs and
	// outputs of transfer functions)
	perFn := map[string][]*escape.EscapeGraph{}
	addG := func(fn string, g *escape.EscapeGraph) {
		if g == nil || len(perFn[fn]) >= 40 {
			return
		}
		perFn[fn] = append(perFn[fn], g)
	}
	for _, fn := range fnames {
		f := fnByName[fn]
		bes := escape.VerifBlockEnds(ea0, f)
		for b := 0; b < len(f.Blocks); b++ {
			addG(fn, bes[b])
		}
	}
	{
		tt := append([]escape.VerifTransferPair{}, transfers...)
		sort.SliceStable(tt, func(i, j int) bool { return tt[i].Instr.Parent().String() < tt[j].Instr.Parent().String() })
		rnd.Shuffle(len(tt), func(i, j int) { tt[i], tt[j] = tt[j], tt[i] })
		for _, tp := range tt {
			addG(tp.Instr.Parent().String(), tp.Post)
		}
	}
	synthRecs := []*mergeRec{}
	synthKeys := map[string]bool{}
	for _, fn := range fnames {
		gs := perFn[fn]
		small := []*escape.EscapeGraph{}
		for _, g := range gs {
			if n := len(escape.VerifSnapshot(g).Nodes); n > 0 && n <= *maxNodes*2/3 {
				small = append(small, g)
			}
		}
		if len(small) < 2 {
			continue
		}
		for t := 0; t < *synthPerFn && len(synthRecs) < *maxSynth; t++ {
			a, b, c := small[rnd.Intn(len(small))], small[rnd.Intn(len(small))], small[rnd.Intn(len(small))]
			if a == b {
				continue
			}
			post := a.Clone()
			post.Merge(b)
			sp := snap(post)
			if len(sp.N) > *maxNodes {
				continue
			}
			kk := snap(a).key() + snap(b).key() + snap(c).key()
			if synthKeys[kk] {
				continue
			}
			synthKeys[kk] = true
			r := lawRec(*name, "synth", len(synthRecs), a.Clone(), b.Clone(), post, c.Clone())
			if len(r.Left.N) > *maxNodes {
				continue
			}
			r.Fn = fn
			synthRecs = append(synthRecs, r)
		}
	}
	stats["merge_synth"] = len(synthRecs)

	// ---- merge events: subsample to maxMerge (seeded), non-trivial first
	sort.SliceStable(kept, func(i, j int) bool {
		ti := len(kept[i].Pre.N) == 0 || len(kept[i].H.N) == 0
		tj := len(kept[j].Pre.N) == 0 || len(kept[j].H.N) == 0
		return !ti && tj
	})
	nontriv := 0
	for _, r := range kept {
		if len(r.Pre.N) > 0 && len(r.H.N) > 0 {
			nontriv++
		}
	}
	if len(kept) > *maxMerge {
		// keep a seeded sample: 85% of the budget for non-trivial events
		a, b := kept[:nontriv], kept[nontriv:]
		rnd.Shuffle(len(a), func(i, j int) { a[i], a[j] = a[j], a[i] })
		rnd.Shuffle(len(b), func(i, j int) { b[i], b[j] = b[j], b[i] })
		na := *maxMerge * 85 / 100
		if na > len(a) {
			na = len(a)
		}
		nb := *maxMerge - na
		if nb > len(b) {
			nb = len(b)
		}
		kept = append(append([]*mergeRec{}, a[:na]...), b[:nb]...)
	}
	mo := hutil.NewOut(*out + ".merge.ndjson")
	for _, r := range kept {
		r.Fn = fnOfGroup[r.grp]
		if r.Fn == "" {
			r.Fn = "?"
		}
		mo.Put(r)
	}
	for _, r := range synthRecs {
		mo.Put(r)
	}
	mo.Close()
	stats["merge_seen"], stats["merge_kept"], stats["merge_toobig"], stats["merge_dup"], stats["merge_nontrivial"] = seen, len(kept), tooBig, dup, nontriv

	// ---- transfer pairs
	type ikey struct {
		fn    string
		b, i  int
		instr ssa.Instruction
	}
	byInstr := map[ssa.Instruction][]escape.VerifTransferPair{}
	for _, tp := range transfers {
		byInstr[tp.Instr] = append(byInstr[tp.Instr], tp) // VerifRecordedTransfers keeps the per-instruction time order
	}
	iks := []ikey{}
	for in := range byInstr {
		bi := -1
		for j, x := range in.Block().Instrs {
			if x == in {
				bi = j
			}
		}
		iks = append(iks, ikey{in.Parent().String(), in.Block().Index, bi, in})
	}
	sort.Slice(iks, func(a, b int) bool {
		x, y := iks[a], iks[b]
		if x.fn != y.fn {
			return x.fn < y.fn
		}
		if x.b != y.b {
			return x.b < y.b
		}
		return x.i < y.i
	})
	stats["instr_seen"] = len(iks)
	stats["transfer_pairs_seen"] = len(transfers)
	// stratified seeded choice: round-robin over instruction kinds; control flow / no-op kinds are down-weighted
	byKind := map[string][]ikey{}
	kinds := []string{}
	for _, k := range iks {
		kd := fmt.Sprintf("%T", k.instr)
		if c, ok := k.instr.(*ssa.Call); ok {
			switch {
			case c.Call.IsInvoke():
				kd += "/invoke"
			case c.Call.StaticCallee() != nil:
				kd += "/static"
			default:
				if _, b := c.Call.Value.(*ssa.Builtin); b {
					kd += "/builtin"
				} else {
					kd += "/indirect"
				}
			}
		}
		if _, ok := byKind[kd]; !ok {
			kinds = append(kinds, kd)
		}
		byKind[kd] = append(byKind[kd], k)
	}
	sort.Strings(kinds)
	for _, kd := range kinds {
		l := byKind[kd]
		rnd.Shuffle(len(l), func(i, j int) { l[i], l[j] = l[j], l[i] })
		// instructions that were applied to several distinct inputs are the interesting ones
		sort.SliceStable(l, func(i, j int) bool { return len(byInstr[l[i].instr]) > len(byInstr[l[j].instr]) })
	}
	chosen := []ikey{}
	boring := map[string]bool{"*ssa.Jump": true, "*ssa.If": true, "*ssa.Return": true, "*ssa.BinOp": true, "*ssa.DebugRef": true}
	for round := 0; len(chosen) < *maxInstr; round++ {
		added := false
		for _, kd := range kinds {
			if boring[kd] && round > 1 {
				continue
			}
			if round < len(byKind[kd]) && len(chosen) < *maxInstr {
				chosen = append(chosen, byKind[kd][round])
				added = true
			}
		}
		if !added {
			break
		}
	}
	kindCount := map[string]int{}
	to := hutil.NewOut(*out + ".transfer.ndjson")
	weakPanics, rePanics, weakMade, instrKept, pairsKept, instrTooBig := 0, 0, 0, 0, 0, 0
	for _, k := range chosen {
		ps := byInstr[k.instr]
		// distinct inputs, in time order
		type cand struct {
			tp   escape.VerifTransferPair
			pre  G
			post G
		}
		cs := []cand{}
		seenPre := map[string]bool{}
		for _, tp := range ps {
			spre := snap(tp.Pre)
			if len(spre.N) > *maxNodes {
				continue
			}
			spost := snap(tp.Post)
			if len(spost.N) > *maxNodes {
				continue
			}
			kk := spre.key()
			if seenPre[kk] {
				continue
			}
			seenPre[kk] = true
			cs = append(cs, cand{tp, spre, spost})
		}
		if len(cs) == 0 {
			instrTooBig++
			continue
		}
		if len(cs) > *maxPairs {
			// first, last and a seeded choice in between (order preserved)
			idx := map[int]bool{0: true, len(cs) - 1: true}
			for len(idx) < *maxPairs {
				idx[rnd.Intn(len(cs))] = true
			}
			ii := []int{}
			for i := range idx {
				ii = append(ii, i)
			}
			sort.Ints(ii)
			ncs := []cand{}
			for _, i := range ii {
				ncs = append(ncs, cs[i])
			}
			cs = ncs
		}
		f := k.instr.Parent()
		rec := transferRec{Prog: *name, Fn: k.fn, Instr: fmt.Sprintf("b%d.%d %s", k.b, k.i, k.instr.String()),
			Kind: fmt.Sprintf("%T", k.instr), Pos: prog.Fset.Position(k.instr.Pos()).String(), Ents: []tentry{}}
		// pass 1 saturates the node group's history (load operations, sub-nodes); pass 2 is recorded
		wseed := rnd.Int63()
		for pass := 0; pass < 2; pass++ {
			wr := rand.New(rand.NewSource(wseed))
			ents := []tentry{}
			for _, c := range cs {
				e := tentry{Pre: c.pre, Post: c.post, Weak: []wpair{}}
				// two systematic weakenings (status only) and nWeak seeded random sub-graphs
				for w := 0; w < *nWeak+2; w++ {
					var wg *escape.EscapeGraph
					switch w {
					case 0:
						wg = statusMin(c.tp.Pre, false)
					case 1:
						wg = statusMin(c.tp.Pre, true)
					default:
						wg = weaken(c.tp.Pre, wr, []float64{0.85, 0.6, 0.35}[(w-2)%3])
					}
					wpre := snap(wg)
					if !apply(ea0, f, k.instr, wg) {
						if pass == 1 {
							weakPanics++
						}
						continue
					}
					wpost := snap(wg)
					if len(wpost.N) > *maxNodes {
						continue
					}
					e.Weak = append(e.Weak, wpair{wpre, wpost})
				}
				full := c.tp.Pre.Clone()
				if !apply(ea0, f, k.instr, full) {
					if pass == 1 {
						rePanics++
					}
					e.Re = c.post // the analysis itself did not panic on this input; nothing to compare
				} else {
					e.Re = snap(full)
					if len(e.Re.N) > *maxNodes {
						e.Re = c.post
					}
				}
				ents = append(ents, e)
			}
			if pass == 1 {
				rec.Ents = ents
			}
		}
		for _, e := range rec.Ents {
			weakMade += len(e.Weak)
		}
		instrKept++
		pairsKept += len(rec.Ents)
		kindCount[rec.Kind]++
		to.Put(rec)
	}
	to.Close()
	stats["instr_kept"], stats["pairs_kept"], stats["weak_made"], stats["weak_panics"], stats["re_panics"], stats["instr_toobig"] =
		instrKept, pairsKept, weakMade, weakPanics, rePanics, instrTooBig
	stats["instr_kinds"] = kindCount

	// ------------------------------------------------------------------ permuted runs
	type runRes struct {
		fin map[string]GL
		blk map[string]map[int]GL
	}
	collect := func(ea *escape.ProgramAnalysisState) runRes {
		r := runRes{map[string]GL{}, map[string]map[int]GL{}}
		for f, g := range escape.VerifFinalGraphs(ea) {
			r.fin[f.String()] = labelled(g)
			bm := map[int]GL{}
			for b, bg := range escape.VerifBlockEnds(ea, f) {
				bm[b] = labelled(bg)
			}
			r.blk[f.String()] = bm
		}
		return r
	}
	runs := []runRes{collect(ea0)}
	orders := []string{"default"}
	done := 0
	for p := 1; p <= *perms; p++ {
		if time.Since(tLoaded) > *budget {
			break
		}
		pr := rand.New(rand.NewSource(*seed*1000 + int64(p)))
		mode := p % 3 // 1: both permuted, 2: blocks only, 0: functions only
		escape.VerifBlockOrder, escape.VerifFuncOrder = nil, nil
		if mode != 0 {
			escape.VerifBlockOrder = func(n int) int { return pr.Intn(n) }
		}
		if mode != 2 {
			escape.VerifFuncOrder = func(n int) int { return pr.Intn(n) }
		}
		ea, err := escape.EscapeAnalysis(state, state.PointerAnalysis.CallGraph.Root)
		escape.VerifBlockOrder, escape.VerifFuncOrder = nil, nil
		if err != nil {
			stats["error"] = "escape(perm): " + err.Error()
			os.Exit(3)
		}
		runs = append(runs, collect(ea))
		orders = append(orders, []string{"funcs", "blocks+funcs", "blocks"}[mode])
		done++
	}
	stats["perm_runs"] = done
	fo := hutil.NewOut(*out + ".final.ndjson")
	finKept, finBig, finEmpty := 0, 0, 0
	emit := func(fn, what string, get func(r runRes) (GL, bool)) {
		rec := finalRec{Prog: *name, Fn: fn, What: what, Runs: []GL{}, Order: orders}
		allEmpty := true
		for _, r := range runs {
			if g, ok := get(r); ok && len(g.N) > 0 {
				allEmpty = false
			}
		}
		if allEmpty {
			finEmpty++
			return
		}
		for _, r := range runs {
			g, ok := get(r)
			if !ok {
				g = GL{N: [][3]int{}, E: [][3]int{}, L: []string{}}
			}
			if len(g.N) > *maxFinal {
				finBig++
				return
			}
			rec.Runs = append(rec.Runs, g)
		}
		finKept++
		fo.Put(rec)
	}
	for _, fn := range fnames {
		fn := fn
		emit(fn, "summary", func(r runRes) (GL, bool) { g, ok := r.fin[fn]; return g, ok })
		nb := len(fnByName[fn].Blocks)
		for b := 0; b < nb; b++ {
			b := b
			if _, ok := runs[0].blk[fn][b]; !ok {
				continue
			}
			emit(fn, fmt.Sprintf("block %d", b), func(r runRes) (GL, bool) { g, ok := r.blk[fn][b]; return g, ok })
		}
	}
	fo.Close()
	stats["final_kept"], stats["final_toobig"], stats["final_empty"] = finKept, finBig, finEmpty
	stats["total_s"] = time.Since(t0).Seconds()
}
