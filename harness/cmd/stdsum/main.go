// stdsum (C09): dumps the table of predefined standard-library summaries of the REAL analyzer together with the real
// signature of every function a key resolves to and the edges the REAL loader (dataflow.NewPredefinedSummary) builds
// from the entry; generates, for every entry whose parameters can be synthesised by a type-directed generator, one
// one-call probe per taintable argument position (a Go file per entry; the same text is analysed by the real taint
// analysis and executed natively).
//
//	stdsum -work DIR          writes DIR/imp (program importing the std packages of the table), DIR/entries.ndjson,
//	                          DIR/probes/p<N>.go + DIR/probes.ndjson (meta data of the probes: lines of source, control
//	                          sink, call and target sinks)
package main

import (
	"encoding/json"
	"flag"
	"fmt"
	"go/token"
	"go/types"
	"os"
	"os/exec"
	"path/filepath"
	"sort"
	"strings"

	"github.com/awslabs/ar-go-tools/analysis/dataflow"
	"github.com/awslabs/ar-go-tools/analysis/summaries"
	"golang.org/x/tools/go/ssa"
	"golang.org/x/tools/go/ssa/ssautil"
	"verifharness/internal/hutil"
)

type edge struct {
	From int    `json:"i"`
	Kind string `json:"t"` // "r" result, "a" argument
	To   int    `json:"x"`
}

type entry struct {
	N           int      `json:"n"` // index of the entry (sorted by key)
	Key         string   `json:"key"`
	Maps        []string `json:"maps"`     // the package names of the table under which the key is stored
	Resolved    bool     `json:"resolved"` // the key names a function of the loaded program
	Reachable   bool     `json:"reachable"`
	Required    bool     `json:"required"` // body always analysed (requiredSummaries)
	External    bool     `json:"external"`
	NParams     int      `json:"nparams"` // receiver included
	NResults    int      `json:"nresults"`
	Recv        bool     `json:"recv"`
	Variadic    bool     `json:"variadic"`
	ParamTypes  []string `json:"ptypes"`
	ResultTypes []string `json:"rtypes"`
	PtrLike     []bool   `json:"ptrlike"`
	Args        [][]int  `json:"args"`
	Rets        [][]int  `json:"rets"`
	RealEdges   []edge   `json:"realedges"` // edges of the graph the real loader built from the entry
	Synth       bool     `json:"synth"`
	Why         string   `json:"why"`
	Taintable   []int    `json:"taintable"`
	Absent      bool     `json:"absent"` // a pinned key (-extra) that has no entry in the table any more
}

type probe struct {
	Entry   int            `json:"entry"`
	Key     string         `json:"key"`
	I       int            `json:"i"`
	File    string         `json:"file"`
	Func    string         `json:"func"`
	Src     int            `json:"src"`
	Control int            `json:"control"`
	Call    int            `json:"call"`
	Sinks   map[string]int `json:"sinks"` // target ("r<j>" | "a<k>") -> line
}

func must(err error) {
	if err != nil {
		fmt.Fprintln(os.Stderr, "stdsum:", err)
		os.Exit(2)
	}
}

// pkgOfKey extracts the package path from a table key: "pkg.F", "(pkg.T).M", "(*pkg.T).M"
func pkgOfKey(k string) string {
	s := k
	if strings.HasPrefix(s, "(") {
		if j := strings.Index(s, ")"); j > 0 {
			s = strings.TrimPrefix(s[1:j], "*")
		}
	}
	if j := strings.LastIndex(s, "."); j > 0 {
		return s[:j]
	}
	return ""
}

func importable(p string) bool {
	if p == "" || p == "unsafe" || p == "builtin" {
		return false
	}
	for _, seg := range strings.Split(p, "/") {
		if seg == "internal" || seg == "vendor" {
			return false
		}
	}
	return true
}

func nonNil(x [][]int) [][]int {
	out := make([][]int, len(x))
	for i, r := range x {
		out[i] = append([]int{}, r...)
	}
	return out
}

func isPtrLike(t types.Type) bool {
	switch t.Underlying().(type) {
	case *types.Pointer, *types.Slice, *types.Map, *types.Interface, *types.Chan:
		return true
	}
	return false
}

func main() {
	work := flag.String("work", "", "work directory")
	extra := flag.String("extra", "", "JSON file with a list of keys that must be probed even if the table has no entry for them")
	flag.Parse()
	if *work == "" {
		must(fmt.Errorf("no -work"))
	}
	table := summaries.VerifStdSummaries()
	required := summaries.VerifRequiredSummaries()

	// ---- 1. the keys, and the program importing their packages
	type kinfo struct {
		maps   map[string]bool
		s      summaries.Summary
		absent bool
	}
	keys := map[string]*kinfo{}
	for pkg, m := range table {
		for k, s := range m {
			if keys[k] == nil {
				keys[k] = &kinfo{maps: map[string]bool{}, s: s}
			}
			keys[k].maps[pkg] = true
		}
	}
	if *extra != "" {
		b, err := os.ReadFile(*extra)
		must(err)
		var xs []string
		must(json.Unmarshal(b, &xs))
		for _, k := range xs {
			if keys[k] == nil {
				keys[k] = &kinfo{maps: map[string]bool{}, absent: true}
			}
		}
	}
	std := map[string]bool{}
	out, err := exec.Command("go", "list", "std").Output()
	must(err)
	for _, l := range strings.Fields(string(out)) {
		std[l] = true
	}
	imps := map[string]bool{}
	for k := range keys {
		if p := pkgOfKey(k); std[p] && importable(p) {
			imps[p] = true
		}
	}
	for p := range table { // every package that has a (possibly empty) map: its functions are never analysed
		if std[p] && importable(p) {
			imps[p] = true
		}
	}
	delete(imps, "syscall/js")
	delete(imps, "plugin")
	impDir := filepath.Join(*work, "imp")
	must(os.MkdirAll(impDir, 0o755))
	var sb strings.Builder
	sb.WriteString("package main\n\nimport (\n")
	var il []string
	for p := range imps {
		il = append(il, p)
	}
	sort.Strings(il)
	for _, p := range il {
		fmt.Fprintf(&sb, "\t_ %q\n", p)
	}
	sb.WriteString(")\n\nfunc main() {}\n")
	must(os.WriteFile(filepath.Join(impDir, "main.go"), []byte(sb.String()), 0o644))
	must(os.WriteFile(filepath.Join(impDir, "go.mod"), []byte("module stdimp\n\ngo 1.22\n"), 0o644))

	prog, _, err := hutil.Load(impDir, false)
	must(err)
	byName := map[string]*ssa.Function{}
	for f := range ssautil.AllFunctions(prog) {
		if f.Synthetic != "" && !strings.HasPrefix(f.Synthetic, "package initializer") {
			continue
		}
		if _, dup := byName[f.String()]; !dup {
			byName[f.String()] = f
		}
	}

	// ---- 2. entries
	var ks []string
	for k := range keys {
		ks = append(ks, k)
	}
	sort.Strings(ks)
	eo := hutil.NewOut(filepath.Join(*work, "entries.ndjson"))
	po := hutil.NewOut(filepath.Join(*work, "probes.ndjson"))
	pdir := filepath.Join(*work, "probes")
	must(os.MkdirAll(pdir, 0o755))
	nsynth := 0
	for n, k := range ks {
		ki := keys[k]
		e := entry{N: n, Key: k, Args: nonNil(ki.s.Args), Rets: nonNil(ki.s.Rets), ParamTypes: []string{},
			ResultTypes: []string{}, PtrLike: []bool{}, RealEdges: []edge{}, Taintable: []int{}, Absent: ki.absent,
			Maps: []string{}}
		for m := range ki.maps {
			e.Maps = append(e.Maps, m)
		}
		sort.Strings(e.Maps)
		f := byName[k]
		if f == nil {
			e.Why = "key names no function of the loaded program"
			eo.Put(e)
			continue
		}
		e.Resolved = true
		e.Required = required[k]
		_, e.Reachable = summaries.SummaryOfFunc(f)
		e.External = len(f.Blocks) == 0
		sig := f.Signature
		e.NParams = len(f.Params)
		e.NResults = sig.Results().Len()
		e.Recv = sig.Recv() != nil
		e.Variadic = sig.Variadic()
		for _, p := range f.Params {
			e.ParamTypes = append(e.ParamTypes, p.Type().String())
			e.PtrLike = append(e.PtrLike, isPtrLike(p.Type()))
		}
		for j := 0; j < e.NResults; j++ {
			e.ResultTypes = append(e.ResultTypes, sig.Results().At(j).Type().String())
		}
		// the graph the REAL loader builds from the entry
		if g := dataflow.NewPredefinedSummary(f, dataflow.GetUniqueFunctionID()); g != nil {
			seen := map[edge]bool{}
			for _, pn := range g.Params {
				for dst := range pn.Out() {
					var ed edge
					switch d := dst.(type) {
					case *dataflow.ParamNode:
						ed = edge{pn.Index(), "a", d.Index()}
					case *dataflow.ReturnValNode:
						ed = edge{pn.Index(), "r", d.Index()}
					default:
						continue
					}
					if !seen[ed] {
						seen[ed] = true
						e.RealEdges = append(e.RealEdges, ed)
					}
				}
			}
			sort.Slice(e.RealEdges, func(a, b int) bool {
				x, y := e.RealEdges[a], e.RealEdges[b]
				if x.From != y.From {
					return x.From < y.From
				}
				if x.Kind != y.Kind {
					return x.Kind < y.Kind
				}
				return x.To < y.To
			})
		}
		// ---- 3. probes
		ps, why := genProbes(&e, f, pdir)
		e.Why = why
		if len(ps) > 0 {
			e.Synth = true
			nsynth++
			for _, p := range ps {
				e.Taintable = append(e.Taintable, p.I)
				po.Put(p)
			}
		}
		eo.Put(e)
	}
	eo.Close()
	po.Close()
	fmt.Fprintf(os.Stderr, "stdsum: %d keys, %d functions in program, %d entries with probes\n", len(ks), len(byName), nsynth)
}

// ------------------------------------------------------------------------------------------- probe generation

// never executed natively (process control, network, blocking, fatal errors that cannot be recovered)
var denyPkgs = map[string]bool{"os/exec": true, "syscall": true, "net": true, "os/signal": true, "runtime": true,
	"runtime/debug": true, "plugin": true, "testing": true, "unsafe": true}
var denyKeys = map[string]bool{"os.Exit": true, "time.Sleep": true, "(*net/http.Client).Do": true, "net/http.NewRequest": false,
	"time.After": true, "time.NewTimer": true, "os.Getpid": true, "os.Hostname": true,
	"(*sync.Mutex).Unlock": true, "(*sync.RWMutex).Unlock": true, "(*sync.RWMutex).RUnlock": true,
	"(*sync.WaitGroup).Wait": true, "(*sync.WaitGroup).Done": true, "(*sync.Mutex).Lock": true, "(*sync.RWMutex).Lock": true,
	"(*sync.RWMutex).RLock": true, "flag.Parse": true}

// hand-written argument expressions where the type alone does not determine a meaningful value
// key -> position -> {benign, tainted} ("" = use the type-directed generator)
var override = map[string]map[int][2]string{
	"strconv.ParseInt":              {1: {"10", ""}, 2: {"64", ""}},
	"strconv.ParseFloat":            {1: {"64", ""}},
	"strconv.FormatInt":             {1: {"10", ""}},
	"strconv.FormatFloat":           {1: {"'f'", ""}, 2: {"-1", ""}, 3: {"64", ""}},
	"strconv.AppendFloat":           {2: {"'f'", ""}, 3: {"-1", ""}, 4: {"64", ""}},
	"(reflect.Value).Field":         {0: {"", "p_reflect.ValueOf(tokPair{tok, tok})"}, 1: {"0", ""}},
	"(reflect.Value).NumField":      {0: {"", "p_reflect.ValueOf(tokPair{tok, tok})"}},
	"(reflect.Value).FieldByName":   {0: {"p_reflect.ValueOf(tokPair{})", "p_reflect.ValueOf(tokPair{tok, tok})"}, 1: {`"S"`, ""}},
	"(reflect.Value).FieldByIndex":  {0: {"p_reflect.ValueOf(tokPair{})", "p_reflect.ValueOf(tokPair{tok, tok})"}, 1: {"[]int{0}", ""}},
	"(reflect.Value).Index":         {0: {`p_reflect.ValueOf([]string{"b", "c"})`, "p_reflect.ValueOf([]string{tok, tok})"}, 1: {"0", ""}},
	"(reflect.Value).Len":           {0: {"", "p_reflect.ValueOf([]string{tok, tok})"}},
	"(reflect.Value).MapKeys":       {0: {"", "p_reflect.ValueOf(map[string]string{tok: tok})"}},
	"(reflect.Value).MapIndex":      {0: {`p_reflect.ValueOf(map[string]string{"b": "c"})`, `p_reflect.ValueOf(map[string]string{"b": tok})`}},
	"(reflect.Value).Int":           {0: {"", "p_reflect.ValueOf(toInt(tok))"}},
	"(reflect.Value).Float":         {0: {"", "p_reflect.ValueOf(float64(toInt(tok)))"}},
	"(reflect.Value).Elem":          {0: {"", "p_reflect.ValueOf(&tokPair{tok, tok})"}},
	"(reflect.Value).IsNil":         {0: {"", "p_reflect.ValueOf(&tokPair{tok, tok})"}},
	"(reflect.Value).MethodByName":  {0: {"", "p_reflect.ValueOf(tokStr{tok})"}, 1: {`"String"`, ""}},
	"(reflect.Value).Set":           {0: {"p_reflect.ValueOf(new(string)).Elem()", "p_reflect.ValueOf(&tokPair{tok, tok}).Elem().Field(0)"}},
	"(reflect.Value).SetMapIndex":   {0: {`p_reflect.ValueOf(map[string]string{"b": "c"})`, `p_reflect.ValueOf(map[string]string{"b": tok})`}},
	"(reflect.StructTag).Get":       {0: {"", "p_reflect.StructTag(\"k:\\\"\" + tok + \"\\\"\")"}, 1: {`"k"`, ""}},
	"reflect.Indirect":              {0: {"", "p_reflect.ValueOf(&tokPair{tok, tok})"}},
	"strings.Repeat":                {1: {"2", ""}},
	"strings.SplitN":                {2: {"5", ""}},
	"strings.SplitAfterN":           {2: {"5", ""}},
	"strings.Replace":               {3: {"-1", ""}},
	"(*regexp.Regexp).FindAllString":          {2: {"-1", ""}},
	"(*regexp.Regexp).FindAllStringSubmatch": {2: {"-1", ""}},
	"(*regexp.Regexp).Split":                  {2: {"-1", ""}},
}

type synth struct {
	imports map[string]string // path -> alias
	setup   []string
	nv      int
	lit     string // benign string literal of this probe (unique, so that registries such as flag do not clash)
}

func alias(path string) string {
	r := strings.NewReplacer("/", "_", ".", "_", "-", "_")
	return "p_" + r.Replace(path)
}

func (s *synth) qual(p *types.Package) string {
	if p == nil {
		return ""
	}
	s.imports[p.Path()] = alias(p.Path())
	return alias(p.Path())
}

func (s *synth) use(path string) string {
	s.imports[path] = alias(path)
	return alias(path)
}

func (s *synth) tstr(t types.Type) string { return types.TypeString(t, s.qual) }

func (s *synth) fresh() string {
	s.nv++
	return fmt.Sprintf("v%d", s.nv)
}

// usable reports whether every named type mentioned in t can be written outside its package
func usable(t types.Type, depth int) bool {
	if depth > 6 {
		return false
	}
	switch x := t.(type) {
	case *types.Named:
		o := x.Obj()
		if o.Pkg() != nil && (!o.Exported() || !importable(o.Pkg().Path())) {
			return false
		}
		if x.TypeArgs() != nil && x.TypeArgs().Len() > 0 {
			return false
		}
		return true
	case *types.Alias:
		return usable(types.Unalias(x), depth+1)
	case *types.Pointer:
		return usable(x.Elem(), depth+1)
	case *types.Slice:
		return usable(x.Elem(), depth+1)
	case *types.Array:
		return usable(x.Elem(), depth+1)
	case *types.Map:
		return usable(x.Key(), depth+1) && usable(x.Elem(), depth+1)
	case *types.Chan:
		return usable(x.Elem(), depth+1)
	case *types.Signature:
		for i := 0; i < x.Params().Len(); i++ {
			if !usable(x.Params().At(i).Type(), depth+1) {
				return false
			}
		}
		for i := 0; i < x.Results().Len(); i++ {
			if !usable(x.Results().At(i).Type(), depth+1) {
				return false
			}
		}
		return true
	case *types.Struct:
		for i := 0; i < x.NumFields(); i++ {
			if !usable(x.Field(i).Type(), depth+1) {
				return false
			}
		}
		return true
	case *types.TypeParam:
		return false
	case *types.Tuple:
		return false
	}
	return true
}

var rwIfaces = map[string]bool{"io.Reader": true, "io.Writer": true, "io.ReadWriter": true, "io.ReadCloser": true,
	"io.WriteCloser": true, "io.ReadWriteCloser": true, "io.ByteReader": true, "io.ByteWriter": true, "io.RuneReader": true,
	"io.StringWriter": true, "io.ReaderAt": true, "io.WriterAt": true, "io.Closer": true, "io.Seeker": true,
	"io.ReadSeeker": true, "io.ByteScanner": true, "io.RuneScanner": true, "io.ReadSeekCloser": true, "io.WriteSeeker": true,
	"io.ReadWriteSeeker": true}

// value returns a Go expression of type t; if tainted, the value carries the token held by the variable `tok`.
func (s *synth) value(t types.Type, tainted bool, depth int) (string, bool) {
	if depth > 4 || !usable(t, 0) {
		return "", false
	}
	tk := func(benign string) string {
		if tainted {
			return "tok"
		}
		if benign == `"b"` && s.lit != "" {
			return fmt.Sprintf("%q", s.lit)
		}
		return benign
	}
	ts := t.String()
	// ---- well-known named types
	switch {
	case rwIfaces[ts]:
		return "newRW(" + tk(`"b"`) + ")", true
	case ts == "error":
		return "tokErr{" + tk(`"b"`) + "}", true
	case ts == "fmt.Stringer":
		return "tokStr{" + tk(`"b"`) + "}", true
	case ts == "context.Context":
		if tainted {
			return "tokCtx{" + s.use("context") + ".Background(), tok}", true
		}
		return s.use("context") + ".Background()", true
	case ts == "*bytes.Buffer":
		return s.use("bytes") + ".NewBufferString(" + tk(`"b"`) + ")", true
	case ts == "*strings.Builder":
		v := s.fresh()
		s.setup = append(s.setup, v+" := new("+s.use("strings")+".Builder)", v+".WriteString("+tk(`"b"`)+")")
		return v, true
	case ts == "*bytes.Reader":
		return s.use("bytes") + ".NewReader([]byte(" + tk(`"b"`) + "))", true
	case ts == "*strings.Reader":
		return s.use("strings") + ".NewReader(" + tk(`"b"`) + ")", true
	case ts == "*bufio.Reader":
		return s.use("bufio") + ".NewReader(newRW(" + tk(`"b"`) + "))", true
	case ts == "*bufio.Writer":
		return s.use("bufio") + ".NewWriter(newRW(" + tk(`"b"`) + "))", true
	case ts == "*bufio.Scanner":
		return s.use("bufio") + ".NewScanner(newRW(" + tk(`"b"`) + "))", true
	case ts == "*regexp.Regexp":
		return s.use("regexp") + ".MustCompile(" + tk(`"b"`) + ")", true
	case ts == "*strings.Replacer":
		return s.use("strings") + ".NewReplacer(" + tk(`"b"`) + `, "x")`, true
	case ts == "*encoding/json.Decoder":
		return s.use("encoding/json") + ".NewDecoder(newRW(" + tk(`"1"`) + "))", true
	case ts == "*encoding/json.Encoder":
		return s.use("encoding/json") + ".NewEncoder(newRW(" + tk(`"b"`) + "))", true
	case ts == "*encoding/xml.Decoder":
		return s.use("encoding/xml") + `.NewDecoder(newRW("<a>" + ` + tk(`"b"`) + ` + "</a>"))`, true
	case ts == "time.Time":
		if tainted {
			return s.use("time") + ".Unix(int64(toInt(tok)), 0)", true
		}
		return s.use("time") + ".Unix(1000, 0)", true
	case ts == "*time.Location":
		if tainted {
			return "", false
		}
		return s.use("time") + ".UTC", true
	case ts == "*math/big.Int":
		if tainted {
			return s.use("math/big") + ".NewInt(int64(toInt(tok)))", true
		}
		return s.use("math/big") + ".NewInt(5)", true
	case ts == "*math/big.Float":
		if tainted {
			return s.use("math/big") + ".NewFloat(float64(toInt(tok)))", true
		}
		return s.use("math/big") + ".NewFloat(5)", true
	case ts == "reflect.Value":
		return s.use("reflect") + ".ValueOf(" + tk(`"b"`) + ")", true
	case ts == "reflect.Type":
		if tainted {
			return "", false
		}
		return s.use("reflect") + `.TypeOf("b")`, true
	case ts == "*sync.Map":
		v := s.fresh()
		s.setup = append(s.setup, v+" := new("+s.use("sync")+".Map)", v+`.Store("k", `+tk(`"b"`)+")")
		return v, true
	case ts == "*sync/atomic.Value":
		v := s.fresh()
		s.setup = append(s.setup, v+" := new("+s.use("sync/atomic")+".Value)", v+".Store("+tk(`"b"`)+")")
		return v, true
	case ts == "*log.Logger":
		return s.use("log") + ".New(newRW(" + tk(`"b"`) + `), "", 0)`, true
	case ts == "*net/url.URL":
		return "&" + s.use("net/url") + ".URL{Path: " + tk(`"b"`) + "}", true
	case ts == "*net/http.Request":
		return "&" + s.use("net/http") + ".Request{Host: " + tk(`"b"`) + ", Header: " + s.use("net/http") + `.Header{}}`, true
	case ts == "*os.File" || ts == "*os/exec.Cmd" || ts == "*net/http.Client" || strings.HasPrefix(ts, "*sync.") ||
		ts == "*time.Timer" || ts == "*time.Ticker" || ts == "*math/rand.Rand" || ts == "unsafe.Pointer":
		return "", false
	}
	// ---- structural
	switch u := t.Underlying().(type) {
	case *types.Basic:
		conv := func(e string) string {
			if _, named := t.(*types.Named); named || types.Unalias(t) != t {
				return s.tstr(t) + "(" + e + ")"
			}
			return s.tstr(t) + "(" + e + ")"
		}
		switch {
		case u.Info()&types.IsString != 0:
			return conv(tk(`"b"`)), true
		case u.Kind() == types.Int || u.Kind() == types.Int64 || u.Kind() == types.Int32 || u.Kind() == types.Uint ||
			u.Kind() == types.Uint64 || u.Kind() == types.Uint32 || u.Kind() == types.Float64:
			if tainted {
				return conv("toInt(tok)"), true
			}
			return conv("3"), true
		case u.Info()&types.IsBoolean != 0:
			if tainted {
				return "", false
			}
			return conv("true"), true
		case u.Info()&types.IsNumeric != 0 && u.Kind() != types.UnsafePointer && u.Kind() != types.Uintptr:
			if tainted {
				return "", false
			}
			return conv("3"), true
		}
		return "", false
	case *types.Slice:
		if isByteOrRune(u.Elem()) {
			return s.tstr(t) + "(" + tk(`"b"`) + ")", true
		}
		el, ok := s.value(u.Elem(), tainted, depth+1)
		if !ok {
			if tainted {
				return "", false
			}
			return s.tstr(t) + "{}", true
		}
		el2, _ := s.value(u.Elem(), false, depth+1)
		if tainted {
			return s.tstr(t) + "{" + el + ", " + el2 + "}", true
		}
		return s.tstr(t) + "{" + el + ", " + el2 + "}", true
	case *types.Map:
		k, ok1 := s.value(u.Key(), false, depth+1)
		v, ok2 := s.value(u.Elem(), tainted, depth+1)
		if !ok1 || !ok2 {
			if tainted {
				return "", false
			}
			return s.tstr(t) + "{}", true
		}
		return s.tstr(t) + "{" + k + ": " + v + "}", true
	case *types.Pointer:
		if _, isStruct := u.Elem().Underlying().(*types.Struct); isStruct {
			e, ok := s.value(u.Elem(), tainted, depth+1)
			if !ok {
				return "", false
			}
			return "&" + e, true
		}
		e, ok := s.value(u.Elem(), tainted, depth+1)
		if !ok {
			return "", false
		}
		v := s.fresh()
		s.setup = append(s.setup, v+"x := "+e, v+" := &"+v+"x")
		return v, true
	case *types.Struct:
		if !tainted {
			return s.tstr(t) + "{}", true
		}
		for i := 0; i < u.NumFields(); i++ {
			f := u.Field(i)
			if !f.Exported() || f.Embedded() {
				continue
			}
			if b, ok := f.Type().Underlying().(*types.Basic); !ok || b.Info()&types.IsString == 0 {
				if _, isSl := f.Type().Underlying().(*types.Slice); !isSl {
					continue
				}
			}
			if e, ok := s.value(f.Type(), true, depth+1); ok {
				return s.tstr(t) + "{" + f.Name() + ": " + e + "}", true
			}
		}
		return "", false
	case *types.Interface:
		if u.NumMethods() == 0 {
			if tainted {
				return "tok", true
			}
			return "new(any)", true
		}
		return "", false
	case *types.Signature:
		if tainted {
			return "", false
		}
		var ps, rs, ret []string
		for i := 0; i < u.Params().Len(); i++ {
			pt := s.tstr(u.Params().At(i).Type())
			if u.Variadic() && i == u.Params().Len()-1 {
				pt = "..." + s.tstr(u.Params().At(i).Type().(*types.Slice).Elem())
			}
			ps = append(ps, fmt.Sprintf("q%d %s", i, pt))
		}
		for i := 0; i < u.Results().Len(); i++ {
			rt := u.Results().At(i).Type()
			rs = append(rs, s.tstr(rt))
			done := false
			for j := 0; j < u.Params().Len(); j++ {
				if types.Identical(u.Params().At(j).Type(), rt) && !(u.Variadic() && j == u.Params().Len()-1) {
					ret = append(ret, fmt.Sprintf("q%d", j))
					done = true
					break
				}
			}
			if !done {
				ret = append(ret, "*new("+s.tstr(rt)+")")
			}
		}
		body := ""
		if len(ret) > 0 {
			body = "return " + strings.Join(ret, ", ")
		}
		return "func(" + strings.Join(ps, ", ") + ") (" + strings.Join(rs, ", ") + ") { " + body + " }", true
	case *types.Chan:
		if tainted {
			return "", false
		}
		return "make(" + s.tstr(t) + ", 1)", true
	case *types.Array:
		if tainted {
			return "", false
		}
		return s.tstr(t) + "{}", true
	}
	return "", false
}

func isByteOrRune(t types.Type) bool {
	b, ok := types.Unalias(t).(*types.Basic)
	return ok && (b.Kind() == types.Uint8 || b.Kind() == types.Int32)
}

func genProbes(e *entry, f *ssa.Function, pdir string) ([]probe, string) {
	obj, _ := f.Object().(*types.Func)
	if obj == nil || obj.Pkg() == nil {
		return nil, "no source-level function object"
	}
	pkg := obj.Pkg().Path()
	if !importable(pkg) {
		return nil, "internal package"
	}
	if !obj.Exported() {
		return nil, "unexported function"
	}
	if denyPkgs[pkg] || denyKeys[e.Key] {
		return nil, "not executed natively (process / network / blocking / fatal)"
	}
	if e.Required {
		return nil, "body is always analysed (requiredSummaries): the summary is not what is applied"
	}
	sig := f.Signature
	if sig.TypeParams() != nil && sig.TypeParams().Len() > 0 || sig.RecvTypeParams() != nil && sig.RecvTypeParams().Len() > 0 {
		return nil, "generic"
	}
	if len(f.TypeArgs()) > 0 {
		return nil, "generic instance"
	}
	var ptypes []types.Type
	if sig.Recv() != nil {
		ptypes = append(ptypes, sig.Recv().Type())
	}
	for i := 0; i < sig.Params().Len(); i++ {
		ptypes = append(ptypes, sig.Params().At(i).Type())
	}
	n := len(ptypes)
	if n == 0 {
		return nil, "no parameters"
	}
	if n != e.NParams {
		return nil, "parameter count of the SSA function differs from the signature"
	}
	variadicAt := -1
	if sig.Variadic() {
		variadicAt = n - 1
	}
	elemType := func(k int) types.Type {
		if k == variadicAt {
			return ptypes[k].(*types.Slice).Elem()
		}
		return ptypes[k]
	}
	var probes []probe
	var file strings.Builder
	lines := 0
	emit := func(s string) int {
		file.WriteString(s)
		file.WriteString("\n")
		lines++
		return lines
	}
	allImports := map[string]string{}
	var bodies [][]string
	type pmeta struct {
		i                  int
		src, control, call int
		sinks              map[string]int
		lines              []string
	}
	var metas []pmeta
	why := ""
	for i := 0; i < n; i++ {
		s := &synth{imports: map[string]string{}, lit: fmt.Sprintf("b%dx%d", e.N, i)}
		args := make([]string, n)
		ok := true
		for k := 0; k < n; k++ {
			ex, good := "", false
			if ov, has := override[e.Key][k]; has {
				if k == i && ov[1] != "" {
					ex, good = ov[1], true
				} else if k != i && ov[0] != "" {
					ex, good = ov[0], true
				}
				if good && strings.Contains(ex, "p_reflect.") {
					s.use("reflect")
				}
			}
			if !good {
				ex, good = s.value(elemType(k), k == i, 0)
			}
			if !good {
				ok = false
				if k == i {
					why += fmt.Sprintf("position %d (%s) cannot carry a token; ", k, ptypes[k])
				} else {
					why += fmt.Sprintf("position %d (%s) cannot be synthesised; ", k, ptypes[k])
				}
				break
			}
			args[k] = ex
		}
		if !ok {
			continue
		}
		var L []string
		pm := pmeta{i: i, sinks: map[string]int{}}
		add := func(x string) int { L = append(L, x); return len(L) }
		add(fmt.Sprintf("func p%d_%d() {", e.N, i))
		pm.src = add("\ttok := source()")
		add("\t_ = tok")
		for _, st := range s.setup {
			add("\t" + st)
		}
		for k := 0; k < n; k++ {
			add(fmt.Sprintf("\ta%d := %s", k, args[k]))
		}
		pm.control = add(fmt.Sprintf("\tsink(a%d)", i))
		var callee string
		var cargs []string
		if sig.Recv() != nil {
			callee = "a0." + obj.Name()
			for k := 1; k < n; k++ {
				cargs = append(cargs, fmt.Sprintf("a%d", k))
			}
		} else {
			callee = s.use(pkg) + "." + obj.Name()
			for k := 0; k < n; k++ {
				cargs = append(cargs, fmt.Sprintf("a%d", k))
			}
		}
		call := callee + "(" + strings.Join(cargs, ", ") + ")"
		if e.NResults == 0 {
			pm.call = add("\t" + call)
		} else {
			var rs []string
			for j := 0; j < e.NResults; j++ {
				rs = append(rs, fmt.Sprintf("r%d", j))
			}
			pm.call = add("\t" + strings.Join(rs, ", ") + " := " + call)
		}
		for j := 0; j < e.NResults; j++ {
			pm.sinks[fmt.Sprintf("r%d", j)] = add(fmt.Sprintf("\tsink(r%d)", j))
		}
		for k := 0; k < n; k++ {
			if k != i && isPtrLike(ptypes[k]) {
				pm.sinks[fmt.Sprintf("a%d", k)] = add(fmt.Sprintf("\tsink(a%d)", k))
			} else if k != i {
				add(fmt.Sprintf("\t_ = a%d", k))
			}
		}
		add("}")
		add("")
		pm.lines = L
		metas = append(metas, pm)
		for p, a := range s.imports {
			allImports[p] = a
		}
		bodies = append(bodies, L)
	}
	if len(metas) == 0 {
		return nil, strings.TrimSpace(why)
	}
	fname := fmt.Sprintf("p%d.go", e.N)
	emit("package main")
	emit("")
	emit("// " + e.Key)
	emit("import (")
	var ip []string
	for p := range allImports {
		ip = append(ip, p)
	}
	sort.Strings(ip)
	for _, p := range ip {
		emit(fmt.Sprintf("\t%s %q", allImports[p], p))
	}
	emit(")")
	emit("")
	for _, pm := range metas {
		base := lines
		for _, l := range pm.lines {
			emit(l)
		}
		pr := probe{Entry: e.N, Key: e.Key, I: pm.i, File: fname, Func: fmt.Sprintf("p%d_%d", e.N, pm.i),
			Src: base + pm.src, Control: base + pm.control, Call: base + pm.call, Sinks: map[string]int{}}
		for t, l := range pm.sinks {
			pr.Sinks[t] = base + l
		}
		probes = append(probes, pr)
	}
	must(os.WriteFile(filepath.Join(pdir, fname), []byte(file.String()), 0o644))
	_ = token.NoPos
	return probes, strings.TrimSpace(why)
}
