// fgdump: runs the REAL taint / backtrace analysis of /repo on one program directory and dumps the linked
// inter-procedural dataflow graph as ndjson snapshots (C17):
//
//	stage "built"  after the intra-procedural pass + InterProceduralFlowGraph.BuildGraph (taint mode only)
//	stage "final"  after the visitor has run on every entry point
//	stage "step"   after EVERY summary construction that happens once the graph is linked (on-demand
//	               construction; hook dataflow.VerifOnSummaryConstructed, build tag verif): the summary that was
//	               just built in full, the summaries it is linked to as stubs
//
// Only public accessors of analysis/dataflow are used.  Node identities (pointers) are mapped to small integers
// per snapshot.  Nothing is decided here: the consistency property is evaluated by TLC on spec/FlowGraph.tla.
package main

import (
	"flag"
	"fmt"
	"os"
	"path/filepath"
	"runtime"
	"sort"
	"strings"

	"github.com/awslabs/ar-go-tools/analysis"
	"github.com/awslabs/ar-go-tools/analysis/annotations"
	"github.com/awslabs/ar-go-tools/analysis/backtrace"
	"github.com/awslabs/ar-go-tools/analysis/config"
	df "github.com/awslabs/ar-go-tools/analysis/dataflow"
	"github.com/awslabs/ar-go-tools/analysis/taint"
	"golang.org/x/tools/go/packages"
	"golang.org/x/tools/go/ssa"
	"verifharness/internal/hutil"
)

// ---- snapshot format (one JSON object per line) -----------------------------------------------------------------

type graphRec struct {
	Fn   string `json:"fn"`
	C    bool   `json:"c"`    // Constructed
	Pre  bool   `json:"pre"`  // IsPreSummarized
	Full bool   `json:"full"` // every node / edge / table of this summary is in the snapshot
	Reg  bool   `json:"reg"`  // FlowGraph.Summaries[Parent] is this summary (it is part of the graph's summary table)
	// link tables of the summary (for stub summaries: only the keys the full summaries refer to)
	Cs     [][2]int `json:"cs"`     // Callsites: site, registered call node
	Ref    [][2]int `json:"ref"`    // ReferringMakeClosures: make-closure instruction, registered closure node
	Rets   [][2]int `json:"rets"`   // tuple index, return node
	Params [][2]int `json:"params"` // position, parameter node
	Fvs    [][2]int `json:"fvs"`    // position, free-variable node
}

// nodeRec: k kind; g graph id; s site/instruction id (call site, make-closure, access instruction, if); p position
// (argument / bound variable / return tuple / parameter index); l link = graph id of CalleeSummary (call),
// ClosureSummary (closure), DestClosure (bound label), 0 when nil; m = for bound labels the id of the target
// MakeClosure instruction; gl global id; w IsWrite; par parent node (call of an arg, closure of a bound variable)
type nodeRec struct {
	K   string `json:"k"`
	G   int    `json:"g"`
	S   int    `json:"s"`
	P   int    `json:"p"`
	L   int    `json:"l"`
	M   int    `json:"m"`
	Gl  int    `json:"gl"`
	W   bool   `json:"w"`
	Par int    `json:"par"`
	// adjacency as recorded by the real code (nodes of Full summaries only)
	O   [][2]int `json:"o"`   // Out(): destination, tuple index   (one entry per EdgeInfo)
	I   [][2]int `json:"i"`   // In(): source, tuple index
	// the same two relations re-indexed by the other end point (used for graph search in the spec, which also
	// checks that they are a faithful re-indexing): ro = who records this node as an Out() destination,
	// ri = who records this node as an In() source
	Ro [][2]int `json:"ro"`
	Ri [][2]int `json:"ri"`
	Sub []int    `json:"sub"` // arguments of a call node / bound variables of a closure node, by position
}

type globRec struct {
	Name string `json:"name"`
	W    []int  `json:"w"` // WriteLocations
	R    []int  `json:"r"` // ReadLocations
}

type snapRec struct {
	Prog      string     `json:"prog"`
	Mode      string     `json:"mode"`
	OnDemand  bool       `json:"ondemand"`
	Stage     string     `json:"stage"`
	Seq       int        `json:"seq"`
	Focus     string     `json:"focus"` // step snapshots: the function whose summary was just constructed
	Graphs    []graphRec `json:"graphs"`
	Nodes     []nodeRec  `json:"nodes"`
	Globals   []globRec  `json:"globals"`
	Starts    []int      `json:"starts"` // sample of start nodes for the reachability comparison (final snapshots)
}

type descRec struct {
	Seq   int      `json:"seq"`
	Nodes []string `json:"nodes"`
	Sites []string `json:"sites"`
}

// ---- builder ----------------------------------------------------------------------------------------------------

type builder struct {
	state  *df.AnalyzerState
	snap   *snapRec
	desc   *descRec
	gid    map[*df.SummaryGraph]int
	nid    map[df.GraphNode]int
	sid    map[ssa.Instruction]int
	glid   map[*df.GlobalNode]int
	full   map[*df.SummaryGraph]bool
	glseen map[*df.GlobalNode]bool
	nedges int
}

func newBuilder(st *df.AnalyzerState, s *snapRec) *builder {
	return &builder{state: st, snap: s, desc: &descRec{Seq: s.Seq},
		gid: map[*df.SummaryGraph]int{}, nid: map[df.GraphNode]int{}, sid: map[ssa.Instruction]int{},
		glid: map[*df.GlobalNode]int{}, full: map[*df.SummaryGraph]bool{}, glseen: map[*df.GlobalNode]bool{}}
}

func (b *builder) graph(g *df.SummaryGraph) int {
	if g == nil {
		return 0
	}
	if id, ok := b.gid[g]; ok {
		return id
	}
	name := "?"
	if g.Parent != nil {
		name = g.Parent.String()
	}
	reg := g.Parent != nil && b.state != nil && b.state.FlowGraph.Summaries[g.Parent] == g
	b.snap.Graphs = append(b.snap.Graphs, graphRec{Fn: name, C: g.Constructed, Pre: g.IsPreSummarized, Reg: reg,
		Cs: [][2]int{}, Ref: [][2]int{}, Rets: [][2]int{}, Params: [][2]int{}, Fvs: [][2]int{}})
	b.gid[g] = len(b.snap.Graphs)
	return len(b.snap.Graphs)
}

func (b *builder) site(i ssa.Instruction) int {
	if i == nil || isNilInstr(i) {
		return 0
	}
	if id, ok := b.sid[i]; ok {
		return id
	}
	b.sid[i] = len(b.sid) + 1
	where := ""
	if i.Parent() != nil {
		where = i.Parent().String() + ": "
		if p := i.Parent().Prog; p != nil && i.Pos().IsValid() {
			pos := p.Fset.Position(i.Pos())
			where = fmt.Sprintf("%s:%d: %s", filepath.Base(pos.Filename), pos.Line, where)
		}
	}
	b.desc.Sites = append(b.desc.Sites, where+i.String())
	return b.sid[i]
}

func isNilInstr(i ssa.Instruction) (r bool) {
	defer func() {
		if recover() != nil {
			r = true
		}
	}()
	_ = i.Parent()
	return false
}

func isNilNode(n df.GraphNode) bool {
	switch x := n.(type) {
	case nil:
		return true
	case *df.ParamNode:
		return x == nil
	case *df.FreeVarNode:
		return x == nil
	case *df.CallNode:
		return x == nil
	case *df.CallNodeArg:
		return x == nil
	case *df.ReturnValNode:
		return x == nil
	case *df.ClosureNode:
		return x == nil
	case *df.BoundVarNode:
		return x == nil
	case *df.SyntheticNode:
		return x == nil
	case *df.BoundLabelNode:
		return x == nil
	case *df.AccessGlobalNode:
		return x == nil
	case *df.IfNode:
		return x == nil
	}
	return false
}

// node registers n (and, for dependent nodes, its parent) and returns its id.
func (b *builder) node(n df.GraphNode) int {
	if isNilNode(n) {
		return 0
	}
	if id, ok := b.nid[n]; ok {
		return id
	}
	// reserve the id first (parents may refer back)
	b.snap.Nodes = append(b.snap.Nodes, nodeRec{})
	id := len(b.snap.Nodes)
	b.nid[n] = id
	b.desc.Nodes = append(b.desc.Nodes, "")
	r := nodeRec{G: b.graph(n.Graph()), P: -1, O: [][2]int{}, I: [][2]int{}, Ro: [][2]int{}, Ri: [][2]int{}, Sub: []int{}}
	switch x := n.(type) {
	case *df.ParamNode:
		r.K, r.P = "param", x.Index()
	case *df.FreeVarNode:
		r.K, r.P = "freevar", x.Index()
	case *df.CallNode:
		r.K, r.S, r.L = "call", b.site(x.CallSite()), b.graph(x.CalleeSummary)
		for _, a := range x.Args() {
			r.Sub = append(r.Sub, b.node(a))
		}
	case *df.CallNodeArg:
		r.K, r.P = "arg", x.Index()
		r.Par = b.node(x.ParentNode())
		r.S = b.site(x.ParentNode().CallSite())
	case *df.ReturnValNode:
		r.K, r.P = "ret", x.Index()
	case *df.ClosureNode:
		r.K, r.S, r.L = "closure", b.site(x.Instr()), b.graph(x.ClosureSummary)
		for _, a := range x.BoundVars() {
			r.Sub = append(r.Sub, b.node(a))
		}
	case *df.BoundVarNode:
		r.K, r.P = "boundvar", x.Index()
		r.Par = b.node(x.ParentNode())
		r.S = b.site(x.ParentNode().Instr())
	case *df.SyntheticNode:
		r.K, r.S = "synthetic", b.site(x.Instr())
	case *df.BoundLabelNode:
		r.K, r.S, r.L = "boundlabel", b.site(x.Instr()), b.graph(x.DestClosure())
		r.P = x.Index()
		if mc := x.DestInfo().MakeClosure; mc != nil {
			r.M = b.site(mc)
		}
	case *df.AccessGlobalNode:
		r.K, r.S, r.W = "global", b.site(x.Instr()), x.IsWrite
		r.Gl = b.global(x.Global)
	case *df.IfNode:
		r.K, r.S = "if", b.site(x.SsaNode())
	default:
		r.K = fmt.Sprintf("%T", n)
	}
	b.snap.Nodes[id-1] = r
	b.desc.Nodes[id-1] = describe(n)
	return id
}

func describe(n df.GraphNode) (s string) {
	defer func() {
		if recover() != nil {
			s = fmt.Sprintf("%T", n)
		}
	}()
	fn := "?"
	if g := n.Graph(); g != nil && g.Parent != nil {
		fn = g.Parent.String()
	}
	return strings.TrimPrefix(fmt.Sprintf("%T", n), "*dataflow.") + " in " + fn + ": " + strings.Trim(n.String(), "\"")
}

func (b *builder) global(g *df.GlobalNode) int {
	if g == nil {
		return 0
	}
	if id, ok := b.glid[g]; ok {
		return id
	}
	b.snap.Globals = append(b.snap.Globals, globRec{Name: g.Value().String(), W: []int{}, R: []int{}})
	b.glid[g] = len(b.snap.Globals)
	return len(b.snap.Globals)
}

func allNodes(g *df.SummaryGraph, f func(df.GraphNode)) {
	g.ForAllNodes(func(n df.GraphNode) {
		if !isNilNode(n) {
			f(n)
		}
	})
	for _, n := range g.Ifs { // ForAllNodes does not visit the If nodes
		if n != nil {
			f(n)
		}
	}
}

// addFull dumps every node, edge and table of g.
func (b *builder) addFull(g *df.SummaryGraph) {
	if g == nil || g.Parent == nil || b.full[g] {
		return
	}
	b.full[g] = true
	gi := b.graph(g)
	b.snap.Graphs[gi-1].Full = true
	var nodes []df.GraphNode
	seen := map[df.GraphNode]bool{}
	allNodes(g, func(n df.GraphNode) {
		if !seen[n] { // a return node is shared by all return instructions
			seen[n] = true
			nodes = append(nodes, n)
		}
	})
	for _, n := range nodes {
		b.node(n)
	}
	for _, n := range nodes {
		id := b.node(n)
		o, in := [][2]int{}, [][2]int{}
		for dst, infos := range n.Out() {
			for _, e := range infos {
				di := b.node(dst)
				o = append(o, [2]int{di, e.Index})
				if di > 0 {
					b.snap.Nodes[di-1].Ro = append(b.snap.Nodes[di-1].Ro, [2]int{id, e.Index})
				}
			}
		}
		for src, e := range n.In() {
			si := b.node(src)
			in = append(in, [2]int{si, e.Index})
			if si > 0 {
				b.snap.Nodes[si-1].Ri = append(b.snap.Nodes[si-1].Ri, [2]int{id, e.Index})
			}
		}
		b.snap.Nodes[id-1].O = o
		b.snap.Nodes[id-1].I = in
		b.nedges += len(o)
	}
	b.tables(g, nil)
}

// tables dumps the link tables of g.  When only != nil, the call-site / referring tables are restricted to the keys
// in only (stub summaries: just what the full summaries refer to).
func (b *builder) tables(g *df.SummaryGraph, only map[ssa.Instruction]bool) {
	gi := b.graph(g)
	for site, cn := range g.Callsites {
		if only != nil && !only[site] {
			continue
		}
		e := [2]int{b.site(site), b.node(cn)}
		b.snap.Graphs[gi-1].Cs = append(b.snap.Graphs[gi-1].Cs, e)
	}
	for instr, cl := range g.ReferringMakeClosures {
		if only != nil && !only[instr] {
			continue
		}
		e := [2]int{b.site(instr), b.node(cl)}
		b.snap.Graphs[gi-1].Ref = append(b.snap.Graphs[gi-1].Ref, e)
	}
	if len(b.snap.Graphs[gi-1].Rets)+len(b.snap.Graphs[gi-1].Params)+len(b.snap.Graphs[gi-1].Fvs) > 0 {
		return // positional tables already dumped
	}
	seenRet := map[*df.ReturnValNode]bool{}
	for _, tup := range g.Returns {
		for _, r := range tup {
			if r != nil && !seenRet[r] {
				seenRet[r] = true
				e := [2]int{r.Index(), b.node(r)}
				b.snap.Graphs[gi-1].Rets = append(b.snap.Graphs[gi-1].Rets, e)
			}
		}
	}
	for _, p := range g.Params {
		e := [2]int{p.Index(), b.node(p)}
		b.snap.Graphs[gi-1].Params = append(b.snap.Graphs[gi-1].Params, e)
	}
	for _, p := range g.FreeVars {
		e := [2]int{p.Index(), b.node(p)}
		b.snap.Graphs[gi-1].Fvs = append(b.snap.Graphs[gi-1].Fvs, e)
	}
}

// finish: adds stubs for everything the full summaries are linked to, and the global location sets.
func (b *builder) finish() {
	// keys of full summaries that stub tables must answer for
	keys := map[*df.SummaryGraph]map[ssa.Instruction]bool{}
	want := func(g *df.SummaryGraph, i ssa.Instruction) {
		if g == nil || b.full[g] || i == nil {
			return
		}
		if keys[g] == nil {
			keys[g] = map[ssa.Instruction]bool{}
		}
		keys[g][i] = true
	}
	var fulls []*df.SummaryGraph
	for g := range b.full {
		fulls = append(fulls, g)
	}
	for _, g := range fulls {
		for site, m := range g.Callees {
			for _, cn := range m {
				want(cn.CalleeSummary, site)
			}
		}
		for instr, cl := range g.CreatedClosures {
			want(cl.ClosureSummary, instr)
		}
		for _, grp := range g.BoundLabelNodes {
			for _, bl := range grp {
				if mc := bl.DestInfo().MakeClosure; mc != nil {
					want(bl.DestClosure(), mc)
				}
			}
		}
		// the nodes registered in g's own tables live in other summaries: they are stub nodes (node() records
		// their kind, site and link, which is all the converse checks need)
	}
	for g, ks := range keys {
		b.tables(g, ks)
	}
	// globals: every global touched by a full summary
	for _, g := range fulls {
		for _, grp := range g.AccessGlobalNodes {
			for _, an := range grp {
				b.globalSets(an.Global)
			}
		}
	}
}

func (b *builder) globalSets(gn *df.GlobalNode) {
	if gn == nil || b.glseen[gn] {
		return
	}
	b.glseen[gn] = true
	gi := b.global(gn)
	w, r := []int{}, []int{}
	for n := range gn.WriteLocations {
		w = append(w, b.node(n))
	}
	for n := range gn.ReadLocations {
		r = append(r, b.node(n))
	}
	sort.Ints(w)
	sort.Ints(r)
	b.snap.Globals[gi-1].W = w
	b.snap.Globals[gi-1].R = r
}


func norm(s *snapRec) {
	if s.Graphs == nil {
		s.Graphs = []graphRec{}
	}
	if s.Nodes == nil {
		s.Nodes = []nodeRec{}
	}
	if s.Globals == nil {
		s.Globals = []globRec{}
	}
	if s.Starts == nil {
		s.Starts = []int{}
	}
}

// ---- dumper -----------------------------------------------------------------------------------------------------

type dumper struct {
	out, desc *hutil.Out
	prog      string
	mode      string
	ondemand  bool
	seq       int
	steps     int
	maxSteps  int
	maxNodes  int
	skipSteps int
	skipBig   int
	skipDummy int
	nstarts   int
	seed      int64
	panicked  bool
}

func (d *dumper) emit(b *builder) {
	norm(b.snap)
	d.out.Put(b.snap)
	d.desc.Put(b.desc)
}

func sortedSummaries(st *df.AnalyzerState) []*df.SummaryGraph {
	var l []*df.SummaryGraph
	for _, g := range st.FlowGraph.Summaries {
		if g != nil && g.Parent != nil {
			l = append(l, g)
		}
	}
	sort.Slice(l, func(i, j int) bool {
		a, b := l[i].Parent.String(), l[j].Parent.String()
		if a != b {
			return a < b
		}
		return l[i].ID < l[j].ID
	})
	return l
}

// fullSnapshot dumps the whole linked graph: every constructed summary and every non-constructed summary that has
// at least one link; non-constructed summaries beyond maxDummy nodes in total are dumped as stubs and counted.
func (d *dumper) fullSnapshot(st *df.AnalyzerState, stage string) {
	d.seq++
	s := &snapRec{Prog: d.prog, Mode: d.mode, OnDemand: d.ondemand, Stage: stage, Seq: d.seq}
	b := newBuilder(st, s)
	budget := d.maxNodes
	all := true
	for _, g := range sortedSummaries(st) {
		if g.Constructed {
			b.addFull(g)
		}
	}
	// non-constructed ("dummy") summaries carry links but no edges: a seeded sample of them within the node budget
	dummies := []*df.SummaryGraph{}
	for _, g := range sortedSummaries(st) {
		if !g.Constructed {
			dummies = append(dummies, g)
		}
	}
	hk := func(g *df.SummaryGraph) uint64 {
		h := uint64(1469598103934665603) ^ uint64(d.seed)*0x9E3779B97F4A7C15
		for _, c := range []byte(g.Parent.String()) {
			h = (h ^ uint64(c)) * 1099511628211
		}
		return h
	}
	sort.SliceStable(dummies, func(i, j int) bool { return hk(dummies[i]) < hk(dummies[j]) })
	for _, g := range dummies {
		if len(b.snap.Nodes) > budget {
			d.skipDummy++
			all = false
			continue
		}
		b.addFull(g)
	}
	b.finish()
	_ = all
	// sample of start nodes for the reachability comparison: deterministic in (seed, description order)
	if stage == "final" {
		type cand struct {
			id int
			d  string
		}
		var cs []cand
		deg := map[int]int{}
		for id, n := range s.Nodes {
			for _, e := range n.O {
				deg[id+1]++
				deg[e[0]]++
			}
		}
		for id := range s.Nodes {
			if deg[id+1] > 0 {
				cs = append(cs, cand{id + 1, b.desc.Nodes[id]})
			}
		}
		sort.Slice(cs, func(i, j int) bool {
			if cs[i].d != cs[j].d {
				return cs[i].d < cs[j].d
			}
			return cs[i].id < cs[j].id
		})
		x := uint64(d.seed)*2654435761 + 12345
		for k := 0; k < d.nstarts && len(cs) > 0; k++ {
			x = x*6364136223846793005 + 1442695040888963407
			s.Starts = append(s.Starts, cs[int((x>>33)%uint64(len(cs)))].id)
		}
	}
	d.emit(b)
}

func (d *dumper) stepSnapshot(st *df.AnalyzerState, sm *df.SummaryGraph) {
	d.steps++
	if d.steps > d.maxSteps {
		d.skipSteps++
		return
	}
	n := 0
	allNodes(sm, func(df.GraphNode) { n++ })
	if n > d.maxNodes {
		d.skipBig++
		return
	}
	d.seq++
	s := &snapRec{Prog: d.prog, Mode: d.mode, OnDemand: d.ondemand, Stage: "step", Seq: d.seq, Focus: sm.Parent.String()}
	b := newBuilder(st, s)
	b.addFull(sm)
	// linked summaries in full as long as the budget allows (callees, callers, closures, creators)
	var linked []*df.SummaryGraph
	add := func(g *df.SummaryGraph) {
		if g != nil && g.Parent != nil && !b.full[g] {
			linked = append(linked, g)
		}
	}
	for _, m := range sm.Callees {
		for _, cn := range m {
			add(cn.CalleeSummary)
		}
	}
	for _, cn := range sm.Callsites {
		add(cn.Graph())
	}
	for _, cl := range sm.CreatedClosures {
		add(cl.ClosureSummary)
	}
	for _, cl := range sm.ReferringMakeClosures {
		add(cl.Graph())
	}
	// the converse direction: every summary that has a call / closure node linked TO the summary just built
	for _, g := range st.FlowGraph.Summaries {
		if g == nil || g == sm {
			continue
		}
		hit := false
		for _, m := range g.Callees {
			for _, cn := range m {
				if cn.CalleeSummary == sm {
					hit = true
				}
			}
		}
		for _, cl := range g.CreatedClosures {
			if cl.ClosureSummary == sm {
				hit = true
			}
		}
		if hit {
			add(g)
		}
	}
	sort.Slice(linked, func(i, j int) bool { return linked[i].Parent.String() < linked[j].Parent.String() })
	for _, g := range linked {
		if b.full[g] {
			continue
		}
		k := 0
		allNodes(g, func(df.GraphNode) { k++ })
		if len(b.snap.Nodes)+k > d.maxNodes/4 {
			continue // stays a stub
		}
		b.addFull(g)
	}
	b.finish()
	d.emit(b)
}

// ---- program loading --------------------------------------------------------------------------------------------

func load(dir string) (*ssa.Program, []*packages.Package, *config.Config, error) {
	var patterns []string
	if _, err := os.Stat(filepath.Join(dir, "go.mod")); err == nil {
		patterns = []string{"."}
	} else {
		files, _ := filepath.Glob(filepath.Join(dir, "*.go"))
		sort.Strings(files)
		for _, f := range files {
			if strings.HasSuffix(f, "_test.go") {
				continue
			}
			abs, _ := filepath.Abs(f)
			patterns = append(patterns, "file="+abs)
		}
	}
	if len(patterns) == 0 {
		return nil, nil, nil, fmt.Errorf("no go files in %s", dir)
	}
	pcfg := &packages.Config{Mode: analysis.PkgLoadMode, Tests: false, Dir: dir}
	prog, pkgs, err := analysis.LoadProgram(analysis.LoadProgramOptions{
		BuildMode:     ssa.InstantiateGenerics,
		ApplyRewrites: false,
		PackageConfig: pcfg,
	}, patterns)
	if err != nil {
		return nil, nil, nil, err
	}
	var cfg *config.Config
	for _, name := range []string{"config.yaml", "config.json"} {
		p := filepath.Join(dir, name)
		if _, e := os.Stat(p); e == nil {
			cfg, err = config.LoadFromFiles(p)
			if err != nil {
				return nil, nil, nil, err
			}
			break
		}
	}
	if cfg == nil {
		return nil, nil, nil, fmt.Errorf("no config in %s", dir)
	}
	return prog, pkgs, cfg, nil
}

// ---- the analyses, exactly as taint.Analyze / backtrace.Analyze sequence them ----------------------------------------

func runTaint(d *dumper, cfg *config.Config, prog *ssa.Program, pkgs []*packages.Package) error {
	numRoutines := runtime.NumCPU() - 1
	if numRoutines <= 0 {
		numRoutines = 1
	}
	state, err := df.NewInitializedAnalyzerState(prog, pkgs, config.NewLogGroup(cfg), cfg)
	if err != nil {
		return err
	}
	if err := taint.AnalysisPreamble(state); err != nil {
		return err
	}
	df.VerifOnSummaryConstructed = func(a *df.AnalyzerState, sm *df.SummaryGraph) {
		if a != state || !a.FlowGraph.IsBuilt() {
			return // the parallel eager pass: the graph is not linked yet
		}
		d.stepSnapshot(a, sm)
	}
	analysis.RunIntraProceduralPass(state, numRoutines, analysis.IntraAnalysisParams{
		ShouldBuildSummary: df.ShouldBuildSummary,
		ShouldTrack:        taint.IsNodeOfInterest,
	})
	tags := map[string]bool{}
	state.Annotations.Iter(func(a annotations.Annotation) {
		if a.Kind == annotations.Source {
			for _, key := range a.Tags {
				if !tags[key] {
					found := false
					for _, spec := range state.Config.TaintTrackingProblems {
						if spec.Tag == key {
							found = true
						}
					}
					if !found {
						state.Config.TaintTrackingProblems = append(state.Config.TaintTrackingProblems, config.TaintSpec{Tag: key})
					}
					tags[key] = true
				}
			}
		}
	})
	for i := range state.Config.TaintTrackingProblems {
		taintSpec := state.Config.TaintTrackingProblems[i]
		if !state.TestAlarmCount() {
			break
		}
		prev := map[string]string{}
		for name, value := range state.Annotations.Configs[taintSpec.Tag] {
			if pv, err := config.SetOption(state.Config, name, value); err == nil {
				prev[name] = pv
			}
		}
		visitor := taint.NewVisitor(&taintSpec)
		g := state.FlowGraph
		// == InterProceduralFlowGraph.BuildAndRunVisitor, with snapshots between its two steps
		if !(state.Config.SkipInterprocedural || (!state.Config.SummarizeOnDemand && len(g.Summaries) == 0)) {
			g.BuildGraph()
			d.fullSnapshot(state, "built")
			g.RunVisitorOnEntryPoints(visitor, func(node ssa.Node) bool { return taint.IsSourceNode(state, &taintSpec, node) }, nil)
			d.fullSnapshot(state, "final")
		}
		for name, value := range prev {
			_, _ = config.SetOption(state.Config, name, value)
		}
	}
	return nil
}

func runBacktrace(d *dumper, cfg *config.Config, prog *ssa.Program, pkgs []*packages.Package) error {
	var state *df.AnalyzerState
	df.VerifOnSummaryConstructed = func(a *df.AnalyzerState, sm *df.SummaryGraph) {
		if !a.FlowGraph.IsBuilt() {
			return
		}
		state = a
		d.stepSnapshot(a, sm)
	}
	if len(cfg.SlicingProblems) == 0 {
		// the repository's own tests do the same: backtrace points = the sinks of the taint problems
		ss := config.SlicingSpec{}
		for _, ts := range cfg.TaintTrackingProblems {
			ss.BacktracePoints = append(ss.BacktracePoints, ts.Sinks...)
		}
		if len(ss.BacktracePoints) > 0 {
			cfg.SlicingProblems = []config.SlicingSpec{ss}
		}
	}
	var res backtrace.AnalysisResult
	var err error
	func() {
		defer func() {
			if r := recover(); r != nil {
				err = fmt.Errorf("analysis panicked: %v", r)
				d.panicked = true
			}
		}()
		res, err = backtrace.Analyze(config.NewLogGroup(cfg), cfg, prog, pkgs)
	}()
	if res.Graph.AnalyzerState != nil {
		state = res.Graph.AnalyzerState
	}
	if state == nil {
		if err != nil {
			return err
		}
		return fmt.Errorf("backtrace: no analyzer state")
	}
	d.fullSnapshot(state, "final") // also after a panic of the visitor: the graph it left behind is what later passes would see
	if d.panicked {
		return err
	}
	return nil // errors of the analysis itself (reported traces etc.) are not this check's business
}

func main() {
	dir := flag.String("dir", ".", "program directory (go files + config.yaml)")
	out := flag.String("out", "-", "snapshots (ndjson)")
	desc := flag.String("desc", "", "node / site descriptions (ndjson, not read by TLC)")
	mode := flag.String("mode", "taint", "taint | backtrace")
	ondemand := flag.Bool("ondemand", false, "summarize-on-demand")
	name := flag.String("name", "", "program name in the records")
	maxSteps := flag.Int("maxsteps", 300, "maximal number of step snapshots")
	maxNodes := flag.Int("maxnodes", 20000, "node budget of one snapshot")
	nstarts := flag.Int("starts", 12, "start nodes sampled per final snapshot")
	seed := flag.Int64("seed", 1, "seed of the start-node sample")
	flag.Parse()
	if *name == "" {
		*name = filepath.Base(*dir)
	}
	if *desc == "" {
		*desc = *out + ".desc"
	}
	prog, pkgs, cfg, err := load(*dir)
	if err != nil {
		fmt.Fprintln(os.Stderr, "fgdump: load:", err)
		os.Exit(3)
	}
	cfg.SummarizeOnDemand = *ondemand
	cfg.LogLevel = int(config.ErrLevel)
	cfg.ReportSummaries, cfg.ReportCoverage, cfg.ReportPaths, cfg.ReportNoCalleeSites = false, false, false, false
	d := &dumper{out: hutil.NewOut(*out), desc: hutil.NewOut(*desc), prog: *name, mode: *mode, ondemand: *ondemand,
		maxSteps: *maxSteps, maxNodes: *maxNodes, nstarts: *nstarts, seed: *seed}
	func() {
		defer func() {
			if r := recover(); r != nil {
				err = fmt.Errorf("analysis panicked: %v", r)
			}
		}()
		if *mode == "backtrace" {
			err = runBacktrace(d, cfg, prog, pkgs)
		} else {
			err = runTaint(d, cfg, prog, pkgs)
		}
	}()
	d.out.Close()
	d.desc.Close()
	fmt.Fprintf(os.Stderr, "fgdump: %s mode=%s ondemand=%v snapshots=%d steps=%d skipped_steps=%d skipped_big=%d stubbed_dummies=%d\n",
		*name, *mode, *ondemand, d.seq, d.steps, d.skipSteps, d.skipBig, d.skipDummy)
	if err != nil {
		fmt.Fprintln(os.Stderr, "fgdump: analysis:", err)
		os.Exit(4)
	}
}
