// codeid: C04 binding.  Loads ONE multi-package Go module (exactly like the argot CLI does) and, for every
// case of a batch (a case = role + a config yaml holding ONE code-identifier specification), runs the REAL
// analyses on it and records, per case, what the real code classified:
//
//	taint roles (source, sink, sanitizer, validator): the flows reported by taint.Analyze as
//	    (source file:line, sink file:line) pairs, and the analysis entry points selected by the real entry
//	    point scan (InterProceduralFlowGraph.RunVisitorOnEntryPoints with the real taint.IsSourceNode and a
//	    recording visitor);
//	backtracepoint: the call sites for which backtrace.Analyze produced traces, and the entry points selected
//	    by the real scan with backtrace.IsInterProceduralEntryPoint.
//
// Nothing is decided here: the ndjson goes to TLC (spec/CodeId.tla).
package main

import (
	"encoding/json"
	"flag"
	"fmt"
	"go/token"
	"os"
	"path/filepath"
	"sort"
	"strings"

	"github.com/awslabs/ar-go-tools/analysis/backtrace"
	"github.com/awslabs/ar-go-tools/analysis/config"
	"github.com/awslabs/ar-go-tools/analysis/dataflow"
	"github.com/awslabs/ar-go-tools/analysis/taint"
	"golang.org/x/tools/go/packages"
	"golang.org/x/tools/go/ssa"
	"verifharness/internal/hutil"
)

type caseIn struct {
	ID     string `json:"id"`
	Role   string `json:"role"`
	Config string `json:"config"`
}

type pos struct {
	F string `json:"f"`
	L int    `json:"l"`
}

type flow struct {
	Src pos `json:"src"`
	Snk pos `json:"snk"`
}

type caseOut struct {
	ID      string `json:"id"`
	Role    string `json:"role"`
	Flows   []flow `json:"flows"`
	Entries []pos  `json:"entries"`
	Traced  []pos  `json:"traced"`
	Err     string `json:"err"`
	Panic   string `json:"panic"`
}

type recorder struct {
	root string
	fset *token.FileSet
	got  map[pos]bool
}

func (r *recorder) Visit(s *dataflow.AnalyzerState, e dataflow.NodeWithTrace) {
	p := e.Node.Position(s)
	if in := dataflow.Instr(e.Node); in != nil && in.Pos().IsValid() {
		p = r.fset.Position(in.Pos())
	}
	r.got[mkpos(r.root, p)] = true
}

func mkpos(root string, p token.Position) pos {
	f := p.Filename
	if rel, err := filepath.Rel(root, f); err == nil && !strings.HasPrefix(rel, "..") {
		f = rel
	}
	return pos{f, p.Line}
}

func sortPos(m map[pos]bool) []pos {
	out := []pos{}
	for p := range m {
		out = append(out, p)
	}
	sort.Slice(out, func(i, j int) bool {
		if out[i].F != out[j].F {
			return out[i].F < out[j].F
		}
		return out[i].L < out[j].L
	})
	return out
}

func instrPos(fset *token.FileSet, root string, in ssa.Instruction) pos {
	if in == nil {
		return pos{"?", 0}
	}
	return mkpos(root, fset.Position(in.Pos()))
}

func runCase(c caseIn, root string, prog *ssa.Program, pkgs []*packages.Package) (out caseOut) {
	out = caseOut{ID: c.ID, Role: c.Role, Flows: []flow{}, Entries: []pos{}, Traced: []pos{}}
	defer func() {
		if e := recover(); e != nil {
			out.Panic = fmt.Sprint(e)
		}
	}()
	cfg, err := config.Load(filepath.Join(root, "config-"+c.ID+".yaml"), []byte(c.Config))
	if err != nil {
		out.Err = "config: " + err.Error()
		return
	}
	cfg.LogLevel = int(config.ErrLevel)
	cfg.SilenceWarn = true
	if c.Role == "backtracepoint" {
		res, err := backtrace.Analyze(config.NewLogGroup(cfg), cfg, prog, pkgs)
		if err != nil {
			out.Err = err.Error()
		}
		traced := map[pos]bool{}
		for entry, traces := range res.Traces {
			if len(traces) == 0 {
				continue
			}
			traced[instrPos(prog.Fset, root, dataflow.Instr(entry))] = true
		}
		out.Traced = sortPos(traced)
		st := res.Graph.AnalyzerState
		if st != nil && len(cfg.SlicingProblems) > 0 {
			rec := &recorder{root, prog.Fset, map[pos]bool{}}
			ss := &cfg.SlicingProblems[0]
			g := res.Graph
			g.RunVisitorOnEntryPoints(rec, func(n ssa.Node) bool {
				return backtrace.IsInterProceduralEntryPoint(st, ss, n)
			}, nil)
			out.Entries = sortPos(rec.got)
		}
		return
	}
	res, err := taint.Analyze(cfg, prog, pkgs)
	if err != nil {
		out.Err = err.Error()
	}
	if res.TaintFlows != nil {
		seen := map[flow]bool{}
		for snk, srcs := range res.TaintFlows.Sinks {
			for src := range srcs {
				f := flow{instrPos(prog.Fset, root, src.Instr), instrPos(prog.Fset, root, snk.Instr)}
				if !seen[f] {
					seen[f] = true
					out.Flows = append(out.Flows, f)
				}
			}
		}
		sort.Slice(out.Flows, func(i, j int) bool {
			a, b := out.Flows[i], out.Flows[j]
			return fmt.Sprint(a) < fmt.Sprint(b)
		})
	}
	if res.State != nil && len(res.State.Config.TaintTrackingProblems) > 0 {
		st := res.State
		rec := &recorder{root, prog.Fset, map[pos]bool{}}
		ts := &st.Config.TaintTrackingProblems[0]
		st.FlowGraph.RunVisitorOnEntryPoints(rec, func(n ssa.Node) bool {
			return taint.IsSourceNode(st, ts, n)
		}, nil)
		out.Entries = sortPos(rec.got)
	}
	return
}

func main() {
	dir := flag.String("dir", ".", "module directory")
	casesPath := flag.String("cases", "", "ndjson of cases {id, role, config}")
	outPath := flag.String("out", "-", "output ndjson")
	flag.Parse()
	root, _ := filepath.Abs(*dir)
	if r2, err := filepath.EvalSymlinks(root); err == nil {
		root = r2
	}
	prog, pkgs, err := hutil.Load(root, false, flag.Args()...)
	if err != nil {
		fmt.Fprintln(os.Stderr, "load:", err)
		os.Exit(2)
	}
	data, err := os.ReadFile(*casesPath)
	if err != nil {
		fmt.Fprintln(os.Stderr, err)
		os.Exit(2)
	}
	o := hutil.NewOut(*outPath)
	defer o.Close()
	n := 0
	for _, line := range strings.Split(string(data), "\n") {
		line = strings.TrimSpace(line)
		if line == "" {
			continue
		}
		var c caseIn
		if err := json.Unmarshal([]byte(line), &c); err != nil {
			fmt.Fprintln(os.Stderr, "bad case:", err)
			os.Exit(2)
		}
		o.Put(runCase(c, root, prog, pkgs))
		n++
	}
	fmt.Fprintf(os.Stderr, "codeid: %d cases\n", n)
}
