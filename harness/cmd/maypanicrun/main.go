// maypanicrun: runs the REAL `argot maypanic` front end (cmd/argot/maypanic.NewFlags + Run, i.e. exactly what the
// CLI dispatches to: LoadProgram with rewrites, MakeAbsolute of the -exclude paths, maypanic.MayPanicAnalyzer) on
// the module in -dir, with the working directory set to that module as a user would, captures the JSON it prints on
// stdout and writes one ndjson record for the program: the findings (entry function name and position, creation
// sites) with file names relative to the module directory, or the panic the tool died of.
//
//	maypanicrun -dir <module dir> -prog <id> -out <file> -- -exclude lib -exclude libs/ .
package main

import (
	"encoding/json"
	"flag"
	"fmt"
	"io"
	"os"
	"path/filepath"
	"runtime/debug"
	"strings"

	mp "github.com/awslabs/ar-go-tools/cmd/argot/maypanic"
	"verifharness/internal/hutil"
)

type loc struct {
	File string `json:"file"`
	Line int    `json:"line"`
}
type finding struct {
	Fn       string `json:"fn"`
	Desc     string `json:"desc"`
	File     string `json:"file"`
	Line     int    `json:"line"`
	Creators []loc  `json:"creators"`
}
type rec struct {
	Prog     int       `json:"prog"`
	Ok       bool      `json:"ok"`      // the front end returned normally and printed a JSON list
	Crash    string    `json:"crash"`   // panic value + stack if the tool panicked
	Err      string    `json:"err"`     // error returned by Run / output that is not JSON
	Findings []finding `json:"findings"`
	Raw      int       `json:"raw"` // number of findings before relativising
}

// what the tool prints with -json
type toolLoc struct {
	Function string
	Filename string
	Line     int
	Column   int
}
type toolFinding struct {
	Description string
	GoRoutine   toolLoc
	Creators    []toolLoc
}

func rel(root, f string) string {
	if r, err := filepath.Rel(root, f); err == nil && !strings.HasPrefix(r, "..") {
		return filepath.ToSlash(r)
	}
	return f
}

func main() {
	dir := flag.String("dir", ".", "module directory (becomes the working directory)")
	prog := flag.Int("prog", 0, "program id copied to the record")
	out := flag.String("out", "-", "output ndjson")
	flag.Parse()
	abs, err := filepath.Abs(*dir)
	if err != nil {
		fmt.Fprintln(os.Stderr, err)
		os.Exit(2)
	}
	if r, err := filepath.EvalSymlinks(abs); err == nil {
		abs = r
	}
	outPath := *out
	if outPath != "-" {
		outPath, _ = filepath.Abs(outPath)
	}
	if err := os.Chdir(abs); err != nil {
		fmt.Fprintln(os.Stderr, err)
		os.Exit(2)
	}
	args := append([]string{"-json"}, flag.Args()...)

	// capture what the tool prints on stdout
	tmp, err := os.CreateTemp("", "maypanicrun")
	if err != nil {
		fmt.Fprintln(os.Stderr, err)
		os.Exit(2)
	}
	defer os.Remove(tmp.Name())
	saved := os.Stdout
	os.Stdout = tmp
	r := rec{Prog: *prog, Findings: []finding{}}
	func() {
		defer func() {
			if e := recover(); e != nil {
				r.Crash = fmt.Sprintf("%v\n%s", e, debug.Stack())
			}
		}()
		flags, err := mp.NewFlags(args)
		if err != nil {
			r.Err = err.Error()
			return
		}
		if err := mp.Run(flags); err != nil {
			r.Err = err.Error()
		}
	}()
	os.Stdout = saved
	tmp.Seek(0, 0)
	raw, _ := io.ReadAll(tmp)
	tmp.Close()
	if r.Crash == "" && r.Err == "" {
		var fs []toolFinding
		txt := strings.TrimSpace(string(raw))
		if err := json.Unmarshal([]byte(txt), &fs); err != nil {
			r.Err = "output is not a JSON list: " + err.Error() + ": " + txt[:min(len(txt), 300)]
		} else {
			r.Ok = true
			r.Raw = len(fs)
			for _, f := range fs {
				x := finding{Fn: f.GoRoutine.Function, Desc: f.Description, File: rel(abs, f.GoRoutine.Filename),
					Line: f.GoRoutine.Line, Creators: []loc{}}
				for _, c := range f.Creators {
					x.Creators = append(x.Creators, loc{rel(abs, c.Filename), c.Line})
				}
				r.Findings = append(r.Findings, x)
			}
		}
	}
	o := hutil.NewOut(outPath)
	o.Put(r)
	o.Close()
}
