// optrun (C05 / C06) runs the REAL taint.Analyze / backtrace.Analyze on program directories under a list of
// configuration files and records the canonicalised result sets.
//
//	optrun -dir <module> -patterns ./p1,./p2 -taint a.yaml,b.yaml -backtrace c.yaml -repeat N -out res.ndjson
//
// Every pattern is loaded on its own (one analysed program per load, as the CLI does); every configuration is run
// `repeat` times on the loaded program (in-process repetition).  The configuration files are used exactly as written
// (log-level, reports-dir, report-* and max-alarms are options under test): nothing is overridden.  One record per
// (pattern, configuration, repetition):
//
//	{"prog","cfg","kind","rep","flows":["file:line>file:line"],"escapes":[...],"traces":["origin>entry#arg"],
//	 "err","panic","ms"}
package main

import (
	"flag"
	"fmt"
	"os"
	"path/filepath"
	"runtime"
	"runtime/debug"
	"sort"
	"strings"
	"time"

	"github.com/awslabs/ar-go-tools/analysis/backtrace"
	"github.com/awslabs/ar-go-tools/analysis/config"
	"github.com/awslabs/ar-go-tools/analysis/dataflow"
	"github.com/awslabs/ar-go-tools/analysis/taint"
	"golang.org/x/tools/go/packages"
	"golang.org/x/tools/go/ssa"
	"verifharness/internal/hutil"
)

type rec struct {
	Prog    string   `json:"prog"`
	Cfg     string   `json:"cfg"`
	Kind    string   `json:"kind"` // taint | backtrace | load
	Rep     int      `json:"rep"`
	Flows   []string `json:"flows"`
	Escapes []string `json:"escapes"`
	Traces  []string `json:"traces"`
	Err     string   `json:"err"`
	Panic   string   `json:"panic"`
	Ms      int64    `json:"ms"`
	NumCPU  int      `json:"numcpu"`
	Procs   int      `json:"gomaxprocs"`
}

func pos(prog *ssa.Program, instr ssa.Instruction) string {
	if instr == nil {
		return "?"
	}
	p, ok := taint.Position(prog, instr)
	if !ok {
		return "?"
	}
	return fmt.Sprintf("%s/%s:%d", filepath.Base(filepath.Dir(p.Filename)), filepath.Base(p.Filename), p.Line)
}

func uniq(xs []string) []string {
	sort.Strings(xs)
	out := xs[:0]
	for i, x := range xs {
		if i == 0 || x != xs[i-1] {
			out = append(out, x)
		}
	}
	return out
}

func runTaint(prog *ssa.Program, pkgs []*packages.Package, cfgPath string, r *rec) {
	defer func() {
		if e := recover(); e != nil {
			r.Panic = fmt.Sprintf("%v\n%s", e, debug.Stack())
		}
	}()
	cfg, err := config.LoadFromFiles(cfgPath)
	if err != nil {
		r.Err = "config: " + err.Error()
		return
	}
	res, err := taint.Analyze(cfg, prog, pkgs)
	if err != nil {
		r.Err = err.Error()
	}
	if res.TaintFlows == nil {
		return
	}
	for sink, sources := range res.TaintFlows.Sinks {
		for source := range sources {
			r.Flows = append(r.Flows, pos(prog, source.Instr)+">"+pos(prog, sink.Instr))
		}
	}
	for esc, sources := range res.TaintFlows.Escapes {
		for source := range sources {
			r.Escapes = append(r.Escapes, pos(prog, source)+">"+pos(prog, esc))
		}
	}
	r.Flows, r.Escapes = uniq(r.Flows), uniq(r.Escapes)
}

func runBacktrace(prog *ssa.Program, pkgs []*packages.Package, cfgPath string, r *rec) {
	defer func() {
		if e := recover(); e != nil {
			r.Panic = fmt.Sprintf("%v\n%s", e, debug.Stack())
		}
	}()
	cfg, err := config.LoadFromFiles(cfgPath)
	if err != nil {
		r.Err = "config: " + err.Error()
		return
	}
	res, err := backtrace.Analyze(config.NewLogGroup(cfg), cfg, prog, pkgs)
	if err != nil {
		r.Err = err.Error()
	}
	for entry, traces := range res.Traces {
		e := "?"
		if ca, ok := entry.(*dataflow.CallNodeArg); ok {
			pp := prog.Fset.Position(ca.ParentNode().CallSite().Pos())
			e = fmt.Sprintf("%s/%s:%d#%d", filepath.Base(filepath.Dir(pp.Filename)), filepath.Base(pp.Filename), pp.Line, ca.Index())
		}
		for _, tr := range traces {
			if len(tr) == 0 {
				r.Traces = append(r.Traces, "(empty)>"+e)
				continue
			}
			o := tr[0].Pos
			mark := ""
			if g, ok := tr[0].GraphNode.(*dataflow.AccessGlobalNode); ok && !g.IsWrite {
				mark = "@globalread" // the trace ends at a read of a global for which no write location is known
			}
			r.Traces = append(r.Traces, fmt.Sprintf("%s/%s:%d%s>%s", filepath.Base(filepath.Dir(o.Filename)), filepath.Base(o.Filename), o.Line, mark, e))
		}
	}
	r.Traces = uniq(r.Traces)
}

func main() {
	dir := flag.String("dir", ".", "module directory")
	patterns := flag.String("patterns", ".", "comma separated package patterns; each one is loaded and analysed on its own")
	taintCfgs := flag.String("taint", "", "comma separated config files for taint.Analyze")
	btCfgs := flag.String("backtrace", "", "comma separated config files for backtrace.Analyze")
	repeat := flag.Int("repeat", 1, "in-process repetitions of every analysis")
	rewrites := flag.Bool("rewrites", true, "apply the source rewrites the CLI applies")
	out := flag.String("out", "-", "ndjson output")
	flag.Parse()
	o := hutil.NewOut(*out)
	defer o.Close()
	devnull, _ := os.OpenFile(os.DevNull, os.O_WRONLY, 0)
	os.Stdout = devnull // the analyses log to stdout at the configured log-level: discarded, never suppressed

	split := func(s string) []string {
		if s == "" {
			return nil
		}
		return strings.Split(s, ",")
	}
	for _, pat := range split(*patterns) {
		var prog *ssa.Program
		var pkgs []*packages.Package
		var err error
		t0 := time.Now()
		func() {
			defer func() {
				if e := recover(); e != nil {
					err = fmt.Errorf("panic while loading: %v", e)
				}
			}()
			prog, pkgs, err = hutil.Load(*dir, *rewrites, pat)
		}()
		lr := rec{Prog: pat, Kind: "load", Ms: time.Since(t0).Milliseconds(), NumCPU: runtime.NumCPU(), Procs: runtime.GOMAXPROCS(0)}
		if err != nil {
			lr.Err = err.Error()
			o.Put(lr)
			continue
		}
		o.Put(lr)
		for rep := 0; rep < *repeat; rep++ {
			for _, c := range split(*taintCfgs) {
				r := rec{Prog: pat, Cfg: strings.TrimSuffix(filepath.Base(c), ".yaml"), Kind: "taint", Rep: rep, Flows: []string{}, Escapes: []string{}, Traces: []string{}}
				t1 := time.Now()
				runTaint(prog, pkgs, c, &r)
				r.Ms = time.Since(t1).Milliseconds()
				o.Put(r)
			}
			for _, c := range split(*btCfgs) {
				r := rec{Prog: pat, Cfg: strings.TrimSuffix(filepath.Base(c), ".yaml"), Kind: "backtrace", Rep: rep, Flows: []string{}, Escapes: []string{}, Traces: []string{}}
				t1 := time.Now()
				runBacktrace(prog, pkgs, c, &r)
				r.Ms = time.Since(t1).Milliseconds()
				o.Put(r)
			}
		}
	}
}
