// crashrun (C07) loads one module directory (one or several independent main packages) exactly like the argot CLI
// does and runs the REAL analyses of ar-go-tools one after the other, each wrapped in recover():
//
//	taint:<cfg>      taint.Analyze                      (eager / on-demand / field-sensitive / use-escape-analysis configs)
//	backtrace:<cfg>  backtrace.Analyze
//	reach            reachability.ReachableFunctionsAnalysis on dataflow.NewAnalyzerState (what `argot reachability` runs)
//	reachptr         reachability.FindReachable on an initialized state (pointer analysis; what the dataflow tools use)
//	defer            defers.AnalyzeProgram              (what `argot defer` runs)
//	maypanic         maypanic.MayPanicAnalyzer          (what `argot maypanic` runs)
//
// Progress is appended to the -out ndjson file and flushed record by record ({"ev":"start"} before, {"ev":"end"} after
// every analysis) so that a fatal error / a panic in a worker goroutine / a watchdog timeout, which kill the process,
// still leave behind which analysis was running.  Exit code 3 = watchdog timeout (measured in CPU
// seconds of the process, so that machine load cannot cause it; all goroutine stacks are recorded).
package main

import (
	"flag"
	"fmt"
	"io"
	"os"
	"path/filepath"
	"runtime"
	"runtime/debug"
	"syscall"
	"strings"
	"sync"
	"time"

	"encoding/json"

	"github.com/awslabs/ar-go-tools/analysis/backtrace"
	"github.com/awslabs/ar-go-tools/analysis/config"
	"github.com/awslabs/ar-go-tools/analysis/dataflow"
	"github.com/awslabs/ar-go-tools/analysis/defers"
	"github.com/awslabs/ar-go-tools/analysis/maypanic"
	"github.com/awslabs/ar-go-tools/analysis/reachability"
	"github.com/awslabs/ar-go-tools/analysis/taint"
	"golang.org/x/tools/go/packages"
	"golang.org/x/tools/go/ssa"
	"verifharness/internal/hutil"
)

type rec struct {
	Ev    string `json:"ev"` // load | start | end | timeout
	Name  string `json:"name"`
	Err   string `json:"err"`
	Panic string `json:"panic"`
	Ms    int64  `json:"ms"`
	Cpu   int64  `json:"cpu"` // CPU milliseconds (user+sys) of the process during the analysis
	N     int    `json:"n"` // size of the result (flows, traces, functions)
}

var (
	outMu sync.Mutex
	outF  *os.File
)

func put(r rec) {
	outMu.Lock()
	defer outMu.Unlock()
	b, _ := json.Marshal(r)
	outF.Write(append(b, '\n'))
	outF.Sync()
}

// cpuTime is the CPU time (user + system) consumed by this process so far.
func cpuTime() time.Duration {
	var ru syscall.Rusage
	if err := syscall.Getrusage(syscall.RUSAGE_SELF, &ru); err != nil {
		return 0
	}
	return time.Duration(ru.Utime.Nano() + ru.Stime.Nano())
}

func loadCfg(dir, name string) (*config.Config, error) {
	if name == "" {
		return config.NewDefault(), nil
	}
	return config.LoadFromFiles(filepath.Join(dir, name+".yaml"))
}

func main() {
	dir := flag.String("dir", ".", "module directory")
	pattern := flag.String("pattern", "./...", "comma separated package patterns")
	cfgdir := flag.String("cfgdir", "", "directory of the <name>.yaml config files (default: -dir)")
	out := flag.String("out", "crash.ndjson", "ndjson progress/result file")
	list := flag.String("analyses", "", "comma separated: taint:<cfg>,backtrace:<cfg>,reach,reachptr,defer,maypanic")
	tmo := flag.Int("timeout", 120, "watchdog per analysis: CPU seconds of this process (user+sys), robust against machine load")
	wall := flag.Int("walltimeout", 1800, "watchdog per analysis: wall-clock seconds (an analysis blocked without using CPU)")
	loglevel := flag.Int("loglevel", 1, "log level forced on every configuration (the log output is discarded)")
	flag.Parse()
	if *cfgdir == "" {
		*cfgdir = *dir
	}
	var err error
	outF, err = os.Create(*out)
	if err != nil {
		fmt.Fprintln(os.Stderr, err)
		os.Exit(2)
	}
	// the analyses print to stdout (reports, JSON results): discard, keep stderr for the Go runtime's crash reports
	devnull, _ := os.OpenFile(os.DevNull, os.O_WRONLY, 0)
	os.Stdout = devnull

	var prog *ssa.Program
	var pkgs []*packages.Package
	start := time.Now()
	func() {
		defer func() {
			if e := recover(); e != nil {
				err = fmt.Errorf("panic while loading: %v\n%s", e, debug.Stack())
			}
		}()
		prog, pkgs, err = hutil.Load(*dir, true, strings.Split(*pattern, ",")...)
	}()
	lr := rec{Ev: "load", Name: *pattern, Ms: time.Since(start).Milliseconds()}
	if err != nil {
		lr.Err = err.Error()
		put(lr)
		return
	}
	lr.N = len(pkgs)
	put(lr)

	var cur struct {
		sync.Mutex
		name  string
		since time.Time
		cpu0  time.Duration
	}
	go func() { // watchdog
		for {
			time.Sleep(500 * time.Millisecond)
			cur.Lock()
			n, s, c0 := cur.name, cur.since, cur.cpu0
			cur.Unlock()
			if n == "" {
				continue
			}
			used := cpuTime() - c0
			if used > time.Duration(*tmo)*time.Second || time.Since(s) > time.Duration(*wall)*time.Second {
				buf := make([]byte, 1<<20)
				buf = buf[:runtime.Stack(buf, true)]
				if len(buf) > 60000 {
					buf = buf[:60000]
				}
				put(rec{Ev: "timeout", Name: n, Ms: time.Since(s).Milliseconds(), N: int(used.Milliseconds()), Panic: string(buf)})
				os.Exit(3)
			}
		}
	}()

	quiet := func(cfg *config.Config) *config.LogGroup {
		lg := config.NewLogGroup(cfg)
		lg.SetAllOutput(io.Discard)
		return lg
	}

	for _, a := range strings.Split(*list, ",") {
		if a == "" {
			continue
		}
		kind, cfgName, _ := strings.Cut(a, ":")
		cur.Lock()
		cur.name, cur.since, cur.cpu0 = a, time.Now(), cpuTime()
		cur.Unlock()
		put(rec{Ev: "start", Name: a})
		r := rec{Ev: "end", Name: a}
		t0 := time.Now()
		func() {
			defer func() {
				if e := recover(); e != nil {
					r.Panic = fmt.Sprintf("%v\n%s", e, debug.Stack())
				}
			}()
			cfg, err := loadCfg(*cfgdir, cfgName)
			if err != nil {
				r.Err = "config: " + err.Error()
				return
			}
			cfg.LogLevel = *loglevel
			switch kind {
			case "taint":
				res, err := taint.Analyze(cfg, prog, pkgs)
				if err != nil {
					r.Err = err.Error()
				}
				if res.TaintFlows != nil {
					for _, srcs := range res.TaintFlows.Sinks {
						r.N += len(srcs)
					}
					for _, srcs := range res.TaintFlows.Escapes {
						r.N += len(srcs)
					}
				}
			case "backtrace":
				res, err := backtrace.Analyze(quiet(cfg), cfg, prog, pkgs)
				if err != nil {
					r.Err = err.Error()
				}
				for _, t := range res.Traces {
					r.N += len(t)
				}
			case "reach":
				state, err := dataflow.NewAnalyzerState(prog, pkgs, quiet(cfg), cfg, []func(*dataflow.AnalyzerState){})
				if err != nil {
					r.Err = err.Error()
					return
				}
				reachability.ReachableFunctionsAnalysis(state, false, false, true)
				r.N = len(reachability.FindReachable(state, true, true, nil))
			case "reachptr":
				state, err := dataflow.NewInitializedAnalyzerState(prog, pkgs, quiet(cfg), cfg)
				if err != nil {
					r.Err = err.Error()
					return
				}
				r.N = len(reachability.FindReachable(state, false, false, nil))
			case "defer":
				defers.AnalyzeProgram(prog, quiet(cfg))
			case "maypanic":
				maypanic.MayPanicAnalyzer(prog, nil, true)
			default:
				r.Err = "unknown analysis " + kind
			}
		}()
		r.Ms = time.Since(t0).Milliseconds()
		cur.Lock()
		r.Cpu = (cpuTime() - cur.cpu0).Milliseconds()
		cur.name = ""
		cur.Unlock()
		put(r)
	}
	put(rec{Ev: "done"})
}
