// semdrive runs the REAL analyses of ar-go-tools on one generated program directory under a list of
// configurations and writes the facts as one JSON record (B1 of DESIGN.md).
//
//	semdrive -dir <progdir> -out facts.json -taint a.yaml,b.yaml -backtrace c.yaml ...
//
// A configuration file name may carry the suffix ":rw" to load the program with source rewrites.
// Every analysis run is wrapped in recover(): a panic or error is recorded (C07), never hidden.
package main

import (
	"encoding/json"
	"flag"
	"fmt"
	"io"
	"os"
	"path/filepath"
	"runtime/debug"
	"sort"
	"strings"
	"time"

	"github.com/awslabs/ar-go-tools/analysis/backtrace"
	"github.com/awslabs/ar-go-tools/analysis/config"
	"github.com/awslabs/ar-go-tools/analysis/dataflow"
	"github.com/awslabs/ar-go-tools/analysis/escape"
	"github.com/awslabs/ar-go-tools/analysis/reachability"
	"golang.org/x/tools/go/callgraph"
	"golang.org/x/tools/go/ssa/ssautil"
	"github.com/awslabs/ar-go-tools/analysis/taint"
	"golang.org/x/tools/go/packages"
	"golang.org/x/tools/go/ssa"
	"verifharness/internal/hutil"
)

type flow struct {
	Prog string `json:"prog"` // base name of the directory of the file containing the sink / escape instruction
	Src  int    `json:"src"`  // source line
	Dst  int    `json:"dst"`  // sink (or escape) line
}

type taintRes struct {
	Flows   []flow `json:"flows"`
	Escapes []flow `json:"escapes"`
	Err     string   `json:"err"`
	Panic   string   `json:"panic"`
	Ms      int64    `json:"ms"`
}

type btTrace struct {
	Prog  string `json:"prog"`
	Entry int   `json:"entry"` // line of the backtrace point call
	Arg   int   `json:"arg"`   // argument index (-1 unknown)
	Lines []int `json:"lines"` // lines of the nodes of the trace, origin first
	Kinds []string `json:"kinds"`
}

type btRes struct {
	Traces []btTrace `json:"traces"`
	Err    string    `json:"err"`
	Panic  string    `json:"panic"`
	Ms     int64     `json:"ms"`
}

type edge struct {
	Prog   string `json:"prog"`
	Site   int    `json:"site"`   // line of the call / defer / go instruction
	Callee int    `json:"callee"` // declaration line of the callee
	Name   string `json:"name"`
}

type fnref struct {
	Prog string `json:"prog"`
	Line int    `json:"line"`
	Name string `json:"name"`
}

type probeRes struct {
	Prog   string `json:"prog"`
	Line   int    `json:"line"`
	Type   string `json:"type"`
	Labels []int  `json:"labels"` // lines of the allocation sites in the points-to set
	Alias  []int  `json:"alias"`  // lines of the probes of the same static type whose points-to set intersects
	Query  bool   `json:"query"`  // false: the operand has no points-to query
	IQuery  bool  `json:"iquery"`  // the operand has an INDIRECT query (pointer to a pointer-like value)
	ILabels []int `json:"ilabels"` // allocation sites in the points-to set of *operand
}

// iparamRes: the indirect query of a parameter of a user function (pointer to a pointer-like value)
type iparamRes struct {
	Prog    string `json:"prog"`
	Decl    int    `json:"decl"`  // declaration line of the function
	Idx     int    `json:"idx"`   // 1-based parameter position
	ILabels []int  `json:"ilabels"`
}

type ptrRes struct {
	Edges    []edge             `json:"edges"`    // call-graph edges at call sites of user functions (through synthetic wrappers)
	Reach    []fnref            `json:"reach"`    // state.ReachableFunctions()
	Resolve  []edge             `json:"resolve"`  // state.ResolveCallee at every call site of user functions
	Probes   []probeRes         `json:"probes"`
	IParams  []iparamRes        `json:"iparams"`
	FindReach map[string][]fnref `json:"findreach"` // reachability.FindReachable for the four root selections
	AllFuncs []fnref            `json:"allfuncs"`
	Err      string             `json:"err"`
	Panic    string             `json:"panic"`
	Ms       int64              `json:"ms"`
}

type lineLoc struct {
	Prog  string `json:"prog"`
	Line  int    `json:"line"`
	Local bool   `json:"local"` // every memory-accessing instruction of the line is local in every derived context
	N     int    `json:"n"`     // number of classified instructions on the line
}

type escRes struct {
	Lines []lineLoc `json:"lines"`
	Err   string    `json:"err"`
	Panic string    `json:"panic"`
	Ms    int64     `json:"ms"`
}

type facts struct {
	Escape    map[string]escRes   `json:"escape"`
	Dir       string              `json:"dir"`
	LoadErr   string              `json:"loaderr"`
	Taint     map[string]taintRes `json:"taint"`
	Backtrace map[string]btRes    `json:"backtrace"`
	Pointer   map[string]ptrRes   `json:"pointer"`
}

type loaded struct {
	prog *ssa.Program
	pkgs []*packages.Package
	err  error
}

func loadCfg(path string) (*config.Config, error) {
	cfg, err := config.LoadFromFiles(path)
	if err != nil {
		return nil, err
	}
	return cfg, nil
}

func quiet(cfg *config.Config) *config.LogGroup {
	lg := config.NewLogGroup(cfg)
	lg.SetAllOutput(io.Discard)
	return lg
}

func line(prog *ssa.Program, instr ssa.Instruction) int {
	if instr == nil {
		return 0
	}
	p, ok := taint.Position(prog, instr)
	if !ok {
		return 0
	}
	return p.Line
}

func progOf(prog *ssa.Program, instr ssa.Instruction) string {
	if instr == nil {
		return ""
	}
	p, ok := taint.Position(prog, instr)
	if !ok {
		return ""
	}
	return filepath.Base(filepath.Dir(p.Filename))
}

func runTaint(l loaded, cfgPath string) (res taintRes) {
	res.Flows, res.Escapes = []flow{}, []flow{}
	start := time.Now()
	defer func() {
		res.Ms = time.Since(start).Milliseconds()
		if e := recover(); e != nil {
			res.Panic = fmt.Sprintf("%v\n%s", e, debug.Stack())
		}
	}()
	cfg, err := loadCfg(cfgPath)
	if err != nil {
		res.Err = "config: " + err.Error()
		return
	}
	cfg.LogLevel = int(config.ErrLevel)
	r, err := taint.Analyze(cfg, l.prog, l.pkgs)
	if err != nil {
		res.Err = err.Error()
	}
	if r.TaintFlows == nil {
		return
	}
	seen := map[flow]bool{}
	for sink, sources := range r.TaintFlows.Sinks {
		for source := range sources {
			k := flow{progOf(l.prog, sink.Instr), line(l.prog, source.Instr), line(l.prog, sink.Instr)}
			if !seen[k] {
				seen[k] = true
				res.Flows = append(res.Flows, k)
			}
		}
	}
	seenE := map[flow]bool{}
	for esc, sources := range r.TaintFlows.Escapes {
		for source := range sources {
			k := flow{progOf(l.prog, source), line(l.prog, source), line(l.prog, esc)}
			if !seenE[k] {
				seenE[k] = true
				res.Escapes = append(res.Escapes, k)
			}
		}
	}
	sortPairs(res.Flows)
	sortPairs(res.Escapes)
	return
}

func sortPairs(p []flow) {
	sort.Slice(p, func(i, j int) bool {
		if p[i].Prog != p[j].Prog {
			return p[i].Prog < p[j].Prog
		}
		if p[i].Src != p[j].Src {
			return p[i].Src < p[j].Src
		}
		return p[i].Dst < p[j].Dst
	})
}

func runBacktrace(l loaded, cfgPath string) (res btRes) {
	res.Traces = []btTrace{}
	start := time.Now()
	defer func() {
		res.Ms = time.Since(start).Milliseconds()
		if e := recover(); e != nil {
			res.Panic = fmt.Sprintf("%v\n%s", e, debug.Stack())
		}
	}()
	cfg, err := loadCfg(cfgPath)
	if err != nil {
		res.Err = "config: " + err.Error()
		return
	}
	cfg.LogLevel = int(config.ErrLevel)
	r, err := backtrace.Analyze(quiet(cfg), cfg, l.prog, l.pkgs)
	if err != nil {
		res.Err = err.Error()
	}
	for entry, traces := range r.Traces {
		eline := 0
		arg := -1
		pname := ""
		if ca, ok := entry.(*dataflow.CallNodeArg); ok {
			arg = ca.Index()
			pp := l.prog.Fset.Position(ca.ParentNode().CallSite().Pos())
			eline = pp.Line
			pname = filepath.Base(filepath.Dir(pp.Filename))
		}
		for _, tr := range traces {
			t := btTrace{Prog: pname, Entry: eline, Arg: arg, Lines: []int{}, Kinds: []string{}}
			for _, n := range tr {
				t.Lines = append(t.Lines, n.Pos.Line)
				t.Kinds = append(t.Kinds, fmt.Sprintf("%T", n.GraphNode))
			}
			res.Traces = append(res.Traces, t)
		}
	}
	sort.Slice(res.Traces, func(i, j int) bool {
		a, b := res.Traces[i], res.Traces[j]
		if a.Prog != b.Prog {
			return a.Prog < b.Prog
		}
		if a.Entry != b.Entry {
			return a.Entry < b.Entry
		}
		if a.Arg != b.Arg {
			return a.Arg < b.Arg
		}
		return fmt.Sprint(a.Lines) < fmt.Sprint(b.Lines)
	})
	return
}

func fnPos(prog *ssa.Program, f *ssa.Function) (string, int) {
	if f == nil {
		return "", 0
	}
	pos := f.Pos()
	if !pos.IsValid() && f.Parent() != nil {
		pos = f.Parent().Pos()
	}
	if !pos.IsValid() {
		return "", 0
	}
	p := prog.Fset.Position(pos)
	return filepath.Base(filepath.Dir(p.Filename)), p.Line
}

func isUser(f *ssa.Function) bool {
	if f != nil && f.Pkg == nil && strings.HasPrefix(f.Synthetic, "instance of") && f.Origin() != nil {
		return isUser(f.Origin()) // an instantiation of a user's generic function
	}
	return f != nil && f.Pkg != nil && strings.HasPrefix(f.Pkg.Pkg.Path(), "prog") && f.Synthetic == ""
}

func isWrapper(f *ssa.Function) bool {
	if f == nil {
		return false
	}
	if strings.HasPrefix(f.Synthetic, "instance of") {
		return false // an instantiation of a generic function is a function of its own (it has the generic's body)
	}
	return f.Synthetic != "" && f.Pkg == nil || strings.HasSuffix(f.Name(), "$bound") || strings.HasSuffix(f.Name(), "$thunk")
}

func runPointer(l loaded, cfgPath string) (res ptrRes) {
	res = ptrRes{Edges: []edge{}, Reach: []fnref{}, Resolve: []edge{}, Probes: []probeRes{}, IParams: []iparamRes{}, FindReach: map[string][]fnref{}, AllFuncs: []fnref{}}
	start := time.Now()
	defer func() {
		res.Ms = time.Since(start).Milliseconds()
		if e := recover(); e != nil {
			res.Panic = fmt.Sprintf("%v\n%s", e, debug.Stack())
		}
	}()
	cfg, err := loadCfg(cfgPath)
	if err != nil {
		res.Err = "config: " + err.Error()
		return
	}
	cfg.LogLevel = int(config.ErrLevel)
	state, err := dataflow.NewInitializedAnalyzerState(l.prog, l.pkgs, quiet(cfg), cfg)
	if err != nil {
		res.Err = err.Error()
		return
	}
	cg := state.PointerAnalysis.CallGraph
	// call-graph edges per call site of user functions, followed through synthetic wrappers
	for fn, node := range cg.Nodes {
		if !isUser(fn) {
			continue
		}
		for _, e := range node.Out {
			if e.Site == nil {
				continue
			}
			sp := l.prog.Fset.Position(e.Site.Pos())
			pname := filepath.Base(filepath.Dir(sp.Filename))
			seen := map[*ssa.Function]bool{}
			var follow func(c *callgraph.Node)
			follow = func(c *callgraph.Node) {
				if c == nil || seen[c.Func] {
					return
				}
				seen[c.Func] = true
				if isWrapper(c.Func) {
					for _, e2 := range c.Out {
						follow(e2.Callee)
					}
					return
				}
				_, ln := fnPos(l.prog, c.Func)
				res.Edges = append(res.Edges, edge{pname, sp.Line, ln, c.Func.String()})
			}
			follow(e.Callee)
		}
	}
	for fn, ok := range state.ReachableFunctions() {
		if ok && isUser(fn) {
			pn, ln := fnPos(l.prog, fn)
			res.Reach = append(res.Reach, fnref{pn, ln, fn.String()})
		}
	}
	for fn := range ssautil.AllFunctions(l.prog) {
		if isUser(fn) {
			pn, ln := fnPos(l.prog, fn)
			res.AllFuncs = append(res.AllFuncs, fnref{pn, ln, fn.String()})
		}
	}
	// callee resolution used by the dataflow analysis + probes
	type pq struct {
		idx int
		v   ssa.Value
	}
	var probes []pq
	for fn := range ssautil.AllFunctions(l.prog) {
		if !isUser(fn) {
			continue
		}
		for _, b := range fn.Blocks {
			for _, in := range b.Instrs {
				ci, ok := in.(ssa.CallInstruction)
				if !ok {
					continue
				}
				sp := l.prog.Fset.Position(ci.Pos())
				pname := filepath.Base(filepath.Dir(sp.Filename))
				if callee := ci.Common().StaticCallee(); callee != nil && callee.Name() == "probe" && len(ci.Common().Args) == 1 {
					v := ci.Common().Args[0]
					if mi, ok := v.(*ssa.MakeInterface); ok {
						v = mi.X
					}
					res.Probes = append(res.Probes, probeRes{Prog: pname, Line: sp.Line, Type: v.Type().String(), Labels: []int{}, Alias: []int{}, ILabels: []int{}})
					probes = append(probes, pq{len(res.Probes) - 1, v})
					continue
				}
				if ci.Common().IsInvoke() || ci.Common().StaticCallee() == nil || isUser(ci.Common().StaticCallee()) || isWrapper(ci.Common().StaticCallee()) {
					// resolution as the dataflow analysis sees it: a resolved synthetic wrapper ($bound, $thunk,
					// instantiation wrappers) is itself analysed, so the calls inside it are resolved in turn
					seenW := map[*ssa.Function]bool{}
					var through func(ci2 ssa.CallInstruction)
					through = func(ci2 ssa.CallInstruction) {
						callees, err := state.ResolveCallee(ci2, false)
						if err != nil {
							return
						}
						for c := range callees {
							if isWrapper(c) {
								if seenW[c] {
									continue
								}
								seenW[c] = true
								for _, wb := range c.Blocks {
									for _, win := range wb.Instrs {
										if wci, ok := win.(ssa.CallInstruction); ok {
											through(wci)
										}
									}
								}
								continue
							}
							_, ln := fnPos(l.prog, c)
							res.Resolve = append(res.Resolve, edge{pname, sp.Line, ln, c.String()})
						}
					}
					through(ci)
				}
			}
		}
	}
	for _, p := range probes {
		if iq, ok := state.PointerAnalysis.IndirectQueries[p.v]; ok {
			res.Probes[p.idx].IQuery = true
			for _, lab := range iq.PointsTo().Labels() {
				res.Probes[p.idx].ILabels = append(res.Probes[p.idx].ILabels, l.prog.Fset.Position(lab.Pos()).Line)
			}
		}
	}
	for fn := range ssautil.AllFunctions(l.prog) {
		if !isUser(fn) {
			continue
		}
		for i, prm := range fn.Params {
			if iq, ok := state.PointerAnalysis.IndirectQueries[prm]; ok {
				pn, ln := fnPos(l.prog, fn)
				r := iparamRes{Prog: pn, Decl: ln, Idx: i + 1, ILabels: []int{}}
				for _, lab := range iq.PointsTo().Labels() {
					r.ILabels = append(r.ILabels, l.prog.Fset.Position(lab.Pos()).Line)
				}
				res.IParams = append(res.IParams, r)
			}
		}
	}
	for _, p := range probes {
		q, ok := state.PointerAnalysis.Queries[p.v]
		if !ok {
			continue
		}
		res.Probes[p.idx].Query = true
		for _, lab := range q.PointsTo().Labels() {
			res.Probes[p.idx].Labels = append(res.Probes[p.idx].Labels, l.prog.Fset.Position(lab.Pos()).Line)
		}
		for _, p2 := range probes {
			if p2.idx == p.idx || res.Probes[p2.idx].Prog != res.Probes[p.idx].Prog || res.Probes[p2.idx].Type != res.Probes[p.idx].Type {
				continue
			}
			if q2, ok := state.PointerAnalysis.Queries[p2.v]; ok && q.MayAlias(q2) {
				res.Probes[p.idx].Alias = append(res.Probes[p.idx].Alias, res.Probes[p2.idx].Line)
			}
		}
	}
	for _, sel := range []struct {
		name           string
		noMain, noInit bool
	}{{"all", false, false}, {"nomain", true, false}, {"noinit", false, true}, {"none", true, true}} {
		r := reachability.FindReachable(state, sel.noMain, sel.noInit, nil)
		out := []fnref{}
		for fn, ok := range r {
			if ok && isUser(fn) {
				pn, ln := fnPos(l.prog, fn)
				out = append(out, fnref{pn, ln, fn.String()})
			}
		}
		res.FindReach[sel.name] = out
	}
	return
}

// runEscape computes, for every user function reachable from main or from a goroutine entry, the locality of its
// memory-accessing instructions in the calling contexts the analysis derives: an arbitrary context for main and
// for goroutine entry functions, call-site contexts (Resolve) for their callees, merged per function until nothing
// changes (C14).  A line is reported local only if all of its classified instructions are local in all contexts.
func runEscape(l loaded, cfgPath string) (res escRes) {
	res = escRes{Lines: []lineLoc{}}
	start := time.Now()
	defer func() {
		res.Ms = time.Since(start).Milliseconds()
		if e := recover(); e != nil {
			res.Panic = fmt.Sprintf("%v\n%s", e, debug.Stack())
		}
	}()
	cfg, err := loadCfg(cfgPath)
	if err != nil {
		res.Err = "config: " + err.Error()
		return
	}
	cfg.LogLevel = int(config.ErrLevel)
	state, err := dataflow.NewInitializedAnalyzerState(l.prog, l.pkgs, quiet(cfg), cfg)
	if err != nil {
		res.Err = err.Error()
		return
	}
	if err := escape.InitializeEscapeAnalysisState(state); err != nil {
		res.Err = err.Error()
		return
	}
	ea := state.EscapeAnalysisState
	ctxs := map[*ssa.Function]dataflow.EscapeCallContext{}
	var work []*ssa.Function
	addRoot := func(f *ssa.Function) {
		if f == nil || !isUser(f) || !ea.IsSummarized(f) {
			return
		}
		if _, ok := ctxs[f]; ok {
			return
		}
		ctxs[f] = ea.ComputeArbitraryContext(f)
		work = append(work, f)
	}
	for fn := range ssautil.AllFunctions(l.prog) {
		if !isUser(fn) {
			continue
		}
		if fn.Name() == "main" && fn.Parent() == nil {
			addRoot(fn)
		}
		for _, b := range fn.Blocks {
			for _, in := range b.Instrs {
				if g, ok := in.(*ssa.Go); ok {
					if callees, err := state.ResolveCallee(g, false); err == nil {
						for c := range callees {
							addRoot(c)
						}
					}
				}
			}
		}
	}
	type key struct {
		prog string
		line int
	}
	nonlocal := map[key]bool{}
	count := map[key]int{}
	steps := 0
	for len(work) > 0 && steps < 10000 {
		steps++
		f := work[len(work)-1]
		work = work[:len(work)-1]
		loc, sites := ea.ComputeInstructionLocalityAndCallsites(f, ctxs[f])
		for in, rat := range loc {
			pp := l.prog.Fset.Position(in.Pos())
			if !pp.IsValid() {
				continue
			}
			k := key{filepath.Base(filepath.Dir(pp.Filename)), pp.Line}
			count[k]++
			if rat != nil {
				nonlocal[k] = true
			}
		}
		for call, info := range sites {
			callees, err := state.ResolveCallee(call, false)
			if err != nil {
				continue
			}
			for c := range callees {
				if !isUser(c) || !ea.IsSummarized(c) {
					continue
				}
				nc := info.Resolve(c)
				if old, ok := ctxs[c]; ok {
					changed, merged := old.Merge(nc)
					if changed {
						ctxs[c] = merged
						work = append(work, c)
					}
				} else {
					ctxs[c] = nc
					work = append(work, c)
				}
			}
		}
	}
	for k, n := range count {
		res.Lines = append(res.Lines, lineLoc{k.prog, k.line, !nonlocal[k], n})
	}
	sort.Slice(res.Lines, func(i, j int) bool {
		if res.Lines[i].Prog != res.Lines[j].Prog {
			return res.Lines[i].Prog < res.Lines[j].Prog
		}
		return res.Lines[i].Line < res.Lines[j].Line
	})
	return
}

func main() {
	dir := flag.String("dir", ".", "module directory (one or several generated programs, one package each)")
	pattern := flag.String("pattern", "./...", "package pattern to load")
	out := flag.String("out", "-", "output json")
	taintCfgs := flag.String("taint", "", "comma separated config files for taint.Analyze (suffix :rw = load with rewrites)")
	btCfgs := flag.String("backtrace", "", "comma separated config files for backtrace.Analyze")
	ptrCfgs := flag.String("pointer", "", "comma separated config files for the pointer / call graph / reachability facts")
	escCfgs := flag.String("escape", "", "comma separated config files for the escape-analysis locality facts")
	flag.Parse()
	f := facts{Dir: *dir, Taint: map[string]taintRes{}, Backtrace: map[string]btRes{}, Pointer: map[string]ptrRes{}, Escape: map[string]escRes{}}
	loads := map[bool]*loaded{}
	get := func(rw bool) loaded {
		if l, ok := loads[rw]; ok {
			return *l
		}
		var l loaded
		func() {
			defer func() {
				if e := recover(); e != nil {
					l.err = fmt.Errorf("panic while loading: %v", e)
				}
			}()
			l.prog, l.pkgs, l.err = hutil.Load(*dir, rw, *pattern)
		}()
		loads[rw] = &l
		return l
	}
	split := func(s string) []string {
		if s == "" {
			return nil
		}
		return strings.Split(s, ",")
	}
	for _, c := range split(*taintCfgs) {
		rw := strings.HasSuffix(c, ":rw")
		path := strings.TrimSuffix(c, ":rw")
		name := strings.TrimSuffix(filepath.Base(path), ".yaml")
		if rw {
			name += "+rw"
		}
		l := get(rw)
		if l.err != nil {
			f.LoadErr = l.err.Error()
			f.Taint[name] = taintRes{Flows: []flow{}, Escapes: []flow{}, Err: "load: " + l.err.Error()}
			continue
		}
		f.Taint[name] = runTaint(l, path)
	}
	for _, c := range split(*btCfgs) {
		rw := strings.HasSuffix(c, ":rw")
		path := strings.TrimSuffix(c, ":rw")
		name := strings.TrimSuffix(filepath.Base(path), ".yaml")
		l := get(rw)
		if l.err != nil {
			f.LoadErr = l.err.Error()
			f.Backtrace[name] = btRes{Traces: []btTrace{}, Err: "load: " + l.err.Error()}
			continue
		}
		f.Backtrace[name] = runBacktrace(l, path)
	}
	for _, c := range split(*ptrCfgs) {
		path := strings.TrimSuffix(c, ":rw")
		name := strings.TrimSuffix(filepath.Base(path), ".yaml")
		l := get(false)
		if l.err != nil {
			f.LoadErr = l.err.Error()
			f.Pointer[name] = ptrRes{Err: "load: " + l.err.Error()}
			continue
		}
		f.Pointer[name] = runPointer(l, path)
	}
	for _, c := range split(*escCfgs) {
		path := strings.TrimSuffix(c, ":rw")
		name := strings.TrimSuffix(filepath.Base(path), ".yaml")
		l := get(false)
		if l.err != nil {
			f.LoadErr = l.err.Error()
			f.Escape[name] = escRes{Lines: []lineLoc{}, Err: "load: " + l.err.Error()}
			continue
		}
		f.Escape[name] = runEscape(l, path)
	}
	b, _ := json.Marshal(f)
	if *out == "-" {
		os.Stdout.Write(append(b, '\n'))
	} else {
		if err := os.WriteFile(*out, append(b, '\n'), 0o644); err != nil {
			fmt.Fprintln(os.Stderr, err)
			os.Exit(2)
		}
	}
}
