// parmap: replays TLC schedules of spec/ParMap.tla on the REAL funcutil.MapParallel (re-exported by
// analysis/verifhooks under the build tag verif).  A schedule is a completion order of the calls of the user
// function f; f is the scheduler gate: every call blocks until the controller releases it, and the controller
// releases the calls in the order of the schedule (waiting for a call to have started before releasing it and
// for it to have completed before releasing the next one).  Built with -race by checks/c20.py.
//
// Input  (ndjson): {"id":k,"n":N,"w":numRoutines,"a":[values],"order":[1-based indices],"gated":bool,"noise":seed}
// Output (ndjson): one record per schedule, see spec/ParMapObs.tla.
// Progress lines "BEGIN id" / "END id" go to the file given by -progress so that a crash of the process
// (e.g. "send on closed channel" inside MapParallel) can be attributed to the schedule that was running.
//
// Exit code 0: all schedules ran; 3: a schedule got stuck (its record has returned=false; the process stops
// because the blocked goroutines would spoil the goroutine accounting of later schedules; restart with -from).
package main

import (
	"bufio"
	"encoding/json"
	"flag"
	"fmt"
	"math/rand"
	"os"
	"runtime"
	"strings"
	"sync"
	"time"

	"github.com/awslabs/ar-go-tools/analysis/verifhooks"
)

type sched struct {
	ID    int   `json:"id"`
	N     int   `json:"n"`
	W     int   `json:"w"`
	A     []int `json:"a"`
	Order []int `json:"order"`
	Gated bool  `json:"gated"`
	Noise int64 `json:"noise"`
}

type rec struct {
	ID       int    `json:"id"`
	N        int    `json:"n"`
	W        int    `json:"w"`
	A        []int  `json:"a"`
	Order    []int  `json:"order"`
	Gated    bool   `json:"gated"`
	Forder   []int  `json:"forder"`
	Returned bool   `json:"returned"`
	Res      []int  `json:"res"`
	Seq      []int  `json:"seq"`
	Gbase    int    `json:"gbase"`
	Gafter   int    `json:"gafter"`
	Fgor     int    `json:"fgor"`
	Oncaller bool   `json:"oncaller"`
	Maxcalls int    `json:"maxcalls"`
	Mincalls int    `json:"mincalls"`
	Stuck    string `json:"stuck"` // "" or where the replay stopped making progress
}

type item struct {
	K int // 0-based position in the input slice (identity of the call)
	V int
}

func userF(v int) int { return v + 100 } // F of spec/ParMapDefs.tla

func goid() string {
	var buf [64]byte
	n := runtime.Stack(buf[:], false)
	f := strings.Fields(string(buf[:n]))
	if len(f) >= 2 {
		return f[1]
	}
	return "?"
}

// settle waits until the number of goroutines is <= want or the deadline expires and returns the last count.
func settle(want int, d time.Duration) int {
	deadline := time.Now().Add(d)
	for {
		n := runtime.NumGoroutine()
		if n <= want || time.Now().After(deadline) {
			return n
		}
		time.Sleep(2 * time.Millisecond)
	}
}

func nonNil(x []int) []int {
	if x == nil {
		return []int{}
	}
	return x
}

func replay(s sched, timeout time.Duration) rec {
	r := rec{ID: s.ID, N: s.N, W: s.W, A: nonNil(s.A), Order: nonNil(s.Order), Gated: s.Gated}
	n := len(s.A)
	a := make([]item, n)
	for i, v := range s.A {
		a[i] = item{i, v}
	}
	started := make([]chan struct{}, n)
	release := make([]chan struct{}, n)
	finished := make([]chan struct{}, n)
	for i := 0; i < n; i++ {
		started[i] = make(chan struct{})
		release[i] = make(chan struct{})
		finished[i] = make(chan struct{})
	}
	var mu sync.Mutex
	calls := make([]int, n)
	gids := map[string]bool{}
	var forder []int
	rnd := rand.New(rand.NewSource(s.Noise))
	noise := make([]int, n)
	for i := range noise {
		noise[i] = rnd.Intn(4)
	}
	f := func(it item) int {
		g := goid()
		mu.Lock()
		calls[it.K]++
		first := calls[it.K] == 1
		gids[g] = true
		mu.Unlock()
		if s.Gated {
			if first {
				close(started[it.K])
			}
			<-release[it.K]
		}
		for k := 0; k < noise[it.K]; k++ {
			runtime.Gosched()
		}
		mu.Lock()
		forder = append(forder, it.K+1)
		mu.Unlock()
		if s.Gated && first {
			close(finished[it.K])
		}
		return userF(it.V)
	}

	r.Gbase = settle(0, 0)
	caller := make(chan string, 1)
	done := make(chan []int, 1)
	go func() {
		caller <- goid()
		done <- verifhooks.MapParallel(a, f, s.W)
	}()
	callerID := <-caller

	if s.Gated {
		for _, idx1 := range s.Order {
			i := idx1 - 1
			if i < 0 || i >= n {
				r.Stuck = fmt.Sprintf("schedule names index %d outside the input", idx1)
				break
			}
			select {
			case <-started[i]:
			case <-time.After(timeout):
				r.Stuck = fmt.Sprintf("f was never called for element %d (waiting to release it)", idx1)
			}
			if r.Stuck != "" {
				break
			}
			close(release[i])
			select {
			case <-finished[i]:
			case <-time.After(timeout):
				r.Stuck = fmt.Sprintf("f did not complete for element %d after its release", idx1)
			}
			if r.Stuck != "" {
				break
			}
		}
	}
	if r.Stuck == "" {
		select {
		case res := <-done:
			r.Returned = true
			r.Res = nonNil(res)
		case <-time.After(timeout):
			r.Stuck = "MapParallel did not return after every call of f had completed"
		}
	}
	mu.Lock()
	r.Forder = nonNil(append([]int{}, forder...))
	r.Fgor = len(gids)
	r.Oncaller = gids[callerID]
	if n > 0 {
		r.Mincalls, r.Maxcalls = calls[0], calls[0]
		for _, c := range calls {
			if c < r.Mincalls {
				r.Mincalls = c
			}
			if c > r.Maxcalls {
				r.Maxcalls = c
			}
		}
	}
	mu.Unlock()
	if r.Res == nil {
		r.Res = []int{}
	}
	if r.Returned {
		r.Gafter = settle(r.Gbase, 10*time.Second)
	} else {
		r.Gafter = runtime.NumGoroutine()
	}
	r.Seq = nonNil(verifhooks.Map(a, func(it item) int { return userF(it.V) }))
	return r
}

func main() {
	in := flag.String("schedules", "", "input ndjson")
	out := flag.String("out", "-", "output ndjson")
	progress := flag.String("progress", "", "progress file (BEGIN/END lines)")
	from := flag.Int("from", 0, "skip schedules with id < from")
	timeout := flag.Duration("timeout", 30*time.Second, "per-step timeout (a timeout makes the schedule 'stuck')")
	flag.Parse()
	fh, err := os.Open(*in)
	if err != nil {
		fmt.Fprintln(os.Stderr, err)
		os.Exit(2)
	}
	var prog *os.File
	if *progress != "" {
		prog, err = os.OpenFile(*progress, os.O_CREATE|os.O_WRONLY|os.O_APPEND, 0o644)
		if err != nil {
			fmt.Fprintln(os.Stderr, err)
			os.Exit(2)
		}
	}
	// unbuffered: a crash of the process must not lose the records of the schedules that completed
	of := os.Stdout
	if *out != "-" {
		of, err = os.OpenFile(*out, os.O_CREATE|os.O_WRONLY|os.O_APPEND, 0o644)
		if err != nil {
			fmt.Fprintln(os.Stderr, err)
			os.Exit(2)
		}
	}
	enc := json.NewEncoder(of)
	sc := bufio.NewScanner(fh)
	sc.Buffer(make([]byte, 1<<20), 1<<26)
	for sc.Scan() {
		line := strings.TrimSpace(sc.Text())
		if line == "" {
			continue
		}
		var s sched
		if err := json.Unmarshal([]byte(line), &s); err != nil {
			fmt.Fprintln(os.Stderr, "bad schedule:", err)
			os.Exit(2)
		}
		if s.ID < *from {
			continue
		}
		if prog != nil {
			fmt.Fprintf(prog, "BEGIN %d\n", s.ID)
		}
		fmt.Fprintf(os.Stderr, "C20RUN begin %d\n", s.ID) // brackets the race detector's reports of this schedule
		r := replay(s, *timeout)
		if err := enc.Encode(r); err != nil {
			fmt.Fprintln(os.Stderr, err)
			os.Exit(2)
		}
		fmt.Fprintf(os.Stderr, "C20RUN end %d\n", s.ID)
		if prog != nil {
			fmt.Fprintf(prog, "END %d\n", s.ID)
		}
		if r.Stuck != "" {
			of.Close()
			os.Exit(3)
		}
	}
	of.Close()
}
