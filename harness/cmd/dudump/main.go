// dudump (C08): runs the REAL intra-procedural dataflow analysis of /repo (dataflow.IntraProceduralAnalysis) on the
// functions of a program and dumps, per function, as ndjson:
//
//   - the SSA instructions with kind and operands (raw; which kinds / operands form a def-use chain is decided by
//     spec/IntraDU.tla),
//   - the origins (parameters, free variables, call results per tuple index) and targets (returned values, call
//     arguments, bound variables of created closures, If conditions) together with the summary node of the REAL summary
//     each corresponds to (anchoring through public accessors),
//   - the Out() edges of the origin nodes in the real summary,
//   - for a sample of small functions the final FlowInformation (marks per instruction and value, captured through the
//     public post-block callback) and the instruction-level CFG successor relation.
//
// Nothing is decided here.
package main

import (
	"flag"
	"fmt"
	"go/token"
	"go/types"
	"os"
	"path/filepath"
	"runtime"
	"sort"
	"strings"
	"sync"

	"github.com/awslabs/ar-go-tools/analysis"
	"github.com/awslabs/ar-go-tools/analysis/config"
	df "github.com/awslabs/ar-go-tools/analysis/dataflow"
	"github.com/awslabs/ar-go-tools/analysis/taint"
	"golang.org/x/tools/go/packages"
	"golang.org/x/tools/go/ssa"
	"golang.org/x/tools/go/ssa/ssautil"
	"verifharness/internal/hutil"
)

type insRec struct {
	K   string `json:"k"`   // instruction kind (see kindOf)
	Ops []int  `json:"ops"` // operand value ids, positional per kind; 0 = not a tracked value (constant, global, function, nil)
	X   int    `json:"x"`   // Extract: tuple index; Field: field number; otherwise -1
	B   int    `json:"b"`   // block index
	R   bool   `json:"r"`   // block reachable from the entry block
	V   bool   `json:"v"`   // the instruction is a value
}

type originRec struct {
	N int    `json:"n"` // summary node
	V int    `json:"v"` // SSA value
	I int    `json:"i"` // tuple index of a call result (0 for single results); -1 for parameters / free variables
	K string `json:"k"` // param | freevar | call
	T bool   `json:"t"` // call returning a tuple (>= 2 results)
}

type targetRec struct {
	N int    `json:"n"`
	V int    `json:"v"`
	K string `json:"k"` // ret | arg | boundvar | if
	I int    `json:"i"` // position (tuple index, argument position, binding position)
	C int    `json:"c"` // parent node: the call node of an argument, the closure node of a bound variable, else 0
	A int    `json:"a"` // instruction the target belongs to (1-based instruction id)
	R bool   `json:"r"` // that instruction is reachable
}

type markSet struct {
	V int   `json:"v"`
	M []int `json:"m"`
}

type funcRec struct {
	Fn       string      `json:"fn"`
	Pkg      string      `json:"pkg"`
	Prog     string      `json:"prog"`
	NI       int         `json:"ni"`
	NRetIns  int         `json:"nretins"` // number of Return instructions
	NResults int         `json:"nresults"`
	Ins      []insRec    `json:"ins"` // value id of instruction k (1-based) = k
	NVal     int         `json:"nval"`
	Origins  []originRec `json:"origins"`
	Targets  []targetRec `json:"targets"`
	Edges    [][3]int    `json:"edges"` // src node, dst node, index  (Out() of the origin nodes)
	HasMarks bool        `json:"hasmarks"`
	Succ     [][]int     `json:"succ"`   // instruction -> successor instructions (1-based ids), only when HasMarks
	Marks    [][]markSet `json:"marks"`  // instruction -> (value, origin marks) with a non-empty set, only when HasMarks
	MarkK    []string    `json:"markk"`  // kind of mark id k (1-based)
	Desc     []string    `json:"-"`
}

type descRec struct {
	Fn    string   `json:"fn"`
	Prog  string   `json:"prog"`
	Ins   []string `json:"ins"`
	Nodes []string `json:"nodes"`
}

func kindOf(i ssa.Instruction) string {
	switch x := i.(type) {
	case *ssa.BinOp:
		return "BinOp"
	case *ssa.UnOp:
		switch x.Op {
		case token.MUL:
			return "Load"
		case token.ARROW:
			return "Recv"
		}
		return "UnOp"
	case *ssa.Convert:
		return "Convert"
	case *ssa.MultiConvert:
		return "MultiConvert"
	case *ssa.ChangeType:
		return "ChangeType"
	case *ssa.ChangeInterface:
		return "ChangeInterface"
	case *ssa.SliceToArrayPointer:
		return "SliceToArrayPointer"
	case *ssa.MakeInterface:
		return "MakeInterface"
	case *ssa.TypeAssert:
		if x.CommaOk {
			return "TypeAssertOk"
		}
		return "TypeAssert"
	case *ssa.Field:
		return "Field"
	case *ssa.FieldAddr:
		return "FieldAddr"
	case *ssa.Index:
		return "Index"
	case *ssa.IndexAddr:
		return "IndexAddr"
	case *ssa.Slice:
		return "Slice"
	case *ssa.Phi:
		return "Phi"
	case *ssa.Extract:
		return "Extract"
	case *ssa.Lookup:
		if b, ok := x.X.Type().Underlying().(*types.Basic); ok && b.Info()&types.IsString != 0 {
			return "LookupString"
		}
		if x.CommaOk {
			return "LookupMapOk"
		}
		return "LookupMap"
	case *ssa.Call:
		if b, ok := x.Call.Value.(*ssa.Builtin); ok {
			return "Builtin:" + b.Name()
		}
		if x.Call.IsInvoke() && x.Call.Method.Name() == "Error" && len(x.Call.Args) == 0 {
			return "InvokeError" // treated as a builtin by the analysis (builtins.go)
		}
		return "Call"
	case *ssa.Go:
		return "Go"
	case *ssa.Defer:
		return "Defer"
	case *ssa.Alloc:
		return "Alloc"
	case *ssa.Store:
		return "Store"
	case *ssa.MakeClosure:
		return "MakeClosure"
	case *ssa.MakeMap:
		return "MakeMap"
	case *ssa.MakeSlice:
		return "MakeSlice"
	case *ssa.MakeChan:
		return "MakeChan"
	case *ssa.MapUpdate:
		return "MapUpdate"
	case *ssa.Next:
		return "Next"
	case *ssa.Range:
		return "Range"
	case *ssa.Select:
		return "Select"
	case *ssa.Send:
		return "Send"
	case *ssa.Return:
		return "Return"
	case *ssa.If:
		return "If"
	case *ssa.Jump:
		return "Jump"
	case *ssa.Panic:
		return "Panic"
	case *ssa.RunDefers:
		return "RunDefers"
	case *ssa.DebugRef:
		return "DebugRef"
	}
	return fmt.Sprintf("%T", i)
}

type fnDumper struct {
	state *df.AnalyzerState
	track func(*df.AnalyzerState, ssa.Node) bool
	prog  string
}

func (d *fnDumper) dump(fn *ssa.Function, withMarks bool) (rec *funcRec, desc *descRec, err error) {
	defer func() {
		if r := recover(); r != nil {
			err = fmt.Errorf("panic: %v", r)
		}
	}()
	var fi *df.FlowInformation
	res, e := df.IntraProceduralAnalysis(d.state, fn, true, df.GetUniqueFunctionID(), d.track,
		func(s *df.IntraAnalysisState) { fi = s.FlowInfo() })
	if e != nil {
		return nil, nil, e
	}
	sm := res.Summary
	if sm == nil || !sm.Constructed {
		return nil, nil, fmt.Errorf("not constructed")
	}
	rec = &funcRec{Fn: fn.String(), Prog: d.prog, Origins: []originRec{}, Targets: []targetRec{}, Edges: [][3]int{},
		Succ: [][]int{}, Marks: [][]markSet{}, MarkK: []string{}, Ins: []insRec{}}
	desc = &descRec{Fn: rec.Fn, Prog: d.prog}
	if fn.Pkg != nil {
		rec.Pkg = fn.Pkg.Pkg.Path()
	}
	rec.NResults = fn.Signature.Results().Len()

	// ---- instruction and value numbering
	iid := map[ssa.Instruction]int{}
	vid := map[ssa.Value]int{}
	reach := map[*ssa.BasicBlock]bool{}
	var walk func(b *ssa.BasicBlock)
	walk = func(b *ssa.BasicBlock) {
		if reach[b] {
			return
		}
		reach[b] = true
		for _, s := range b.Succs {
			walk(s)
		}
	}
	walk(fn.Blocks[0])
	var instrs []ssa.Instruction
	for _, b := range fn.Blocks {
		for _, in := range b.Instrs {
			instrs = append(instrs, in)
			iid[in] = len(instrs)
			if v, ok := in.(ssa.Value); ok {
				vid[v] = len(instrs)
			}
		}
	}
	rec.NI = len(instrs)
	nv := len(instrs)
	for _, p := range fn.Params {
		nv++
		vid[p] = nv
	}
	for _, p := range fn.FreeVars {
		nv++
		vid[p] = nv
	}
	rec.NVal = nv
	val := func(v ssa.Value) int {
		if v == nil {
			return 0
		}
		return vid[v] // 0 for constants, globals, functions, builtins
	}
	for _, in := range instrs {
		r := insRec{K: kindOf(in), Ops: []int{}, X: -1, B: in.Block().Index, R: reach[in.Block()]}
		_, r.V = in.(ssa.Value)
		switch x := in.(type) {
		case *ssa.BinOp:
			r.Ops = []int{val(x.X), val(x.Y)}
		case *ssa.UnOp:
			r.Ops = []int{val(x.X)}
		case *ssa.Convert:
			r.Ops = []int{val(x.X)}
		case *ssa.MultiConvert:
			r.Ops = []int{val(x.X)}
		case *ssa.ChangeType:
			r.Ops = []int{val(x.X)}
		case *ssa.ChangeInterface:
			r.Ops = []int{val(x.X)}
		case *ssa.SliceToArrayPointer:
			r.Ops = []int{val(x.X)}
		case *ssa.MakeInterface:
			r.Ops = []int{val(x.X)}
		case *ssa.TypeAssert:
			r.Ops = []int{val(x.X)}
		case *ssa.Field:
			r.Ops, r.X = []int{val(x.X)}, x.Field
		case *ssa.FieldAddr:
			r.Ops, r.X = []int{val(x.X)}, x.Field
		case *ssa.Index:
			r.Ops = []int{val(x.X), val(x.Index)}
		case *ssa.IndexAddr:
			r.Ops = []int{val(x.X), val(x.Index)}
		case *ssa.Slice:
			r.Ops = []int{val(x.X), val(x.Low), val(x.High), val(x.Max)}
		case *ssa.Phi:
			for _, e := range x.Edges {
				r.Ops = append(r.Ops, val(e))
			}
		case *ssa.Extract:
			r.Ops, r.X = []int{val(x.Tuple)}, x.Index
		case *ssa.Lookup:
			r.Ops = []int{val(x.X), val(x.Index)}
		case *ssa.Call:
			if x.Call.IsInvoke() {
				r.Ops = append(r.Ops, val(x.Call.Value))
			}
			for _, a := range x.Call.Args {
				r.Ops = append(r.Ops, val(a))
			}
		default:
			var ops []*ssa.Value
			for _, o := range in.Operands(ops) {
				if o != nil {
					r.Ops = append(r.Ops, val(*o))
				}
			}
		}
		if _, ok := in.(*ssa.Return); ok {
			rec.NRetIns++
		}
		rec.Ins = append(rec.Ins, r)
		desc.Ins = append(desc.Ins, fmt.Sprintf("b%d %s: %s", in.Block().Index, r.K, in.String()))
	}

	// ---- summary nodes
	nid := map[df.GraphNode]int{}
	node := func(n df.GraphNode) int {
		if id, ok := nid[n]; ok {
			return id
		}
		nid[n] = len(nid) + 1
		s := "?"
		func() {
			defer func() { _ = recover() }()
			s = strings.Trim(n.String(), "\"")
		}()
		desc.Nodes = append(desc.Nodes, s)
		return nid[n]
	}
	var originNodes []df.GraphNode
	for _, p := range fn.Params {
		if pn, ok := sm.Params[p]; ok && pn != nil && pn.SsaNode() == p {
			rec.Origins = append(rec.Origins, originRec{N: node(pn), V: val(p), I: -1, K: "param"})
			originNodes = append(originNodes, pn)
		}
	}
	for _, p := range fn.FreeVars {
		if pn, ok := sm.FreeVars[p]; ok && pn != nil && pn.SsaNode() == p {
			rec.Origins = append(rec.Origins, originRec{N: node(pn), V: val(p), I: -1, K: "freevar"})
			originNodes = append(originNodes, pn)
		}
	}
	for _, in := range instrs {
		switch x := in.(type) {
		case ssa.CallInstruction:
			calls := sm.Callees[x]
			var cns []*df.CallNode
			for _, cn := range calls {
				if cn.CallSite() == x {
					cns = append(cns, cn)
				}
			}
			sort.Slice(cns, func(i, j int) bool { return cns[i].ID() < cns[j].ID() })
			for _, cn := range cns {
				if cv := x.Value(); cv != nil { // a *ssa.Call (Go / Defer have no value)
					n := cv.Call.Signature().Results().Len()
					for k := 0; k < n; k++ {
						rec.Origins = append(rec.Origins, originRec{N: node(cn), V: val(cv), I: k, K: "call", T: n >= 2})
					}
					originNodes = append(originNodes, cn)
				}
				for _, a := range cn.Args() {
					if a == nil || a.ParentNode() != cn {
						continue
					}
					rec.Targets = append(rec.Targets, targetRec{N: node(a), V: val(a.Value()), K: "arg", I: a.Index(),
						C: node(cn), A: iid[in], R: reach[in.Block()]})
				}
			}
		case *ssa.MakeClosure:
			if cl, ok := sm.CreatedClosures[x]; ok && cl != nil && cl.Instr() == x {
				for _, bv := range cl.BoundVars() {
					rec.Targets = append(rec.Targets, targetRec{N: node(bv), V: val(bv.Value()), K: "boundvar", I: bv.Index(),
						C: node(cl), A: iid[in], R: reach[in.Block()]})
				}
			}
		case *ssa.Return:
			if rets, ok := sm.Returns[x]; ok {
				for k, res := range x.Results {
					if k < len(rets) && rets[k] != nil && rets[k].Index() == k {
						rec.Targets = append(rec.Targets, targetRec{N: node(rets[k]), V: val(res), K: "ret", I: k,
							A: iid[in], R: reach[in.Block()]})
					}
				}
			}
		case *ssa.If:
			if n, ok := sm.Ifs[x]; ok && n != nil && n.SsaNode() == x {
				rec.Targets = append(rec.Targets, targetRec{N: node(n), V: val(x.Cond), K: "if", I: 0,
					A: iid[in], R: reach[in.Block()]})
			}
		}
	}
	seenO := map[df.GraphNode]bool{}
	for _, on := range originNodes {
		if seenO[on] {
			continue
		}
		seenO[on] = true
		for dst, infos := range on.Out() {
			if _, known := nid[dst]; !known {
				continue // edges to nodes that are neither origin nor target are irrelevant here
			}
			for _, e := range infos {
				rec.Edges = append(rec.Edges, [3]int{nid[on], nid[dst], e.Index})
			}
		}
	}

	// ---- final FlowInformation (marks) for the Closed invariant
	if withMarks && fi != nil {
		rec.HasMarks = true
		mid := map[*df.Mark]int{}
		for _, in := range instrs {
			var succ []int
			b := in.Block()
			k := iid[in] - iid[b.Instrs[0]]
			if k+1 < len(b.Instrs) {
				succ = append(succ, iid[b.Instrs[k+1]])
			} else {
				for _, s := range b.Succs {
					if len(s.Instrs) > 0 {
						succ = append(succ, iid[s.Instrs[0]])
					}
				}
			}
			if succ == nil {
				succ = []int{}
			}
			rec.Succ = append(rec.Succ, succ)
			sets := []markSet{}
			if id, ok := fi.InstrID[in]; ok {
				base := id * fi.NumValues
				for _, av := range fi.MarkedValues[base : base+fi.NumValues] {
					if av == nil {
						continue
					}
					v := val(av.GetValue())
					if v == 0 {
						continue
					}
					ms := map[int]bool{}
					for _, mp := range av.AllMarks() {
						m := mp.Mark
						if m.Type != df.Parameter && m.Type != df.FreeVar && m.Type != df.CallReturn {
							continue // only the origins the property statement names
						}
						if _, ok := mid[m]; !ok {
							mid[m] = len(mid) + 1
							rec.MarkK = append(rec.MarkK, m.Type.String())
						}
						ms[mid[m]] = true
					}
					if len(ms) == 0 {
						continue
					}
					l := []int{}
					for k := range ms {
						l = append(l, k)
					}
					sort.Ints(l)
					sets = append(sets, markSet{V: v, M: l})
				}
			}
			sort.Slice(sets, func(i, j int) bool { return sets[i].V < sets[j].V })
			rec.Marks = append(rec.Marks, sets)
		}
	}
	return rec, desc, nil
}

func load(dir string) (*ssa.Program, []*packages.Package, *config.Config, error) {
	var patterns []string
	if _, err := os.Stat(filepath.Join(dir, "go.mod")); err == nil {
		patterns = []string{"."}
	} else {
		files, _ := filepath.Glob(filepath.Join(dir, "*.go"))
		sort.Strings(files)
		for _, f := range files {
			if strings.HasSuffix(f, "_test.go") {
				continue
			}
			abs, _ := filepath.Abs(f)
			patterns = append(patterns, "file="+abs)
		}
	}
	if len(patterns) == 0 {
		return nil, nil, nil, fmt.Errorf("no go files in %s", dir)
	}
	pcfg := &packages.Config{Mode: analysis.PkgLoadMode, Tests: false, Dir: dir}
	prog, pkgs, err := analysis.LoadProgram(analysis.LoadProgramOptions{
		BuildMode:     ssa.InstantiateGenerics,
		ApplyRewrites: false,
		PackageConfig: pcfg,
	}, patterns)
	if err != nil {
		return nil, nil, nil, err
	}
	cfg := config.NewDefault()
	for _, name := range []string{"config.yaml", "config.json"} {
		p := filepath.Join(dir, name)
		if _, e := os.Stat(p); e == nil {
			cfg, err = config.LoadFromFiles(p)
			if err != nil {
				return nil, nil, nil, err
			}
			break
		}
	}
	return prog, pkgs, cfg, nil
}

func main() {
	dir := flag.String("dir", ".", "program directory")
	out := flag.String("out", "-", "function records (ndjson)")
	descOut := flag.String("desc", "", "descriptions (ndjson, not read by TLC)")
	name := flag.String("name", "", "program name in the records")
	only := flag.String("only", "", "only functions whose package path has this prefix ('' = every function with a body)")
	sample := flag.Int("sample", 0, "seeded sample size (0 = all)")
	seed := flag.Int64("seed", 1, "sample seed")
	maxInstr := flag.Int("maxinstr", 400, "skip (and count) functions with more instructions")
	nmarks := flag.Int("marks", 200, "number of functions for which the final marks are dumped")
	marksMaxInstr := flag.Int("marksmaxinstr", 60, "marks only for functions with at most this many instructions")
	flag.Parse()
	if *name == "" {
		*name = filepath.Base(*dir)
	}
	if *descOut == "" {
		*descOut = *out + ".desc"
	}
	prog, pkgs, cfg, err := load(*dir)
	if err != nil {
		fmt.Fprintln(os.Stderr, "dudump: load:", err)
		os.Exit(3)
	}
	cfg.LogLevel = int(config.ErrLevel)
	cfg.SummarizeOnDemand = false
	state, err := df.NewInitializedAnalyzerState(prog, pkgs, config.NewLogGroup(cfg), cfg)
	if err != nil {
		fmt.Fprintln(os.Stderr, "dudump: state:", err)
		os.Exit(4)
	}
	var fns []*ssa.Function
	for f := range ssautil.AllFunctions(prog) {
		if len(f.Blocks) == 0 || len(f.Blocks[0].Instrs) == 0 {
			continue
		}
		if *only != "" && (f.Pkg == nil || !strings.HasPrefix(f.Pkg.Pkg.Path(), *only)) {
			continue
		}
		fns = append(fns, f)
	}
	sort.Slice(fns, func(i, j int) bool { return fns[i].String() < fns[j].String() })
	// drop duplicates by name (instantiations may repeat)
	total := len(fns)
	if *sample > 0 && *sample < len(fns) {
		x := uint64(*seed)*0x9E3779B97F4A7C15 + 7
		for i := len(fns) - 1; i > 0; i-- {
			x = x*6364136223846793005 + 1442695040888963407
			j := int((x >> 33) % uint64(i+1))
			fns[i], fns[j] = fns[j], fns[i]
		}
		fns = fns[:*sample]
		sort.Slice(fns, func(i, j int) bool { return fns[i].String() < fns[j].String() })
	}
	tooBig := 0
	var work []*ssa.Function
	for _, f := range fns {
		n := 0
		for _, b := range f.Blocks {
			n += len(b.Instrs)
		}
		if n > *maxInstr {
			tooBig++
			continue
		}
		work = append(work, f)
	}
	d := &fnDumper{state: state, track: taint.IsNodeOfInterest, prog: *name}
	o := hutil.NewOut(*out)
	od := hutil.NewOut(*descOut)
	type result struct {
		rec  *funcRec
		desc *descRec
		err  error
		fn   *ssa.Function
	}
	results := make([]result, len(work))
	marksLeft := *nmarks
	wantMarks := make([]bool, len(work))
	for i, f := range work {
		n := 0
		for _, b := range f.Blocks {
			n += len(b.Instrs)
		}
		if marksLeft > 0 && n <= *marksMaxInstr && n >= 4 {
			wantMarks[i] = true
			marksLeft--
		}
	}
	var wg sync.WaitGroup
	idx := make(chan int)
	nw := runtime.NumCPU()
	if nw > 2 {
		nw = 2 // the machine is shared; the check runs two dudump processes at a time
	}
	for w := 0; w < nw; w++ {
		wg.Add(1)
		go func() {
			defer wg.Done()
			for i := range idx {
				r, ds, e := d.dump(work[i], wantMarks[i])
				results[i] = result{r, ds, e, work[i]}
			}
		}()
	}
	for i := range work {
		idx <- i
	}
	close(idx)
	wg.Wait()
	failed := 0
	for _, r := range results {
		if r.err != nil || r.rec == nil {
			failed++
			fmt.Fprintf(os.Stderr, "dudump: %s: %v\n", r.fn.String(), r.err)
			continue
		}
		o.Put(r.rec)
		od.Put(r.desc)
	}
	o.Close()
	od.Close()
	fmt.Fprintf(os.Stderr, "dudump: %s functions_with_body=%d selected=%d too_big=%d dumped=%d failed=%d\n",
		*name, total, len(fns), tooBig, len(work)-failed, failed)
}
