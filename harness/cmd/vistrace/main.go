// vistrace (C06 / C07, Role-A binding) records the inter-procedural traversal of the REAL taint visitor through the
// verif hook taint.VerifOnVisit and writes it as one event per line for spec/VisitorTrace.tla:
//
//	vistrace -dir <module> -patterns ./p1,./p2 -taint a.yaml,b.yaml -out trace.ndjson [-max N]
//
// {"op","cur","next","nl","prog","cfg"}: cur / next are small integers standing for VisitorNode.Key() (numbered by
// first appearance within one analysis run, 0 = none); nl = the candidate's call stack or closure stack is a lasso.
package main

import (
	"flag"
	"fmt"
	"os"
	"path/filepath"
	"strings"

	"github.com/awslabs/ar-go-tools/analysis/backtrace"
	"github.com/awslabs/ar-go-tools/analysis/config"
	df "github.com/awslabs/ar-go-tools/analysis/dataflow"
	"github.com/awslabs/ar-go-tools/analysis/taint"
	"verifharness/internal/hutil"
)

type ev struct {
	Op   string `json:"op"`
	Cur  int    `json:"cur"`
	Next int    `json:"next"`
	Nl   bool   `json:"nl"`
	Prog string `json:"prog"`
	Cfg  string `json:"cfg"`
}

func main() {
	dir := flag.String("dir", ".", "module directory")
	patterns := flag.String("patterns", ".", "comma separated package patterns; each one is loaded on its own")
	taintCfgs := flag.String("taint", "", "comma separated config files")
	back := flag.Bool("backward", false, "record the backward traversal of backtrace.Analyze instead of taint.Analyze")
	out := flag.String("out", "-", "ndjson output")
	max := flag.Int("max", 60000, "stop recording after this many events (the analysis still runs to its end)")
	flag.Parse()
	o := hutil.NewOut(*out)
	defer o.Close()
	devnull, _ := os.OpenFile(os.DevNull, os.O_WRONLY, 0)
	os.Stdout = devnull
	n := 0
	for _, pat := range strings.Split(*patterns, ",") {
		prog, pkgs, err := hutil.Load(*dir, true, pat)
		if err != nil {
			fmt.Fprintf(os.Stderr, "vistrace: load %s: %v\n", pat, err)
			continue
		}
		for _, c := range strings.Split(*taintCfgs, ",") {
			cfg, err := config.LoadFromFiles(c)
			if err != nil {
				fmt.Fprintf(os.Stderr, "vistrace: config %s: %v\n", c, err)
				continue
			}
			ids := map[df.KeyType]int{}
			id := func(v *df.VisitorNode) int {
				if v == nil {
					return 0
				}
				k := v.Key()
				if i, ok := ids[k]; ok {
					return i
				}
				ids[k] = len(ids) + 1
				return len(ids)
			}
			cname := strings.TrimSuffix(filepath.Base(c), ".yaml")
			full := n >= *max
			// a run is recorded completely or not at all: a truncated traversal cannot be validated
			var buf []ev
			hook := func(event string, cur *df.VisitorNode, next *df.VisitorNode) {
				if full {
					return
				}
				e := ev{Op: event, Cur: id(cur), Next: id(next), Prog: pat, Cfg: cname}
				if next != nil {
					e.Nl = next.Trace.GetLassoHandle() != nil || next.ClosureTrace.GetLassoHandle() != nil
				}
				buf = append(buf, e)
			}
			func() {
				defer func() {
					if r := recover(); r != nil {
						buf = nil // a crashing run is C07's subject, not a trace
					}
				}()
				if *back {
					backtrace.VerifOnVisit = hook
					_, _ = backtrace.Analyze(config.NewLogGroup(cfg), cfg, prog, pkgs)
				} else {
					taint.VerifOnVisit = hook
					_, _ = taint.Analyze(cfg, prog, pkgs)
				}
			}()
			taint.VerifOnVisit, backtrace.VerifOnVisit = nil, nil
			if !full && n+len(buf)+1 <= *max {
				for _, e := range buf {
					o.Put(e)
				}
				if !*back { // the backward visitor reports the end of every traversal itself
					o.Put(ev{Op: "end", Prog: pat, Cfg: cname})
				}
				n += len(buf) + 1
			}
		}
	}
}
