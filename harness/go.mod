module verifharness

go 1.22

require (
	github.com/awslabs/ar-go-tools v0.0.0
	golang.org/x/tools v0.24.0
)

require (
	github.com/dave/dst v0.27.3 // indirect
	github.com/yourbasic/graph v0.0.0-20210606180040-8ecfec1c2869 // indirect
	golang.org/x/exp v0.0.0-20240719175910-8a7402abbf56 // indirect
	golang.org/x/mod v0.20.0 // indirect
	golang.org/x/sync v0.8.0 // indirect
	golang.org/x/sys v0.25.0 // indirect
	golang.org/x/term v0.24.0 // indirect
	gonum.org/v1/gonum v0.15.0 // indirect
	gopkg.in/yaml.v3 v3.0.1 // indirect
)

replace github.com/awslabs/ar-go-tools => /repo
