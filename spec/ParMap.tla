------------------------------- MODULE ParMap -------------------------------
(***************************************************************************)
(* C20 -- "The analyzer's own parallelism is race-free and order-          *)
(* preserving": the worker pool.                                           *)
(*                                                                         *)
(* Role A: a transcription, one label per communication / critical step,   *)
(* of internal/funcutil/collections.go:83-125                              *)
(*                                                                         *)
(*   func MapParallel(a []T, f func(T) S, numRoutines int) []S {           *)
(*     in := make(chan elt[T])                                             *)
(*     go func() { defer close(in)                       -- feeder f0..f3  *)
(*                 for i, x := range a { in <- elt[T]{i, x} } }()          *)
(*     out := make(chan elt[S]); wg := &sync.WaitGroup{}                   *)
(*     if numRoutines <= 0 { numRoutines = 1 }                             *)
(*     wg.Add(numRoutines)                               -- main m1        *)
(*     for i := 0; i < numRoutines; i++ {                -- main m2        *)
(*       go func() { defer wg.Done()                     -- worker w0..w4  *)
(*                   for x := range in { out <- elt[S]{x.idx, f(x.x)} } }()*)
(*     }                                                                   *)
(*     go func() { wg.Wait(); close(out) }()             -- closer c0..c2  *)
(*     xs := ...; for x := range out { xs = append(xs, x) }   -- main m4   *)
(*     res := make([]S, len(xs))                         -- main m5        *)
(*     for _, x := range xs { res[x.idx] = x.x }         -- main m6        *)
(*     return res                                        -- main m7        *)
(*   }                                                                     *)
(*                                                                         *)
(* Unbuffered channels are modelled by "offers": a sender publishes its    *)
(* message and stays blocked until a receiver has taken it (rendezvous).   *)
(* A goroutine exists from the `go` statement on (spawned[p]).             *)
(*                                                                         *)
(* Checked by TLC for every N in 0..4 and numRoutines W in -1..4 (the     *)
(* thorough tier adds some pairs with N = 5 or W = 5; one cfg per pair):   *)
(*   ResultOrder     the returned slice is [F(a[1]), ..., F(a[N])]         *)
(*   NoSendOnClosed  no worker sends (or is blocked sending) on a closed   *)
(*                   `out`                                                 *)
(*   NoPanic         res[x.idx] never indexes out of range                 *)
(*   deadlock freedom (TLC), and under weak fairness of every goroutine    *)
(*   Returns         <>mainDone                                            *)
(*   NoLeak          <>(all goroutines have terminated)                    *)
(*                                                                         *)
(* With Hist = TRUE the history variable `ford` records the order in which *)
(* the calls of the user function f complete.  The set of all values of    *)
(* ford at termination is the set of SCHEDULES that the check replays on   *)
(* the real MapParallel (harness/cmd/parmap: f is the scheduler gate).     *)
(* ParMapObs.tla evaluates the same properties on what the real code did   *)
(* under every replayed schedule.                                          *)
(***************************************************************************)
EXTENDS Integers, Sequences, FiniteSets, TLC, Json, SequencesExt, ParMapDefs

CONSTANTS N,      \* len(a)
          W,      \* the numRoutines argument (may be <= 0)
          Hist    \* TRUE: record the completion order of the f calls

ASSUME N \in Nat /\ W \in Int /\ Hist \in BOOLEAN
MinusOne == -1                               \* a cfg file cannot spell a negative number: W <- MinusOne

EffW    == EffRoutines(W)
Idx     == 1 .. N
A       == [k \in Idx |-> k]                 \* the input slice (distinct elements)
Expected == MapSeq(A)                        \* what the sequential Map returns (F, MapSeq: ParMapDefs)

FEEDER  == 0
Workers == 1 .. EffW
CLOSER  == EffW + 1
MAIN    == EffW + 2
None    == [idx |-> 0, x |-> 0]

(* --algorithm ParMap {
variables
  spawned   = [p \in {FEEDER, CLOSER} \cup Workers |-> FALSE],  \* the `go` statement has been executed
  inOffer   = None,                         \* the feeder's pending send on `in`
  inClosed  = FALSE,
  outOffer  = [w \in Workers |-> None],     \* worker w's pending send on `out`
  outClosed = FALSE,
  wgCount   = 0,
  panicked  = FALSE,
  mainDone  = FALSE,
  res       = <<>>,
  ford      = <<>>;                         \* history: indices in the order their f call completed

fair process (feeder = FEEDER)
variable fi = 1;
{
f0: await spawned[FEEDER];
f1: while (fi <= N) {
      inOffer := [idx |-> fi, x |-> A[fi]];          \* in <- elt[T]{i, x}
f2:   await inOffer = None;                          \* ... returns when a worker has received it
      fi := fi + 1;
    };
f3: inClosed := TRUE;                                \* deferred close(in)
}

fair process (worker \in Workers)
variable cur = None;
{
w0: await spawned[self];
w1: while (TRUE) {                                   \* for x := range in
      either { await inOffer # None;
               cur := inOffer; inOffer := None; }
      or     { await inOffer = None /\ inClosed;
               goto w4; };
w2:   \* f(x.x) returns (in the replay: the gate releases this call) and the send on `out` begins
      outOffer[self] := [idx |-> cur.idx, x |-> F(cur.x)];       \* out <- elt[S]{x.idx, f(x.x)}
      if (Hist) { ford := Append(ford, cur.idx); };
      cur := None;
w3:   await outOffer[self] = None;                   \* ... returns when main has received it
    };
w4: wgCount := wgCount - 1;                          \* deferred wg.Done()
}

fair process (closer = CLOSER)
{
c0: await spawned[CLOSER];
c1: await wgCount = 0;                               \* wg.Wait()
c2: outClosed := TRUE;                               \* close(out)
}

fair process (main = MAIN)
variables xs = <<>>, k = 1, j = 1;
{
m0: spawned[FEEDER] := TRUE;                         \* go func() { feeder }()
m1: wgCount := EffW;                                 \* wg.Add(numRoutines)
m2: while (k <= EffW) {                              \* go func() { worker }()
      spawned[k] := TRUE;
      k := k + 1;
    };
m3: spawned[CLOSER] := TRUE;                         \* go func() { wg.Wait(); close(out) }()
m4: while (TRUE) {                                   \* for x := range out { xs = append(xs, x) }
      either { with (w \in {v \in Workers : outOffer[v] # None}) {
                 xs := Append(xs, outOffer[w]);
                 outOffer[w] := None; } }
      or     { await outClosed;
               goto m5; };
    };
m5: res := [i \in 1 .. Len(xs) |-> 0];               \* res := make([]S, len(xs))
m6: while (j <= Len(xs)) {                           \* res[x.idx] = x.x
      if (xs[j].idx > Len(res)) { panicked := TRUE; }
      else { res[xs[j].idx] := xs[j].x; };
      j := j + 1;
    };
m7: mainDone := TRUE;                                \* return res
}
} *)
\* BEGIN TRANSLATION
VARIABLES pc, spawned, inOffer, inClosed, outOffer, outClosed, wgCount, 
          panicked, mainDone, res, ford, fi, cur, xs, k, j

vars == << pc, spawned, inOffer, inClosed, outOffer, outClosed, wgCount, 
           panicked, mainDone, res, ford, fi, cur, xs, k, j >>

ProcSet == {FEEDER} \cup (Workers) \cup {CLOSER} \cup {MAIN}

Init == (* Global variables *)
        /\ spawned = [p \in {FEEDER, CLOSER} \cup Workers |-> FALSE]
        /\ inOffer = None
        /\ inClosed = FALSE
        /\ outOffer = [w \in Workers |-> None]
        /\ outClosed = FALSE
        /\ wgCount = 0
        /\ panicked = FALSE
        /\ mainDone = FALSE
        /\ res = <<>>
        /\ ford = <<>>
        (* Process feeder *)
        /\ fi = 1
        (* Process worker *)
        /\ cur = [self \in Workers |-> None]
        (* Process main *)
        /\ xs = <<>>
        /\ k = 1
        /\ j = 1
        /\ pc = [self \in ProcSet |-> CASE self = FEEDER -> "f0"
                                        [] self \in Workers -> "w0"
                                        [] self = CLOSER -> "c0"
                                        [] self = MAIN -> "m0"]

f0 == /\ pc[FEEDER] = "f0"
      /\ spawned[FEEDER]
      /\ pc' = [pc EXCEPT ![FEEDER] = "f1"]
      /\ UNCHANGED << spawned, inOffer, inClosed, outOffer, outClosed, wgCount, 
                      panicked, mainDone, res, ford, fi, cur, xs, k, j >>

f1 == /\ pc[FEEDER] = "f1"
      /\ IF fi <= N
            THEN /\ inOffer' = [idx |-> fi, x |-> A[fi]]
                 /\ pc' = [pc EXCEPT ![FEEDER] = "f2"]
            ELSE /\ pc' = [pc EXCEPT ![FEEDER] = "f3"]
                 /\ UNCHANGED inOffer
      /\ UNCHANGED << spawned, inClosed, outOffer, outClosed, wgCount, 
                      panicked, mainDone, res, ford, fi, cur, xs, k, j >>

f2 == /\ pc[FEEDER] = "f2"
      /\ inOffer = None
      /\ fi' = fi + 1
      /\ pc' = [pc EXCEPT ![FEEDER] = "f1"]
      /\ UNCHANGED << spawned, inOffer, inClosed, outOffer, outClosed, wgCount, 
                      panicked, mainDone, res, ford, cur, xs, k, j >>

f3 == /\ pc[FEEDER] = "f3"
      /\ inClosed' = TRUE
      /\ pc' = [pc EXCEPT ![FEEDER] = "Done"]
      /\ UNCHANGED << spawned, inOffer, outOffer, outClosed, wgCount, panicked, 
                      mainDone, res, ford, fi, cur, xs, k, j >>

feeder == f0 \/ f1 \/ f2 \/ f3

w0(self) == /\ pc[self] = "w0"
            /\ spawned[self]
            /\ pc' = [pc EXCEPT ![self] = "w1"]
            /\ UNCHANGED << spawned, inOffer, inClosed, outOffer, outClosed, 
                            wgCount, panicked, mainDone, res, ford, fi, cur, 
                            xs, k, j >>

w1(self) == /\ pc[self] = "w1"
            /\ \/ /\ inOffer # None
                  /\ cur' = [cur EXCEPT ![self] = inOffer]
                  /\ inOffer' = None
                  /\ pc' = [pc EXCEPT ![self] = "w2"]
               \/ /\ inOffer = None /\ inClosed
                  /\ pc' = [pc EXCEPT ![self] = "w4"]
                  /\ UNCHANGED <<inOffer, cur>>
            /\ UNCHANGED << spawned, inClosed, outOffer, outClosed, wgCount, 
                            panicked, mainDone, res, ford, fi, xs, k, j >>

w2(self) == /\ pc[self] = "w2"
            /\ outOffer' = [outOffer EXCEPT ![self] = [idx |-> cur[self].idx, x |-> F(cur[self].x)]]
            /\ IF Hist
                  THEN /\ ford' = Append(ford, cur[self].idx)
                  ELSE /\ TRUE
                       /\ ford' = ford
            /\ cur' = [cur EXCEPT ![self] = None]
            /\ pc' = [pc EXCEPT ![self] = "w3"]
            /\ UNCHANGED << spawned, inOffer, inClosed, outClosed, wgCount, 
                            panicked, mainDone, res, fi, xs, k, j >>

w3(self) == /\ pc[self] = "w3"
            /\ outOffer[self] = None
            /\ pc' = [pc EXCEPT ![self] = "w1"]
            /\ UNCHANGED << spawned, inOffer, inClosed, outOffer, outClosed, 
                            wgCount, panicked, mainDone, res, ford, fi, cur, 
                            xs, k, j >>

w4(self) == /\ pc[self] = "w4"
            /\ wgCount' = wgCount - 1
            /\ pc' = [pc EXCEPT ![self] = "Done"]
            /\ UNCHANGED << spawned, inOffer, inClosed, outOffer, outClosed, 
                            panicked, mainDone, res, ford, fi, cur, xs, k, j >>

worker(self) == w0(self) \/ w1(self) \/ w2(self) \/ w3(self) \/ w4(self)

c0 == /\ pc[CLOSER] = "c0"
      /\ spawned[CLOSER]
      /\ pc' = [pc EXCEPT ![CLOSER] = "c1"]
      /\ UNCHANGED << spawned, inOffer, inClosed, outOffer, outClosed, wgCount, 
                      panicked, mainDone, res, ford, fi, cur, xs, k, j >>

c1 == /\ pc[CLOSER] = "c1"
      /\ wgCount = 0
      /\ pc' = [pc EXCEPT ![CLOSER] = "c2"]
      /\ UNCHANGED << spawned, inOffer, inClosed, outOffer, outClosed, wgCount, 
                      panicked, mainDone, res, ford, fi, cur, xs, k, j >>

c2 == /\ pc[CLOSER] = "c2"
      /\ outClosed' = TRUE
      /\ pc' = [pc EXCEPT ![CLOSER] = "Done"]
      /\ UNCHANGED << spawned, inOffer, inClosed, outOffer, wgCount, panicked, 
                      mainDone, res, ford, fi, cur, xs, k, j >>

closer == c0 \/ c1 \/ c2

m0 == /\ pc[MAIN] = "m0"
      /\ spawned' = [spawned EXCEPT ![FEEDER] = TRUE]
      /\ pc' = [pc EXCEPT ![MAIN] = "m1"]
      /\ UNCHANGED << inOffer, inClosed, outOffer, outClosed, wgCount, 
                      panicked, mainDone, res, ford, fi, cur, xs, k, j >>

m1 == /\ pc[MAIN] = "m1"
      /\ wgCount' = EffW
      /\ pc' = [pc EXCEPT ![MAIN] = "m2"]
      /\ UNCHANGED << spawned, inOffer, inClosed, outOffer, outClosed, 
                      panicked, mainDone, res, ford, fi, cur, xs, k, j >>

m2 == /\ pc[MAIN] = "m2"
      /\ IF k <= EffW
            THEN /\ spawned' = [spawned EXCEPT ![k] = TRUE]
                 /\ k' = k + 1
                 /\ pc' = [pc EXCEPT ![MAIN] = "m2"]
            ELSE /\ pc' = [pc EXCEPT ![MAIN] = "m3"]
                 /\ UNCHANGED << spawned, k >>
      /\ UNCHANGED << inOffer, inClosed, outOffer, outClosed, wgCount, 
                      panicked, mainDone, res, ford, fi, cur, xs, j >>

m3 == /\ pc[MAIN] = "m3"
      /\ spawned' = [spawned EXCEPT ![CLOSER] = TRUE]
      /\ pc' = [pc EXCEPT ![MAIN] = "m4"]
      /\ UNCHANGED << inOffer, inClosed, outOffer, outClosed, wgCount, 
                      panicked, mainDone, res, ford, fi, cur, xs, k, j >>

m4 == /\ pc[MAIN] = "m4"
      /\ \/ /\ \E w \in {v \in Workers : outOffer[v] # None}:
                 /\ xs' = Append(xs, outOffer[w])
                 /\ outOffer' = [outOffer EXCEPT ![w] = None]
            /\ pc' = [pc EXCEPT ![MAIN] = "m4"]
         \/ /\ outClosed
            /\ pc' = [pc EXCEPT ![MAIN] = "m5"]
            /\ UNCHANGED <<outOffer, xs>>
      /\ UNCHANGED << spawned, inOffer, inClosed, outClosed, wgCount, panicked, 
                      mainDone, res, ford, fi, cur, k, j >>

m5 == /\ pc[MAIN] = "m5"
      /\ res' = [i \in 1 .. Len(xs) |-> 0]
      /\ pc' = [pc EXCEPT ![MAIN] = "m6"]
      /\ UNCHANGED << spawned, inOffer, inClosed, outOffer, outClosed, wgCount, 
                      panicked, mainDone, ford, fi, cur, xs, k, j >>

m6 == /\ pc[MAIN] = "m6"
      /\ IF j <= Len(xs)
            THEN /\ IF xs[j].idx > Len(res)
                       THEN /\ panicked' = TRUE
                            /\ res' = res
                       ELSE /\ res' = [res EXCEPT ![xs[j].idx] = xs[j].x]
                            /\ UNCHANGED panicked
                 /\ j' = j + 1
                 /\ pc' = [pc EXCEPT ![MAIN] = "m6"]
            ELSE /\ pc' = [pc EXCEPT ![MAIN] = "m7"]
                 /\ UNCHANGED << panicked, res, j >>
      /\ UNCHANGED << spawned, inOffer, inClosed, outOffer, outClosed, wgCount, 
                      mainDone, ford, fi, cur, xs, k >>

m7 == /\ pc[MAIN] = "m7"
      /\ mainDone' = TRUE
      /\ pc' = [pc EXCEPT ![MAIN] = "Done"]
      /\ UNCHANGED << spawned, inOffer, inClosed, outOffer, outClosed, wgCount, 
                      panicked, res, ford, fi, cur, xs, k, j >>

main == m0 \/ m1 \/ m2 \/ m3 \/ m4 \/ m5 \/ m6 \/ m7

(* Allow infinite stuttering to prevent deadlock on termination. *)
Terminating == /\ \A self \in ProcSet: pc[self] = "Done"
               /\ UNCHANGED vars

Next == feeder \/ closer \/ main
           \/ (\E self \in Workers: worker(self))
           \/ Terminating

Spec == /\ Init /\ [][Next]_vars
        /\ WF_vars(feeder)
        /\ \A self \in Workers : WF_vars(worker(self))
        /\ WF_vars(closer)
        /\ WF_vars(main)

Termination == <>(\A self \in ProcSet: pc[self] = "Done")

\* END TRANSLATION

-----------------------------------------------------------------------------
(* Properties of the model *)

ResultOrder    == mainDone => res = Expected
NoSendOnClosed == \A w \in Workers : (pc[w] = "w2" \/ outOffer[w] # None) => ~outClosed
NoPanic        == ~panicked
WgNonNegative  == wgCount >= 0
AllDone        == \A p \in ProcSet : pc[p] = "Done"
Returns        == <>mainDone
NoLeak         == <>AllDone
OnlyAfterAll   == mainDone => \A w \in Workers : pc[w] \in {"w4", "Done"}   \* return only after every worker left its loop

-----------------------------------------------------------------------------
(* Schedule export (Hist = TRUE): every completion order of the f calls *)

ASSUME TLCSet(1, {})
CollectSchedules == IF AllDone THEN TLCSet(1, TLCGet(1) \cup {ford}) ELSE TRUE
WriteSchedules ==
    /\ ndJsonSerialize("schedules.ndjson",
                       SetToSeq({[n |-> N, w |-> W, order |-> s] : s \in TLCGet(1)}))
    /\ PrintT(<<"PARMAP_SCHEDULES", N, W, Cardinality(TLCGet(1))>>)

=============================================================================
