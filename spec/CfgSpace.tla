------------------------------ MODULE CfgSpace ------------------------------
(***************************************************************************)
(* Generator specification for C16 (and for the defer/panic shapes of C07):*)
(* the reachable states with an empty `open` stack are exactly the         *)
(* structured function bodies of at most K statements built from           *)
(*   d  defer            i  if oracle() {      e  } else {      x  }       *)
(*   f  for oracle() {   F  for {              b  break         c continue *)
(*   r  return           p  panic              w  switch {      k  case:   *)
(*   l  label (top level, once)                g  if oracle() { goto L }   *)
(* TLC's state graph is the test suite (B1): every complete body is        *)
(* rendered to a Go function, analysed by the real defers.AnalyzeFunction  *)
(* and executed natively.                                                  *)
(***************************************************************************)
EXTENDS Naturals, Sequences, FiniteSets, TLC, Json, SequencesExt

CONSTANTS K,        \* maximal number of tokens
          MaxDepth, \* maximal nesting
          MaxDefer, \* maximal number of defer statements
          Alphabet  \* tokens that may be used (a second configuration explores long defer runs over a small alphabet)

VARIABLES toks, open, hasLabel, hasGoto, nd

vars == <<toks, open, hasLabel, hasGoto, nd>>

Top == IF open = <<>> THEN "none" ELSE open[Len(open)]
InFor == \E j \in 1 .. Len(open) : open[j] = "for"
InBreakable == \E j \in 1 .. Len(open) : open[j] \in {"for", "sw0", "sw1"}
CanStmt == Top # "sw0"

Push(t, o) == t \in Alphabet /\ toks' = Append(toks, t) /\ open' = Append(open, o)
Same(t)    == t \in Alphabet /\ toks' = Append(toks, t) /\ open' = open
Pop(t)     == t \in Alphabet /\ toks' = Append(toks, t) /\ open' = SubSeq(open, 1, Len(open) - 1)
Repl(t, o) == t \in Alphabet /\ toks' = Append(toks, t) /\ open' = [open EXCEPT ![Len(open)] = o]

Init == toks = <<>> /\ open = <<>> /\ hasLabel = FALSE /\ hasGoto = FALSE /\ nd = 0

Next ==
    /\ Len(toks) < K
    /\ \/ CanStmt /\ nd < MaxDefer /\ Same("d") /\ nd' = nd + 1 /\ UNCHANGED <<hasLabel, hasGoto>>
       \/ /\ UNCHANGED <<hasLabel, hasGoto, nd>>
          /\ \/ CanStmt /\ Len(open) < MaxDepth /\ Push("i", "if")
             \/ Top = "if" /\ Repl("e", "ifelse")
             \/ open # <<>> /\ Pop("x")
             \/ CanStmt /\ Len(open) < MaxDepth /\ Push("f", "for")
             \/ CanStmt /\ Len(open) < MaxDepth /\ Push("F", "for")
             \/ CanStmt /\ InBreakable /\ Same("b")
             \/ CanStmt /\ InFor /\ Same("c")
             \/ CanStmt /\ Same("r")
             \/ CanStmt /\ Same("p")
             \/ CanStmt /\ Len(open) < MaxDepth /\ Push("w", "sw0")
             \/ Top \in {"sw0", "sw1"} /\ Repl("k", "sw1")
       \/ open = <<>> /\ ~hasLabel /\ Same("l") /\ hasLabel' = TRUE /\ UNCHANGED <<hasGoto, nd>>
       \/ CanStmt /\ Same("g") /\ hasGoto' = TRUE /\ UNCHANGED <<hasLabel, nd>>

Spec == Init /\ [][Next]_vars

Complete == open = <<>> /\ hasLabel = hasGoto /\ nd > 0

ASSUME TLCSet(1, {})
Collect == IF Complete THEN TLCSet(1, TLCGet(1) \cup {toks}) ELSE TRUE

ToSeq(S) == LET q == SetToSeq(S) IN [j \in 1 .. Len(q) |-> [t |-> q[j]]]

Post == /\ ndJsonSerialize("cfgs.ndjson", ToSeq(TLCGet(1)))
        /\ PrintT(<<"CFGSPACE", Cardinality(TLCGet(1))>>)
=============================================================================
