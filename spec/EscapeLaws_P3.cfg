SPECIFICATION SpecLaws
CONSTANTS
  N = 3
  Flags = {1}
  SelfLoops = FALSE
  Triples = FALSE
  IMode = "sym"
INVARIANTS
  Idempotent
  Commutative
  UpperBound
  ResultWF
  OrderIsJoin
  AlgoIsDecl
  UnitLaw
  Associative
  LeastUpper
  LeqPartial
POSTCONDITION PostCount
CHECK_DEADLOCK FALSE
