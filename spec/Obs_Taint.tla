------------------------------ MODULE Obs_Taint ------------------------------
(***************************************************************************)
(* C01 / C02 / C13 as properties of the state space of GoSem, parameterised*)
(* by the facts the REAL taint analysis reported for the same programs     *)
(* (facts.ndjson, written by harness/cmd/semdrive).                        *)
(*                                                                         *)
(*   Sound_C01   every flow event of every execution is reported under     *)
(*               every soundness-preserving configuration                  *)
(*   (C02)       the same invariant on programs with sanitizer/validator   *)
(*               steps: a flow whose tag was NOT validated on this         *)
(*               execution (v = FALSE) and did not come out of a sanitizer *)
(*               (sanitize returns an untagged datum) must be reported     *)
(*   Sound_C13   with use-escape-analysis: reported as flow, or the source *)
(*               is reported as escaping its thread                        *)
(* Batch form: all uncovered events are collected (register 1 of SemBatch) *)
(* and written with their decision scripts to misses.ndjson; the           *)
(* INVARIANT form is used by --replay to obtain the counterexample trace.  *)
(***************************************************************************)
EXTENDS SemBatch

Facts == ndJsonDeserialize("facts.ndjson")   \* Facts[p] = [cfgs |-> <<[name, flows, escapes]>>]

PairSet(q) == {<<q[j][1], q[j][2]>> : j \in 1 .. Len(q)}
Reported(pp, c) == PairSet(Facts[pp].cfgs[c].flows)
EscapedSources(pp, c) == {Facts[pp].cfgs[c].escapes[j][1] : j \in 1 .. Len(Facts[pp].cfgs[c].escapes)}

Covered(pp, c, e) ==
    \/ <<e.a, e.b>> \in Reported(pp, c)
    \/ Facts[pp].cfgs[c].esc /\ e.a \in EscapedSources(pp, c)      \* C13 alternative, only for escape configs

Demanded(e) == e.e = "flow" /\ ~e.v

Sound == \A e \in ev : Demanded(e) => \A c \in 1 .. Len(Facts[p].cfgs) : Covered(p, c, e)

Misses ==
    UNION {{[p |-> r.p, cfg |-> Facts[r.p].cfgs[c].name, src |-> r.ev.a, sink |-> r.ev.b, dec |-> r.dec, sched |-> r.sched]
              : c \in {c \in 1 .. Len(Facts[r.p].cfgs) : ~Covered(r.p, c, r.ev)}}
           : r \in {r \in Truth : Demanded(r.ev)}}

PostTaint ==
    /\ WriteTruth
    /\ ndJsonSerialize("misses.ndjson", SetToSeq(Misses))
    /\ PrintT(<<"OBS_TAINT", NP, Cardinality(Truth), Cardinality(Misses)>>)
=============================================================================
