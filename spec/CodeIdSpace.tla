----------------------------- MODULE CodeIdSpace -----------------------------
(***************************************************************************)
(* Generator specification for C04 (binding B1).  Every initial state is   *)
(* one CASE  [role, form, target layout, specification]:                   *)
(*   role   in {source, sink, sanitizer, validator, backtracepoint}        *)
(*   form   in the call forms and identifier kinds of CodeId.tla           *)
(*   target the package layout whose names the specification is built from *)
(*   spec   one pattern per field of a code identifier + the kind.         *)
(* A pattern is built from the TARGET's name or from a DECOY's name (the   *)
(* near-miss name, the decoy package, the wrong receiver, the wrong        *)
(* context: the negative shapes) by one of the pattern classes exact       *)
(* (unanchored full name), anch ^..$, pre ^.., suf ..$, mid (substring),   *)
(* alt a|zz, or it is not given.                                           *)
(* The space is the set of specifications that deviate from the baseline   *)
(* specification of the form in at most one field (all options) or in      *)
(* exactly two fields (reduced options), so that every pattern class meets *)
(* every field, role, form and layout, and every pair of fields interacts. *)
(* TLC's initial states ARE the test suite; they are exported (together    *)
(* with the universe of sites of every form, names spelled out) through a  *)
(* register and written by the POSTCONDITION.                              *)
(***************************************************************************)
EXTENDS CodeId, Json, SequencesExt

VARIABLE c

\* ------------------------------------------------- names a pattern is built from
\* b = 1: the target's name, b = 2: the decoy's name, b = 3: an alternative spelling of the target's name
FieldName(f, b, form, target) ==
    CASE f = "pkg"    -> (CASE b = 1 -> Path(target) [] b = 2 -> Path(DecoyLay(target)) [] b = 3 -> PName(target))
      [] f = "method" -> MName(b)
      [] f = "recv"   -> RName(b)
      [] f = "ctx"    -> CName(b)
      [] f = "vm"     -> KName(b)
      [] f = "typ"    -> (CASE b \in {1, 2} -> TName(b)
                            [] b = 3 -> IF form = "chanrecv" THEN Chan \o TName(1) ELSE Star \o TName(1))
      [] f = "field"  -> FName(b)

Bases(f, form) ==
    IF form \in KindForms /\ f \in {"pkg", "typ"} THEN {1, 2, 3} ELSE {1, 2}

ClassesFor(f, form) ==
    CASE f = "vm"                        -> {"exact", "mid", "alt"}
      [] f = "ctx" /\ form = "closure"   -> {"exact", "pre", "mid", "alt"}  \* the enclosing function of a closure body
      [] OTHER                           -> Classes

Applicable(form) ==
    IF form \in CallForms
    THEN {"pkg", "method", "ctx", "recv"} \cup (IF HasConst(form) THEN {"vm"} ELSE {})
    ELSE {"pkg", "typ", "ctx"} \cup (IF HasField(form) THEN {"field"} ELSE {})

Opts(f, form, target) ==
    IF f = "recv" /\ ~HasRecv(form)
    THEN {NotGiven, Pat("exact", RName(1), 1)}     \* a receiver pattern never matches a plain function
    ELSE {NotGiven} \cup {Pat(cls, FieldName(f, b, form, target), b) : cls \in ClassesFor(f, form), b \in Bases(f, form)}

Red(f, form, target) ==
    IF f = "recv" /\ ~HasRecv(form)
    THEN {NotGiven}
    ELSE {NotGiven, Pat("exact", FieldName(f, 1, form, target), 1), Pat("mid", FieldName(f, 1, form, target), 1),
          Pat("exact", FieldName(f, 2, form, target), 2)}
         \cup (IF "anch" \in ClassesFor(f, form)
               THEN {Pat("anch", FieldName(f, 1, form, target), 1), Pat("anch", FieldName(f, 2, form, target), 2)}
               ELSE {})

Baseline(form, target) ==
    IF form \in CallForms
    THEN [pkg |-> Pat("anch", Path(target), 1), method |-> Pat("anch", MName(1), 1), recv |-> NotGiven,
          ctx |-> NotGiven, vm |-> NotGiven, typ |-> NotGiven, field |-> NotGiven, kind |-> ""]
    ELSE [pkg |-> NotGiven, method |-> NotGiven, recv |-> NotGiven, ctx |-> NotGiven, vm |-> NotGiven,
          typ |-> Pat("exact", TName(1), 1),
          field |-> IF HasField(form) THEN Pat("exact", FName(1), 1) ELSE NotGiven,
          kind |-> KindOf(form)]

Kinds == {"", "store", "channel receive"}

\* a specification that constrains neither the package nor the name (resp. the type) also selects the helper functions
\* that play the fixed true source / true sink of the witness flows: its effect cannot be observed through them
\* (for the closure form the function literals themselves are callees of the main package: the name must be given)
Observable(form, s) ==
    IF form \in CallForms THEN (s.pkg.given \/ s.method.given) /\ (form = "closure" => s.method.given)
    ELSE s.typ.given

Specs(form, target) ==
    LET F    == Applicable(form)
        base == Baseline(form, target)
        one  == UNION {{[base EXCEPT ![f] = o] : o \in Opts(f, form, target)} : f \in F}
        two  == UNION {UNION {{[base EXCEPT ![f] = o1, ![g] = o2] :
                                  o1 \in Red(f, form, target), o2 \in Red(g, form, target)}
                              : g \in F \ {f}} : f \in F}
        knd  == IF form \in KindForms
                THEN {[s EXCEPT !.kind = k] : s \in one, k \in Kinds}
                ELSE {}
    IN {s \in one \cup two \cup knd : Observable(form, s)}

AllCases ==
    UNION {UNION {{[role |-> role, form |-> form, target |-> target, spec |-> s] : s \in Specs(form, target)}
                  : target \in Layouts}
           : <<role, form>> \in {rf \in Roles \X Forms : Typed(rf[1], rf[2])}}

Init == c \in AllCases
Next == FALSE
Spec == Init /\ [][Next]_c

\* ------------------------------------------------------------------ export
ASSUME TLCSet(1, {})
Collect == TLCSet(1, TLCGet(1) \cup {c})

SiteRec(form, s) ==
    [form |-> form, key |-> Key(s), lay |-> s.lay, n |-> s.n, r |-> s.r, c |-> s.c, k |-> s.k,
     path |-> Path(s.lay), pname |-> PName(s.lay),
     method |-> MName(s.n), recv |-> IF s.r = 0 THEN Empty ELSE RName(s.r),
     ctx |-> CName(s.c), const |-> IF s.k = 0 THEN Empty ELSE KName(s.k),
     typ |-> TName(s.n), field |-> IF s.r = 0 THEN Empty ELSE FName(s.r),
     hasrecv |-> HasRecv(form), hasfield |-> HasField(form), hasconst |-> HasConst(form),
     iscall |-> form \in CallForms]

AllSites == UNION {{SiteRec(form, s) : s \in Sites(form)} : form \in Forms}

Post == /\ ndJsonSerialize("cases.ndjson", SetToSeq(TLCGet(1)))
        /\ ndJsonSerialize("sites.ndjson", SetToSeq(AllSites))
        /\ PrintT(<<"CODEIDSPACE", Cardinality(TLCGet(1)), Cardinality(AllSites)>>)
=============================================================================
