----------------------------- MODULE CodeIdCheck -----------------------------
(***************************************************************************)
(* C04, binding B3: the observations recorded from the REAL analyzer       *)
(* (harness/cmd/codeid: one record per case = the case of CodeIdSpace      *)
(* echoed + the keys of the sites the real code identified + the keys of   *)
(* the sites whose classification could not be observed) are compared      *)
(* with the declarative definition of CodeId.tla, in both directions:      *)
(*                                                                         *)
(*   missed   a site in Expected(form, spec) that the real code did not    *)
(*            identify                      ("every location ...")         *)
(*   extra    a site in Forbidden(form, spec) that the real code           *)
(*            identified                    ("... and only those")         *)
(*                                                                         *)
(* One TLC state per case.  Disagreements are not TLC errors: they are     *)
(* accumulated in a register and written by the POSTCONDITION so that one  *)
(* run reports every disagreeing (case, site); the check attributes them   *)
(* to known cells or turns them into VIOLATION lines.                      *)
(***************************************************************************)
EXTENDS CodeId, Json, SequencesExt

\* the observations are parsed once and kept in a TLC register (a plain definition would re-read the file per state)
ASSUME TLCSet(6, ndJsonDeserialize("obs.ndjson"))
Obs == TLCGet(6)

VARIABLE p

Init == p \in 1 .. Len(Obs)
Next == FALSE
Spec == Init /\ [][Next]_p

SeqSet(q) == {q[j] : j \in 1 .. Len(q)}

Shape(spec) == [f \in SpecFields |-> spec[f].cls \o ToString(spec[f].base)]

Fail(o, s, dir) ==
    [id |-> o.id, role |-> o.role, form |-> o.form, target |-> o.target, site |-> Key(s), lay |-> s.lay,
     n |-> s.n, r |-> s.r, c |-> s.c, k |-> s.k, dir |-> dir, kind |-> o.spec.kind, shape |-> Shape(o.spec)]

ASSUME TLCSet(1, {}) /\ TLCSet(2, 0) /\ TLCSet(3, 0) /\ TLCSet(4, 0) /\ TLCSet(5, 0)

\* register 1: disagreements; 2/3/4: number of (case, site) verdicts yes / no / free; 5: unobservable sites
Collect ==
    LET o      == Obs[p]
        ident  == SeqSet(o.ident)
        unobs  == SeqSet(o.unobs)
        S      == {s \in Sites(o.form) : Key(s) \notin unobs}
        V      == [s \in S |-> Verdict(o.form, o.spec, s)]
        missed == {s \in S : V[s] = "yes" /\ Key(s) \notin ident}
        extra  == {s \in S : V[s] = "no" /\ Key(s) \in ident}
    IN /\ TLCSet(1, TLCGet(1) \cup {Fail(o, s, "missed") : s \in missed} \cup {Fail(o, s, "extra") : s \in extra})
       /\ TLCSet(2, TLCGet(2) + Cardinality({s \in S : V[s] = "yes"}))
       /\ TLCSet(3, TLCGet(3) + Cardinality({s \in S : V[s] = "no"}))
       /\ TLCSet(4, TLCGet(4) + Cardinality({s \in S : V[s] = "free"}))
       /\ TLCSet(5, TLCGet(5) + Cardinality(Sites(o.form)) - Cardinality(S))

Post == /\ ndJsonSerialize("codeid_fail.ndjson", SetToSeq(TLCGet(1)))
        /\ PrintT(<<"CODEID_RESULT", Len(Obs), Cardinality(TLCGet(1)), TLCGet(2), TLCGet(3), TLCGet(4), TLCGet(5)>>)
=============================================================================
