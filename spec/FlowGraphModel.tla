--------------------------- MODULE FlowGraphModel ---------------------------
(***************************************************************************)
(* C17, Role A (design-level model; its findings are never verdicts).      *)
(*                                                                         *)
(* The edge / link maintenance of analysis/dataflow as implemented, on a   *)
(* fixed universe of 4 nodes and 2 summaries:                              *)
(*   node 1  call node of summary 1 (call site 1, callee = summary 2,      *)
(*           a call returning a 2-tuple: its marks carry index 0 or 1)     *)
(*   node 2  an argument node of summary 1                                 *)
(*   node 3  closure-creation node of summary 1 (closure = summary 2)      *)
(*   node 4  global-access node of summary 1 (global G)                    *)
(*                                                                         *)
(* Actions (function_summary_graph.go, inter_procedural.go):               *)
(*   AddEdge    updateEdgeInfo + addInEdge: `out` keeps one EdgeInfo per   *)
(*              tuple index (a list searched by index), `in` is a map      *)
(*              keyed by the source node: in[dst][src] = EdgeInfo          *)
(*   AddByPos   addParamEdgeByPos / addReturnEdgeByPos (both directions    *)
(*              written by hand)                                           *)
(*   LinkCallee resolveCalleeSummary: CalleeSummary + Callsites unless     *)
(*              the site is already registered                             *)
(*   LinkClosure BuildGraph step 3 / Sync                                  *)
(*   MarkWrite  addGlobalEdge sets IsWrite                                 *)
(*   Finish     end of RunIntraProcedural: SyncGlobals, Constructed        *)
(*                                                                         *)
(* Invariant Consistent = the property statement.  With InPerIndex = FALSE *)
(* (as implemented) TLC finds the design counterexample                    *)
(*   AddEdge(1,2,0) ; AddEdge(1,2,1)  ==>  out[1] = {<<2,0>>,<<2,1>>},     *)
(*   in[2] = {<<1,1>>}                                                     *)
(* i.e. "out keeps one EdgeInfo per index, in keeps one per source".       *)
(* With InPerIndex = TRUE (in holds the index set) Consistent is an        *)
(* invariant of the whole model.                                           *)
(***************************************************************************)
EXTENDS Integers, FiniteSets, TLC

CONSTANT InPerIndex      \* FALSE: as implemented; TRUE: the proposed repair

Nodes == 1 .. 4
Sums  == 1 .. 2
None  == 0
\* the edges the intra-procedural analysis may add in summary 1: <<src, dst, tuple index>>
Cand  == {<<1, 2, 0>>, <<1, 2, 1>>, <<1, 4, 0>>, <<2, 4, -1>>, <<4, 2, -1>>, <<2, 3, -1>>}

VARIABLES out,        \* [Nodes -> SUBSET (Nodes \X Int)]    out[a] = {<<b, i>>}
          in,         \* [Nodes -> SUBSET (Nodes \X Int)]    in[b]  = {<<a, i>>}; as implemented: one pair per a
          callee,     \* CalleeSummary of node 1
          callsites,  \* Callsites[site 1] of summary 2 (a call node or None)
          closure,    \* ClosureSummary of node 3
          referring,  \* ReferringMakeClosures[instr of node 3] of summary 2
          isWrite,    \* IsWrite of node 4
          wlocs, rlocs, \* WriteLocations / ReadLocations of G
          built       \* Constructed of summary 1

vars == <<out, in, callee, callsites, closure, referring, isWrite, wlocs, rlocs, built>>

Init == /\ out = [n \in Nodes |-> {}] /\ in = [n \in Nodes |-> {}]
        /\ callee = None /\ callsites = None /\ closure = None /\ referring = None
        /\ isWrite = FALSE /\ wlocs = {} /\ rlocs = {} /\ built = FALSE

\* addInEdge: node.in[source] = path   (replaces whatever was recorded for that source)
AddIn(b, a, i) ==
    IF InPerIndex THEN in' = [in EXCEPT ![b] = @ \cup {<<a, i>>}]
    ELSE in' = [in EXCEPT ![b] = {e \in @ : e[1] # a} \cup {<<a, i>>}]

AddEdge(e) ==
    /\ ~built
    /\ out' = [out EXCEPT ![e[1]] = @ \cup {<<e[2], e[3]>>}]     \* one EdgeInfo per index
    /\ AddIn(e[2], e[1], e[3])
    /\ isWrite' = (isWrite \/ e[2] = 4)                           \* addGlobalEdge marks the access node written
    /\ UNCHANGED <<callee, callsites, closure, referring, wlocs, rlocs, built>>

LinkCallee ==
    /\ callee = None
    /\ callee' = 2
    /\ callsites' = IF callsites = None THEN 1 ELSE callsites
    /\ UNCHANGED <<out, in, closure, referring, isWrite, wlocs, rlocs, built>>

LinkClosure ==
    /\ closure' = 2 /\ referring' = 3
    /\ UNCHANGED <<out, in, callee, callsites, isWrite, wlocs, rlocs, built>>

Finish ==       \* SyncGlobals; Constructed = true
    /\ ~built
    /\ wlocs' = IF isWrite THEN wlocs \cup {4} ELSE wlocs
    /\ rlocs' = IF ~isWrite /\ out[4] # {} THEN rlocs \cup {4} ELSE rlocs
    /\ built' = TRUE
    /\ UNCHANGED <<out, in, callee, callsites, closure, referring, isWrite>>

Next == (\E e \in Cand : AddEdge(e)) \/ LinkCallee \/ LinkClosure \/ Finish
Spec == Init /\ [][Next]_vars

-----------------------------------------------------------------------------
EdgesConsistent == \A a, b \in Nodes : \A i \in {-1, 0, 1} : (<<b, i>> \in out[a]) <=> (<<a, i>> \in in[b])
CallsConsistent == /\ (callee # None => callsites = 1)
                   /\ (callsites # None => callee = 2)
ClosuresConsistent == /\ (closure # None => referring = 3)
                      /\ (referring # None => closure = 2)
GlobalsConsistent ==
    /\ wlocs = (IF built /\ isWrite THEN {4} ELSE {})
    /\ rlocs \subseteq (IF built /\ ~isWrite THEN {4} ELSE {})
    /\ (built /\ ~isWrite /\ out[4] # {}) => 4 \in rlocs

Consistent == EdgesConsistent /\ CallsConsistent /\ ClosuresConsistent /\ GlobalsConsistent
=============================================================================
