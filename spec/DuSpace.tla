------------------------------- MODULE DuSpace -------------------------------
(***************************************************************************)
(* Generator specification of C08 (B1): the space of intra-procedural      *)
(* def-use chains.  A state is                                             *)
(*    origin  how the value enters the function (parameter, captured       *)
(*            variable, result of a call, result i of a call returning a   *)
(*            pair) together with its type                                 *)
(*    ops     the value-computing operations applied so far; the operation *)
(*            table (name, input type, output type) is exported by         *)
(*            lib/dugen.py, the single source of truth that also renders   *)
(*            every chain to a Go function                                 *)
(*    ty      the type of the value currently carrying the datum           *)
(* Next applies any operation whose input type is ty.  Every reachable     *)
(* state with at least MinOps operations is completed by every target kind *)
(* (returned value, component 1 of a returned pair, call argument,         *)
(* variable captured by a created closure, branch condition): TLC's state  *)
(* graph x targets is the function corpus whose REAL summaries IntraDU.tla *)
(* then judges.                                                            *)
(***************************************************************************)
EXTENDS Naturals, Sequences, FiniteSets, TLC, Json, SequencesExt

Ops    == ndJsonDeserialize("duops.ndjson")       \* [name, tin, tout]
Params == ndJsonDeserialize("duparams.ndjson")[1] \* [k, origins, otypes, targets]

K       == Params.k
Origins == {Params.origins[j] : j \in 1 .. Len(Params.origins)}
OTypes  == {Params.otypes[j] : j \in 1 .. Len(Params.otypes)}
Targets == {Params.targets[j] : j \in 1 .. Len(Params.targets)}

VARIABLES origin, oty, ops, ty
vars == <<origin, oty, ops, ty>>

Init == /\ origin \in Origins /\ oty \in OTypes
        /\ ops = <<>> /\ ty = oty

Next == /\ Len(ops) < K
        /\ \E i \in 1 .. Len(Ops) :
              /\ Ops[i].tin = ty
              /\ ops' = Append(ops, Ops[i].name)
              /\ ty' = Ops[i].tout
        /\ UNCHANGED <<origin, oty>>

Spec == Init /\ [][Next]_vars

\* one line per function of the corpus (parsed by lib/dugen.py); a register would be quadratic
Collect == /\ \A t \in Targets : PrintT(ToString(<<"DUCHAIN", origin, oty, ops, ty, t>>))
           /\ TRUE

TypeOK == ty \in {Ops[i].tin : i \in 1 .. Len(Ops)} \cup {Ops[i].tout : i \in 1 .. Len(Ops)} \cup OTypes

ASSUME TLCSet(3, 0)
Post == PrintT(<<"DUSPACE", TLCGet(3), Len(Ops), Cardinality(Origins), Cardinality(OTypes), Cardinality(Targets)>>)
=============================================================================
