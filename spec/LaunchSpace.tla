----------------------------- MODULE LaunchSpace -----------------------------
(***************************************************************************)
(* Generator specification for C19 ("may-panic analysis reports every      *)
(* goroutine entry without a recovering defer").  A complete state is one  *)
(* CASE = one go statement of a generated Go program:                      *)
(*                                                                         *)
(*   launch  how the go statement names the function it launches           *)
(*     named        go Entry()                                             *)
(*     generic      go Entry[int](1)                                       *)
(*     closureLit   go func() {...}()            (captures nothing)        *)
(*     closureCap   go func() {... x ...}()      (captures a local)        *)
(*     closureVar   f := func() {... x ...}; go f()                        *)
(*     methodVal    go x.Run()                   (value receiver)          *)
(*     methodPtr    go p.Run()                   (pointer receiver)        *)
(*     methodEmb    go e.Run()                   (promoted by embedding)   *)
(*     boundMethod  f := x.Run; go f()           (bound method value)      *)
(*     methodExpr   f := T.Run; go f(x)          (method expression)       *)
(*     fnLocal      f := Entry; go f()           (local variable)          *)
(*     fnGlobal     var Fv = Entry; go Fv()      (package-level variable)  *)
(*     fnField      h := H{F: Entry}; go h.F()   (struct field)            *)
(*     fnParam      func L(f func()) { go f() }  (parameter)               *)
(*     fnResult     go Mk()()                    (result of a call)        *)
(*     fnSlice      go Tab[0]()                  (element of a slice)      *)
(*     ifaceMethod  var i I = T{}; go i.Run()    (interface method)        *)
(*                                                                         *)
(*   rec     what the ENTRY function does about recovering                 *)
(*     none  deferNoRecover  deferClosure  deferClosureCap  deferNamed     *)
(*     deferMethod  deferIface  condDefer           (-- these four and the *)
(*     two closures defer a function that calls recover)                   *)
(*     nestedRecover   recover() in a plain (non deferred) call            *)
(*     deferIndirect   defer Wrap(), Wrap calls Rec, Rec calls recover     *)
(*     deferBuiltin    defer recover()                                     *)
(*     deferInCallee   entry calls Prot(), Prot defers Rec                 *)
(*     callerDefer     the function CONTAINING the go statement defers Rec *)
(*                                                                         *)
(*   excl    where the entry function lives w.r.t. the exclusions          *)
(*           (-exclude lib -exclude libs/ -exclude libf/fx.go and the      *)
(*           built-in allow list of standard-library path prefixes)        *)
(*     none       package main of the module                               *)
(*     sub        launch/sub          (not excluded)                       *)
(*     dir        launch/lib          (excluded directory)                 *)
(*     dirnested  launch/lib/inner    (below an excluded directory)        *)
(*     neardir    launch/lib2         (name extends an excluded one)       *)
(*     dirslash   launch/libs         (excluded with a trailing slash)     *)
(*     file       launch/libf, fx.go  (excluded file)                      *)
(*     nearfile   launch/libf, fy.go  (sibling of an excluded file)        *)
(*     allow      a standard-library function (allow-listed)               *)
(*     nearallow  module "iox"        (name extends the allow-listed "io") *)
(*                                                                         *)
(*   site    where the go statement sits                                   *)
(*     main helper closure loop ingo (inside another goroutine)            *)
(*     twice (two go statements on different lines launch the same entry)  *)
(*                                                                         *)
(* The state graph builds a case dimension by dimension, so exhaustive     *)
(* model checking enumerates every case of the configured sub-space (B1:   *)
(* TLC's reachable states are the test suite) and `-simulate -seed         *)
(* VERIF_SEED` draws random cases.  Complete cases are collected in a TLC  *)
(* register and exported by the POSTCONDITION.                             *)
(***************************************************************************)
EXTENDS Naturals, Sequences, FiniteSets, TLC, Json, SequencesExt

CONSTANTS Launches,    \* launch forms enumerated with excl = "none"
          Recs,        \* recover forms enumerated with excl = "none"
          Sites,       \* sites enumerated with excl = "none"
          Excls,       \* exclusion placements (besides "none") that are enumerated
          ExclRecs,    \* recover forms combined with the exclusion placements
          Core         \* BOOLEAN: restrict excl = "none" to the pairwise core (see InCore)

VARIABLES stage, launch, rec, excl, site

vars == <<stage, launch, rec, excl, site>>

AllLaunches == {"named", "generic", "closureLit", "closureCap", "closureVar", "methodVal", "methodPtr", "methodEmb",
                "boundMethod", "methodExpr", "fnLocal", "fnGlobal", "fnField", "fnParam", "fnResult", "fnSlice",
                "ifaceMethod"}
AllRecs     == {"none", "deferNoRecover", "deferClosure", "deferClosureCap", "deferNamed", "deferMethod", "deferIface",
                "condDefer", "nestedRecover", "deferIndirect", "deferBuiltin", "deferInCallee", "callerDefer"}
AllSites    == {"main", "helper", "closure", "loop", "twice", "ingo"}
AllExcls    == {"sub", "dir", "dirnested", "neardir", "dirslash", "file", "nearfile", "allow", "nearallow"}

ASSUME /\ Launches \subseteq AllLaunches /\ Recs \subseteq AllRecs /\ Sites \subseteq AllSites
       /\ Excls \subseteq AllExcls /\ ExclRecs \subseteq AllRecs /\ Core \in BOOLEAN

\* launch forms whose entry function can be declared in another package
PkgLaunches == {"named", "generic", "methodPtr", "boundMethod", "closureCap"}
\* the standard library offers a function and a pointer-receiver method to launch
StdLaunches == {"named", "methodPtr"}

\* a main function has no parameters; two go statements on a closure literal are two entries
SiteOK(l, s) == /\ ~(l = "fnParam" /\ s = "main")
                /\ ~(l \in {"closureLit", "closureCap"} /\ s = "twice")

\* quick tier: every launch x rec pair in a helper, every site for the simplest launch and the simplest entry
InCore(l, r, s) == s = "helper" \/ l = "named" \/ r = "none"

Init == stage = "launch" /\ launch = "" /\ rec = "" /\ excl = "" /\ site = ""

Next ==
    \/ /\ stage = "launch"
       /\ launch' \in Launches
       /\ stage' = "excl" /\ UNCHANGED <<rec, excl, site>>
    \/ /\ stage = "excl"
       /\ excl' \in {"none"} \cup (IF launch \in PkgLaunches THEN Excls \ {"allow"} ELSE {})
                             \cup (IF launch \in StdLaunches THEN Excls \cap {"allow"} ELSE {})
       /\ stage' = "rec" /\ UNCHANGED <<launch, rec, site>>
    \/ /\ stage = "rec"
       /\ rec' \in (IF excl = "none" THEN Recs ELSE IF excl = "allow" THEN {"none"} ELSE ExclRecs)
       /\ stage' = "site" /\ UNCHANGED <<launch, excl, site>>
    \/ /\ stage = "site"
       /\ site' \in (IF excl = "none"
                     THEN {s \in Sites : SiteOK(launch, s) /\ (Core => InCore(launch, rec, s))}
                     ELSE {"helper"})
       /\ stage' = "done" /\ UNCHANGED <<launch, rec, excl>>

Spec == Init /\ [][Next]_vars

-----------------------------------------------------------------------------
Complete == stage = "done"

Case == [launch |-> launch, rec |-> rec, excl |-> excl, site |-> site]

ASSUME TLCSet(1, {})
Collect == IF Complete THEN TLCSet(1, TLCGet(1) \cup {Case}) ELSE TRUE

Post == /\ ndJsonSerialize("launch_cases.ndjson", SetToSeq(TLCGet(1)))
        /\ PrintT(<<"LAUNCHSPACE", Cardinality(TLCGet(1))>>)
=============================================================================
