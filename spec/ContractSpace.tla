---------------------------- MODULE ContractSpace ----------------------------
(***************************************************************************)
(* Generator specification for C10 ("user dataflow specifications are      *)
(* applied exactly as written").  A complete state is one CASE:            *)
(*                                                                         *)
(*   n, m     number of parameters (receiver included, position 0) and of  *)
(*            results of the contracted function                           *)
(*   args     n rows, row i = set of argument positions the spec lists for *)
(*            argument i          ("Args" of the JSON, a 0/1 n x n matrix) *)
(*   rets     n rows, row i = set of result positions listed for argument  *)
(*            i                   ("Rets" of the JSON, a 0/1 n x m matrix) *)
(*   form     F  function contract on a package-level function             *)
(*            M  function contract on a method of a pointer receiver type  *)
(*            I  interface-method contract (InterfaceId "pkg.I")           *)
(*            P  precedence: interface contract (args/rets) AND a function *)
(*               contract on the implementation (fargs/frets = the         *)
(*               complement matrices) AND an analysed body, all different  *)
(*   call     direct | method | invoke | fvalue (function / concrete       *)
(*            method expression stored in a variable) | ifvalue (interface *)
(*            method expression stored in a variable)                      *)
(*   body     none  (returns constants, writes nothing)                    *)
(*            all   (copies every argument into every result and every     *)
(*                   other pointer argument)                               *)
(*            compl (implements exactly the flows the spec does NOT list)  *)
(*   kinds    per parameter "p" (pointer-like, can be a target) or "v"     *)
(*            (value, can only be an origin)                               *)
(*                                                                         *)
(* The state graph builds a case dimension by dimension, so that           *)
(*  - exhaustive model checking enumerates every case of the configured    *)
(*    sub-space (B1: TLC's reachable states are the test suite), and       *)
(*  - `-simulate -seed VERIF_SEED` draws random cases from a larger one.   *)
(* Complete cases are collected in TLC registers (bucketed, so that the    *)
(* accumulation stays linear) and exported by the POSTCONDITION.           *)
(***************************************************************************)
EXTENDS Naturals, Sequences, FiniteSets, TLC, Json, SequencesExt

CONSTANTS Shapes,    \* set of shape codes 10*n + m  (TLC configuration files have no tuples)
          Combos,    \* set of combination names, see ComboTable
          Bodies,    \* set of body kinds for the forms F, M, I
          PBodies,   \* set of body kinds for the form P
          Diags,     \* subset of {"id", "empty", "free"}: how the diagonal of Args is enumerated
          FreeKinds  \* BOOLEAN: enumerate value/pointer kinds of the explicit parameters

VARIABLES stage, n, m, form, call, body, diag, kinds, args, rets

vars == <<stage, n, m, form, call, body, diag, kinds, args, rets>>

NB == 256  \* number of registers used for collecting

\* <<contract form, call form>> combinations whose meaning the statement fixes (see Contracts.tla)
ComboTable == [Fdirect  |-> <<"F", "direct">>,  Ffvalue  |-> <<"F", "fvalue">>,
               Mmethod  |-> <<"M", "method">>,  Minvoke  |-> <<"M", "invoke">>,
               Mfvalue  |-> <<"M", "fvalue">>,  Mifvalue |-> <<"M", "ifvalue">>,
               Iinvoke  |-> <<"I", "invoke">>,  Iifvalue |-> <<"I", "ifvalue">>,
               \* not asserted (a call resolved to the concrete method, only the interface has a spec): observed only
               Imethod  |-> <<"I", "method">>,  Ifvalue  |-> <<"I", "fvalue">>,
               Pinvoke  |-> <<"P", "invoke">>,  Pifvalue |-> <<"P", "ifvalue">>,
               Pmethod  |-> <<"P", "method">>,  Pfvalue  |-> <<"P", "fvalue">>]
ASSUME Combos \subseteq DOMAIN ComboTable

Init == /\ stage = "shape" /\ n = 0 /\ m = 0 /\ form = "" /\ call = "" /\ body = "" /\ diag = ""
        /\ kinds = <<>> /\ args = <<>> /\ rets = <<>>

RowOK(i, s) == CASE diag = "id"    -> i \in s
                 [] diag = "empty" -> i \notin s
                 [] OTHER          -> TRUE

\* the receiver of a method is always pointer-like; value kinds only where requested
KindChoices(pos) == IF FreeKinds /\ ~(form \in {"M", "I", "P"} /\ pos = 0) THEN {"p", "v"} ELSE {"p"}

Next ==
    \/ /\ stage = "shape"
       /\ \E sh \in Shapes : n' = sh \div 10 /\ m' = sh % 10
       /\ stage' = "combo" /\ UNCHANGED <<form, call, body, diag, kinds, args, rets>>
    \/ /\ stage = "combo"
       /\ \E cb \in Combos : form' = ComboTable[cb][1] /\ call' = ComboTable[cb][2]
       /\ stage' = "body" /\ UNCHANGED <<n, m, body, diag, kinds, args, rets>>
    \/ /\ stage = "body"
       /\ body' \in (IF form = "P" THEN PBodies ELSE Bodies)
       /\ diag' \in Diags
       /\ stage' = "kinds" /\ UNCHANGED <<n, m, form, call, kinds, args, rets>>
    \/ /\ stage = "kinds"
       /\ IF Len(kinds) < n
          THEN /\ \E k \in KindChoices(Len(kinds)) : kinds' = Append(kinds, k)
               /\ stage' = stage
          ELSE kinds' = kinds /\ stage' = "args"
       /\ UNCHANGED <<n, m, form, call, body, diag, args, rets>>
    \/ /\ stage = "args"
       /\ IF Len(args) < n
          THEN /\ \E s \in SUBSET (0 .. n - 1) : RowOK(Len(args), s) /\ args' = Append(args, s)
               /\ stage' = stage
          ELSE args' = args /\ stage' = "rets"
       /\ UNCHANGED <<n, m, form, call, body, diag, kinds, rets>>
    \/ /\ stage = "rets"
       /\ IF Len(rets) < n
          THEN /\ \E s \in SUBSET (0 .. m - 1) : rets' = Append(rets, s)
               /\ stage' = stage
          ELSE rets' = rets /\ stage' = "done"
       /\ UNCHANGED <<n, m, form, call, body, diag, kinds, args>>

Spec == Init /\ [][Next]_vars

-----------------------------------------------------------------------------
Complete == stage = "done"

SortedSeq(S) == SetToSortSeq(S, <)
Rows(r) == [i \in 1 .. Len(r) |-> SortedSeq(r[i])]
ComplRows(r, k) == [i \in 1 .. Len(r) |-> SortedSeq((0 .. k - 1) \ r[i])]

Case == [n |-> n, m |-> m, form |-> form, call |-> call, body |-> body, diag |-> diag,
         kinds |-> kinds, args |-> Rows(args), rets |-> Rows(rets),
         \* the competing function contract of the precedence cases: the complement matrices
         fargs |-> IF form = "P" THEN ComplRows(args, n) ELSE Rows(args),
         frets |-> IF form = "P" THEN ComplRows(rets, m) ELSE Rows(rets)]

\* a positional hash of the first rows spreads the cases evenly over the registers
Mask(S) == (IF 0 \in S THEN 1 ELSE 0) + (IF 1 \in S THEN 2 ELSE 0) + (IF 2 \in S THEN 4 ELSE 0)
Row(r, i) == IF i <= Len(r) THEN Mask(r[i]) ELSE 0
Bucket == 1 + ((Row(args, 1) + 8 * Row(args, 2) + 64 * Row(rets, 1) + 256 * Row(args, 3) + n + m) % NB)

ASSUME \A b \in 1 .. NB : TLCSet(b, {})
Collect == IF Complete THEN TLCSet(Bucket, TLCGet(Bucket) \cup {Case}) ELSE TRUE

AllCases == UNION {TLCGet(b) : b \in 1 .. NB}

Post == /\ ndJsonSerialize("cases.ndjson", SetToSeq(AllCases))
        /\ PrintT(<<"CONTRACTSPACE", Cardinality(AllCases)>>)
=============================================================================
