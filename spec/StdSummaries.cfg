SPECIFICATION Spec
CONSTRAINT Check
POSTCONDITION Post
CHECK_DEADLOCK FALSE
