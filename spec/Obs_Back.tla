------------------------------- MODULE Obs_Back -------------------------------
(***************************************************************************)
(* C03 as a property of the state space of GoSem, parameterised by the     *)
(* traces the REAL backtrace analysis reported for the same programs.      *)
(*                                                                         *)
(*   Sound_C03  whenever an execution reaches a backtrace-point call whose *)
(*              argument i (or memory reachable from it) explicitly        *)
(*              derives from the result of an origin call, at least one    *)
(*              reported trace for that call and argument contains a node  *)
(*              at the origin call's position -- eager and on-demand.      *)
(*   TraceWF    every reported trace is non-empty and ends at the          *)
(*              backtrace-point call (checked on all recorded traces).     *)
(***************************************************************************)
EXTENDS SemBatch

Facts == ndJsonDeserialize("facts.ndjson")   \* Facts[p] = [cfgs |-> <<[name, traces |-> <<[entry, arg, lines]>>]>>]

LineSet(t) == {t.lines[j] : j \in 1 .. Len(t.lines)}

Covered(pp, c, e) ==
    \E j \in 1 .. Len(Facts[pp].cfgs[c].traces) :
        LET t == Facts[pp].cfgs[c].traces[j] IN
        t.entry = e.b /\ (t.arg = e.c \/ t.arg = -1) /\ e.a \in LineSet(t)

Demanded(e) == e.e = "bt"

Sound == \A e \in ev : Demanded(e) => \A c \in 1 .. Len(Facts[p].cfgs) : Covered(p, c, e)

Misses ==
    UNION {{[p |-> r.p, cfg |-> Facts[r.p].cfgs[c].name, src |-> r.ev.a, sink |-> r.ev.b, arg |-> r.ev.c,
             dec |-> r.dec, sched |-> r.sched]
              : c \in {c \in 1 .. Len(Facts[r.p].cfgs) : ~Covered(r.p, c, r.ev)}}
           : r \in {r \in Truth : Demanded(r.ev)}}

\* well-formedness of every recorded trace (one evaluation per batch, in the postcondition)
IllFormed ==
    UNION {UNION {{[p |-> pp, cfg |-> Facts[pp].cfgs[c].name, src |-> 0, sink |-> Facts[pp].cfgs[c].traces[j].entry,
                    arg |-> Facts[pp].cfgs[c].traces[j].arg, dec |-> <<>>, sched |-> <<>>]
                     : j \in {j \in 1 .. Len(Facts[pp].cfgs[c].traces) :
                                LET t == Facts[pp].cfgs[c].traces[j] IN
                                Len(t.lines) = 0 \/ t.lines[Len(t.lines)] # t.entry}}
                  : c \in 1 .. Len(Facts[pp].cfgs)}
           : pp \in 1 .. NP}

PostBack ==
    /\ WriteTruth
    /\ ndJsonSerialize("misses.ndjson", SetToSeq(Misses))
    /\ ndJsonSerialize("illformed.ndjson", SetToSeq(IllFormed))
    /\ PrintT(<<"OBS_BACK", NP, Cardinality(Truth), Cardinality(Misses), Cardinality(IllFormed)>>)
=============================================================================
