------------------------------ MODULE Obs_Shared ------------------------------
(***************************************************************************)
(* C14 as a property of the state space of GoSem, parameterised by the     *)
(* locality classification of the REAL escape analysis.                    *)
(*                                                                         *)
(* GoSem emits Event("shared", line, object, goroutine) whenever the       *)
(* instruction a goroutine executes accesses memory that is, at that       *)
(* moment, reachable from the frames / closures / channel buffers of       *)
(* another running goroutine or from a global (all schedules are           *)
(* explored).  Facts[p].local is the set of source lines all of whose      *)
(* memory-accessing instructions the analysis classifies as local in every *)
(* calling context it derives for the enclosing function.                  *)
(*   Local_C14   no shared access happens on a line classified local.      *)
(***************************************************************************)
EXTENDS SemBatch

Facts == ndJsonDeserialize("facts.ndjson")   \* Facts[p] = [cfgs |-> <<[name, local : <<line>>]>>]

LocalLines(pp, c) == {Facts[pp].cfgs[c].local[j] : j \in 1 .. Len(Facts[pp].cfgs[c].local)}

Sound == \A e \in sh : \A c \in 1 .. Len(Facts[p].cfgs) : e.a \notin LocalLines(p, c)

Misses ==
    UNION {{[p |-> r.p, cfg |-> Facts[r.p].cfgs[c].name, line |-> r.ev.a, obj |-> r.ev.b, gor |-> r.ev.c,
             dec |-> r.dec, sched |-> r.sched]
              : c \in {c \in 1 .. Len(Facts[r.p].cfgs) : r.ev.a \in LocalLines(r.p, c)}}
           : r \in {r \in Truth : r.ev.e = "shared"}}

PostShared ==
    /\ WriteTruth
    /\ ndJsonSerialize("misses.ndjson", SetToSeq(Misses))
    /\ PrintT(<<"OBS_SHARED", NP, Cardinality(Truth), Cardinality(Misses)>>)
=============================================================================
