SPECIFICATION Spec
CONSTANTS K = 5
  MaxDepth = 2
  MaxDefer = 3
  Alphabet = {"d","i","e","x","f","F","b","c","r","p","w","k","l","g"}
CONSTRAINT Collect
POSTCONDITION Post
CHECK_DEADLOCK FALSE
