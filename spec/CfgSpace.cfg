SPECIFICATION Spec
CONSTANTS K = 5
  MaxDepth = 2
  MaxDefer = 3
CONSTRAINT Collect
POSTCONDITION Post
CHECK_DEADLOCK FALSE
