------------------------------- MODULE Obs_Exec -------------------------------
(***************************************************************************)
(* C12 / C18 on programs whose run-time calls go THROUGH the standard      *)
(* library (callbacks handed to sort, sync, strings, slices, bufio,        *)
(* runtime/pprof, runtime/trace, io; user types reached through            *)
(* interfaces).  There is no GoSem model of the standard library: the      *)
(* ground truth is the native run of the very program that is analysed     *)
(* (every function whose enter() was logged has executed).  Role D, one    *)
(* TLC state per program:                                                  *)
(*   ExecOK   every executed function is in the analyzer's reachable set   *)
(*   ReachOK  every executed function is in the set the reachability tool  *)
(*            reports (default roots)                                      *)
(*   RelOK    the subset relations of C18 between the reported sets        *)
(***************************************************************************)
EXTENDS Naturals, Sequences, FiniteSets, TLC, Json, SequencesExt

Recs == ndJsonDeserialize("exec.ndjson")
\* [prog, executed, reach, allfuncs, fr_all, fr_nomain, fr_noinit, fr_none : <<line>>]
S(q) == {q[j] : j \in 1 .. Len(q)}

VARIABLE p
Init == p \in 1 .. Len(Recs)
Next == UNCHANGED p /\ FALSE
Spec == Init /\ [][Next]_p

ExecOK(r)  == S(r.executed) \subseteq S(r.reach)
ReachOK(r) == S(r.executed) \subseteq S(r.fr_all)
RelOK(r) ==
    /\ S(r.reach) \subseteq S(r.fr_all)
    /\ S(r.fr_all) \subseteq S(r.allfuncs)
    /\ S(r.fr_nomain) \subseteq S(r.fr_all)
    /\ S(r.fr_noinit) \subseteq S(r.fr_all)
    /\ S(r.fr_none) \subseteq S(r.fr_nomain) \cap S(r.fr_noinit)

Fail(q, what, lines) == [p |-> q, prog |-> Recs[q].prog, what |-> what, lines |-> SetToSeq(lines)]
Fails(q) ==
    LET r == Recs[q] IN
    (IF ExecOK(r) THEN {} ELSE {Fail(q, "exec", S(r.executed) \ S(r.reach))})
    \cup (IF ReachOK(r) THEN {} ELSE {Fail(q, "reach", S(r.executed) \ S(r.fr_all))})
    \cup (IF RelOK(r) THEN {} ELSE {Fail(q, "relations", {})})

ASSUME TLCSet(1, {})
Collect == TLCSet(1, TLCGet(1) \cup Fails(p))
Post == /\ ndJsonSerialize("exec_fail.ndjson", SetToSeq(TLCGet(1)))
        /\ PrintT(<<"OBS_EXEC", Len(Recs), Cardinality(UNION {S(Recs[q].executed) : q \in 1 .. Len(Recs)}), Cardinality(TLCGet(1))>>)
=============================================================================
