---------------------------- MODULE StdSummaries ----------------------------
(***************************************************************************)
(* C09 -- "Built-in standard-library summaries over-approximate the real   *)
(* functions".  Role D.  Two kinds of recorded data are judged, one TLC    *)
(* state per record:                                                       *)
(*                                                                         *)
(* ENTRY records (all entries of the table of the real analyzer, dumped    *)
(* by harness/cmd/stdsum): key, the REAL signature of the function the key *)
(* resolves to (nparams counts the receiver as position 0), the matrices   *)
(* Args / Rets as written, and `realedges`, the edges of the graph the     *)
(* REAL loader (dataflow.NewPredefinedSummary) built from the entry.       *)
(*                                                                         *)
(*   Listed(e)   the flows the entry writes down                           *)
(*   InRange(e)  every index written addresses an existing parameter /     *)
(*               result of the real signature                              *)
(*   Edges(e)    the flows the entry denotes for that signature            *)
(*   Dropped(e)  Listed(e) minus the edges the real loader built -- the    *)
(*               entries "discarded without any diagnostic"                *)
(*                                                                         *)
(* PROBE records (one per entry, tainted position i and configuration):    *)
(* `native` = the targets (result j / other pointer-like argument k) in    *)
(* which the token put into position i was found after really executing    *)
(* the call; `reported` = the targets the real taint analysis reported for *)
(* the same call; `setupok` = the analysis sees the token arrive at the    *)
(* tainted argument before the call (otherwise the record says nothing     *)
(* about this summary).                                                    *)
(*                                                                         *)
(*   Sound(r)     native \subseteq reported          (no real flow lost)   *)
(*   Covered(r)   native \subseteq Edges of entry    (the table has it)    *)
(*                                                                         *)
(* Failures are accumulated in TLC registers and written by the            *)
(* POSTCONDITION (one run reports every failing record).                   *)
(***************************************************************************)
EXTENDS Naturals, Sequences, FiniteSets, TLC, Json, SequencesExt

Entries == ndJsonDeserialize("entries.ndjson")
Probes  == ndJsonDeserialize("pobs.ndjson")

VARIABLES kind, p
vars == <<kind, p>>

Set(s) == {s[x] : x \in 1 .. Len(s)}

\* ---------------------------------------------------------------- entries
Listed(e) ==
    (UNION {{<<i - 1, "a", k>> : k \in Set(e.args[i])} : i \in 1 .. Len(e.args)}) \cup
    (UNION {{<<i - 1, "r", j>> : j \in Set(e.rets[i])} : i \in 1 .. Len(e.rets)})

Addressable(e, f) ==
    /\ f[1] < e.nparams
    /\ IF f[2] = "a" THEN f[3] < e.nparams ELSE f[3] < e.nresults

InRange(e) == \A f \in Listed(e) : Addressable(e, f)

\* more rows than parameters (even empty ones) do not fit the signature either; reported separately (harmless)
RowsFit(e) == Len(e.args) <= e.nparams /\ Len(e.rets) <= e.nparams

Edges(e) == {f \in Listed(e) : Addressable(e, f)}

Real(e) == {<<e.realedges[x].i, e.realedges[x].t, e.realedges[x].x>> : x \in 1 .. Len(e.realedges)}

Dropped(e) == Listed(e) \ Real(e)

\* ---------------------------------------------------------------- probes
Targets(s) == {<<s[x].t, s[x].x>> : x \in 1 .. Len(s)}
Native(r)   == Targets(r.native)
Reported(r) == Targets(r.reported)
TableTargets(r) == {<<r.realedges[x].t, r.realedges[x].x>> : x \in {y \in 1 .. Len(r.realedges) : r.realedges[y].i = r.i}}

Sound(r)   == Native(r) \subseteq Reported(r)
Covered(r) == Native(r) \subseteq TableTargets(r)

-----------------------------------------------------------------------------
Init == \/ kind = "entry" /\ p \in 1 .. Len(Entries)
        \/ kind = "probe" /\ p \in 1 .. Len(Probes)
Next == UNCHANGED vars
Spec == Init /\ [][Next]_vars

ASSUME TLCSet(1, {}) /\ TLCSet(2, {})

EntryFail(e) ==
    [key |-> e.key, n |-> e.n, nparams |-> e.nparams, nresults |-> e.nresults, inrange |-> InRange(e),
     dropped |-> Dropped(e), unlisted |-> Real(e) \ Listed(e), outofrange |-> Listed(e) \ Edges(e)]

ProbeFail(r) ==
    [key |-> r.key, entry |-> r.entry, i |-> r.i, cfg |-> r.cfg,
     lost |-> Native(r) \ Reported(r),          \* really flows, not reported
     uncovered |-> Native(r) \ TableTargets(r), \* really flows, not in the table (as loaded)
     native |-> Native(r), reported |-> Reported(r), table |-> TableTargets(r)]

\* register 1: entry failures, register 2: probe failures (sets: re-evaluation is harmless)
Check ==
    IF kind = "entry"
    THEN LET e == Entries[p] IN
         IF e.resolved /\ (Dropped(e) # {} \/ ~InRange(e) \/ Real(e) # Edges(e))
         THEN TLCSet(1, TLCGet(1) \cup {EntryFail(e)}) ELSE TRUE
    ELSE LET r == Probes[p] IN
         IF r.setupok /\ (~Sound(r) \/ ~Covered(r))
         THEN TLCSet(2, TLCGet(2) \cup {ProbeFail(r)}) ELSE TRUE

Count(S, P(_)) == Cardinality({x \in 1 .. Len(S) : P(S[x])})
IsResolved(e)  == e.resolved
NotRowsFit(e)  == e.resolved /\ ~RowsFit(e)
HasNative(r)   == r.setupok /\ Native(r) # {}
SetupOK(r)     == r.setupok

Post ==
    /\ ndJsonSerialize("entry_fail.ndjson", SetToSeq(TLCGet(1)))
    /\ ndJsonSerialize("probe_fail.ndjson", SetToSeq(TLCGet(2)))
    /\ PrintT(<<"STDSUM_RESULT", Len(Entries), Count(Entries, IsResolved), Count(Entries, NotRowsFit),
                Cardinality(TLCGet(1)), Len(Probes), Count(Probes, SetupOK), Count(Probes, HasNative),
                Cardinality(TLCGet(2))>>)

\* plain invariants (replay)
EntryInv == kind = "entry" => (Entries[p].resolved => Dropped(Entries[p]) = {})
ProbeInv == kind = "probe" => (Probes[p].setupok => Sound(Probes[p]) /\ Covered(Probes[p]))
=============================================================================
