SPECIFICATION SpecClose
CONSTANTS
  N = 2
  Flags = {1, 2}
  SelfLoops = TRUE
  Triples = FALSE
  IMode = "sym"
INVARIANTS
  CloseExtensive
  CloseIdempotent
  CloseFixesClosed
  CloseMonotone
  CloseLeast
POSTCONDITION PostCount
CHECK_DEADLOCK FALSE
