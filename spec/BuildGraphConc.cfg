\* default configuration: the pinned design (detached writer).  NoRace and ReportComplete are EXPECTED to fail here;
\* checks/c20.py generates one cfg per variant (see there) and replays the counterexamples on the real code.
SPECIFICATION Spec
CONSTANTS Sums = {"s1", "s2"}
 Extra = {"p1"}
 Detached = TRUE
 ReportSummaries = TRUE
 OnDemand = TRUE
INVARIANTS NoRace ReportComplete
PROPERTIES Finishes
