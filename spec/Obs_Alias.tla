------------------------------ MODULE Obs_Alias ------------------------------
(***************************************************************************)
(* C11 as a property of the state space of GoSem, parameterised by the     *)
(* points-to facts of the REAL pointer analysis at the probe sites.        *)
(*   AllocOK  the allocation site of the object a probe observes at run    *)
(*            time is in the points-to set of the probed SSA value         *)
(*   AliasOK  two probes of the same static type that observe the same     *)
(*            location on one execution may-alias (intersecting sets)      *)
(***************************************************************************)
EXTENDS SemBatch

Facts == ndJsonDeserialize("facts.ndjson")
\* Facts[p] = [probes |-> <<[line, type, labels : <<Nat>>, alias : <<Nat>>, query : BOOLEAN]>>]

SeqToSet(q) == {q[j] : j \in 1 .. Len(q)}
ProbeAt(pp, l) == LET S == {j \in 1 .. Len(Facts[pp].probes) : Facts[pp].probes[j].line = l} IN
                  IF S = {} THEN [line |-> l, type |-> "?", labels |-> <<>>, alias |-> <<>>, query |-> FALSE,
                                  iquery |-> FALSE, ilabels |-> <<>>]
                  ELSE Facts[pp].probes[CHOOSE j \in S : TRUE]

\* indirect queries: probes of pointers to pointer-like variables (iquery, ilabels) and such parameters of user
\* functions (Facts[p].iparams = <<[decl, idx, ilabels]>>).  A value without an indirect query is not judged.
IProbeOK(pp, e) == ~ProbeAt(pp, e.a).iquery \/ e.c \in SeqToSet(ProbeAt(pp, e.a).ilabels)
IParamsAt(pp, e) == {j \in 1 .. Len(Facts[pp].iparams) :
                       Facts[pp].iparams[j].decl = Progs[pp].decl[e.s] /\ Facts[pp].iparams[j].idx = e.a}
IParamOK(pp, e) == \A j \in IParamsAt(pp, e) : e.c \in SeqToSet(Facts[pp].iparams[j].ilabels)

AllocOK(pp, e) == e.c \in SeqToSet(ProbeAt(pp, e.a).labels)
AliasOK(pp, e) == ProbeAt(pp, e.a).type # ProbeAt(pp, e.b).type \/ e.b \in SeqToSet(ProbeAt(pp, e.a).alias)

Sound == \A e \in ev : /\ e.e = "probe" => AllocOK(p, e)
                       /\ e.e = "alias" => AliasOK(p, e)
                       /\ e.e = "iprobe" => IProbeOK(p, e)
                       /\ e.e = "iparam" => IParamOK(p, e)

Miss(r, what) == [p |-> r.p, what |-> what, a |-> r.ev.a, b |-> r.ev.b, c |-> r.ev.c, dec |-> r.dec, sched |-> r.sched]

Misses ==
    {Miss(r, "alloc") : r \in {r \in Truth : r.ev.e = "probe" /\ ~AllocOK(r.p, r.ev)}}
    \cup {Miss(r, "alias") : r \in {r \in Truth : r.ev.e = "alias" /\ ~AliasOK(r.p, r.ev)}}
    \cup {Miss(r, "ialloc") : r \in {r \in Truth : r.ev.e = "iprobe" /\ ~IProbeOK(r.p, r.ev)}}
    \cup {Miss(r, "iparam") : r \in {r \in Truth : r.ev.e = "iparam" /\ ~IParamOK(r.p, r.ev)}}

PostAlias ==
    /\ WriteTruth
    /\ ndJsonSerialize("misses.ndjson", SetToSeq(Misses))
    /\ PrintT(<<"OBS_ALIAS", NP, Cardinality(Truth), Cardinality(Misses)>>)
=============================================================================
