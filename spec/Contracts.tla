------------------------------ MODULE Contracts ------------------------------
(***************************************************************************)
(* C10 -- "User dataflow specifications are applied exactly as written".   *)
(*                                                                         *)
(* Role D (declarative definition).  The input is a batch of records, one  *)
(* per (case of ContractSpace, analyzer configuration), holding the spec   *)
(* matrices as written in the dataflow-specs JSON and what the REAL        *)
(* taint.Analyze reported for the generated one-call probes:               *)
(*   obsrets[i]  result positions j such that "argument i tainted => sink  *)
(*               of result j" was reported                                 *)
(*   obsargs[i]  pointer-like argument positions k # i such that           *)
(*               "argument i tainted => sink of the pointee of argument k  *)
(*               after the call" was reported                              *)
(*                                                                         *)
(* Edges(c, A, R) is what the JSON denotes -- nothing dropped, nothing     *)
(* added:  i -> result j  iff  j \in R[i];  i -> pointer-like argument k   *)
(* (k # i)  iff  k \in A[i].   Flows of an argument to itself are not part *)
(* of the statement (the tainted argument stays tainted whatever the spec  *)
(* says) and are neither generated nor compared.                           *)
(*                                                                         *)
(* Governing spec (precedence):                                            *)
(*   F, M, I   the only spec present governs; the body is never consulted  *)
(*   P + call through the interface (invoke, ifvalue)                      *)
(*             the interface-method spec governs (over the function spec   *)
(*             of the implementation and over its body)                    *)
(*   P + call resolved to the concrete method (method, fvalue)             *)
(*             weakest reading: either spec may govern, the body may not   *)
(*                                                                         *)
(* Exact  ==  Observed(c) \in {Edges of a governing spec}  -- this is both *)
(* directions (nothing the spec lists is lost; nothing it does not list is *)
(* reported, in particular nothing taken from the body).                   *)
(* Failures are accumulated in a TLC register and written by the           *)
(* POSTCONDITION, so that one run reports every failing case.              *)
(***************************************************************************)
EXTENDS Naturals, Sequences, FiniteSets, TLC, Json, SequencesExt

Recs == ndJsonDeserialize("obs.ndjson")
NR   == Len(Recs)

VARIABLE p
vars == <<p>>

Set(s) == {s[x] : x \in 1 .. Len(s)}

Pos(c)  == 0 .. (c.n - 1)
Res(c)  == 0 .. (c.m - 1)
Ptr(c)  == {k \in Pos(c) : c.kinds[k + 1] = "p"}

\* the flows a matrix pair denotes for the signature of c (Args rows A, Rets rows R; rows may be missing)
Edges(c, A, R) ==
    LET retE == UNION {{<<i, "r", j>> : j \in Set(R[i + 1]) \cap Res(c)} : i \in {x \in Pos(c) : x + 1 <= Len(R)}}
        argE == UNION {{<<i, "a", k>> : k \in (Set(A[i + 1]) \cap Ptr(c)) \ {i}} : i \in {x \in Pos(c) : x + 1 <= Len(A)}}
    IN retE \cup argE

Universe(c) == {<<i, "r", j>> : i \in Pos(c), j \in Res(c)} \cup
               ({<<i, "a", k>> : i \in Pos(c), k \in Ptr(c)} \ {<<i, "a", i>> : i \in Pos(c)})

Observed(c) ==
    (UNION {{<<i, "r", j>> : j \in Set(c.obsrets[i + 1])} : i \in Pos(c)}) \cup
    (UNION {{<<i, "a", k>> : k \in Set(c.obsargs[i + 1])} : i \in Pos(c)})

Primary(c)   == Edges(c, c.args, c.rets)      \* F, M: the function spec; I, P: the interface-method spec
Secondary(c) == Edges(c, c.fargs, c.frets)    \* P: the function spec of the implementation

Governing(c) ==
    IF c.form = "P" /\ c.call \in {"method", "fvalue"} THEN {Primary(c), Secondary(c)} ELSE {Primary(c)}

\* what the analysed body of the (called) implementation does -- only used to explain a failure
BodyEdges(c) == CASE c.body = "none"  -> {}
                  [] c.body = "all"   -> Universe(c)
                  [] c.body = "compl" -> Universe(c) \ Primary(c)
                  [] OTHER            -> {}

\* cases whose meaning the statement fixes
Asserted(c) == ~(c.form = "I" /\ c.call \in {"method", "fvalue"})

Exact(c) == Observed(c) \in Governing(c)

-----------------------------------------------------------------------------
Init == p \in 1 .. NR
Next == UNCHANGED p
Spec == Init /\ [][Next]_vars

ASSUME TLCSet(1, {})

Fail(c) ==
    [id |-> c.id, cfg |-> c.cfg, form |-> c.form, call |-> c.call, body |-> c.body,
     missing  |-> Primary(c) \ Observed(c),           \* listed by the (first) governing spec, not reported
     extra    |-> Observed(c) \ Primary(c),           \* reported, not listed
     likebody |-> Observed(c) = BodyEdges(c),         \* the report is exactly what the body does
     expected |-> Primary(c), observed |-> Observed(c)]

\* one state per record; register 1 accumulates the failures (a set: re-evaluation is harmless)
Check ==
    LET c == Recs[p] IN
    IF Asserted(c) /\ ~Exact(c) THEN TLCSet(1, TLCGet(1) \cup {Fail(c)}) ELSE TRUE

\* vacuity counters: asserted records; records with a non-empty expectation; records whose body differs from
\* every governing spec (so that consulting the body would be visible); records only observed
Count(P(_)) == Cardinality({x \in 1 .. NR : P(Recs[x])})
NonEmpty(c)    == Asserted(c) /\ Primary(c) # {}
BodyVisible(c) == Asserted(c) /\ BodyEdges(c) \notin Governing(c)
Unasserted(c)  == ~Asserted(c)

Post ==
    /\ ndJsonSerialize("contracts_fail.ndjson", SetToSeq(TLCGet(1)))
    /\ PrintT(<<"CONTRACTS_RESULT", NR, Count(Asserted), Count(NonEmpty), Count(BodyVisible), Count(Unasserted),
                Cardinality(TLCGet(1))>>)

\* the same statement as a plain invariant (used by --replay so that TLC prints the failing record)
ExactInv == Asserted(Recs[p]) => Exact(Recs[p])
=============================================================================
