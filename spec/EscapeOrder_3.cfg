SPECIFICATION SpecOrder
CONSTANTS
  N = 3
  Flags = {1}
  SelfLoops = FALSE
  Triples = FALSE
  IMode = "sym"
INVARIANTS
  OrderEndsInJoin
  OrderStaysBelow
POSTCONDITION PostOrder
CHECK_DEADLOCK FALSE
