----------------------------- MODULE VisitorTrace -----------------------------
(***************************************************************************)
(* Trace validation of the REAL inter-procedural traversal of the taint    *)
(* visitor (analysis/taint/dataflow_visitor.go Visit / addNext) against    *)
(* the abstraction that VisitorLive.tla (termination, C07) and             *)
(* VisitorOrder.tla (order independence, C06) reason about: a FIFO queue   *)
(* of elements identified by their key, a `seen` set, admission iff the    *)
(* key is new and the candidate's stacks are no lasso.                     *)
(*                                                                         *)
(* The events are recorded by the verif hook taint.VerifOnVisit            *)
(* (harness/cmd/vistrace), one line per event, keys numbered by first      *)
(* appearance:                                                             *)
(*   source cur      a traversal starts: queue = <<cur>>, seen = {}        *)
(*   visit cur       cur is taken from the FRONT of the queue              *)
(*   add cur next    next is enqueued at the back and marked seen          *)
(*   stop cur next   next is dropped because its key is already seen       *)
(*                   (no depth limit is configured in the recorded runs)   *)
(*   lasso cur next  next is dropped because its call / closure stack is a *)
(*                   lasso (nl)                                            *)
(*   validated, nopath, sink, tuple   no effect on queue and seen          *)
(*   end             the analysis returned: the queue is empty             *)
(*                                                                         *)
(* The same module validates the backward traversal of                     *)
(* analysis/backtrace/backtrace.go (hook backtrace.VerifOnVisit) with      *)
(* Lifo = TRUE: the work list is a stack, one traversal per entry point.   *)
(*                                                                         *)
(* Every action below is "the event on line l is the one the abstraction   *)
(* allows in the current state"; the trace is accepted iff all lines are   *)
(* consumed (POSTCONDITION).  The abstraction's invariants are checked in  *)
(* every state.  Role A: a rejected trace is specification drift (the      *)
(* transcription no longer describes the code), recorded in the evidence,  *)
(* never a verdict.                                                        *)
(***************************************************************************)
EXTENDS Naturals, Sequences, FiniteSets, TLC, Json

CONSTANT Lifo    \* FALSE: the forward (taint) visitor, a FIFO queue;  TRUE: the backward (backtrace) visitor, a stack

Trace == ndJsonDeserialize("vtrace.ndjson")

VARIABLES l, queue, seen, cur, nvis
vars == <<l, queue, seen, cur, nvis>>

Ev == Trace[l]

Init == l = 1 /\ queue = <<>> /\ seen = {} /\ cur = 0 /\ nvis = 0

Source == /\ Ev.op = "source"
          /\ queue = <<>>                       \* the previous traversal ran to its end (no max-alarms in these runs)
          /\ queue' = <<Ev.cur>> /\ seen' = {} /\ cur' = 0 /\ nvis' = 0

Visit == /\ Ev.op = "visit"
         /\ queue # <<>>
         /\ IF Lifo THEN queue[Len(queue)] = Ev.cur /\ queue' = SubSeq(queue, 1, Len(queue) - 1)    \* LIFO (depth first)
                    ELSE Head(queue) = Ev.cur /\ queue' = Tail(queue)                             \* FIFO (breadth first)
         /\ cur' = Ev.cur /\ nvis' = nvis + 1
         /\ UNCHANGED seen

Add == /\ Ev.op = "add" /\ Ev.cur = cur
       /\ Ev.next \notin seen /\ ~Ev.nl                   \* admitted iff new and no lasso
       /\ seen' = seen \cup {Ev.next} /\ queue' = Append(queue, Ev.next)
       /\ UNCHANGED <<cur, nvis>>

Stop == /\ Ev.op = "stop" /\ Ev.cur = cur
        /\ Ev.next \in seen
        /\ UNCHANGED <<queue, seen, cur, nvis>>

Lasso == /\ Ev.op = "lasso" /\ Ev.cur = cur
         /\ Ev.nl /\ Ev.next \notin seen
         /\ UNCHANGED <<queue, seen, cur, nvis>>

NoEffect == /\ Ev.op \in {"validated", "nopath", "sink", "tuple"} /\ Ev.cur = cur
            /\ UNCHANGED <<queue, seen, cur, nvis>>

End == /\ Ev.op = "end"
       /\ Lifo \/ queue = <<>>        \* the backward visitor may return early with an error (stack not drained)
       /\ UNCHANGED <<seen, nvis>> /\ cur' = 0 /\ queue' = <<>>

Next == /\ l <= Len(Trace)
        /\ (Source \/ Visit \/ Add \/ Stop \/ Lasso \/ NoEffect \/ End)
        /\ l' = l + 1

Spec == Init /\ [][Next]_vars

\* the abstraction's invariants, evaluated on the real traversal
QueueSeen  == \A j \in 1 .. Len(queue) : queue[j] \in seen \/ (nvis = 0 /\ j = 1)   \* only the root is queued unseen
VisitBound == nvis <= Cardinality(seen) + 1        \* every element is visited at most once (root + admitted keys)
NoDupQueue == \A i, j \in 1 .. Len(queue) : i # j => queue[i] # queue[j]

TraceAccepted ==
    /\ Assert(TLCGet("stats").diameter - 1 = Len(Trace),
              <<"visitor trace rejected at line", TLCGet("stats").diameter, "of", Len(Trace)>>)
    /\ PrintT(<<"VISITORTRACE", Len(Trace), Cardinality({j \in 1 .. Len(Trace) : Trace[j].op = "source"}),
                Cardinality({j \in 1 .. Len(Trace) : Trace[j].op = "lasso"}),
                Cardinality({j \in 1 .. Len(Trace) : Trace[j].op = "stop"})>>)
=============================================================================
