SPECIFICATION Spec
CONSTANTS N = 5
 MaxE = 5
 KeyHasPrev = FALSE
INVARIANT OrderIndependent
CHECK_DEADLOCK FALSE
