-------------------------- MODULE EscapeGraphSpace --------------------------
(***************************************************************************)
(* C15, exhaustive design-level part: the bounded universe of graphs the   *)
(* law specifications (EscapeLatticeLaws, EscapeLatticeOrder,              *)
(* EscapeLatticeChaotic) quantify over.                                    *)
(***************************************************************************)
EXTENDS EscapeLattice, TLC

CONSTANTS N,          \* nodes are 1..N
          Flags,      \* subset of {1, 2, 4}
          SelfLoops,  \* BOOLEAN: edges n -> n allowed
          Triples,    \* BOOLEAN: check the laws that quantify over three graphs
          IMode       \* "all": every intrinsic assignment; "sym": only non-decreasing ones (nodes are
                      \* interchangeable); "mixed": the single assignment 0, 1, 2, 0, ...

Nodes == 1 .. N

IntrSet == IF IMode = "mixed" THEN {[n \in Nodes |-> (n - 1) % 3]}
           ELSE {I \in [Nodes -> 0 .. 2] : (IMode = "sym") => \A a, b \in Nodes : a < b => I[a] <= I[b]}

EdgesOver(D) == {t \in D \X D \X Flags : SelfLoops \/ t[1] # t[2]}

RawGraphs == UNION {{[dom |-> D, s |-> s, e |-> E] : s \in [D -> 0 .. 2], E \in SUBSET EdgesOver(D)} : D \in SUBSET Nodes}

WFTable == [I \in IntrSet |-> {g \in RawGraphs : Closed(g) /\ AboveIntrinsic(I, g)}]
WF(I) == WFTable[I]

=============================================================================
