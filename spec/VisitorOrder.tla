---------------------------- MODULE VisitorOrder ----------------------------
(***************************************************************************)
(* C06, Role A (never a verdict): is the set of sinks the inter-procedural *)
(* traversal reaches independent of the ORDER in which queue elements and  *)
(* out-edges are processed?  The real traversal (analysis/taint/           *)
(* dataflow_visitor.go Visit/addNext, analysis/backtrace/backtrace.go)     *)
(* ranges over Go maps (Out(), In(), Callsites, entry points), so every    *)
(* run takes another order.                                                *)
(*                                                                         *)
(* Abstraction: a visited element is (node, pf) where pf is the function   *)
(* of the predecessor the element was reached from (VisitorNode.Prev).     *)
(* addNext admits an element iff its KEY is not in `seen`                  *)
(* (VisitorNode.Key() = node id + call trace + closure trace + status +    *)
(* access paths -- Prev is NOT part of it).  For a parameter-like node     *)
(* the ParamNode case follows the out-edges only if the predecessor lies   *)
(* in another function (dataflow_visitor.go:197-215), i.e. the successors  *)
(* of an element depend on pf.                                             *)
(*                                                                         *)
(*   KeyHasPrev = TRUE : the key determines the successors -> the reached  *)
(*        set is the least fixpoint Ref, whatever the order (invariant     *)
(*        OrderIndependent holds on every graph of the bound);             *)
(*   KeyHasPrev = FALSE: (the implemented key) TLC exhibits a graph and    *)
(*        two orders with different sink sets: "the first predecessor to   *)
(*        reach a (node, context) key decides whether its out-edges are    *)
(*        followed".  This is a design hazard, recorded in the evidence    *)
(*        file; the verdict of C06 only comes from real repeated runs      *)
(*        (Determinism.tla).                                               *)
(***************************************************************************)
EXTENDS Naturals, FiniteSets, TLC

CONSTANTS N,            \* nodes 1..N ; node 1 is the source, node N the sink
          MaxE,         \* at most MaxE edges
          KeyHasPrev    \* BOOLEAN

Nodes == 1 .. N
\* nodes 1 and 2 belong to function 1, the others to function 2; node 3 is parameter-like
Fn(n)   == IF n <= 2 THEN 1 ELSE 2
Param   == {3}
Sink    == N

VARIABLES E, queue, pending, cur, seen, sinks
vars == <<E, queue, pending, cur, seen, sinks>>

Elem(n, pf) == [n |-> n, pf |-> pf]
Key(e)      == IF KeyHasPrev THEN e ELSE Elem(e.n, 0)

\* successors of an element: out-edges, except that a parameter-like node reached from inside its own function
\* does not propagate into the body (the flow only goes back to the call site, not modelled)
Follows(e) == ~(e.n \in Param /\ e.pf = Fn(e.n))
Succ(e)    == IF Follows(e) /\ e.n # Sink THEN {Elem(m, Fn(e.n)) : m \in {x \in Nodes : <<e.n, x>> \in E}} ELSE {}

Root == Elem(1, 0)

Init == /\ E \in {X \in SUBSET (Nodes \X Nodes) : Cardinality(X) <= MaxE /\ \A x \in X : x[1] # x[2] /\ x[1] # Sink}
        /\ queue = {Root} /\ pending = {} /\ cur = Root
        /\ seen = {Key(Root)} /\ sinks = {}

Pick == /\ pending = {} /\ queue # {}
        /\ \E e \in queue :
              /\ queue' = queue \ {e}
              /\ cur' = e
              /\ pending' = Succ(e)
              /\ sinks' = IF e.n = Sink THEN sinks \cup {e.n} ELSE sinks
        /\ UNCHANGED <<E, seen>>

Add == /\ pending # {}
       /\ \E m \in pending :
             /\ pending' = pending \ {m}
             /\ IF Key(m) \in seen THEN UNCHANGED <<queue, seen>>
                ELSE queue' = queue \cup {m} /\ seen' = seen \cup {Key(m)}
       /\ UNCHANGED <<E, cur, sinks>>

Next == Pick \/ Add
Spec == Init /\ [][Next]_vars

Done == queue = {} /\ pending = {}

\* reference: least fixpoint over full elements
RECURSIVE Close(_)
Close(S) == LET T == S \cup UNION {Succ(e) : e \in S} IN IF T = S THEN S ELSE Close(T)
RefSinks == {e.n : e \in {x \in Close({Root}) : x.n = Sink}}

OrderIndependent == Done => sinks = RefSinks
\* never more than the reference (holds for both keys: the partial key only loses)
NoSpurious == sinks \subseteq RefSinks
=============================================================================
