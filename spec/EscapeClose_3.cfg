SPECIFICATION SpecClose
CONSTANTS
  N = 3
  Flags = {1}
  SelfLoops = FALSE
  Triples = FALSE
  IMode = "sym"
INVARIANTS
  CloseExtensive
  CloseIdempotent
  CloseFixesClosed
  CloseMonotone
  CloseLeast
POSTCONDITION PostCount
CHECK_DEADLOCK FALSE
