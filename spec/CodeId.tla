------------------------------- MODULE CodeId -------------------------------
(***************************************************************************)
(* C04 -- "Every code location matching a specification is identified,     *)
(* and only those".                                                        *)
(*                                                                         *)
(* Role D (declarative definition, constant level, no variables).          *)
(*                                                                         *)
(*  * Names and patterns are sequences of one-character strings, so that   *)
(*    TLC really evaluates prefix / suffix / substring matching.           *)
(*  * A pattern is [given, l, r, alts]: not given (the empty string of the *)
(*    yaml file), or an optional ^, a non-empty list of literal            *)
(*    alternatives, an optional $.  Matches(p, n) is the meaning of the    *)
(*    UNANCHORED regular expression  ^?(a1|...|ak)$?  on the name n.       *)
(*  * Match(spec, cid) is the conjunction over the given fields and the    *)
(*    equality of the kind (the statement's "matched by the unanchored     *)
(*    regular expressions of some specification").                         *)
(*  * Sites(form) is the universe of code locations of the program that    *)
(*    is rendered for a call form / identifier kind: the product of        *)
(*    {three package layouts} x {name, near-miss name} x {receiver or      *)
(*    field, near-miss} x {enclosing function, near-miss} x {constant      *)
(*    argument, near-miss}.  Cid(form, s) is the table "code location |->  *)
(*    code identifier of the POSSIBLE CALLEE" the statement implies: it    *)
(*    depends on the coordinates of the site only, NOT on the call form    *)
(*    ("regardless of whether the callee is invoked directly, as a         *)
(*    method, through an interface value, ...").                           *)
(*  * Where the statement leaves the textual form of a name open (package  *)
(*    NAME or PATH for type/field identifiers, T or *T for allocations,    *)
(*    T or "chan T" for receives) a field of the cid is a SET of           *)
(*    admissible readings and the verdict is three-valued: "yes" (every    *)
(*    reading matches: must be identified), "no" (no reading matches:      *)
(*    must not be identified), "free" (weakest reading: no obligation).    *)
(***************************************************************************)
EXTENDS Naturals, Sequences, FiniteSets, TLC

\* ------------------------------------------------------------------ names
Layouts == {"main", "sub", "nested"}

Path(lay) == CASE lay = "main"   -> <<"a","p","p">>
               [] lay = "sub"    -> <<"a","p","p","/","l","i","b">>
               [] lay = "nested" -> <<"a","p","p","/","x","/","l","i","b">>

\* the package NAME (last element of the path; "main" for the main package)
PName(lay) == IF lay = "main" THEN <<"m","a","i","n">> ELSE <<"l","i","b">>

\* the decoy of a package is the package whose path shares the longest suffix with it
DecoyLay(lay) == CASE lay = "main" -> "sub" [] lay = "sub" -> "nested" [] lay = "nested" -> "sub"

X == <<"x">>
MName(i) == IF i = 1 THEN <<"F","e","t","c","h">> ELSE <<"F","e","t","c","h">> \o X
RName(i) == IF i = 1 THEN <<"R","e","c","v">> ELSE <<"R","e","c","v">> \o X
CName(i) == IF i = 1 THEN <<"a","p","p",".","O","u","t","e","r">> ELSE <<"a","p","p",".","O","u","t","e","r">> \o X
KName(i) == IF i = 1 THEN <<"k","q","%","s">> ELSE <<"k","q","%","d">>
TName(i) == IF i = 1 THEN <<"D","a","t","a">> ELSE <<"D","a","t","a">> \o X
FName(i) == IF i = 1 THEN <<"T","o","k">> ELSE <<"T","o","k">> \o X
Star == <<"*">>
Chan == <<"c","h","a","n"," ">>
Empty == <<>>

\* ------------------------------------------------------------------ forms
CallForms == {"direct", "directvm", "alias", "mval", "mptr", "promoted", "invoke", "fval", "mvalue", "mexpr",
              "defer", "go", "closure", "generic"}
KindForms == {"alloc", "fieldread", "fieldstore", "chanrecv"}
Forms     == CallForms \cup KindForms
HasRecv(form)  == form \in {"mval", "mptr", "promoted", "invoke", "mvalue", "mexpr"}
HasField(form) == form \in {"fieldread", "fieldstore"}
HasConst(form) == form = "directvm"

Roles == {"source", "sink", "sanitizer", "validator", "backtracepoint"}

\* which (role, form) combinations exist at all (typing of the fragment: a deferred or spawned call has no result,
\* so it can be neither a sanitizer nor a validator; the identifier kinds are sources resp. sinks)
Typed(role, form) ==
    CASE form \in {"defer", "go"}                     -> role \in {"source", "sink", "backtracepoint"}
      [] form \in {"alloc", "fieldread", "chanrecv"}  -> role = "source"
      [] form = "fieldstore"                          -> role = "sink"
      [] OTHER                                        -> TRUE

\* ------------------------------------------------------------------ sites
\* n: name variant, r: receiver / field variant (0 = the form has none), c: enclosing function, k: constant argument
Sites(form) ==
    {[lay |-> lay, n |-> n, r |-> r, c |-> c, k |-> k] :
        lay \in Layouts, n \in {1, 2},
        r \in (IF HasRecv(form) \/ HasField(form) THEN {1, 2} ELSE {0}),
        c \in {1, 2},
        k \in (IF HasConst(form) THEN {1, 2} ELSE {0})}

Key(s) == s.lay \o "." \o ToString(s.n) \o "." \o ToString(s.r) \o "." \o ToString(s.c) \o "." \o ToString(s.k)

KindOf(form) == CASE form = "fieldstore" -> "store" [] form = "chanrecv" -> "channel receive" [] OTHER -> ""

\* the code identifier of a site: every field is the SET of admissible readings of the name
Cid(form, s) ==
    IF form \in CallForms
    THEN [pkg    |-> {Path(s.lay)},
          method |-> {MName(s.n)},
          recv   |-> {IF s.r = 0 THEN Empty ELSE RName(s.r)},
          ctx    |-> {CName(s.c)},
          vm     |-> {IF s.k = 0 THEN Empty ELSE KName(s.k)},
          typ    |-> {Empty},
          field  |-> {Empty},
          kind   |-> ""]
    ELSE [pkg    |-> {Path(s.lay), PName(s.lay)},
          method |-> {Empty},
          recv   |-> {Empty},
          ctx    |-> {CName(s.c)},
          vm     |-> {Empty},
          typ    |-> IF form = "chanrecv" THEN {TName(s.n), Chan \o TName(s.n)}
                     ELSE {TName(s.n), Star \o TName(s.n)},
          field  |-> {IF s.r = 0 THEN Empty ELSE FName(s.r)},
          kind   |-> KindOf(form)]

\* --------------------------------------------------------------- patterns
NotGiven == [given |-> FALSE, l |-> FALSE, r |-> FALSE, alts |-> <<>>, cls |-> "none", base |-> 0]

HasPrefix(a, n) == Len(a) <= Len(n) /\ SubSeq(n, 1, Len(a)) = a
HasSuffix(a, n) == Len(a) <= Len(n) /\ SubSeq(n, Len(n) - Len(a) + 1, Len(n)) = a
HasInfix(a, n)  == Len(a) <= Len(n) /\ \E i \in 0 .. (Len(n) - Len(a)) : SubSeq(n, i + 1, i + Len(a)) = a

MatchesLit(l, r, a, n) ==
    CASE l /\ r  -> n = a
      [] l /\ ~r -> HasPrefix(a, n)
      [] ~l /\ r -> HasSuffix(a, n)
      [] OTHER   -> HasInfix(a, n)

\* the meaning of the unanchored regular expression ^?(a1|..|ak)$? on the name n
Matches(p, n) == \E j \in 1 .. Len(p.alts) : MatchesLit(p.l, p.r, p.alts[j], n)

\* three-valued: all readings / no reading / some readings of the name match
Field3(p, names) ==
    IF ~p.given THEN "yes"
    ELSE IF \A n \in names : Matches(p, n) THEN "yes"
    ELSE IF \A n \in names : ~Matches(p, n) THEN "no"
    ELSE "free"

SpecFields == {"pkg", "method", "recv", "ctx", "vm", "typ", "field"}

Match3(spec, cid) ==
    LET v == [f \in SpecFields |-> Field3(spec[f], cid[f])]
    IN IF spec.kind # cid.kind \/ \E f \in SpecFields : v[f] = "no" THEN "no"
       ELSE IF \A f \in SpecFields : v[f] = "yes" THEN "yes"
       ELSE "free"

\* the two-valued Match of the statement, for cids without alternative readings
Match(spec, cid) == Match3(spec, cid) = "yes"

\* Expected(form, spec): the sites that must be identified / must not be identified
Verdict(form, spec, s) == Match3(spec, Cid(form, s))
Expected(form, spec)   == {s \in Sites(form) : Verdict(form, spec, s) = "yes"}
Forbidden(form, spec)  == {s \in Sites(form) : Verdict(form, spec, s) = "no"}

\* --------------------------------------------------------- pattern classes
Classes == {"exact", "anch", "pre", "suf", "mid", "alt"}
ZZ == <<"z","z">>

\* Pat(cls, n, b): the pattern of class cls built from the name n (b records which name: 1 target, 2 decoy)
Pat(cls, n, b) ==
    CASE cls = "exact" -> [given |-> TRUE, l |-> FALSE, r |-> FALSE, alts |-> <<n>>, cls |-> cls, base |-> b]
      [] cls = "anch"  -> [given |-> TRUE, l |-> TRUE,  r |-> TRUE,  alts |-> <<n>>, cls |-> cls, base |-> b]
      [] cls = "pre"   -> [given |-> TRUE, l |-> TRUE,  r |-> FALSE, alts |-> <<SubSeq(n, 1, Len(n) - 1)>>, cls |-> cls, base |-> b]
      [] cls = "suf"   -> [given |-> TRUE, l |-> FALSE, r |-> TRUE,  alts |-> <<SubSeq(n, 2, Len(n))>>, cls |-> cls, base |-> b]
      [] cls = "mid"   -> [given |-> TRUE, l |-> FALSE, r |-> FALSE, alts |-> <<SubSeq(n, 2, Len(n) - 1)>>, cls |-> cls, base |-> b]
      [] cls = "alt"   -> [given |-> TRUE, l |-> FALSE, r |-> FALSE, alts |-> <<n, ZZ>>, cls |-> cls, base |-> b]

=============================================================================
