----------------------------- MODULE VisitorLive -----------------------------
(***************************************************************************)
(* C07, Role A (never a verdict): why the inter-procedural traversals of   *)
(* the taint and backtrace visitors terminate on recursive call graphs.    *)
(*                                                                         *)
(* Abstraction of analysis/taint/dataflow_visitor.go (Visit / addNext) and *)
(* analysis/backtrace/backtrace.go (visit / addNext):                      *)
(*   - a visited element is (function, call stack); the call stack is the  *)
(*     NodeTree of call sites (dataflow/trace.go);                         *)
(*   - from (f, st) the traversal enters every callee g of a call site c   *)
(*     of f with stack st \o <<c>> (CallNodeArg case) and returns to the   *)
(*     caller recorded on top of the stack (ReturnValNode case);           *)
(*   - addNext drops an element whose key is in `seen`, and -- the lasso   *)
(*     stop -- an element whose stack ends in a call site that already     *)
(*     occurs in it (NodeTree.GetLassoHandle # nil).                       *)
(*                                                                         *)
(* TLC explores the traversal on EVERY call graph over main + MaxF         *)
(* functions with at most MaxE call sites (Init chooses the graph): with   *)
(* Lasso = TRUE the queue always drains (Terminates) and no stack grows    *)
(* beyond the number of call sites + 1 (NoOverflow); with Lasso = FALSE    *)
(* every graph with a cycle overflows any Cap: the `seen` set alone does   *)
(* not bound the traversal because the stack is part of the key.           *)
(***************************************************************************)
EXTENDS Naturals, Sequences, FiniteSets, TLC, SequencesExt

CONSTANTS MaxF,   \* functions besides main (= 0)
          MaxE,   \* maximal number of call sites
          Lasso,  \* BOOLEAN: the lasso stop of addNext is present
          Cap     \* stack length regarded as divergence

Funcs == 0 .. MaxF
Pairs == Funcs \X (1 .. MaxF)          \* a call site <<caller, callee>>

VARIABLES E, queue, seen, overflow
vars == <<E, queue, seen, overflow>>

Elem(f, st) == [fn |-> f, st |-> st]

Init == /\ E \in {X \in SUBSET Pairs : <<0, 1>> \in X /\ Cardinality(X) <= MaxE}
        /\ queue = <<Elem(0, <<>>)>>
        /\ seen = {Elem(0, <<>>)}
        /\ overflow = FALSE

\* NodeTree.GetLassoHandle: the last call site occurs earlier in the stack
IsLasso(st) == Len(st) > 1 /\ \E i \in 1 .. (Len(st) - 1) : st[i] = st[Len(st)]

Calls(n)   == {Elem(e[2], Append(n.st, e)) : e \in {x \in E : x[1] = n.fn}}
Returns(n) == IF n.st = <<>> THEN {}
              ELSE {Elem(n.st[Len(n.st)][1], SubSeq(n.st, 1, Len(n.st) - 1))}
Admit(m)   == m \notin seen /\ (Lasso => ~IsLasso(m.st))

Step == /\ queue # <<>> /\ ~overflow
        /\ LET n   == Head(queue)
               new == {m \in Calls(n) \cup Returns(n) : Admit(m)}
           IN IF \E m \in new : Len(m.st) > Cap
              THEN overflow' = TRUE /\ UNCHANGED <<queue, seen>>
              ELSE /\ queue' = Tail(queue) \o SetToSeq(new)
                   /\ seen' = seen \cup new
                   /\ UNCHANGED overflow
        /\ UNCHANGED E

Spec == Init /\ [][Step]_vars /\ WF_vars(Step)

Terminates == <>(queue = <<>> \/ overflow)
NoOverflow == ~overflow
\* with the lasso stop no admitted stack repeats a call site before its last element
StackBound == \A m \in seen : Len(m.st) <= Cardinality(E) + 1
=============================================================================
