-------------------------- MODULE EscapeLatticeTrace --------------------------
(***************************************************************************)
(* C15, binding part (B3: validation of data recorded from the REAL escape *)
(* analysis by harness/cmd/escdump; one TLC state per record).             *)
(*                                                                         *)
(* merge.ndjson     real Merge events and real merges of real graphs:      *)
(*                  pre, h, post = pre.Merge(h), hpre = h.Merge(pre),      *)
(*                  idem = post.Merge(post), a third real graph k,         *)
(*                  left = (pre+h)+k, right = pre+(h+k), and the answers   *)
(*                  of the real LessEqual to eight queries.                *)
(* transfer.ndjson  per SSA instruction: inputs/outputs of the real        *)
(*                  transfer function as the analysis applied it (time     *)
(*                  order), outputs of re-applying it to the same inputs   *)
(*                  after the analysis (fixed callee summaries), and       *)
(*                  weakened inputs with their real outputs.               *)
(* final.ndjson     per function / block: the final summary graph and the  *)
(*                  block-end graph in the default run and in runs with    *)
(*                  permuted block and function worklists.                 *)
(* fix.ndjson       per block: the block-end graph the analysis stopped    *)
(*                  with and the real re-evaluation of the block equation  *)
(*                  (Merge over all predecessors, transfer functions).     *)
(*                                                                         *)
(* Abs maps a recorded graph to the graphs of EscapeLattice.  Every check  *)
(* below is a statement about what the real code returned; a failed check  *)
(* is added to a TLC register and written by the POSTCONDITION, so one run *)
(* reports all of them (the check turns them into VIOLATION lines).        *)
(***************************************************************************)
EXTENDS EscapeLattice, TLC, Json, SequencesExt

Merges    == ndJsonDeserialize("merge.ndjson")
Transfers == ndJsonDeserialize("transfer.ndjson")
Finals    == ndJsonDeserialize("final.ndjson")
Fixes     == ndJsonDeserialize("fix.ndjson")

VARIABLES file, p
vars == <<file, p>>

Init == \/ file = "merge"    /\ p \in 1 .. Len(Merges)
        \/ file = "transfer" /\ p \in 1 .. Len(Transfers)
        \/ file = "final"    /\ p \in 1 .. Len(Finals)
        \/ file = "fix"      /\ p \in 1 .. Len(Fixes)
Next == FALSE /\ UNCHANGED vars          \* no successors: every record is one (initial) state
Spec == Init /\ [][Next]_vars

-----------------------------------------------------------------------------
(* Abstraction of a recorded graph j = [n |-> <<<<id, kind, status>>...>>, e |-> <<<<src, dst, flags>>...>>] *)
Bits(fl) == {b \in {1, 2, 4} : (fl \div b) % 2 = 1}

Ids(j) == {j.n[i][1] : i \in 1 .. Len(j.n)}

Abs(j) ==
    LET idx == 1 .. Len(j.n)
        dom == Ids(j)
    IN [dom |-> dom,
        s   |-> [x \in dom |-> j.n[CHOOSE i \in idx : j.n[i][1] = x][3]],
        e   |-> UNION {{<<j.e[i][1], j.e[i][2], b>> : b \in Bits(j.e[i][3])} : i \in 1 .. Len(j.e)}]

\* Node.IntrinsicEscape by node kind (graph.go:32-51, 95-104): Param 1, Load 2 -> Escaped; Global 3, Unknown 8 -> Leaked
KindIntr(k) == IF k \in {1, 2} THEN 1 ELSE IF k \in {3, 8} THEN 2 ELSE 0

KindOf(j, x) == j.n[CHOOSE i \in 1 .. Len(j.n) : j.n[i][1] = x][2]

\* intrinsic status of every node of a sequence of recorded graphs
IntrOf(js) ==
    [x \in UNION {Ids(js[i]) : i \in 1 .. Len(js)} |->
        KindIntr(KindOf(js[CHOOSE i \in 1 .. Len(js) : x \in Ids(js[i])], x))]

-----------------------------------------------------------------------------
Fail(kind, a, b) == [file |-> file, p |-> p, kind |-> kind, a |-> a, b |-> b]

(* ---- merge records ---- *)
MergeFails ==
    LET r     == Merges[p]
        I     == IntrOf(<<r.pre, r.h, r.k>>)
        gp    == Abs(r.pre)
        gh    == Abs(r.h)
        gpost == Abs(r.post)
        gk    == Abs(r.k)
        wf    == WellFormed(I, gp) /\ WellFormed(I, gh)
        \* the eight LessEqual queries, in the order the harness asked them
        q     == <<<<gp, gpost>>, <<gh, gpost>>, <<gpost, gp>>, <<gpost, gh>>,
                   <<gp, gk>>, <<gh, gk>>, <<gpost, gk>>, <<gk, gpost>>>>
    IN  (IF WellFormed(I, gp)    THEN {} ELSE {Fail("illformed", 1, 0)})
   \cup (IF WellFormed(I, gh)    THEN {} ELSE {Fail("illformed", 2, 0)})
   \cup (IF WellFormed(I, gpost) THEN {} ELSE {Fail("illformed", 3, 0)})
        \* the real Merge returns the least upper bound (declarative join of the specification)
   \cup (IF wf => gpost = MergeD(I, gp, gh) THEN {} ELSE {Fail("merge-not-join", 0, 0)})
   \cup (IF Abs(r.hpre) = gpost THEN {} ELSE {Fail("not-commutative", 0, 0)})
   \cup (IF Abs(r.idem) = gpost THEN {} ELSE {Fail("not-idempotent", 0, 0)})
   \cup (IF Abs(r.left) = Abs(r.right) THEN {} ELSE {Fail("not-associative", 0, 0)})
   \cup (IF Leq(gp, gpost) /\ Leq(gh, gpost) THEN {} ELSE {Fail("not-upper-bound", 0, 0)})
   \cup (IF r.leq[1] /\ r.leq[2] THEN {} ELSE {Fail("lessequal-denies-upper-bound", 0, 0)})
   \cup (IF (Leq(gp, gk) /\ Leq(gh, gk)) => Leq(gpost, gk) THEN {} ELSE {Fail("not-least", 0, 0)})
   \cup {Fail("lessequal-differs", i, 0) : i \in {i \in 1 .. 8 : r.leq[i] # Leq(q[i][1], q[i][2])}}

MergeNonTrivial == LET r == Merges[p] IN Len(r.pre.n) > 0 /\ Len(r.h.n) > 0 /\ r.pre # r.h

(* ---- transfer records ---- *)
\* pool of (input, output) pairs obtained in one fixed environment: index i = entry i re-applied,
\* 100 * i + w = weakened input w of entry i
Pool(r) ==
    {[ix |-> i, pre |-> Abs(r.ents[i].pre), post |-> Abs(r.ents[i].re)] : i \in 1 .. Len(r.ents)}
    \cup UNION {{[ix |-> 100 * i + w, pre |-> Abs(r.ents[i].weak[w].pre), post |-> Abs(r.ents[i].weak[w].post)]
                    : w \in 1 .. Len(r.ents[i].weak)} : i \in 1 .. Len(r.ents)}

\* as applied by the analysis itself, earlier application vs. later application (what the built-in,
\* disabled self-check of escape.go:1219-1238 would log)
RecordedComparable(r) ==
    {ij \in (1 .. Len(r.ents)) \X (1 .. Len(r.ents)) :
        ij[1] < ij[2] /\ Leq(Abs(r.ents[ij[1]].pre), Abs(r.ents[ij[2]].pre))}

PoolComparable(P) == {ab \in P \X P : ab[1].ix # ab[2].ix /\ Leq(ab[1].pre, ab[2].pre)}

TransferFails ==
    LET r  == Transfers[p]
        P  == Pool(r)
    IN  {Fail("not-monotone-recorded", ij[1], ij[2]) :
            ij \in {x \in RecordedComparable(r) : ~Leq(Abs(r.ents[x[1]].post), Abs(r.ents[x[2]].post))}}
   \cup {Fail("not-monotone", ab[1].ix, ab[2].ix) :
            ab \in {x \in PoolComparable(P) : ~Leq(x[1].post, x[2].post)}}

TransferComparable ==
    LET r == Transfers[p] IN Cardinality(RecordedComparable(r)) + Cardinality(PoolComparable(Pool(r)))

(* ---- final graphs under permuted worklists ---- *)
\* graphs are compared up to node numbering: bag of (label, status) and bag of (label, label, flags), where the
\* labels (kind, debug string, refined by the flagged neighbourhood) do not depend on the creation order of nodes
BagOf(sq) == [x \in {sq[i] : i \in 1 .. Len(sq)} |-> Cardinality({i \in 1 .. Len(sq) : sq[i] = x})]

LabelOf(j, x) == j.l[CHOOSE i \in 1 .. Len(j.n) : j.n[i][1] = x]

Canon(j) ==
    [nb |-> BagOf([i \in 1 .. Len(j.n) |-> <<j.l[i], j.n[i][3]>>]),
     eb |-> BagOf([i \in 1 .. Len(j.e) |-> <<LabelOf(j, j.e[i][1]), LabelOf(j, j.e[i][2]), j.e[i][3]>>])]

FinalFails ==
    LET r == Finals[p]
        c == [k \in 1 .. Len(r.runs) |-> Canon(r.runs[k])]
    IN {Fail("order-dependent", k, 0) : k \in {k \in 2 .. Len(r.runs) : c[k] # c[1]}}

(* ---- the state the analysis stopped in is a fixpoint of the block equations ---- *)
\* end = blockEnd[b] of the real analysis; out = real transfer functions of b applied to the real Merge of the final
\* block-end graphs of ALL predecessors of b (the initial graph for the entry block)
FixFails ==
    LET r == Fixes[p]
    IN IF Abs(r.out) = Abs(r.end) THEN {} ELSE {Fail("not-a-fixpoint", 0, 0)}

-----------------------------------------------------------------------------
ASSUME TLCSet(2, {}) /\ TLCSet(3, 0) /\ TLCSet(4, 0)

\* register 2: failures; 3: number of comparable input pairs (non-vacuity of the monotonicity checks);
\* 4: number of merge records whose operands are both non-empty and different
Collect ==
    CASE file = "merge" ->
            /\ TLCSet(2, TLCGet(2) \cup MergeFails)
            /\ IF MergeNonTrivial THEN TLCSet(4, TLCGet(4) + 1) ELSE TRUE
      [] file = "transfer" ->
            /\ TLCSet(2, TLCGet(2) \cup TransferFails)
            /\ TLCSet(3, TLCGet(3) + TransferComparable)
      [] file = "final" -> TLCSet(2, TLCGet(2) \cup FinalFails)
      [] file = "fix"   -> TLCSet(2, TLCGet(2) \cup FixFails)

Post ==
    /\ ndJsonSerialize("trace_fail.ndjson", SetToSeq(TLCGet(2)))
    /\ PrintT(<<"TRACE_RESULT", Len(Merges), Len(Transfers), Len(Finals), Cardinality(TLCGet(2)), TLCGet(3), TLCGet(4), Len(Fixes)>>)

=============================================================================
