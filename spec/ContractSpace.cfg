SPECIFICATION Spec
CONSTANTS
  Shapes = {11, 20, 21, 22, 31}
  Combos = {"Fdirect", "Ffvalue", "Mmethod", "Minvoke", "Mfvalue", "Mifvalue", "Iinvoke", "Iifvalue"}
  Bodies = {"none", "all", "compl"}
  PBodies = {"none", "all"}
  Diags = {"id"}
  FreeKinds = FALSE
CONSTRAINT Collect
POSTCONDITION Post
CHECK_DEADLOCK FALSE
