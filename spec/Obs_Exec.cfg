SPECIFICATION Spec
CONSTRAINT Collect
POSTCONDITION Post
CHECK_DEADLOCK FALSE
