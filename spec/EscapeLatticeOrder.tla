-------------------------- MODULE EscapeLatticeOrder --------------------------
(***************************************************************************)
(* C15, exhaustive design-level part.  EscapeGraph.Merge as a transition   *)
(* system: its two loops pick the next edge / node of h in ANY order (Go   *)
(* map iteration); every order ends in the declarative join MergeD(g, h).  *)
(***************************************************************************)
EXTENDS EscapeGraphSpace

VARIABLES I, g
-----------------------------------------------------------------------------
VARIABLES h0, acc, pe, pn
ovars == <<I, g, h0, acc, pe, pn>>

InitOrder == /\ I \in IntrSet /\ g \in WF(I) /\ h0 \in WF(I)
             /\ acc = g /\ pe = h0.e /\ pn = h0.dom

NextOrder ==
    /\ UNCHANGED <<I, g, h0>>
    /\ \/ /\ pe # {}
          /\ \E t \in pe : acc' = AddEdge(I, acc, t[1], t[2], {t[3]}) /\ pe' = pe \ {t}
          /\ pn' = pn
       \/ /\ pe = {} /\ pn # {}
          /\ \E n \in pn : acc' = MergeNodeStatus(AddNode(I, acc, n), n, h0.s[n]) /\ pn' = pn \ {n}
          /\ pe' = pe

SpecOrder == InitOrder /\ [][NextOrder]_ovars

OrderEndsInJoin == (pe = {} /\ pn = {}) => acc = MergeD(I, g, h0)
OrderStaysBelow == Leq(acc, MergeD(I, g, h0)) /\ Closed(acc)


PostOrder == PrintT(<<"ORDER_RESULT", [J \in IntrSet |-> Cardinality(WF(J))]>>)
=============================================================================
