SPECIFICATION Spec
VIEW View
CONSTRAINT Collect
POSTCONDITION Post
CHECK_DEADLOCK FALSE
