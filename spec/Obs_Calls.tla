------------------------------ MODULE Obs_Calls ------------------------------
(***************************************************************************)
(* C12 and C18 as properties of the state space of GoSem, parameterised by *)
(* the call graph / reachability facts of the REAL analyzer.               *)
(*                                                                         *)
(* GoSem emits Event("call", site, _, _, callee) for every caller-to-      *)
(* callee transfer (static, closure, function value, bound method,         *)
(* interface method, deferred call) and Event("go", ...) for goroutine     *)
(* launches; functions are identified by their declaration line.           *)
(*   C12  EdgeOK     <<site, callee>> is an edge of the pointer call graph *)
(*                   at that site (through synthetic wrappers)             *)
(*        ExecOK     callee is in the analyzer's reachable-function set    *)
(*        ResolveOK  callee resolution at that site contains the callee    *)
(*   C18  ReachOK    callee is in the set reported by the reachability     *)
(*                   tool; plus the set relations RelOK of DESIGN.md C18   *)
(***************************************************************************)
EXTENDS SemBatch

Facts == ndJsonDeserialize("facts.ndjson")
\* Facts[p] = [edges, resolve : <<<<site, line, inst>>>>, reachi : <<<<line, inst>>>>, reach, allfuncs, fr_all, fr_nomain, fr_noinit, fr_none : <<line>>]

PairSet(q) == {<<q[j][1], q[j][2]>> : j \in 1 .. Len(q)}
TripleSet(q) == {<<q[j][1], q[j][2], q[j][3]>> : j \in 1 .. Len(q)}
\* type arguments of an instantiated generic function ("" otherwise): two instantiations share one declaration line
Inst(pp, f) == Progs[pp].inst[f]
SeqToSet(q)   == {q[j] : j \in 1 .. Len(q)}

Decl(pp, f) == Progs[pp].decl[f]

IsCall(e) == e.e \in {"call", "go"}

EdgeOK(pp, e)    == e.a = 0 \/ <<e.a, Decl(pp, e.s), Inst(pp, e.s)>> \in TripleSet(Facts[pp].edges)
ExecOK(pp, e)    == <<Decl(pp, e.s), Inst(pp, e.s)>> \in PairSet(Facts[pp].reachi)
ResolveOK(pp, e) == e.a = 0 \/ <<e.a, Decl(pp, e.s), Inst(pp, e.s)>> \in TripleSet(Facts[pp].resolve)
ReachOK(pp, e)   == Decl(pp, e.s) \in SeqToSet(Facts[pp].fr_all)

Sound_C12 == \A e \in ev : IsCall(e) => EdgeOK(p, e) /\ ExecOK(p, e) /\ ResolveOK(p, e)
Sound_C18 == \A e \in ev : IsCall(e) => ReachOK(p, e)

RelOK(pp) ==
    LET F == Facts[pp] IN
    /\ SeqToSet(F.reach) \subseteq SeqToSet(F.fr_all)
    /\ SeqToSet(F.fr_all) \subseteq SeqToSet(F.allfuncs)
    /\ SeqToSet(F.fr_nomain) \subseteq SeqToSet(F.fr_all)
    /\ SeqToSet(F.fr_noinit) \subseteq SeqToSet(F.fr_all)
    /\ SeqToSet(F.fr_none) \subseteq SeqToSet(F.fr_nomain) \cap SeqToSet(F.fr_noinit)

Miss(r, what) == [p |-> r.p, what |-> what, site |-> r.ev.a, callee |-> r.ev.s, dec |-> r.dec, sched |-> r.sched]

Misses ==
    LET C == {r \in Truth : IsCall(r.ev)} IN
    {Miss(r, "edge") : r \in {r \in C : ~EdgeOK(r.p, r.ev)}}
    \cup {Miss(r, "exec") : r \in {r \in C : ~ExecOK(r.p, r.ev)}}
    \cup {Miss(r, "resolve") : r \in {r \in C : ~ResolveOK(r.p, r.ev)}}
    \cup {Miss(r, "reach") : r \in {r \in C : ~ReachOK(r.p, r.ev)}}
    \cup {[p |-> pp, what |-> "relations", site |-> 0, callee |-> "", dec |-> <<>>, sched |-> <<>>]
            : pp \in {pp \in 1 .. NP : ~RelOK(pp)}}

PostCalls ==
    /\ WriteTruth
    /\ ndJsonSerialize("misses.ndjson", SetToSeq(Misses))
    /\ PrintT(<<"OBS_CALLS", NP, Cardinality(Truth), Cardinality(Misses)>>)
=============================================================================
