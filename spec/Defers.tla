------------------------------- MODULE Defers -------------------------------
(***************************************************************************)
(* C16 -- "Defer analysis computes exactly the possible defer stacks".     *)
(*                                                                         *)
(* Role D (declarative definition).  The input is a batch of REAL control  *)
(* flow graphs (x/tools SSA basic blocks projected on Defer / RunDefers    *)
(* instructions) together with what the REAL defers.AnalyzeFunction        *)
(* reported for them (harness/cmd/defersdump).  A behaviour of this spec   *)
(* is one control-flow path of one function carrying the stack of defer    *)
(* statements executed so far; TLC therefore enumerates every (block,      *)
(* instruction, stack) point reachable along CFG paths.                    *)
(*                                                                         *)
(*   Exact     no path arrives at a RunDefers r with a stack that the      *)
(*             analysis did not report for r            ("every stack")    *)
(*   Complete  every stack reported for r is the stack of some path        *)
(*             ("and no other"; collected in a TLC register, decided in    *)
(*             the POSTCONDITION)                                          *)
(*   BoundedOK reported bounded  <=>  no defer lies on a CFG cycle         *)
(*                                                                         *)
(* Failures are not TLC errors: they are accumulated and written to        *)
(* defers_fail.ndjson so that one run reports every failing function; the  *)
(* check turns them into VIOLATION lines.                                  *)
(***************************************************************************)
EXTENDS Naturals, Sequences, FiniteSets, TLC, Json, SequencesExt

Funcs == ndJsonDeserialize("funcs.ndjson")
NF    == Len(Funcs)

VARIABLES f,    \* index of the function in the batch
          b,    \* current block (0-based SSA index)
          i,    \* index into the projected code of b; Len+1 = at the block's end
          st,   \* sequence of <<block, ins>> of the defers executed so far
          dec   \* branch decisions taken (index of the successor chosen at every multi-successor block)

vars == <<f, b, i, st, dec>>

Blk(fn, bb)  == Funcs[fn].blocks[bb + 1]
Code(fn, bb) == Blk(fn, bb).code
Succ(fn, bb) == Blk(fn, bb).succ
NB(fn)       == Len(Funcs[fn].blocks)
BlockIds(fn) == 0 .. (NB(fn) - 1)

SuccSet(fn, bb) == {Succ(fn, bb)[k] : k \in 1 .. Len(Succ(fn, bb))}

\* blocks reachable from a set S in >= 0 steps
RECURSIVE ReachFrom(_, _)
ReachFrom(fn, S) ==
    LET T == S \cup UNION {SuccSet(fn, x) : x \in S}
    IN IF T = S THEN S ELSE ReachFrom(fn, T)

Reachable(fn) == ReachFrom(fn, {0})

\* a block is on a cycle iff it is reachable from one of its successors
OnCycle(fn, bb) == bb \in ReachFrom(fn, SuccSet(fn, bb))

HasDefer(fn, bb) == \E k \in 1 .. Len(Code(fn, bb)) : Code(fn, bb)[k].k = "defer"

\* the declarative meaning of "unbounded" (a constant-level function: TLC evaluates it once per batch)
SpecUnbTable == [fn \in 1 .. NF |-> \E bb \in Reachable(fn) : HasDefer(fn, bb) /\ OnCycle(fn, bb)]
SpecUnbounded(fn) == SpecUnbTable[fn]

RealSet(fn, rb, ri) ==
    LET S == {k \in 1 .. Len(Funcs[fn].sets) : Funcs[fn].sets[k].b = rb /\ Funcs[fn].sets[k].i = ri}
    IN IF S = {} THEN {}
       ELSE LET k == CHOOSE k \in S : TRUE
                ss == Funcs[fn].sets[k].stacks
            IN {[j \in 1 .. Len(ss[m]) |-> <<ss[m][j].b, ss[m][j].i>>] : m \in 1 .. Len(ss)}

-----------------------------------------------------------------------------
Init == /\ f \in 1 .. NF
        /\ b = 0 /\ i = 1 /\ st = <<>> /\ dec = <<>>

\* functions the definition calls unbounded are not path-explored (their stacks grow forever)
Explore(fn) == ~SpecUnbounded(fn) /\ Funcs[fn].bounded

Step ==
    /\ Explore(f)
    /\ IF i <= Len(Code(f, b))
       THEN LET ins == Code(f, b)[i] IN
            /\ st' = IF ins.k = "defer" THEN Append(st, <<ins.b, ins.i>>)
                     ELSE IF ins.k = "rundefers" THEN <<>> ELSE st
            /\ i' = i + 1 /\ b' = b /\ dec' = dec
       ELSE /\ \E k \in 1 .. Len(Succ(f, b)) :
                 /\ b' = Succ(f, b)[k]
                 /\ dec' = IF Len(Succ(f, b)) > 1 THEN Append(dec, k) ELSE dec
            /\ i' = 1 /\ st' = st
    /\ f' = f

Next == Step
Spec == Init /\ [][Next]_vars

\* paths differing only in their decision history are the same point
View == <<f, b, i, st>>

-----------------------------------------------------------------------------
AtRunDefers == i <= Len(Code(f, b)) /\ Code(f, b)[i].k = "rundefers"

Fail(kind, fn, rb, ri, mark, stack, d) ==
    [kind |-> kind, f |-> fn, name |-> Funcs[fn].name, rb |-> rb, ri |-> ri, mark |-> mark, stack |-> stack,
     dec |-> d, realbounded |-> Funcs[fn].bounded, specbounded |-> ~SpecUnbounded(fn)]

ASSUME TLCSet(1, {}) /\ TLCSet(2, {})

\* register 1: reached <<f, rb, ri, stack>>;  register 2: failures
Collect ==
    /\ IF b = 0 /\ i = 1 /\ st = <<>> /\ dec = <<>>
       THEN IF Funcs[f].bounded = SpecUnbounded(f)
            THEN TLCSet(2, TLCGet(2) \cup {Fail("bounded", f, 0, 0, 0, <<>>, <<>>)})
            ELSE TRUE
       ELSE TRUE
    /\ IF Explore(f) /\ AtRunDefers
       THEN LET r == Code(f, b)[i] IN
            /\ TLCSet(1, TLCGet(1) \cup {<<f, r.b, r.i, st>>})
            /\ IF st \notin RealSet(f, r.b, r.i)
               THEN TLCSet(2, TLCGet(2) \cup {Fail("missing", f, r.b, r.i, r.line, st, dec)})
               ELSE TRUE
       ELSE TRUE

\* "no other": every reported stack was reached by some path
ExtraOf(fn) ==
    UNION {LET rs == Funcs[fn].sets[k] IN
           {Fail("extra", fn, rs.b, rs.i, 0, s, <<>>) :
                s \in {x \in RealSet(fn, rs.b, rs.i) : <<fn, rs.b, rs.i, x>> \notin TLCGet(1)}}
           : k \in 1 .. Len(Funcs[fn].sets)}

\* a RunDefers the analysis has a set for but no path reaches is fine only if its set is empty
Post ==
    LET fails == TLCGet(2) \cup UNION {ExtraOf(fn) : fn \in {x \in 1 .. NF : Explore(x)}}
        seqf  == SetToSeq(fails)
    IN /\ ndJsonSerialize("defers_fail.ndjson", seqf)
       /\ PrintT(<<"DEFERS_RESULT", NF, Cardinality({x \in 1 .. NF : Explore(x)}), Cardinality(TLCGet(1)), Cardinality(fails)>>)

=============================================================================
