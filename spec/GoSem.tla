-------------------------------- MODULE GoSem --------------------------------
(***************************************************************************)
(* Role S: an explicit small-step semantics of the Go fragment the         *)
(* properties C01 C02 C03 C11 C12 C13 C14 C18 C19 talk about, with ghost   *)
(* observables.  Programs are flat MiniGo code produced by lib/minigo.py   *)
(* from the same statement list as the Go source that the real analyzer    *)
(* reads and that is executed natively (B2).                               *)
(*                                                                         *)
(* State: p (program of the batch), gs (goroutines = stacks of frames),    *)
(* cur (running goroutine), heap (cells with allocation site), dec (the    *)
(* decisions taken: oracle()/validate() outcomes -- this is the replay     *)
(* script), sched (goroutine switches), valid (tags validated on this      *)
(* execution), ev (observable events of the last step).                    *)
(*                                                                         *)
(* Every datum D(t) carries the set t of origin tags (source / origin call *)
(* sites) it was EXPLICITLY computed from: tags propagate through copies,  *)
(* conversions, concatenation, loads/stores, parameter passing, returns,   *)
(* closure capture, append/copy -- never through conditions or indices.    *)
(* One action per instruction form; Next is their disjunction.             *)
(***************************************************************************)
EXTENDS Integers, Sequences, FiniteSets, TLC, Json, SequencesExt

CONSTANTS MaxDec,      \* opaque decisions per execution (later ones are FALSE, as natively)
          MaxFrames,   \* call depth bound (safety net)
          MaxGo        \* goroutines bound

Progs == ndJsonDeserialize("progs.ndjson")
NP    == Len(Progs)

VARIABLES p, gs, cur, heap, dec, sched, valid, ev, crashed,
          hist,    \* probes seen so far on this execution: <<probe site, object, path>> (C11)
          sh       \* shared-memory accesses of the last step (C14): events "shared"(line, object, goroutine)

vars == <<p, gs, cur, heap, dec, sched, valid, ev, crashed, hist, sh>>

-----------------------------------------------------------------------------
(* values *)
D(t)        == [k |-> "d", t |-> t]
Clean       == D({})
Nil         == [k |-> "nil"]
Ref(o, pth) == [k |-> "ref", o |-> o, path |-> pth]
BoolV(b)    == [k |-> "b", b |-> b]
Clo(f, caps, pre) == [k |-> "clo", fn |-> f, caps |-> caps, pre |-> pre]
Iface(ty, v) == [k |-> "if", ty |-> ty, v |-> v]

Prog      == Progs[p]
FuncOf(f) == Prog.funcs[f]
CodeOf(f) == FuncOf(f).code

RECURSIVE Zero(_)
Zero(z) ==
    IF z = "D" THEN Clean
    ELSE IF z = "P" THEN Nil
    ELSE IF z = "A2" THEN [k |-> "arr", n |-> 2, f |-> [c \in {"1", "2"} |-> Clean]]
    ELSE LET fl == Prog.types[z] IN
         [k |-> "st", f |-> [c \in {fl[j][1] : j \in 1 .. Len(fl)} |->
                               Zero(fl[CHOOSE j \in 1 .. Len(fl) : fl[j][1] = c][2])]]

IdxName(i) == ToString(i)

ArrOf(vals) == [k |-> "arr", n |-> Len(vals), f |-> [c \in {IdxName(j) : j \in 1 .. Len(vals)} |->
                                                       vals[CHOOSE j \in 1 .. Len(vals) : IdxName(j) = c]]]
ArrElems(a) == [j \in 1 .. a.n |-> a.f[IdxName(j)]]

RECURSIVE Nav(_, _)
Nav(x, path) == IF path = <<>> THEN x ELSE Nav(x.f[Head(path)], Tail(path))

RECURSIVE Put(_, _, _)
Put(x, path, v) == IF path = <<>> THEN v
                   ELSE [x EXCEPT !.f[Head(path)] = Put(x.f[Head(path)], Tail(path), v)]

RECURSIVE CanNav(_, _)
CanNav(x, path) == IF path = <<>> THEN TRUE
                   ELSE /\ x.k \in {"st", "arr"}
                        /\ Head(path) \in DOMAIN x.f
                        /\ CanNav(x.f[Head(path)], Tail(path))

\* a reference that can be dereferenced (Go: non-nil, index in range)
ValidRef(h, r)   == r.k = "ref" /\ CanNav(h[r.o].v, r.path)

Deref(h, r)      == Nav(h[r.o].v, r.path)
Assign(h, r, v)  == [h EXCEPT ![r.o].v = Put(h[r.o].v, r.path, v)]
Alloc(h, site, v) == Append(h, [site |-> site, v |-> v])

ScalarTags(x) == IF x.k = "d" THEN x.t ELSE {}

\* tags in the value itself or in memory reachable from it through pointers, slices, maps, interfaces and
\* struct fields (not through closures or channels)
RECURSIVE RT(_, _, _)
RT(h, v, seen) ==
    CASE v.k = "d"   -> v.t
      [] v.k = "ref" -> LET key == <<v.o, v.path>> IN
                        IF key \in seen THEN {} ELSE RT(h, Deref(h, v), seen \cup {key})
      [] v.k \in {"st", "arr"} -> UNION {RT(h, v.f[c], seen) : c \in DOMAIN v.f}
      [] v.k = "map" -> UNION {RT(h, v.m[c].key, seen) \cup RT(h, v.m[c].val, seen) : c \in DOMAIN v.m}
      [] v.k = "if"  -> RT(h, v.v, seen)
      [] OTHER       -> {}

ReachTags(h, v) == RT(h, v, {})

\* objects reachable from a value (for C14: reachability from another goroutine), through everything incl. closures
RECURSIVE RO(_, _, _)
RECURSIVE ROSet(_, _, _)
RO(h, v, seen) ==
    CASE v.k = "ref" -> IF v.o \in seen THEN seen ELSE RO(h, h[v.o].v, seen \cup {v.o})
      [] v.k \in {"st", "arr"} -> ROSet(h, {v.f[c] : c \in DOMAIN v.f}, seen)
      [] v.k = "map" -> ROSet(h, {v.m[c].key : c \in DOMAIN v.m} \cup {v.m[c].val : c \in DOMAIN v.m}, seen)
      [] v.k = "if"  -> RO(h, v.v, seen)
      [] v.k = "clo" -> ROSet(h, {v.caps[j] : j \in 1 .. Len(v.caps)} \cup {v.pre[j] : j \in 1 .. Len(v.pre)}, seen)
      [] v.k = "chan" -> ROSet(h, {v.q[j] : j \in 1 .. Len(v.q)}, seen)
      [] OTHER       -> seen
ROSet(h, S, seen) == IF S = {} THEN seen
                     ELSE LET x == CHOOSE x \in S : TRUE IN ROSet(h, S \ {x}, RO(h, x, seen))

-----------------------------------------------------------------------------
(* frames and goroutines *)
ZipNV(names, vals) == [x \in {names[i] : i \in 1 .. Len(names)} |->
                        vals[CHOOSE i \in 1 .. Len(names) : names[i] = x]]

NewFrame(f, args, caps, dst, site, isdefer) ==
    [fn |-> f, pc |-> 1,
     env |-> ZipNV(FuncOf(f).params \o FuncOf(f).frees, args \o caps),
     defers |-> <<>>, mode |-> "run", rv |-> <<>>, dst |-> dst, site |-> site, isdefer |-> isdefer]

Frames(g)  == gs[g].fr
Top(g)     == Frames(g)[Len(Frames(g))]
Ins(g)     == CodeOf(Top(g).fn)[Top(g).pc]
Running(g) == g \in 1 .. Len(gs) /\ gs[g].st = "run" /\ Len(Frames(g)) > 0

Val(fr, x) == IF x = "_" THEN Clean ELSE IF x = "_nil" THEN Nil ELSE fr.env[x]
Vals(fr, xs) == [i \in 1 .. Len(xs) |-> Val(fr, xs[i])]

Bind(env, x, v) == IF x \in {"", "%drop"} THEN env
                   ELSE [y \in DOMAIN env \cup {x} |-> IF y = x THEN v ELSE env[y]]
RECURSIVE BindAll(_, _, _)
BindAll(env, xs, vs) == IF xs = <<>> \/ vs = <<>> THEN env
                        ELSE BindAll(Bind(env, Head(xs), Head(vs)), Tail(xs), Tail(vs))

Adv(fr)        == [fr EXCEPT !.pc = fr.pc + 1]
SetD(fr, d, v) == [Adv(fr) EXCEPT !.env = Bind(fr.env, d, v)]
WithTop(g, f2) == [gs EXCEPT ![g].fr[Len(gs[g].fr)] = f2]

Event(e, a, b, c, s, v) == [e |-> e, a |-> a, b |-> b, c |-> c, s |-> s, v |-> v]

\* the common shape of a step that only touches the top frame, the heap and emits events
Upd(g, f2, h2, e2) ==
    /\ gs' = WithTop(g, f2) /\ heap' = h2 /\ ev' = e2
    /\ UNCHANGED <<p, dec, valid, crashed>>

PanicFrame(fr) == [fr EXCEPT !.mode = "panic"]

-----------------------------------------------------------------------------
(* instruction actions; g = goroutine, fr = its top frame, i = the instruction *)

StepSrc(g, fr, i)    == i.op \in {"src", "origin"} /\ Upd(g, SetD(fr, i.d, D({i.n})), heap, {})
StepCopy(g, fr, i)   == i.op = "copy" /\ Upd(g, SetD(fr, i.d, Val(fr, i.a[1])), heap, {})
StepZero(g, fr, i)   == i.op = "zero" /\ Upd(g, SetD(fr, i.d, Zero(i.s)), heap, {})
StepMix(g, fr, i)    == i.op = "mix" /\
    Upd(g, SetD(fr, i.d, D(UNION {ScalarTags(Val(fr, i.a[j])) : j \in 1 .. Len(i.a)})), heap, {})
StepSan(g, fr, i)    == i.op = "san" /\ Upd(g, SetD(fr, i.d, Clean), heap, {})

StepSink(g, fr, i) == i.op = "sink" /\
    Upd(g, Adv(fr), heap,
        {Event("flow", t, i.n, 0, "", t \in valid) : t \in ReachTags(heap, Val(fr, i.a[1]))})

StepBt(g, fr, i) == i.op = "bt" /\
    Upd(g, Adv(fr), heap,
        UNION {{Event("bt", t, i.n, j - 1, "", FALSE) : t \in ReachTags(heap, Val(fr, i.a[j]))} : j \in 1 .. Len(i.a)})

\* a probe observes the object a pointer-like value refers to: its allocation site, and every earlier probe of the
\* same execution that observed the same location (run-time alias)
StepProbe(g, fr, i) == i.op = "probe" /\
    LET v == Val(fr, i.a[1]) IN
    Upd(g, Adv(fr), heap,
        IF v.k = "ref"
        THEN {Event("probe", i.n, v.o, heap[v.o].site, "", FALSE)}
             \cup {Event("alias", i.n, h[1], 0, "", FALSE) : h \in {h \in hist : h[2] = v.o /\ h[3] = v.path /\ h[1] # i.n}}
             \* a pointer to a pointer-like variable: the object *v refers to (the analysis answers it by an indirect query)
             \cup (IF ValidRef(heap, v) /\ Deref(heap, v).k = "ref"
                   THEN {Event("iprobe", i.n, Deref(heap, v).o, heap[Deref(heap, v).o].site, "", FALSE)} ELSE {})
        ELSE {})

HistAfter(g) ==
    IF Top(g).mode = "run" /\ Ins(g).op = "probe" /\ Val(Top(g), Ins(g).a[1]).k = "ref"
    THEN LET v == Val(Top(g), Ins(g).a[1]) IN hist \cup {<<Ins(g).n, v.o, v.path>>}
    ELSE hist

StepNew(g, fr, i) == i.op \in {"new", "newvar"} /\
    Upd(g, SetD(fr, i.d, Ref(Len(heap) + 1, <<>>)), Alloc(heap, i.n, Zero(i.s)), {})

StepCellParam(g, fr, i) == i.op = "cellparam" /\
    Upd(g, SetD(fr, i.d, Ref(Len(heap) + 1, <<>>)), Alloc(heap, i.n, fr.env[i.d]), {})

StepGref(g, fr, i) == i.op = "gref" /\
    LET gi == CHOOSE j \in 1 .. Len(Prog.globals) : Prog.globals[j].name = i.s IN
    Upd(g, SetD(fr, i.d, Ref(gi, <<>>)), heap, {})

Access(g, site, o) == Event("acc", g, o, site, "", FALSE)

StepLoad(g, fr, i) == i.op = "load" /\
    LET r == Val(fr, i.a[1]) IN
    IF ValidRef(heap, r) THEN Upd(g, SetD(fr, i.d, Deref(heap, r)), heap, {})
    ELSE Upd(g, PanicFrame(fr), heap, {})

StepStore(g, fr, i) == i.op = "store" /\
    LET r == Val(fr, i.a[1]) IN
    IF ValidRef(heap, r) THEN Upd(g, Adv(fr), Assign(heap, r, Val(fr, i.a[2])), {})
    ELSE Upd(g, PanicFrame(fr), heap, {})

StepFaddr(g, fr, i) == i.op \in {"faddr", "idxaddr"} /\
    LET r == Val(fr, i.a[1])
        c == IF i.op = "faddr" THEN i.s ELSE IdxName(i.n) IN
    IF r.k = "ref" THEN Upd(g, SetD(fr, i.d, [r EXCEPT !.path = Append(r.path, c)]), heap, {})
    ELSE Upd(g, PanicFrame(fr), heap, {})

StepField(g, fr, i) == i.op = "field" /\ Upd(g, SetD(fr, i.d, Val(fr, i.a[1]).f[i.s]), heap, {})

\* s = "<type>.<field>": struct value of <type> with one field set; the type name is the part before the dot,
\* carried separately in ds[1] to avoid string surgery
StepMkStruct(g, fr, i) == i.op = "mkstruct" /\
    Upd(g, SetD(fr, i.d, [Zero(i.ds[1]) EXCEPT !.f[i.ds[2]] = Val(fr, i.a[1])]), heap, {})

SliceElems(h, v) == IF v.k = "ref" THEN ArrElems(Deref(h, v)) ELSE <<>>

StepMkSlice(g, fr, i) == i.op = "mkslice" /\
    Upd(g, SetD(fr, i.d, Ref(Len(heap) + 1, <<>>)), Alloc(heap, i.n, ArrOf(Vals(fr, i.a))), {})

StepAppend(g, fr, i) == i.op = "append" /\
    LET base == SliceElems(heap, Val(fr, i.a[1]))
        more == [j \in 1 .. Len(i.a) - 1 |-> Val(fr, i.a[j + 1])] IN
    Upd(g, SetD(fr, i.d, Ref(Len(heap) + 1, <<>>)), Alloc(heap, i.n, ArrOf(base \o more)), {})

StepAppendSpread(g, fr, i) == i.op = "appendspread" /\
    LET base == SliceElems(heap, Val(fr, i.a[1]))
        more == SliceElems(heap, Val(fr, i.a[2])) IN
    Upd(g, SetD(fr, i.d, Ref(Len(heap) + 1, <<>>)), Alloc(heap, i.n, ArrOf(base \o more)), {})

StepCopySl(g, fr, i) == i.op = "copysl" /\
    LET dst == Val(fr, i.a[1])
        de  == SliceElems(heap, dst)
        se  == SliceElems(heap, Val(fr, i.a[2]))
        ne  == [j \in 1 .. Len(de) |-> IF j <= Len(se) THEN se[j] ELSE de[j]] IN
    IF dst.k = "ref" THEN Upd(g, Adv(fr), Assign(heap, dst, ArrOf(ne)), {})
    ELSE Upd(g, Adv(fr), heap, {})

StepToBytes(g, fr, i) == i.op = "tobytes" /\
    Upd(g, SetD(fr, i.d, Ref(Len(heap) + 1, <<>>)),
        Alloc(heap, i.n, ArrOf(<<D(ScalarTags(Val(fr, i.a[1])))>>)), {})

StepToStr(g, fr, i) == i.op = "tostr" /\
    LET es == SliceElems(heap, Val(fr, i.a[1])) IN
    Upd(g, SetD(fr, i.d, D(UNION {ScalarTags(es[j]) : j \in 1 .. Len(es)})), heap, {})

StepRangeAcc(g, fr, i) == i.op = "rangeacc" /\
    LET c == Val(fr, i.a[2])
        x == IF c.k = "ref" THEN Deref(heap, c) ELSE Nil
        more == IF x.k = "arr" THEN UNION {ScalarTags(x.f[e]) : e \in DOMAIN x.f}
                ELSE IF x.k = "map" THEN
                     UNION {ScalarTags(IF i.s = "key" THEN x.m[e].key ELSE x.m[e].val) : e \in DOMAIN x.m}
                ELSE {} IN
    Upd(g, SetD(fr, i.d, D(ScalarTags(Val(fr, i.a[1])) \cup more)), heap, {})

StepMkMap(g, fr, i) == i.op = "mkmap" /\
    Upd(g, SetD(fr, i.d, Ref(Len(heap) + 1, <<>>)), Alloc(heap, i.n, [k |-> "map", m |-> <<>>]), {})

StepMapPut(g, fr, i) == i.op = "mapput" /\
    LET r == Val(fr, i.a[1]) IN
    IF r.k = "ref" THEN
        LET mv == Deref(heap, r)
            m2 == [c \in DOMAIN mv.m \cup {i.s} |->
                      IF c = i.s THEN [key |-> Val(fr, i.a[2]), val |-> Val(fr, i.a[3])] ELSE mv.m[c]] IN
        Upd(g, Adv(fr), Assign(heap, r, [mv EXCEPT !.m = m2]), {})
    ELSE Upd(g, PanicFrame(fr), heap, {})

StepMapGet(g, fr, i) == i.op = "mapget" /\
    LET r == Val(fr, i.a[1])
        mv == IF r.k = "ref" THEN Deref(heap, r).m ELSE <<>> IN
    Upd(g, SetD(fr, i.d, IF i.s \in DOMAIN mv THEN mv[i.s].val ELSE Clean), heap, {})

StepBox(g, fr, i) == i.op = "box" /\ Upd(g, SetD(fr, i.d, Iface(i.s, Val(fr, i.a[1]))), heap, {})

StepAssert(g, fr, i) == i.op = "assert" /\
    LET v == Val(fr, i.a[1]) IN
    IF v.k = "if" /\ v.ty = i.s THEN Upd(g, SetD(fr, i.d, v.v), heap, {})
    ELSE Upd(g, PanicFrame(fr), heap, {})

StepMkClo(g, fr, i) == i.op = "mkclo" /\ Upd(g, SetD(fr, i.d, Clo(i.s, Vals(fr, i.a), <<>>)), heap, {})

StepBind(g, fr, i) == i.op = "bind" /\
    LET v == Val(fr, i.a[1]) IN
    IF v.k = "if" THEN Upd(g, SetD(fr, i.d, Clo(Prog.methods[v.ty][i.s], <<>>, <<v.v>>)), heap, {})
    ELSE Upd(g, PanicFrame(fr), heap, {})

\* decisions ---------------------------------------------------------------------------------------
DecChoices == IF Len(dec) < MaxDec THEN {TRUE, FALSE} ELSE {FALSE}

StepBr(g, fr, i) == i.op = "br" /\ \E b \in DecChoices :
    /\ gs' = WithTop(g, [fr EXCEPT !.pc = IF b THEN i.l[1] ELSE i.l[2]])
    /\ dec' = Append(dec, b) /\ ev' = {}
    /\ UNCHANGED <<p, heap, valid, crashed>>

StepVal(g, fr, i) == i.op = "val" /\ \E b \in DecChoices :
    /\ gs' = WithTop(g, SetD(fr, i.d, BoolV(b)))
    /\ dec' = Append(dec, b) /\ ev' = {}
    /\ valid' = IF b THEN valid \cup ReachTags(heap, Val(fr, i.a[1])) ELSE valid
    /\ UNCHANGED <<p, heap, crashed>>

StepNot(g, fr, i) == i.op = "not" /\ Upd(g, SetD(fr, i.d, BoolV(~Val(fr, i.a[1]).b)), heap, {})

StepBrv(g, fr, i) == i.op = "brv" /\
    LET b == (Val(fr, i.a[1]).b) # (i.s = "neg") IN
    Upd(g, [fr EXCEPT !.pc = IF b THEN i.l[1] ELSE i.l[2]], heap, {})

StepJmp(g, fr, i) == i.op = "jmp" /\ Upd(g, [fr EXCEPT !.pc = i.l[1]], heap, {})

\* calls ------------------------------------------------------------------------------------------------
Push(g, caller2, callee, e2) ==
    /\ Len(Frames(g)) < MaxFrames
    /\ gs' = [gs EXCEPT ![g].fr = Append(SubSeq(@, 1, Len(@) - 1), caller2) \o <<callee>>]
    /\ ev' = e2
    /\ UNCHANGED <<p, heap, dec, valid, crashed>>

CallEv(site, f) == {Event("call", site, 0, 0, f, FALSE)}

\* a pointer to a pointer-like variable passed as argument j: the object *param refers to inside the callee
IParamEv(f, args) ==
    {Event("iparam", j, Deref(heap, args[j]).o, heap[Deref(heap, args[j]).o].site, f, FALSE) :
        j \in {k \in 1 .. Len(args) : args[k].k = "ref" /\ ValidRef(heap, args[k]) /\ Deref(heap, args[k]).k = "ref"}}

StepCall(g, fr, i) == i.op = "call" /\
    Push(g, Adv(fr), NewFrame(i.s, Vals(fr, i.a), <<>>, i.ds, i.n, FALSE), CallEv(i.n, i.s) \cup IParamEv(i.s, Vals(fr, i.a)))

StepCallV(g, fr, i) == i.op = "callv" /\
    LET c == Val(fr, i.a[1])
        args == [j \in 1 .. Len(i.a) - 1 |-> Val(fr, i.a[j + 1])] IN
    IF c.k = "clo" THEN Push(g, Adv(fr), NewFrame(c.fn, c.pre \o args, c.caps, i.ds, i.n, FALSE), CallEv(i.n, c.fn))
    ELSE Upd(g, PanicFrame(fr), heap, {})

StepInvoke(g, fr, i) == i.op = "invoke" /\
    LET r == Val(fr, i.a[1])
        args == [j \in 1 .. Len(i.a) - 1 |-> Val(fr, i.a[j + 1])] IN
    IF r.k = "if" THEN
        LET f == Prog.methods[r.ty][i.s] IN
        Push(g, Adv(fr), NewFrame(f, <<r.v>> \o args, <<>>, i.ds, i.n, FALSE), CallEv(i.n, f))
    ELSE Upd(g, PanicFrame(fr), heap, {})

StepDefer(g, fr, i) == i.op \in {"defer", "deferv"} /\
    LET d == IF i.op = "defer" THEN [clo |-> Clo(i.s, <<>>, <<>>), args |-> Vals(fr, i.a), site |-> i.n]
             ELSE [clo |-> Val(fr, i.a[1]), args |-> <<>>, site |-> i.n] IN
    Upd(g, [Adv(fr) EXCEPT !.defers = Append(@, d)], heap, {})

StepRet(g, fr, i) == i.op \in {"ret", "retnamed"} /\
    Upd(g, [fr EXCEPT !.mode = "ret", !.rv = IF i.op = "ret" THEN Vals(fr, i.a) ELSE <<>>], heap, {})

StepPanic(g, fr, i) == i.op = "panic" /\ Upd(g, PanicFrame(fr), heap, {})

\* recover() stops the panic of the frame below when called from a function that was invoked as deferred call
StepRecover(g, fr, i) == i.op = "recover" /\
    LET n == Len(Frames(g)) IN
    IF fr.isdefer /\ n > 1 /\ Frames(g)[n - 1].mode = "panic"
    THEN /\ gs' = [gs EXCEPT ![g].fr = [Frames(g) EXCEPT ![n] = SetD(fr, i.d, Clean),
                                                          ![n - 1] = [@ EXCEPT !.mode = "ret", !.rv = <<>>]]]
         /\ ev' = {} /\ UNCHANGED <<p, heap, dec, valid, crashed>>
    ELSE Upd(g, SetD(fr, i.d, Nil), heap, {})

\* goroutines -----------------------------------------------------------------------------------------
StepGo(g, fr, i) == i.op \in {"go", "gov"} /\
    LET c == IF i.op = "go" THEN Clo(i.s, <<>>, <<>>) ELSE Val(fr, i.a[1])
        args == IF i.op = "go" THEN Vals(fr, i.a) ELSE <<>> IN
    /\ Len(gs) < MaxGo
    /\ gs' = Append(WithTop(g, Adv(fr)),
                    [st |-> "run", entry |-> c.fn, site |-> i.n,
                     fr |-> <<NewFrame(c.fn, c.pre \o args, c.caps, <<>>, i.n, FALSE)>>])
    /\ ev' = {Event("go", i.n, Len(gs) + 1, 0, c.fn, FALSE)}
    /\ UNCHANGED <<p, heap, dec, valid, crashed>>

StepMkChan(g, fr, i) == i.op = "mkchan" /\
    Upd(g, SetD(fr, i.d, Ref(Len(heap) + 1, <<>>)), Alloc(heap, i.n, [k |-> "chan", q |-> <<>>, cap |-> i.l[1]]), {})

StepSend(g, fr, i) == i.op = "send" /\
    LET r == Val(fr, i.a[1]) IN
    /\ r.k = "ref"
    /\ LET c == Deref(heap, r) IN
       /\ Len(c.q) < c.cap
       /\ Upd(g, Adv(fr), Assign(heap, r, [c EXCEPT !.q = Append(@, Val(fr, i.a[2]))]), {})

StepRecv(g, fr, i) == i.op = "recv" /\
    LET r == Val(fr, i.a[1]) IN
    /\ r.k = "ref"
    /\ LET c == Deref(heap, r) IN
       /\ Len(c.q) > 0
       /\ Upd(g, SetD(fr, i.d, Head(c.q)), Assign(heap, r, [c EXCEPT !.q = Tail(@)]), {})

StepGate(g, fr, i) == i.op \in {"gate", "enter"} /\ Upd(g, Adv(fr), heap, {})

\* unwinding: a frame in mode ret/panic runs its deferred calls, then leaves ---------------------------------------
NamedVals(fr) ==
    LET ns == FuncOf(fr.fn).named IN [j \in 1 .. Len(ns) |-> Deref(heap, fr.env[ns[j]])]

Unwind(g, fr) ==
    /\ fr.mode \in {"ret", "panic"}
    /\ IF fr.defers # <<>>
       THEN LET d == fr.defers[Len(fr.defers)]
                fr2 == [fr EXCEPT !.defers = SubSeq(@, 1, Len(@) - 1)] IN
            IF d.clo.k = "clo"
            THEN Push(g, fr2, NewFrame(d.clo.fn, d.clo.pre \o d.args, d.clo.caps, <<>>, d.site, TRUE),
                      {Event("call", d.site, 0, 0, d.clo.fn, FALSE)})
            ELSE Upd(g, [fr2 EXCEPT !.mode = "panic"], heap, {})
       ELSE LET n == Len(Frames(g)) IN
            IF n = 1
            THEN \* the goroutine ends
                 /\ gs' = [gs EXCEPT ![g].fr = <<>>, ![g].st = IF fr.mode = "panic" THEN "dead" ELSE "done"]
                 /\ ev' = IF fr.mode = "panic" THEN {Event("gopanic", gs[g].site, g, 0, gs[g].entry, FALSE)} ELSE {}
                 /\ crashed' = (crashed \/ fr.mode = "panic")
                 /\ UNCHANGED <<p, heap, dec, valid>>
            ELSE LET caller == Frames(g)[n - 1]
                     rv == IF FuncOf(fr.fn).named # <<>> THEN NamedVals(fr)
                           ELSE IF fr.rv # <<>> THEN fr.rv
                           ELSE [j \in 1 .. Len(FuncOf(fr.fn).results) |-> Zero(FuncOf(fr.fn).results[j])]
                     c2 == IF fr.mode = "panic" THEN [caller EXCEPT !.mode = "panic"]
                           ELSE [caller EXCEPT !.env = BindAll(caller.env, fr.dst, rv)] IN
                 /\ gs' = [gs EXCEPT ![g].fr = Append(SubSeq(@, 1, n - 2), c2)]
                 /\ ev' = {}
                 /\ UNCHANGED <<p, heap, dec, valid, crashed>>

-----------------------------------------------------------------------------
Exec(g) ==
    LET fr == Top(g) IN
    IF fr.mode # "run" THEN Unwind(g, fr)
    ELSE LET i == Ins(g) IN
         \/ StepSrc(g, fr, i) \/ StepCopy(g, fr, i) \/ StepZero(g, fr, i) \/ StepMix(g, fr, i) \/ StepSan(g, fr, i)
         \/ StepSink(g, fr, i) \/ StepBt(g, fr, i) \/ StepProbe(g, fr, i) \/ StepNot(g, fr, i)
         \/ StepNew(g, fr, i) \/ StepCellParam(g, fr, i) \/ StepGref(g, fr, i)
         \/ StepLoad(g, fr, i) \/ StepStore(g, fr, i) \/ StepFaddr(g, fr, i) \/ StepField(g, fr, i)
         \/ StepMkStruct(g, fr, i)
         \/ StepMkSlice(g, fr, i) \/ StepAppend(g, fr, i) \/ StepAppendSpread(g, fr, i) \/ StepCopySl(g, fr, i)
         \/ StepToBytes(g, fr, i) \/ StepToStr(g, fr, i) \/ StepRangeAcc(g, fr, i)
         \/ StepMkMap(g, fr, i) \/ StepMapPut(g, fr, i) \/ StepMapGet(g, fr, i)
         \/ StepBox(g, fr, i) \/ StepAssert(g, fr, i) \/ StepMkClo(g, fr, i) \/ StepBind(g, fr, i)
         \/ StepBr(g, fr, i) \/ StepVal(g, fr, i) \/ StepBrv(g, fr, i) \/ StepJmp(g, fr, i)
         \/ StepCall(g, fr, i) \/ StepCallV(g, fr, i) \/ StepInvoke(g, fr, i) \/ StepDefer(g, fr, i)
         \/ StepRet(g, fr, i) \/ StepPanic(g, fr, i) \/ StepRecover(g, fr, i)
         \/ StepGo(g, fr, i) \/ StepMkChan(g, fr, i) \/ StepSend(g, fr, i) \/ StepRecv(g, fr, i)
         \/ StepGate(g, fr, i)

\* ---- C14: which objects does the next instruction of g access, and are they reachable from another goroutine?
RootVals(g2) ==
    UNION {LET fr == gs[g2].fr[j] IN
           {fr.env[x] : x \in DOMAIN fr.env}
           \cup UNION {{fr.defers[d].clo} \cup {fr.defers[d].args[a] : a \in 1 .. Len(fr.defers[d].args)} : d \in 1 .. Len(fr.defers)}
           \cup {fr.rv[a] : a \in 1 .. Len(fr.rv)}
           : j \in 1 .. Len(gs[g2].fr)}

GlobalRefs == {Ref(j, <<>>) : j \in 1 .. Len(Prog.globals)}

ReachFromOthers(g) ==
    LET others == {g2 \in 1 .. Len(gs) : g2 # g /\ gs[g2].st = "run"} IN
    IF others = {} THEN {}
    ELSE ROSet(heap, GlobalRefs \cup UNION {RootVals(g2) : g2 \in others}, {})

AccessedRefs(fr, i) ==
    LET R(k) == Val(fr, i.a[k]) IN
    CASE i.op \in {"load", "store", "tostr", "mapput", "mapget", "send", "recv"} -> {R(1)}
      [] i.op \in {"copysl", "appendspread"} -> {R(1), R(2)}
      [] i.op = "append" -> {R(1)}
      [] i.op = "rangeacc" -> {R(2)}
      [] OTHER -> {}

SharedAfter(g) ==
    IF Len(gs) < 2 \/ Top(g).mode # "run" THEN {}
    ELSE LET i == Ins(g)
             objs == {r.o : r \in {r \in AccessedRefs(Top(g), i) : r.k = "ref"}} IN
         IF objs = {} THEN {}
         ELSE LET shared == objs \cap ReachFromOthers(g) IN
              {Event("shared", i.ln, o, g, "", FALSE) : o \in shared}

\* instructions at which a goroutine switch is observable (partial-order reduction: all others are local)
Visible(g) ==
    IF ~Running(g) THEN TRUE ELSE
    \/ Top(g).mode # "run"
    \/ Ins(g).op \in {"load", "store", "send", "recv", "gate", "sink", "src", "mapput", "mapget", "copysl",
                      "rangeacc", "tostr", "append", "appendspread", "go", "gov", "probe", "bt"}

Blocked(g) ==
    /\ Running(g) /\ Top(g).mode = "run"
    /\ LET i == Ins(g) IN
       \/ i.op = "send" /\ LET r == Val(Top(g), i.a[1]) IN r.k # "ref" \/ Len(Deref(heap, r).q) >= Deref(heap, r).cap
       \/ i.op = "recv" /\ LET r == Val(Top(g), i.a[1]) IN r.k # "ref" \/ Len(Deref(heap, r).q) = 0

Runnable(g) == Running(g) /\ ~Blocked(g)

Init ==
    /\ p \in 1 .. NP
    /\ cur = 1 /\ dec = <<>> /\ sched = <<>> /\ valid = {} /\ ev = {} /\ crashed = FALSE /\ hist = {} /\ sh = {}
    /\ heap = [j \in 1 .. Len(Progs[p].globals) |-> [site |-> 0, v |-> Nil]]   \* re-initialised by InitGlobals
    /\ gs = <<[st |-> "init", entry |-> "main", site |-> 0, fr |-> <<>>]>>

\* first step: allocate globals with their zero values and start main (needs Prog, hence not in Init)
Start ==
    /\ gs[1].st = "init"
    /\ heap' = [j \in 1 .. Len(Prog.globals) |-> [site |-> 0, v |-> Zero(Prog.globals[j].z)]]
    /\ gs' = <<[st |-> "run", entry |-> "main", site |-> 0,
                fr |-> <<NewFrame("main", <<>>, <<>>, <<>>, 0, FALSE)>>]>>
    /\ ev' = {Event("call", 0, 0, 0, "main", FALSE)}
    /\ UNCHANGED <<p, cur, dec, sched, valid, crashed, hist, sh>>

\* main returning ends the program (other goroutines are abandoned, as in Go); a crash ends it too
Live == ~crashed /\ gs[1].st \in {"run"}

Next ==
    \/ Start
    \/ /\ Live
       /\ \E g \in 1 .. Len(gs) :
            /\ Runnable(g)
            /\ g = cur \/ ~Runnable(cur) \/ Visible(cur)
            /\ Exec(g)
            /\ hist' = HistAfter(g)
            /\ sh' = SharedAfter(g)
            /\ cur' = g
            /\ sched' = IF g = cur THEN sched ELSE Append(sched, g)

Spec == Init /\ [][Next]_vars

\* decision history and schedule history are not part of the identity of a state
View == <<p, gs, cur, heap, valid, ev, crashed, Len(dec), hist, sh>>

=============================================================================
