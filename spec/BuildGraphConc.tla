--------------------------- MODULE BuildGraphConc ---------------------------
(***************************************************************************)
(* C20 -- the summaries report writer of                                   *)
(* analysis/dataflow/inter_procedural.go:122-221 (BuildGraph) and what     *)
(* follows it in BuildAndRunVisitor / taint.Analyze.                       *)
(*                                                                         *)
(*   summariesFile := openSummaries(c)            -- b0  (report-summaries)*)
(*   if summariesFile != nil { defer summariesFile.Close() }               *)
(*   STEP 1: for summarized := range g.Summaries   -- b1  reads the map    *)
(*   STEP 2: external contracts, may insert        -- b2  reads/writes map *)
(*   if summariesFile != nil {                                             *)
(*     go func() {                                 -- b3  spawn            *)
(*       verifGate("summaries-writer-start")       -- w0                   *)
(*       for _, summary := range g.Summaries {     -- w1  reads the map    *)
(*         summariesFile.WriteString(...); summary.Print(...) -- w2        *)
(*       }                                            reads the summary's  *)
(*       verifGate("summaries-writer-end")            edges, writes file   *)
(*     }()                                                                 *)
(*   }                                                                     *)
(*   STEP 3: for _, summary := range g.Summaries { -- b4  reads the map,   *)
(*       link callees/closures/bound labels           writes summary links;*)
(*       resolveCalleeSummary may insert a            may write the map    *)
(*       predefined summary and populate it }         and p's edges        *)
(*   g.built = true; deferred Close                -- b5                   *)
(*   visitor phase: with summarize-on-demand the   -- b6  writes the edges *)
(*       analysis goroutine builds summaries          of summaries         *)
(*   taint.Analyze returns                         -- b7                   *)
(*                                                                         *)
(* Detached = TRUE is the code as pinned (the writer is a goroutine nobody *)
(* waits for); Detached = FALSE is the same loop executed by BuildGraph    *)
(* itself before STEP 3 (the repair proposed in design.d/C20.md).          *)
(*                                                                         *)
(* Shared objects: "map" (g.Summaries), <<s, "edges">> (what Print reads,  *)
(* what RunIntraProcedural / PopulateGraphFromSummary write), <<s,         *)
(* "links">> (CalleeSummary, Callsites, ... written by STEP 3).  The file  *)
(* is an os.File: Write and Close are internally synchronised, a Write     *)
(* after Close fails and the code ignores the error.                       *)
(*                                                                         *)
(* Every access is recorded in the history variable acc.  The only         *)
(* synchronisation is the `go` statement: what main did before b3          *)
(* happens-before everything the writer does.  Invariants:                 *)
(*   NoRace          no two accesses to the same object by different       *)
(*                   goroutines, one of them a write, unordered by         *)
(*                   happens-before                                        *)
(*   ReportComplete  when the analysis returns (weakest reading; also      *)
(*                   ReportCompleteAtClose) every summary that existed     *)
(*                   before BuildGraph is in the report file               *)
(* Expected on the pinned design (Detached, ReportSummaries): both are     *)
(* violated; TLC's counterexamples are the schedules `hold` and `meet`     *)
(* that harness/cmd/taintrace forces on the real goroutines.               *)
(***************************************************************************)
EXTENDS Integers, Sequences, FiniteSets, TLC

CONSTANTS Sums,             \* summaries in g.Summaries when BuildGraph is entered
          Extra,            \* predefined summaries STEP 3 may insert (callees without a summary)
          Detached,         \* the writer is a goroutine of its own
          ReportSummaries,  \* option report-summaries
          OnDemand          \* option summarize-on-demand

ASSUME Detached \in BOOLEAN /\ ReportSummaries \in BOOLEAN /\ OnDemand \in BOOLEAN /\ Sums \cap Extra = {}

Acc(g, o, w, era) == [g |-> g, o |-> o, w |-> w, era |-> era]
MapObj   == <<"g", "map">>                 \* all objects are pairs (TLC must be able to compare them)
Edges(s) == <<s, "edges">>
Links(s) == <<s, "links">>

(* --algorithm BuildGraphConc {
variables
  keys = Sums,            \* domain of g.Summaries
  fileOpen = FALSE,
  file = {},              \* summaries whose section reached the file
  lost = {},              \* sections written to a closed file (error ignored)
  spawned = FALSE, noWriter = FALSE,
  era = "pre",            \* main: before / after the go statement
  closed = FALSE,         \* BuildGraph has run its deferred Close (or had no file)
  returned = FALSE,       \* taint.Analyze has returned
  acc = {};               \* history of shared accesses

macro access(g, o, w) { acc := acc \cup {Acc(g, o, w, IF g = "main" THEN era ELSE "w")}; }

fair process (main = "main")
variables todo = {}, ivis = {}, od = {};
{
b0: if (ReportSummaries) { fileOpen := TRUE; };
b1: access("main", MapObj, FALSE);                                \* STEP 1
b2: acc := acc \cup {Acc("main", MapObj, FALSE, era), Acc("main", MapObj, TRUE, era)};   \* STEP 2
b3: if (ReportSummaries /\ Detached) { spawned := TRUE; era := "post"; }
    else { noWriter := TRUE; };
    if (ReportSummaries /\ ~Detached) {
       \* the repaired design: the same loop, on this goroutine, before STEP 3
i1:    while (keys \ ivis # {}) {
         with (s \in keys \ ivis) {
           acc := acc \cup {Acc("main", MapObj, FALSE, era), Acc("main", Edges(s), FALSE, era)};
           if (fileOpen) { file := file \cup {s}; } else { lost := lost \cup {s}; };
           ivis := ivis \cup {s};
         };
       };
    };
b4: todo := keys;                                                \* STEP 3 (range over the map)
b4a: while (todo # {}) {
      with (s \in todo) {
        todo := todo \ {s};
        either { acc := acc \cup {Acc("main", MapObj, FALSE, era), Acc("main", Links(s), TRUE, era)}; }
        or     { with (p \in Extra \ keys) {                     \* resolveCalleeSummary: predefined summary
                   keys := keys \cup {p};
                   acc := acc \cup {Acc("main", MapObj, FALSE, era), Acc("main", Links(s), TRUE, era),
                                    Acc("main", MapObj, TRUE, era), Acc("main", Edges(p), TRUE, era)}; }; };
      };
    };
b5: fileOpen := FALSE; closed := TRUE;                           \* g.built = true; deferred summariesFile.Close()
b6: if (OnDemand) {                                              \* visitor phase: on-demand summary construction
      with (S \in SUBSET keys) { od := S; };
b6a:  while (od # {}) {
        with (s \in od) { od := od \ {s}; access("main", Edges(s), TRUE); };
      };
    };
b7: returned := TRUE;                                            \* taint.Analyze returns
}

fair process (writer = "writer")
variables vis = {};
{
w0: await spawned \/ noWriter;                                   \* verifGate("summaries-writer-start")
    if (noWriter) { goto Done; };
w1: while (keys \ vis # {}) {                                    \* for _, summary := range g.Summaries
      with (s \in keys \ vis) {
        acc := acc \cup {Acc("writer", MapObj, FALSE, "w"), Acc("writer", Edges(s), FALSE, "w")};
        if (fileOpen) { file := file \cup {s}; } else { lost := lost \cup {s}; };
        vis := vis \cup {s};
      };
    };
w2: skip;                                                        \* verifGate("summaries-writer-end")
}
} *)
\* BEGIN TRANSLATION
VARIABLES pc, keys, fileOpen, file, lost, spawned, noWriter, era, closed, 
          returned, acc, todo, ivis, od, vis

vars == << pc, keys, fileOpen, file, lost, spawned, noWriter, era, closed, 
           returned, acc, todo, ivis, od, vis >>

ProcSet == {"main"} \cup {"writer"}

Init == (* Global variables *)
        /\ keys = Sums
        /\ fileOpen = FALSE
        /\ file = {}
        /\ lost = {}
        /\ spawned = FALSE
        /\ noWriter = FALSE
        /\ era = "pre"
        /\ closed = FALSE
        /\ returned = FALSE
        /\ acc = {}
        (* Process main *)
        /\ todo = {}
        /\ ivis = {}
        /\ od = {}
        (* Process writer *)
        /\ vis = {}
        /\ pc = [self \in ProcSet |-> CASE self = "main" -> "b0"
                                        [] self = "writer" -> "w0"]

b0 == /\ pc["main"] = "b0"
      /\ IF ReportSummaries
            THEN /\ fileOpen' = TRUE
            ELSE /\ TRUE
                 /\ UNCHANGED fileOpen
      /\ pc' = [pc EXCEPT !["main"] = "b1"]
      /\ UNCHANGED << keys, file, lost, spawned, noWriter, era, closed, 
                      returned, acc, todo, ivis, od, vis >>

b1 == /\ pc["main"] = "b1"
      /\ acc' = (acc \cup {Acc("main", MapObj, FALSE, IF "main" = "main" THEN era ELSE "w")})
      /\ pc' = [pc EXCEPT !["main"] = "b2"]
      /\ UNCHANGED << keys, fileOpen, file, lost, spawned, noWriter, era, 
                      closed, returned, todo, ivis, od, vis >>

b2 == /\ pc["main"] = "b2"
      /\ acc' = (acc \cup {Acc("main", MapObj, FALSE, era), Acc("main", MapObj, TRUE, era)})
      /\ pc' = [pc EXCEPT !["main"] = "b3"]
      /\ UNCHANGED << keys, fileOpen, file, lost, spawned, noWriter, era, 
                      closed, returned, todo, ivis, od, vis >>

b3 == /\ pc["main"] = "b3"
      /\ IF ReportSummaries /\ Detached
            THEN /\ spawned' = TRUE
                 /\ era' = "post"
                 /\ UNCHANGED noWriter
            ELSE /\ noWriter' = TRUE
                 /\ UNCHANGED << spawned, era >>
      /\ IF ReportSummaries /\ ~Detached
            THEN /\ pc' = [pc EXCEPT !["main"] = "i1"]
            ELSE /\ pc' = [pc EXCEPT !["main"] = "b4"]
      /\ UNCHANGED << keys, fileOpen, file, lost, closed, returned, acc, todo, 
                      ivis, od, vis >>

i1 == /\ pc["main"] = "i1"
      /\ IF keys \ ivis # {}
            THEN /\ \E s \in keys \ ivis:
                      /\ acc' = (acc \cup {Acc("main", MapObj, FALSE, era), Acc("main", Edges(s), FALSE, era)})
                      /\ IF fileOpen
                            THEN /\ file' = (file \cup {s})
                                 /\ lost' = lost
                            ELSE /\ lost' = (lost \cup {s})
                                 /\ file' = file
                      /\ ivis' = (ivis \cup {s})
                 /\ pc' = [pc EXCEPT !["main"] = "i1"]
            ELSE /\ pc' = [pc EXCEPT !["main"] = "b4"]
                 /\ UNCHANGED << file, lost, acc, ivis >>
      /\ UNCHANGED << keys, fileOpen, spawned, noWriter, era, closed, returned, 
                      todo, od, vis >>

b4 == /\ pc["main"] = "b4"
      /\ todo' = keys
      /\ pc' = [pc EXCEPT !["main"] = "b4a"]
      /\ UNCHANGED << keys, fileOpen, file, lost, spawned, noWriter, era, 
                      closed, returned, acc, ivis, od, vis >>

b4a == /\ pc["main"] = "b4a"
       /\ IF todo # {}
             THEN /\ \E s \in todo:
                       /\ todo' = todo \ {s}
                       /\ \/ /\ acc' = (acc \cup {Acc("main", MapObj, FALSE, era), Acc("main", Links(s), TRUE, era)})
                             /\ keys' = keys
                          \/ /\ \E p \in Extra \ keys:
                                  /\ keys' = (keys \cup {p})
                                  /\ acc' = (acc \cup {Acc("main", MapObj, FALSE, era), Acc("main", Links(s), TRUE, era),
                                                       Acc("main", MapObj, TRUE, era), Acc("main", Edges(p), TRUE, era)})
                  /\ pc' = [pc EXCEPT !["main"] = "b4a"]
             ELSE /\ pc' = [pc EXCEPT !["main"] = "b5"]
                  /\ UNCHANGED << keys, acc, todo >>
       /\ UNCHANGED << fileOpen, file, lost, spawned, noWriter, era, closed, 
                       returned, ivis, od, vis >>

b5 == /\ pc["main"] = "b5"
      /\ fileOpen' = FALSE
      /\ closed' = TRUE
      /\ pc' = [pc EXCEPT !["main"] = "b6"]
      /\ UNCHANGED << keys, file, lost, spawned, noWriter, era, returned, acc, 
                      todo, ivis, od, vis >>

b6 == /\ pc["main"] = "b6"
      /\ IF OnDemand
            THEN /\ \E S \in SUBSET keys:
                      od' = S
                 /\ pc' = [pc EXCEPT !["main"] = "b6a"]
            ELSE /\ pc' = [pc EXCEPT !["main"] = "b7"]
                 /\ od' = od
      /\ UNCHANGED << keys, fileOpen, file, lost, spawned, noWriter, era, 
                      closed, returned, acc, todo, ivis, vis >>

b6a == /\ pc["main"] = "b6a"
       /\ IF od # {}
             THEN /\ \E s \in od:
                       /\ od' = od \ {s}
                       /\ acc' = (acc \cup {Acc("main", (Edges(s)), TRUE, IF "main" = "main" THEN era ELSE "w")})
                  /\ pc' = [pc EXCEPT !["main"] = "b6a"]
             ELSE /\ pc' = [pc EXCEPT !["main"] = "b7"]
                  /\ UNCHANGED << acc, od >>
       /\ UNCHANGED << keys, fileOpen, file, lost, spawned, noWriter, era, 
                       closed, returned, todo, ivis, vis >>

b7 == /\ pc["main"] = "b7"
      /\ returned' = TRUE
      /\ pc' = [pc EXCEPT !["main"] = "Done"]
      /\ UNCHANGED << keys, fileOpen, file, lost, spawned, noWriter, era, 
                      closed, acc, todo, ivis, od, vis >>

main == b0 \/ b1 \/ b2 \/ b3 \/ i1 \/ b4 \/ b4a \/ b5 \/ b6 \/ b6a \/ b7

w0 == /\ pc["writer"] = "w0"
      /\ spawned \/ noWriter
      /\ IF noWriter
            THEN /\ pc' = [pc EXCEPT !["writer"] = "Done"]
            ELSE /\ pc' = [pc EXCEPT !["writer"] = "w1"]
      /\ UNCHANGED << keys, fileOpen, file, lost, spawned, noWriter, era, 
                      closed, returned, acc, todo, ivis, od, vis >>

w1 == /\ pc["writer"] = "w1"
      /\ IF keys \ vis # {}
            THEN /\ \E s \in keys \ vis:
                      /\ acc' = (acc \cup {Acc("writer", MapObj, FALSE, "w"), Acc("writer", Edges(s), FALSE, "w")})
                      /\ IF fileOpen
                            THEN /\ file' = (file \cup {s})
                                 /\ lost' = lost
                            ELSE /\ lost' = (lost \cup {s})
                                 /\ file' = file
                      /\ vis' = (vis \cup {s})
                 /\ pc' = [pc EXCEPT !["writer"] = "w1"]
            ELSE /\ pc' = [pc EXCEPT !["writer"] = "w2"]
                 /\ UNCHANGED << file, lost, acc, vis >>
      /\ UNCHANGED << keys, fileOpen, spawned, noWriter, era, closed, returned, 
                      todo, ivis, od >>

w2 == /\ pc["writer"] = "w2"
      /\ TRUE
      /\ pc' = [pc EXCEPT !["writer"] = "Done"]
      /\ UNCHANGED << keys, fileOpen, file, lost, spawned, noWriter, era, 
                      closed, returned, acc, todo, ivis, od, vis >>

writer == w0 \/ w1 \/ w2

(* Allow infinite stuttering to prevent deadlock on termination. *)
Terminating == /\ \A self \in ProcSet: pc[self] = "Done"
               /\ UNCHANGED vars

Next == main \/ writer
           \/ Terminating

Spec == /\ Init /\ [][Next]_vars
        /\ WF_vars(main)
        /\ WF_vars(writer)

Termination == <>(\A self \in ProcSet: pc[self] = "Done")

\* END TRANSLATION

-----------------------------------------------------------------------------
HB(a, b) == a.g = "main" /\ a.era = "pre" /\ b.g = "writer"      \* the go statement
Conflict(a, b) == a.g # b.g /\ a.o = b.o /\ (a.w \/ b.w) /\ ~HB(a, b) /\ ~HB(b, a)
Races == {<<a, b>> \in acc \X acc : Conflict(a, b) /\ a.g = "main"}

NoRace == Races = {}
ReportComplete        == (returned /\ ReportSummaries) => Sums \subseteq file
ReportCompleteAtClose == (closed /\ ReportSummaries) => Sums \subseteq file
NothingLost           == lost = {}
AllDone  == \A p \in ProcSet : pc[p] = "Done"
Finishes == <>AllDone                                            \* no deadlock, no goroutine left behind (model)

=============================================================================
