---------------------------- MODULE EscapeLattice ----------------------------
(***************************************************************************)
(* C15 -- "Escape graphs form a join-semilattice and transfer functions    *)
(* are monotone".  Core definitions (no variables): the abstract escape    *)
(* graph and the operators of analysis/escape/graph.go.                    *)
(*                                                                         *)
(* A graph is a record                                                     *)
(*     dom : set of nodes that have a status entry (EscapeGraph.status)    *)
(*     s   : [dom -> 0..2]          0 Local, 1 Escaped, 2 Leaked           *)
(*     e   : set of <<src, dst, f>>, f \in {1, 2, 4}                       *)
(*           1 internal, 2 external, 4 subnode (EscapeGraph.edges, one     *)
(*           triple per flag bit)                                          *)
(* Rationales are not part of the lattice (Matches/LessEqual ignore them). *)
(* I : node -> 0..2 is the intrinsic status (Node.IntrinsicEscape: Param,  *)
(* Load -> Escaped; Global, Unknown -> Leaked; everything else Local).     *)
(*                                                                         *)
(* Role D (declarative): Leq, Closed, Close, MergeD (= least upper bound   *)
(* on well-formed graphs).  Role A (transcriptions of the algorithms):     *)
(* EdgeClosure (computeEdgeClosure), AddNode, AddEdge, MergeNodeStatus,    *)
(* MergeAlgo (Merge with one particular iteration order; all orders are    *)
(* explored by EscapeLatticeLaws!SpecOrder).                               *)
(***************************************************************************)
EXTENDS Naturals, FiniteSets, Sequences

Max2(a, b) == IF a >= b THEN a ELSE b
MaxOf(S)   == CHOOSE x \in S : \A y \in S : y <= x

EmptyGraph == [dom |-> {}, s |-> <<>>, e |-> {}]

Succs(g, n) == {t[2] : t \in {u \in g.e : u[1] = n}}
Preds(g, n) == {t[1] : t \in {u \in g.e : u[2] = n}}

IsGraph(g) == /\ \A t \in g.e : t[1] \in g.dom /\ t[2] \in g.dom /\ t[3] \in {1, 2, 4}
              /\ DOMAIN g.s = g.dom
              /\ \A n \in g.dom : g.s[n] \in 0 .. 2

\* status is propagated along every edge (the invariant computeEdgeClosure maintains)
Closed(g) == \A t \in g.e : g.s[t[1]] <= g.s[t[2]]

\* every node is at least as escaped as its kind says (AddNode starts there, nothing lowers a status)
AboveIntrinsic(I, g) == \A n \in g.dom : g.s[n] >= I[n]

WellFormed(I, g) == IsGraph(g) /\ Closed(g) /\ AboveIntrinsic(I, g)

\* the ordering of the monotone framework (EscapeGraph.LessEqual: node presence, edge flags, status)
Leq(g, h) == /\ g.dom \subseteq h.dom
             /\ g.e \subseteq h.e
             /\ \A n \in g.dom : g.s[n] <= h.s[n]

\* least status assignment >= s that is propagated along all edges
RECURSIVE CloseS(_, _)
CloseS(e, s) ==
    LET s2 == [n \in DOMAIN s |-> MaxOf({s[n]} \cup {s[t[1]] : t \in {u \in e : u[2] = n}})]
    IN IF s2 = s THEN s ELSE CloseS(e, s2)

Close(g) == [g EXCEPT !.s = CloseS(g.e, g.s)]

\* declarative join: union of nodes and edges, pointwise maximum of the status (a node the receiver does not
\* have yet starts from its intrinsic status), closed.  On well-formed graphs this is the least upper bound.
MergeD(I, g, h) ==
    LET dom == g.dom \cup h.dom
        s0  == [n \in dom |-> IF n \in g.dom
                              THEN (IF n \in h.dom THEN Max2(g.s[n], h.s[n]) ELSE g.s[n])
                              ELSE Max2(I[n], h.s[n])]
    IN Close([dom |-> dom, s |-> s0, e |-> g.e \cup h.e])

-----------------------------------------------------------------------------
(* Transcriptions (graph.go) *)

\* graph.go:594 computeEdgeClosure(a, b): only if status[a] > status[b]; then a worklist from b
RECURSIVE Propagate(_, _, _)
Propagate(e, s, W) ==
    IF W = {} THEN s
    ELSE LET n      == CHOOSE x \in W : TRUE
             raised == {m \in {t[2] : t \in {u \in e : u[1] = n}} : s[n] > s[m]}
             s2     == [m \in DOMAIN s |-> IF m \in raised THEN s[n] ELSE s[m]]
         IN Propagate(e, s2, (W \ {n}) \cup raised)

EdgeClosure(g, a, b) ==
    IF g.s[a] > g.s[b]
    THEN [g EXCEPT !.s = Propagate(g.e, [g.s EXCEPT ![b] = g.s[a]], {b})]
    ELSE g

\* graph.go:461 AddNode
AddNode(I, g, n) ==
    IF n \in g.dom THEN g
    ELSE [dom |-> g.dom \cup {n}, s |-> [m \in g.dom \cup {n} |-> IF m = n THEN I[n] ELSE g.s[m]], e |-> g.e]

\* graph.go:447 AddEdge(src, dest, flags): F is the set of flag bits
AddEdge(I, g, a, b, F) ==
    LET g1 == AddNode(I, AddNode(I, g, a), b)
        g2 == [g1 EXCEPT !.e = @ \cup {<<a, b, f>> : f \in F}]
    IN EdgeClosure(g2, a, b)

RECURSIVE FoldClosure(_, _, _)
FoldClosure(g, n, P) ==
    IF P = {} THEN g
    ELSE LET p == CHOOSE x \in P : TRUE IN FoldClosure(EdgeClosure(g, n, p), n, P \ {p})

\* graph.go:626 MergeNodeStatus(n, st): raise (or create without intrinsic status), then close every out-edge
MergeNodeStatus(g, n, st) ==
    IF n \notin g.dom \/ st > g.s[n]
    THEN LET dom == g.dom \cup {n}
             g1  == [dom |-> dom, s |-> [m \in dom |-> IF m = n THEN st ELSE g.s[m]], e |-> g.e]
         IN FoldClosure(g1, n, Succs(g1, n))
    ELSE g

\* graph.go:765 Merge, one iteration order
RECURSIVE FoldEdges(_, _, _)
FoldEdges(I, g, E) ==
    IF E = {} THEN g
    ELSE LET t == CHOOSE x \in E : TRUE IN FoldEdges(I, AddEdge(I, g, t[1], t[2], {t[3]}), E \ {t})

RECURSIVE FoldNodes(_, _, _, _)
FoldNodes(I, g, h, D) ==
    IF D = {} THEN g
    ELSE LET n == CHOOSE x \in D : TRUE
         IN FoldNodes(I, MergeNodeStatus(AddNode(I, g, n), n, h.s[n]), h, D \ {n})

MergeAlgo(I, g, h) == FoldNodes(I, FoldEdges(I, g, h.e), h, h.dom)

=============================================================================
