SPECIFICATION SpecLaws
CONSTANTS
  N = 2
  Flags = {1, 2, 4}
  SelfLoops = FALSE
  Triples = FALSE
  IMode = "mixed"
INVARIANTS
  Idempotent
  Commutative
  UpperBound
  ResultWF
  OrderIsJoin
  AlgoIsDecl
  UnitLaw
  Associative
  LeastUpper
  LeqPartial
  AddEdgeLaws
  RaiseLaws
POSTCONDITION PostCount
CHECK_DEADLOCK FALSE
