SPECIFICATION Spec
CONSTANT Lifo = TRUE
INVARIANT QueueSeen
INVARIANT VisitBound
INVARIANT NoDupQueue
POSTCONDITION TraceAccepted
CHECK_DEADLOCK FALSE
