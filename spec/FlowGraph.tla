------------------------------ MODULE FlowGraph ------------------------------
(***************************************************************************)
(* C17 -- "Dataflow graphs are structurally consistent in both directions" *)
(*                                                                         *)
(* Role D (declarative definition), evaluated on snapshots of the REAL     *)
(* linked inter-procedural dataflow graph of /repo (harness/cmd/fgdump:    *)
(* after eager construction + BuildGraph, after the visitor has run, after *)
(* every on-demand construction step).  One TLC state per snapshot.        *)
(*                                                                         *)
(* A snapshot S has                                                        *)
(*   S.nodes[n]   k kind, g summary, s site/instruction, p position,       *)
(*                l linked summary (CalleeSummary / ClosureSummary /       *)
(*                DestClosure; 0 = nil), m target make-closure (bound      *)
(*                labels), gl global, w IsWrite, par parent node,          *)
(*                sub arguments / bound variables,                         *)
(*                o  = Out(): <<dst, index>> per EdgeInfo,                 *)
(*                i  = In():  <<src, index>>,                              *)
(*                ro, ri = the same two relations re-indexed by the other  *)
(*                end point (only used for graph search; checked below to  *)
(*                be a faithful re-indexing)                               *)
(*   S.graphs[g]  fn, c Constructed, full (dumped completely), cs          *)
(*                Callsites <<site, call node>>, ref ReferringMakeClosures *)
(*                <<make-closure, closure node>>, rets, params, fvs        *)
(*   S.globals[x] name, w WriteLocations, r ReadLocations                  *)
(*                                                                         *)
(* Consistent(S) is the conjunction of the clauses of the property         *)
(* statement; instead of a boolean, every clause yields the set of its     *)
(* counterexamples, which are accumulated in a TLC register and written by *)
(* the POSTCONDITION (one run reports everything).                         *)
(***************************************************************************)
EXTENDS Integers, Sequences, FiniteSets, TLC, Json, SequencesExt

Snaps == ndJsonDeserialize("snaps.ndjson")
NS    == Len(Snaps)

VARIABLE p
vars == <<p>>

Rng(s) == {s[k] : k \in 1 .. Len(s)}

-----------------------------------------------------------------------------
(* the recorded graph *)
NodeIds(S)  == 1 .. Len(S.nodes)
GraphIds(S) == 1 .. Len(S.graphs)
Nd(S, n)    == S.nodes[n]
Gr(S, g)    == S.graphs[g]
IsFull(S, n) == Nd(S, n).g # 0 /\ Gr(S, Nd(S, n).g).full
FullNodes(S) == {n \in NodeIds(S) : IsFull(S, n)}
Built(S, n)  == Nd(S, n).g # 0 /\ Gr(S, Nd(S, n).g).c          \* node of a constructed summary

\* edges <<src, dst, index>> as recorded on the source side (out) and on the destination side (in)
OutE(S) == UNION {{<<n, e[1], e[2]>> : e \in Rng(Nd(S, n).o)} : n \in NodeIds(S)}
InE(S)  == UNION {{<<e[1], n, e[2]>> : e \in Rng(Nd(S, n).i)} : n \in NodeIds(S)}

OutIdx(S, a, b) == {e[2] : e \in {x \in Rng(Nd(S, a).o) : x[1] = b}}    \* indices out[a] has for b
InIdx(S, a, b)  == {e[2] : e \in {x \in Rng(Nd(S, b).i) : x[1] = a}}    \* indices in[b] has for a

(***************************************************************************)
(* The construct of the known finding C17/tuple-index-in-edge: the source  *)
(* has edges with >= 2 different tuple indices to the same target and the  *)
(* target's `in` map (one EdgeInfo per source) records a non-empty proper  *)
(* subset of them.  Anything else is not covered by the finding.           *)
(***************************************************************************)
TupleConstruct(S, a, b) ==
    /\ Cardinality(OutIdx(S, a, b)) >= 2
    /\ InIdx(S, a, b) # {}
    /\ InIdx(S, a, b) \subseteq OutIdx(S, a, b)

\* `known` = construct of a known finding the counterexample falls under ("" = none):
\*   "tuple-index"    TupleConstruct above
\*   "orphan-callee"  the call node is linked to a summary that is not in the flow graph's summary table
\*                    (backtrace creates such a summary on the fly for an unreachable callee, see OrphanCallee)
F(S, kind, a, b, i, known) ==
    [prog |-> S.prog, seq |-> S.seq, stage |-> S.stage, kind |-> kind, a |-> a, b |-> b, i |-> i, known |-> known]

Tup(b) == IF b THEN "tuple-index" ELSE ""
OrphanCallee(S, c) == ~Gr(S, Nd(S, c).l).reg

-----------------------------------------------------------------------------
(* (a)  <<b,i>> \in out[a]  <=>  <<a,i>> \in in[b]                          *)
EdgeFails(S) ==
    LET O == OutE(S)
        I == InE(S)
    IN {F(S, "out-edge-not-in-in", e[1], e[2], e[3], Tup(TupleConstruct(S, e[1], e[2]))) : e \in O \ I}
       \cup {F(S, "in-edge-not-in-out", e[1], e[2], e[3], "") : e \in I \ O}

(* (b)  call node linked to a callee summary <=> registered among that summary's call sites *)
Registered(S, c) ==      \* some call node of c's site, linked to the same summary, is in the summary's table
    LET nd == Nd(S, c) IN
    \E e \in Rng(Gr(S, nd.l).cs) :
        /\ e[1] = nd.s /\ e[2] # 0
        /\ Nd(S, e[2]).k = "call" /\ Nd(S, e[2]).s = nd.s /\ Nd(S, e[2]).l = nd.l

CallFails(S) ==
    {F(S, "linked-call-not-among-callsites", c, 0, Nd(S, c).l, IF OrphanCallee(S, c) THEN "orphan-callee" ELSE "") :
        c \in {n \in FullNodes(S) : Nd(S, n).k = "call" /\ Nd(S, n).l # 0 /\ ~Registered(S, n)}}
    \cup UNION {{F(S, "callsite-entry-not-linked-call", e[2], e[1], g, "") :
                    e \in {x \in Rng(Gr(S, g).cs) :
                              \/ x[2] = 0
                              \/ Nd(S, x[2]).k # "call" \/ Nd(S, x[2]).s # x[1] \/ Nd(S, x[2]).l # g}}
                : g \in GraphIds(S)}

(* (c)  closure-creation node registered with the closure's summary (and conversely); a bound label whose
        target closure summary is set finds its make-closure in that summary's table *)
ClosureFails(S) ==
    {F(S, "closure-not-registered", m, 0, Nd(S, m).l, "") :
        m \in {n \in FullNodes(S) : /\ Nd(S, n).k = "closure" /\ Nd(S, n).l # 0
                                    /\ <<Nd(S, n).s, n>> \notin Rng(Gr(S, Nd(S, n).l).ref)}}
    \cup UNION {{F(S, "referring-entry-not-linked-closure", e[2], e[1], g, "") :
                    e \in {x \in Rng(Gr(S, g).ref) :
                              \/ x[2] = 0
                              \/ Nd(S, x[2]).k # "closure" \/ Nd(S, x[2]).s # x[1] \/ Nd(S, x[2]).l # g}}
                : g \in GraphIds(S)}
    \cup {F(S, "boundlabel-target-not-registered", n, 0, Nd(S, n).l, "") :
            n \in {x \in FullNodes(S) : /\ Nd(S, x).k = "boundlabel" /\ Nd(S, x).l # 0 /\ Nd(S, x).m # 0
                                        /\ ~\E e \in Rng(Gr(S, Nd(S, x).l).ref) : e[1] = Nd(S, x).m}}

(* (d)  write set = write access nodes of constructed summaries; read set: every read node of a constructed
        summary that has outgoing edges is registered, nothing but read nodes of constructed summaries is *)
GlobalFails(S) ==
    LET W(x) == Rng(S.globals[x].w)
        R(x) == Rng(S.globals[x].r)
        Acc  == {n \in FullNodes(S) : Nd(S, n).k = "global" /\ Nd(S, n).gl # 0}
        IsAcc(n, x, wr) == /\ n # 0 /\ Nd(S, n).k = "global" /\ Nd(S, n).gl = x /\ Nd(S, n).w = wr /\ Built(S, n)
    IN {F(S, "write-node-not-in-write-set", n, 0, Nd(S, n).gl, "") :
            n \in {x \in Acc : Nd(S, x).w /\ Built(S, x) /\ x \notin W(Nd(S, x).gl)}}
       \cup {F(S, "read-node-with-out-edges-not-in-read-set", n, 0, Nd(S, n).gl, "") :
            n \in {x \in Acc : ~Nd(S, x).w /\ Built(S, x) /\ Len(Nd(S, x).o) > 0 /\ x \notin R(Nd(S, x).gl)}}
       \cup UNION {{F(S, "write-set-has-other-than-built-write-node", n, 0, x, "") :
                        n \in {y \in W(x) : ~IsAcc(y, x, TRUE)}} : x \in 1 .. Len(S.globals)}
       \cup UNION {{F(S, "read-set-has-other-than-built-read-node", n, 0, x, "") :
                        n \in {y \in R(x) : ~IsAcc(y, x, FALSE)}} : x \in 1 .. Len(S.globals)}

-----------------------------------------------------------------------------
(***************************************************************************)
(* "Forward and backward traversals see the same graph."                   *)
(* Fwd = what a forward traversal follows: Out() edges plus the link hops  *)
(* of the visitors (argument -> parameter of the linked callee, return     *)
(* value -> the registered call sites and, filtered by tuple index, their  *)
(* targets, parameter -> argument at the registered call sites, bound      *)
(* variable <-> free variable, global write -> registered reads).  As in   *)
(* the visitors, a returned value continues at the call site only along    *)
(* the edges of its own tuple index.                                       *)
(* Bwd = the same, with the edges and their tuple indices taken from the   *)
(* In() side.  For a sample of nodes the forward closures (and the         *)
(* backward closures) of the two graphs must coincide.                     *)
(***************************************************************************)
\* `Lost`: what the In() side would additionally hold if it kept one EdgeInfo per index (the benign twin of the
\* known construct); side "R" = In() side repaired with it
Lost(S, n) == {e \in Rng(Nd(S, n).o) : TupleConstruct(S, n, e[1]) /\ e[2] \notin InIdx(S, n, e[1])}

\* <<dst, index>> pairs leaving n as recorded on side "F" (Out), "B" (In, re-indexed by source), "R" (repaired In)
EdgesOf(S, n, side) ==
    CASE side = "F" -> Rng(Nd(S, n).o)
      [] side = "B" -> Rng(Nd(S, n).ri)
      [] OTHER      -> Rng(Nd(S, n).ri) \cup Lost(S, n)

Hops(S, n, side) ==
    LET nd == Nd(S, n)
        \* targets of call node c for a value returned at tuple index j, as recorded on the chosen side
        Targets(c, j) == {e[1] : e \in {x \in EdgesOf(S, c, side) : x[2] < 0 \/ j < 0 \/ x[2] = j}}
    IN  CASE nd.k = "arg" /\ nd.par # 0 /\ Nd(S, nd.par).l # 0 ->
                {e[2] : e \in {x \in Rng(Gr(S, Nd(S, nd.par).l).params) : x[1] = nd.p}}
          [] nd.k = "ret" ->
                UNION {Targets(e[2], nd.p) : e \in {x \in Rng(Gr(S, nd.g).cs) : x[2] # 0}}
          [] nd.k = "param" ->
                {Nd(S, e[2]).sub[nd.p + 1] :
                    e \in {x \in Rng(Gr(S, nd.g).cs) : x[2] # 0 /\ nd.p >= 0 /\ nd.p < Len(Nd(S, x[2]).sub)}}
          [] nd.k = "boundvar" /\ nd.par # 0 /\ Nd(S, nd.par).l # 0 ->
                {e[2] : e \in {x \in Rng(Gr(S, Nd(S, nd.par).l).fvs) : x[1] = nd.p}}
          [] nd.k = "freevar" ->
                {Nd(S, e[2]).sub[nd.p + 1] :
                    e \in {x \in Rng(Gr(S, nd.g).ref) : x[2] # 0 /\ nd.p >= 0 /\ nd.p < Len(Nd(S, x[2]).sub)}}
          [] nd.k = "global" /\ nd.w /\ nd.gl # 0 -> Rng(S.globals[nd.gl].r)
          [] OTHER -> {}

\* successor step of the forward closure on side F / B / R; predecessor step (intra-procedural) PF / PB
Step(S, side, n) ==
    CASE side = "PF" -> {e[1] : e \in Rng(Nd(S, n).ro)} \ {0}       \* who records n as an Out() target
      [] side = "PB" -> {e[1] : e \in Rng(Nd(S, n).i)} \ {0}        \* n's In() sources
      [] OTHER       -> ({e[1] : e \in EdgesOf(S, n, side)} \cup Hops(S, n, side)) \ {0}

RECURSIVE Closure(_, _, _, _)
Closure(S, side, frontier, seen) ==
    IF frontier = {} THEN seen
    ELSE LET nxt == UNION {Step(S, side, n) : n \in frontier} \ seen
         IN Closure(S, side, nxt, seen \cup nxt)

Reach(S, side, s) == Closure(S, side, {s}, {s})

Witness(A, B) == CHOOSE x \in (A \ B) \cup (B \ A) : TRUE

ReachFails(S) ==
    UNION {LET rf == Reach(S, "F", s)
               rb == Reach(S, "B", s)
               pf == Reach(S, "PF", s)
               pb == Reach(S, "PB", s)
           IN (IF rf # rb
               THEN {F(S, "forward-closure-differs", s, Witness(rf, rb), Cardinality(rf) - Cardinality(rb),
                       Tup(Reach(S, "R", s) = rf))}
               ELSE {})
              \cup
              (IF pf # pb
               THEN {F(S, "backward-closure-differs", s, Witness(pf, pb), Cardinality(pf) - Cardinality(pb), "")}
               ELSE {})
           : s \in Rng(S.starts)}

\* the re-indexed adjacency lists are the recorded relations (otherwise the harness is broken: inconclusive)
ReindexFails(S) ==
    LET RO == UNION {{<<e[1], n, e[2]>> : e \in Rng(Nd(S, n).ro)} : n \in NodeIds(S)}
        RI == UNION {{<<n, e[1], e[2]>> : e \in Rng(Nd(S, n).ri)} : n \in NodeIds(S)}
    IN (IF RO # OutE(S) THEN {F(S, "harness-reindex-out", 0, 0, 0, "")} ELSE {})
       \cup (IF RI # InE(S) THEN {F(S, "harness-reindex-in", 0, 0, 0, "")} ELSE {})

Fails(S) == EdgeFails(S) \cup CallFails(S) \cup ClosureFails(S) \cup GlobalFails(S) \cup ReachFails(S)
            \cup ReindexFails(S)

Consistent(S) == Fails(S) = {}

\* what was actually compared (vacuity evidence)
Stats(S) ==
    [prog |-> S.prog, seq |-> S.seq, stage |-> S.stage,
     nodes |-> Len(S.nodes), fullgraphs |-> Cardinality({g \in GraphIds(S) : Gr(S, g).full}),
     built |-> Cardinality({g \in GraphIds(S) : Gr(S, g).c}),
     edges |-> Cardinality(OutE(S)),
     multi |-> Cardinality({e \in OutE(S) : Cardinality(OutIdx(S, e[1], e[2])) >= 2}),
     calls |-> Cardinality({n \in FullNodes(S) : Nd(S, n).k = "call" /\ Nd(S, n).l # 0}),
     callsites |-> Cardinality(UNION {{<<g, e>> : e \in Rng(Gr(S, g).cs)} : g \in GraphIds(S)}),
     closures |-> Cardinality({n \in FullNodes(S) : Nd(S, n).k = "closure" /\ Nd(S, n).l # 0}),
     boundlabels |-> Cardinality({n \in FullNodes(S) : Nd(S, n).k = "boundlabel" /\ Nd(S, n).l # 0}),
     gwrites |-> Cardinality({n \in FullNodes(S) : Nd(S, n).k = "global" /\ Nd(S, n).w /\ Built(S, n)}),
     greads |-> Cardinality({n \in FullNodes(S) : Nd(S, n).k = "global" /\ ~Nd(S, n).w /\ Built(S, n)
                                                    /\ Len(Nd(S, n).o) > 0}),
     starts |-> Len(S.starts)]

-----------------------------------------------------------------------------
Init == p \in 1 .. NS
Next == FALSE /\ p' = p
Spec == Init /\ [][Next]_vars

ASSUME TLCSet(1, {}) /\ TLCSet(2, {})

Collect ==
    /\ TLCSet(1, TLCGet(1) \cup Fails(Snaps[p]))
    /\ TLCSet(2, TLCGet(2) \cup {Stats(Snaps[p])})

Post ==
    /\ ndJsonSerialize("fg_fail.ndjson", SetToSeq(TLCGet(1)))
    /\ ndJsonSerialize("fg_stats.ndjson", SetToSeq(TLCGet(2)))
    /\ PrintT(<<"FLOWGRAPH_RESULT", NS, Cardinality(TLCGet(2)), Cardinality(TLCGet(1))>>)

=============================================================================
