------------------------- MODULE EscapeLatticeChaotic -------------------------
(***************************************************************************)
(* C15, exhaustive design-level part.  The block-level fixpoint of         *)
(* ProcessBlock / RunForwardIterative (escape.go:1203-1316) over a 3-block *)
(* CFG with a cycle, for every program of monotone transformers drawn from *)
(* TSet and EVERY worklist order (the knob VerifBlockOrder of the binding  *)
(* part): all terminal states of a program carry the same block-end graphs *)
(* (ChaoticFix), block-end graphs only grow, every run terminates.         *)
(***************************************************************************)
EXTENDS EscapeLattice, TLC

CONSTANT N
Nodes == 1 .. N
-----------------------------------------------------------------------------
Blocks == 0 .. 2
Succ == [b \in Blocks |-> CASE b = 0 -> {1, 2} [] b = 1 -> {2} [] b = 2 -> {1}]
Pred == [b \in Blocks |-> {p \in Blocks : b \in Succ[p]}]

IC == [n \in Nodes |-> IF n = N THEN 1 ELSE 0]        \* the last node is param-like (intrinsically escaped)
InitG == AddEdge(IC, EmptyGraph, 1, N, {1})

T(op, a, b, x) == [op |-> op, a |-> a, b |-> b, x |-> x]
TSet == {T("edge", 1, 2, 1), T("edge", 2, 1, 1), T("edge", 2, N, 2), T("raise", 2, 0, 2), T("raise", 1, 0, 1),
         T("copy", 1, 2, 0), T("copy", 2, 1, 0), T("load", 1, 2, 0), T("load", 2, 1, 0), T("nop", 0, 0, 0)}

RECURSIVE AddEdgesFrom(_, _, _)
AddEdgesFrom(x, b, D) ==
    IF D = {} THEN x ELSE LET d == CHOOSE y \in D : TRUE IN AddEdgesFrom(AddEdge(IC, x, b, d, {1}), b, D \ {d})

NonSub(x, n) == {t[2] : t \in {u \in x.e : u[1] = n /\ u[3] # 4}}

\* the shapes of the real transfer functions: unconditional AddEdge (Alloc...), MergeNodeStatus (CallUnknown),
\* WeakAssign (Phi, Convert...), LoadField with the status-dependent EnsureLoadNode (UnOp *)
Apply(t, x) ==
    CASE t.op = "edge"  -> AddEdge(IC, x, t.a, t.b, {t.x})
      [] t.op = "raise" -> MergeNodeStatus(AddNode(IC, x, t.a), t.a, t.x)
      [] t.op = "copy"  -> AddEdgesFrom(AddNode(IC, x, t.b), t.b, IF t.a \in x.dom THEN NonSub(x, t.a) ELSE {})
      [] t.op = "load"  ->
            LET ptees == IF t.a \in x.dom THEN NonSub(x, t.a) ELSE {}
                ext   == {p \in ptees : x.s[p] # 0}                 \* EnsureLoadNode: only for non-local pointees
                x1    == AddNode(IC, x, t.b)
                RECURSIVE Ens(_, _)
                Ens(y, P) == IF P = {} THEN y
                             ELSE LET p == CHOOSE q \in P : TRUE IN Ens(AddEdge(IC, y, p, N, {2}), P \ {p})
                x2    == Ens(x1, ext)
                dbl   == UNION {NonSub(x2, p) : p \in ptees}
            IN AddEdgesFrom(x2, t.b, dbl)
      [] OTHER -> x

VARIABLES prog, blockEnd, done, wl
cvars == <<prog, blockEnd, done, wl>>

InitChaotic == /\ prog \in [Blocks -> TSet]
               /\ blockEnd = [b \in Blocks |-> EmptyGraph] /\ done = {} /\ wl = {0}

RECURSIVE MergeAll(_, _)
MergeAll(x, S) == IF S = {} THEN x ELSE LET y == CHOOSE z \in S : TRUE IN MergeAll(MergeD(IC, x, y), S \ {y})

In(b)  == IF Pred[b] = {} THEN MergeD(IC, EmptyGraph, InitG)
          ELSE MergeAll(EmptyGraph, {blockEnd[p] : p \in Pred[b] \cap done})
Out(b) == Apply(prog[b], In(b))

NextChaotic ==
    \E b \in wl :                                    \* VerifBlockOrder: any entry of the worklist
        /\ prog' = prog
        /\ IF b \in done /\ Out(b) = blockEnd[b]
           THEN /\ wl' = wl \ {b} /\ UNCHANGED <<blockEnd, done>>
           ELSE /\ blockEnd' = [blockEnd EXCEPT ![b] = Out(b)]
                /\ done' = done \cup {b}
                /\ wl' = (wl \ {b}) \cup Succ[b]

SpecChaotic == InitChaotic /\ [][NextChaotic]_cvars

ASSUME TLCSet(1, {})
CollectTerminal == IF wl = {} THEN TLCSet(1, TLCGet(1) \cup {<<prog, blockEnd>>}) ELSE TRUE

Ascending == [][\A b \in done : Leq(blockEnd[b], blockEnd'[b])]_cvars
BlockEndsWF == \A b \in done : WellFormed(IC, blockEnd[b])
\* a terminal state is a fixpoint of every block
TerminalIsFix == wl = {} => \A b \in done : Out(b) = blockEnd[b]

PostChaotic ==
    LET S == TLCGet(1) IN
    /\ PrintT(<<"CHAOTIC_RESULT", Cardinality({r[1] : r \in S}), Cardinality(S)>>)
    /\ Cardinality({r[1] : r \in S}) = Cardinality(S)          \* one fixpoint per program, whatever the order
    /\ Cardinality(S) = Cardinality([Blocks -> TSet])          \* every program terminates on every path explored


FairChaotic == SpecChaotic /\ WF_cvars(NextChaotic)
Termination == <>(wl = {})
=============================================================================
