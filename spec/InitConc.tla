------------------------------ MODULE InitConc ------------------------------
(***************************************************************************)
(* C20 -- the parallel initialisation of the analyzer state,               *)
(* analysis/dataflow/state.go:100-116 (NewInitializedAnalyzerState) and    *)
(* 186-205 (NewAnalyzerState):                                             *)
(*                                                                         *)
(*   wg := &sync.WaitGroup{}                                               *)
(*   for _, step := range steps { wg.Add(1); go func() { defer wg.Done();  *)
(*                                                     step(state) }() }   *)
(*   wg.Wait()                                                             *)
(*   state.CheckError(); state.linkContracts(allContracts)                 *)
(*   state.PopulateBoundingInformation(true)                               *)
(*                                                                         *)
(* with the three steps PopulateImplementations ("impl"),                  *)
(* PopulatePointersVerbose ("ptr") and PopulateGlobalsVerbose ("glob").    *)
(* Role A: the field read/write sets of the steps (state.go:304-379, read  *)
(* off the code) with the locks held; every step performs its accesses in  *)
(* program order, interleaved with the others.  Happens-before: the `go`       *)
(* statements (main before Spawn -> step) and wg.Done/wg.Wait (step ->     *)
(* main after Join).                                                       *)
(*   NoRace   no two accesses to the same field by different goroutines,   *)
(*            one a write, without a common lock, unordered by             *)
(*            happens-before                                               *)
(*   Joins    <>(main has joined and every step has terminated)            *)
(* Binding: every run of harness/cmd/taintrace executes these steps on the *)
(* real code under the race detector (BuildGraphObs!ObsNoRace covers any   *)
(* report, whatever goroutines it involves).                               *)
(***************************************************************************)
EXTENDS Integers, Sequences, FiniteSets, TLC

Steps == {"impl", "ptr", "glob"}

A(f, w, locks) == [f |-> f, w |-> w, locks |-> locks]

\* what each step touches (state.go); Logger and the error map are internally locked
StepAcc ==
  [impl |-> <<A("Logger", TRUE, {"logmu"}), A("Program", FALSE, {}), A("DataFlowContracts", FALSE, {}),
              A("keys", TRUE, {}), A("ImplementationsByType", TRUE, {}), A("errors", TRUE, {"errorMutex"}),
              A("Logger", TRUE, {"logmu"})>>,
   ptr  |-> <<A("Logger", TRUE, {"logmu"}), A("PointerAnalysis", FALSE, {}), A("chaCallgraph", FALSE, {}),
              A("reachableFunctions", TRUE, {}), A("isReachabilityCha", TRUE, {}), A("Config", FALSE, {}),
              A("Program", FALSE, {}), A("errors", TRUE, {"errorMutex"}), A("PointerAnalysis", TRUE, {}),
              A("Logger", TRUE, {"logmu"})>>,
   glob |-> <<A("Logger", TRUE, {"logmu"}), A("Program", FALSE, {}), A("Globals", TRUE, {}),
              A("Logger", TRUE, {"logmu"})>>]

\* main before the go statements (state construction) and after wg.Wait (CheckError, linkContracts, bounding)
PreAcc  == {A("Program", FALSE, {}), A("Config", FALSE, {}), A("DataFlowContracts", TRUE, {}), A("chaCallgraph", TRUE, {}),
            A("Globals", TRUE, {}), A("ImplementationsByType", TRUE, {}), A("keys", TRUE, {}), A("errors", TRUE, {})}
PostAcc == {A("errors", TRUE, {"errorMutex"}), A("DataFlowContracts", TRUE, {}), A("ImplementationsByType", FALSE, {}),
            A("reachableFunctions", FALSE, {}), A("PointerAnalysis", FALSE, {}), A("Globals", FALSE, {}),
            A("BoundingInfo", TRUE, {}), A("Logger", TRUE, {"logmu"})}

VARIABLES mpc,      \* main: "pre" | "spawn" | "wait" | "post" | "done"
          todo,     \* todo[s]: accesses step s has still to perform; todoM: main's
          todoM,
          started,  \* steps whose goroutine exists
          wg,       \* wait-group counter
          hist      \* history of accesses: [g, phase, f, w, locks]

vars == <<mpc, todo, todoM, started, wg, hist>>

Rec(g, phase, a) == [g |-> g, phase |-> phase, f |-> a.f, w |-> a.w, locks |-> a.locks]

Init == /\ mpc = "pre" /\ todo = StepAcc /\ todoM = PreAcc /\ started = {} /\ wg = 0 /\ hist = {}

MainPre  == /\ mpc = "pre"                                             \* sequential: one step
            /\ mpc' = "spawn" /\ todoM' = {} /\ hist' = hist \cup {Rec("main", "pre", a) : a \in todoM}
            /\ UNCHANGED <<todo, started, wg>>
Spawn    == /\ mpc = "spawn"
            /\ IF started = Steps THEN mpc' = "wait" /\ UNCHANGED <<started, wg>>
               ELSE \E s \in Steps \ started : started' = started \cup {s} /\ wg' = wg + 1 /\ mpc' = mpc   \* wg.Add(1); go ...
            /\ UNCHANGED <<todo, todoM, hist>>
StepDo(s) == /\ s \in started /\ todo[s] # <<>>
             /\ todo' = [todo EXCEPT ![s] = Tail(@)]
             /\ hist' = hist \cup {Rec(s, "par", Head(todo[s]))}
             /\ wg' = IF Len(todo[s]) = 1 THEN wg - 1 ELSE wg                                          \* deferred wg.Done()
             /\ UNCHANGED <<mpc, todoM, started>>
Join     == /\ mpc = "wait" /\ wg = 0                                                                   \* wg.Wait()
            /\ mpc' = "post" /\ todoM' = PostAcc
            /\ UNCHANGED <<todo, started, wg, hist>>
MainPost == /\ mpc = "post"                                            \* sequential: one step
            /\ mpc' = "done" /\ todoM' = {} /\ hist' = hist \cup {Rec("main", "post", a) : a \in todoM}
            /\ UNCHANGED <<todo, started, wg>>

Next == MainPre \/ Spawn \/ Join \/ MainPost \/ (\E s \in Steps : StepDo(s))
        \/ (mpc = "done" /\ UNCHANGED vars)
Spec == Init /\ [][Next]_vars /\ WF_vars(MainPre \/ Spawn \/ Join \/ MainPost) /\ \A s \in Steps : WF_vars(StepDo(s))

HB(a, b) == \/ (a.g = "main" /\ a.phase = "pre" /\ b.g # "main")     \* go statement (everything before Spawn)
            \/ (a.g # "main" /\ b.g = "main" /\ b.phase = "post")    \* wg.Done -> wg.Wait
Race(a, b) == /\ a.g # b.g /\ a.f = b.f /\ (a.w \/ b.w)
              /\ a.locks \cap b.locks = {} /\ ~HB(a, b) /\ ~HB(b, a)
NoRace == \A a, b \in hist : ~Race(a, b)
WgNonNegative == wg >= 0
Joins == <>(mpc = "done" /\ \A s \in Steps : todo[s] = <<>>)

=============================================================================
