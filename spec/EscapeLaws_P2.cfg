SPECIFICATION SpecLaws
CONSTANTS
  N = 2
  Flags = {1, 2}
  SelfLoops = TRUE
  Triples = FALSE
  IMode = "sym"
INVARIANTS
  Idempotent
  Commutative
  UpperBound
  ResultWF
  OrderIsJoin
  AlgoIsDecl
  UnitLaw
  Associative
  LeastUpper
  LeqPartial
POSTCONDITION PostCount
CHECK_DEADLOCK FALSE
