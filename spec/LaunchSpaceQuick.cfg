SPECIFICATION Spec
CONSTANTS
  Launches = {"named", "generic", "closureLit", "closureCap", "closureVar", "methodVal", "methodPtr", "methodEmb", "boundMethod", "methodExpr", "fnLocal", "fnGlobal", "fnField", "fnParam", "fnResult", "fnSlice", "ifaceMethod"}
  Recs = {"none", "deferNoRecover", "deferClosure", "deferClosureCap", "deferNamed", "deferMethod", "deferIface", "condDefer", "nestedRecover", "deferIndirect", "deferBuiltin", "deferInCallee", "callerDefer"}
  Sites = {"main", "helper", "closure", "loop", "twice", "ingo"}
  Excls = {"sub", "dir", "dirnested", "neardir", "dirslash", "file", "nearfile", "allow", "nearallow"}
  ExclRecs = {"none", "deferNamed"}
  Core = TRUE
CONSTRAINT Collect
POSTCONDITION Post
CHECK_DEADLOCK FALSE
