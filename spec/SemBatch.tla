------------------------------ MODULE SemBatch ------------------------------
(***************************************************************************)
(* Batch driver for GoSem: explores every execution of every program of    *)
(* the batch and collects the ground-truth observable facts (one record    *)
(* per distinct (program, event), with the decision script and schedule    *)
(* of the first behaviour exhibiting it) in a TLC register; the            *)
(* POSTCONDITION writes them to truth.ndjson.  The Obs_* modules extend    *)
(* this module with the real analyzer's facts and state the properties.    *)
(***************************************************************************)
EXTENDS GoSem

ASSUME TLCSet(1, {})

Collect ==
    \A e \in ev \cup sh :
        IF \E r \in TLCGet(1) : r.p = p /\ r.ev = e THEN TRUE
        ELSE TLCSet(1, TLCGet(1) \cup {[p |-> p, ev |-> e, dec |-> dec, sched |-> sched]})

Truth == TLCGet(1)

WriteTruth == ndJsonSerialize("truth.ndjson", SetToSeq(Truth))

Post == WriteTruth /\ PrintT(<<"SEMBATCH", NP, Cardinality(Truth)>>)
=============================================================================
