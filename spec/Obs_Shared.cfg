SPECIFICATION Spec
CONSTANTS MaxDec = 6
  MaxFrames = 12
  MaxGo = 5
VIEW View
CONSTRAINT Collect
POSTCONDITION PostShared
CHECK_DEADLOCK FALSE
