----------------------------- MODULE ParMapDefs -----------------------------
(***************************************************************************)
(* Definitions shared by ParMap (the PlusCal model of MapParallel) and     *)
(* ParMapObs (the same properties evaluated on runs of the real code).     *)
(***************************************************************************)
EXTENDS Integers, Sequences

F(x) == x + 100                                   \* the user function (never the zero value 0)
MapSeq(a) == [k \in 1 .. Len(a) |-> F(a[k])]      \* what the sequential Map returns: same order, same length
EffRoutines(w) == IF w <= 0 THEN 1 ELSE w         \* if numRoutines <= 0 { numRoutines = 1 }

=============================================================================
