--------------------------- MODULE CallShapeSpace ---------------------------
(***************************************************************************)
(* Generator specification for C07 ("the analyses terminate without        *)
(* crashing on every well-typed program").  A state is a call-graph shape  *)
(* over main (function 0) and at most MaxF functions f1 .. fn, built       *)
(* incrementally:                                                          *)
(*                                                                         *)
(*   NewFunc(i, k)     a new function f(n+1) called from fi by an edge of  *)
(*                     kind k  (f1 is called from main)                    *)
(*   BackEdge(i, j, k) an additional edge fi -> fj, j <= i: self recursion *)
(*                     (j = i), mutual / longer recursion (j < i) -- also  *)
(*                     "closure recursion" when k = "closure"              *)
(*   Shape(d)          a data / control shape applied to the program       *)
(*                                                                         *)
(* Edge kinds: static call, call through a capturing closure, function     *)
(* value, interface method, method value, deferred call, go statement.     *)
(* Shapes: recursive struct, recursive interface, generic instantiation    *)
(* (the three TYPE shapes: at most one per program), body-less function,   *)
(* unbounded defer loop, goto-built irreducible loop, empty functions,     *)
(* large switch.  At most MaxNS edges have a kind other than "static", at  *)
(* most MaxE edges in total, at most MaxShapes shapes.                     *)
(*                                                                         *)
(* Every reachable state with at least one function is one program: TLC's  *)
(* state graph is the test suite (B1).  lib/optlib.py renders a state to   *)
(* Go; the oracle is the real process (harness/cmd/crashrun).              *)
(***************************************************************************)
EXTENDS Naturals, Sequences, FiniteSets, TLC, Json, SequencesExt

CONSTANTS MaxF,       \* maximal number of functions besides main
          MaxE,       \* maximal number of call edges (including main -> f1)
          MaxNS,      \* maximal number of edges whose kind is not "static"
          MaxShapes,  \* maximal number of data / control shapes per program
          ShapeNames  \* the shapes that may be used (subset of AllShapes)

Kinds == {"static", "closure", "funcval", "iface", "methodval", "defer", "go"}
TypeShapes == {"recstruct", "reciface", "generic"}
AllShapes == TypeShapes \cup {"bodyless", "deferloop", "goto", "empty", "switch"}

ASSUME ShapeNames \subseteq AllShapes

VARIABLES nf, edges, shapes
vars == <<nf, edges, shapes>>

Edge(f, t, k) == [f |-> f, t |-> t, k |-> k]
NonStatic(E) == Cardinality({e \in E : e.k # "static"})
OkEdges(E) == Cardinality(E) <= MaxE /\ NonStatic(E) <= MaxNS

Init == nf = 0 /\ edges = {} /\ shapes = {}

NewFunc ==
    /\ nf < MaxF
    /\ \E i \in (IF nf = 0 THEN {0} ELSE 1 .. nf), k \in Kinds :
         LET E == edges \cup {Edge(i, nf + 1, k)} IN
         /\ OkEdges(E)
         /\ edges' = E
    /\ nf' = nf + 1
    /\ UNCHANGED shapes

BackEdge ==
    /\ nf >= 1
    /\ \E i \in 1 .. nf, j \in 1 .. nf, k \in Kinds :
         /\ j <= i
         /\ ~\E e \in edges : e.f = i /\ e.t = j
         /\ LET E == edges \cup {Edge(i, j, k)} IN OkEdges(E) /\ edges' = E
    /\ UNCHANGED <<nf, shapes>>

Shape ==
    /\ nf >= 1
    /\ Cardinality(shapes) < MaxShapes
    /\ \E d \in ShapeNames \ shapes :
         /\ d \in TypeShapes => shapes \cap TypeShapes = {}
         /\ shapes' = shapes \cup {d}
    /\ UNCHANGED <<nf, edges>>

Next == NewFunc \/ BackEdge \/ Shape
Spec == Init /\ [][Next]_vars

TypeOK == /\ nf \in 0 .. MaxF
          /\ \A e \in edges : e.f \in 0 .. nf /\ e.t \in 1 .. nf /\ e.k \in Kinds
          /\ shapes \subseteq ShapeNames
          /\ Cardinality(shapes \cap TypeShapes) <= 1
          \* every function is reachable from main by construction: f(n+1) has a parent among 0 .. n
          /\ \A t \in 1 .. nf : \E e \in edges : e.t = t /\ e.f < t

Complete == nf >= 1

ASSUME TLCSet(1, {})
Collect == IF Complete THEN TLCSet(1, TLCGet(1) \cup {<<nf, edges, shapes>>}) ELSE TRUE

Rec(s) == [nf |-> s[1], edges |-> SetToSeq(s[2]), shapes |-> SetToSeq(s[3])]

Post == LET q == SetToSeq(TLCGet(1)) IN
        /\ ndJsonSerialize("shapes.ndjson", [j \in 1 .. Len(q) |-> Rec(q[j])])
        /\ PrintT(<<"CALLSHAPESPACE", Len(q)>>)
=============================================================================
