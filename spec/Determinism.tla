---------------------------- MODULE Determinism ----------------------------
(***************************************************************************)
(* C06 -- "Analysis results are deterministic" (Role D, evaluated on the   *)
(* result sets of REPEATED runs of the real taint.Analyze /                *)
(* backtrace.Analyze recorded by harness/cmd/optrun).                      *)
(*                                                                         *)
(* One TLC state per analysed program.  A program record carries, per      *)
(* configuration, the runs that were made of it:                           *)
(*   cfgs[c] = [cfg, kind ("taint" | "backtrace"), ma (max-alarms),        *)
(*              base (index of the configuration that differs only in      *)
(*                    max-alarms = 0; c itself when ma = 0),               *)
(*              runs = << [proc, rep, ncpu, gmp, ok,                       *)
(*                         flows, escapes, traces] >>]                     *)
(* proc identifies the process (worker count = ncpu, GOMAXPROCS = gmp),    *)
(* rep the in-process repetition (every range over a Go map takes a fresh  *)
(* random order; every run re-schedules the parallel summary pass).        *)
(*                                                                         *)
(*   Deterministic(q) == for every configuration without alarm limit any   *)
(*        two runs that returned report the same flows, the same escapes   *)
(*        and the same trace end points                                    *)
(*   DrawnFrom(q)     == a run truncated by max-alarms = k reports only    *)
(*        pairs of THE untruncated set (which Deterministic makes unique;  *)
(*        weakest reading: the union over the base configuration's runs)   *)
(*                                                                         *)
(* Failures are accumulated in a TLC register and written by the           *)
(* POSTCONDITION: one TLC run reports every failing (program, cfg).        *)
(***************************************************************************)
EXTENDS Naturals, Sequences, FiniteSets, TLC, Json, SequencesExt

Progs == ndJsonDeserialize("runs.ndjson")
NP    == Len(Progs)
SeqSet(s) == {s[j] : j \in 1 .. Len(s)}

VARIABLE p
Init == p \in 1 .. NP
Next == UNCHANGED p /\ FALSE
Spec == Init /\ [][Next]_p

Cfgs(q)     == 1 .. Len(Progs[q].cfgs)
Cfg(q, c)   == Progs[q].cfgs[c]
Run(q, c, i) == Cfg(q, c).runs[i]
Ok(q, c)    == {i \in 1 .. Len(Cfg(q, c).runs) : Run(q, c, i).ok = 1}
Flows(q, c, i)   == SeqSet(Run(q, c, i).flows)
Escapes(q, c, i) == SeqSet(Run(q, c, i).escapes)
Traces(q, c, i)  == SeqSet(Run(q, c, i).traces)
Result(q, c, i)  == <<Flows(q, c, i), Escapes(q, c, i), Traces(q, c, i)>>

Unlimited(q) == {c \in Cfgs(q) : Cfg(q, c).ma = 0}
Limited(q)   == {c \in Cfgs(q) : Cfg(q, c).ma > 0}

-----------------------------------------------------------------------------
\* the property, as stated
Deterministic(q) == \A c \in Unlimited(q) : \A i, j \in Ok(q, c) : Result(q, c, i) = Result(q, c, j)

Untruncated(q, c) == LET b == Cfg(q, c).base IN UNION {Flows(q, b, j) : j \in Ok(q, b)}
DrawnFrom(q) == \A c \in Limited(q) : Ok(q, Cfg(q, c).base) # {} =>
                    \A i \in Ok(q, c) : Flows(q, c, i) \subseteq Untruncated(q, c)

-----------------------------------------------------------------------------
\* failure records (uniform fields); the reference run of a configuration is its first run that returned
Ref(q, c) == CHOOSE i \in Ok(q, c) : \A j \in Ok(q, c) : i <= j

Fail(q, c, what, i, a, b) ==
    [p |-> q, prog |-> Progs[q].prog, cfg |-> Cfg(q, c).cfg, what |-> what,
     proc |-> Run(q, c, i).proc, rep |-> Run(q, c, i).rep, ncpu |-> Run(q, c, i).ncpu, gmp |-> Run(q, c, i).gmp,
     onlyref |-> SetToSeq(a), onlyrun |-> SetToSeq(b)]

Diff(q, c, what, Get(_, _, _)) ==
    IF Ok(q, c) = {} THEN {}
    ELSE LET r == Ref(q, c) IN
         {Fail(q, c, what, i, Get(q, c, r) \ Get(q, c, i), Get(q, c, i) \ Get(q, c, r)) :
              i \in {j \in Ok(q, c) : Get(q, c, j) # Get(q, c, r)}}

DetFails(q) == UNION {Diff(q, c, "flows", Flows) \cup Diff(q, c, "escapes", Escapes) \cup Diff(q, c, "traces", Traces)
                      : c \in Unlimited(q)}

DrawnFails(q) == UNION {IF Ok(q, Cfg(q, c).base) = {} THEN {}
                        ELSE {Fail(q, c, "drawn-from", i, {}, Flows(q, c, i) \ Untruncated(q, c)) :
                                  i \in {j \in Ok(q, c) : ~(Flows(q, c, j) \subseteq Untruncated(q, c))}}
                        : c \in Limited(q)}

\* the failure sets are empty exactly when the stated property holds on the recorded runs
Agree(q) == /\ (DetFails(q) = {}) = Deterministic(q)
            /\ (DrawnFails(q) = {}) = DrawnFrom(q)

ASSUME TLCSet(1, {}) /\ TLCSet(2, {})
Collect == /\ TLCSet(1, TLCGet(1) \cup DetFails(p) \cup DrawnFails(p))
           /\ IF Agree(p) THEN TRUE ELSE TLCSet(2, TLCGet(2) \cup {p})

\* vacuity counters: (program, unlimited cfg) with >= 2 returned runs; of those with a non-empty result; with runs from
\* >= 2 processes of different worker count; limited runs that truncate
Post ==
    LET fails == SetToSeq(TLCGet(1))
        PC    == {<<q, c>> \in (1 .. NP) \X (1 .. 40) : c \in Cfgs(q)}
        n2    == Cardinality({x \in PC : x[2] \in Unlimited(x[1]) /\ Cardinality(Ok(x[1], x[2])) >= 2})
        nne   == Cardinality({x \in PC : x[2] \in Unlimited(x[1]) /\ Cardinality(Ok(x[1], x[2])) >= 2
                                         /\ \E i \in Ok(x[1], x[2]) : Result(x[1], x[2], i) # <<{}, {}, {}>>})
        nw    == Cardinality({x \in PC : x[2] \in Unlimited(x[1]) /\
                                  Cardinality({Run(x[1], x[2], i).ncpu : i \in Ok(x[1], x[2])}) >= 2})
        ntr   == Cardinality({x \in PC : x[2] \in Limited(x[1]) /\ Ok(x[1], Cfg(x[1], x[2]).base) # {} /\
                                  Cardinality(Untruncated(x[1], x[2])) > Cfg(x[1], x[2]).ma})
    IN /\ Assert(TLCGet(2) = {}, <<"failure sets disagree with the stated property on programs", TLCGet(2)>>)
       /\ ndJsonSerialize("determinism_fail.ndjson", fails)
       /\ PrintT(<<"DETERMINISM_RESULT", NP, n2, nne, nw, ntr, Len(fails)>>)
=============================================================================
