SPECIFICATION Spec
INVARIANT TypeOK
CONSTRAINT Collect
POSTCONDITION Post
CHECK_DEADLOCK FALSE
