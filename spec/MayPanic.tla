------------------------------ MODULE MayPanic ------------------------------
(***************************************************************************)
(* C19 -- "May-panic analysis reports every goroutine entry without a      *)
(* recovering defer".                                                      *)
(*                                                                         *)
(* Role D (declarative rule).  The input is                                *)
(*   mp_progs.ndjson  one record per generated program: what the REAL      *)
(*                    `argot maypanic -json` front end printed for it      *)
(*                    (harness/cmd/maypanicrun): findings = entry function *)
(*                    position + creation sites                            *)
(*   mp_cases.ndjson  one record per go statement (a case of LaunchSpace): *)
(*                    its descriptor, where the renderer put the entry     *)
(*                    function and the go statement(s), and what NATIVE    *)
(*                    runs of the same program showed (did the process die *)
(*                    of the goroutine's panic; the entry frame and the    *)
(*                    `created by` line of the crash trace)                *)
(*                                                                         *)
(* One TLC state per (case, observation): observation 0 is the static rule *)
(* (first sentence of the statement), observation k >= 1 the k-th native   *)
(* run (second sentence).                                                  *)
(*                                                                         *)
(*   Rule     a go statement outside the excluded packages whose launched  *)
(*            function does not itself defer a function that calls recover *)
(*            => the launched function is reported, with that go statement *)
(*            among its creation sites.   ONE DIRECTION: nothing is said   *)
(*            about functions that are reported although they recover.     *)
(*   Native   a run that died of a panic in a goroutine whose entry has no *)
(*            recovering defer => (entry, go site) of the crash trace is   *)
(*            in the report.                                               *)
(*   Sanity   the run-time facts the generator relies on (which forms      *)
(*            recover at run time, which function is the entry) hold in    *)
(*            the native runs; a mismatch is a defect of the MODEL         *)
(*            (kind "model-*", the check exits 2), never a violation.      *)
(*                                                                         *)
(* Failures are not TLC errors: they are accumulated and written to        *)
(* mp_fail.ndjson so that one run reports every failing case.              *)
(***************************************************************************)
EXTENDS Naturals, Sequences, FiniteSets, TLC, Json, SequencesExt

Progs == ndJsonDeserialize("mp_progs.ndjson")
Cases == ndJsonDeserialize("mp_cases.ndjson")
NC    == Len(Cases)

VARIABLES c,   \* index of the case
          o    \* 0 = static rule; k >= 1 = k-th native observation of the case

vars == <<c, o>>

-----------------------------------------------------------------------------
(* The rule.                                                               *)

\* the entry function ITSELF contains a defer statement whose deferred function's body calls recover
\* (conditionally executed defer statements included: the function does defer it)
DefersRecover(r) == r \in {"deferClosure", "deferClosureCap", "deferNamed", "deferMethod", "deferIface", "condDefer"}

\* NOT recovering: no defer; defer of a function without recover; recover() in a plain call; a deferred function that
\* only calls a function that calls recover; `defer recover()`; a defer in a callee; a defer in the launching function.

\* the entry function's package/file is excluded by -exclude or by the allow list
Excluded(e) == e \in {"dir", "dirnested", "dirslash", "file", "allow"}

MustReport(cs) == ~DefersRecover(cs.rec) /\ ~Excluded(cs.excl)

SamePos(a, b) == a.file = b.file /\ a.line = b.line

Findings(p) == Progs[p].findings

FindingsAt(p, e)  == {k \in 1 .. Len(Findings(p)) : SamePos(Findings(p)[k], e)}
HasCreator(f, s)  == \E j \in 1 .. Len(f.creators) : SamePos(f.creators[j], s)
Reported(p, e, s) == \E k \in FindingsAt(p, e) : HasCreator(Findings(p)[k], s)

\* run-time meaning of the recover forms (cond = the decision of `if oracle() { defer Rec() }`)
RuntimeRecovers(r, cond) ==
    \/ r \in {"deferClosure", "deferClosureCap", "deferNamed", "deferMethod", "deferIface"}
    \/ r = "condDefer" /\ cond

-----------------------------------------------------------------------------
Init == c \in 1 .. NC /\ o = 0
Next == /\ o < Len(Cases[c].native)
        /\ o' = o + 1 /\ c' = c
Spec == Init /\ [][Next]_vars

-----------------------------------------------------------------------------
Fail(kind, cs, k, e, s) ==
    [kind |-> kind, case |-> cs.id, prog |-> cs.prog, launch |-> cs.launch, rec |-> cs.rec, excl |-> cs.excl,
     site |-> cs.site, obs |-> k, entryfile |-> e.file, entryline |-> e.line, gofile |-> s.file, goline |-> s.line]

NoPos == [file |-> "", line |-> 0]

StaticFails(cs) ==
    IF ~Progs[cs.prog].ok
    THEN {Fail("tool-failed", cs, 0, cs.entry, NoPos)}
    ELSE IF ~MustReport(cs) THEN {}
    ELSE UNION {LET s == cs.gosites[j] IN
                IF FindingsAt(cs.prog, cs.entry) = {} THEN {Fail("not-reported", cs, 0, cs.entry, s)}
                ELSE IF ~Reported(cs.prog, cs.entry, s) THEN {Fail("creator-missing", cs, 0, cs.entry, s)}
                ELSE {}
                : j \in 1 .. Len(cs.gosites)}

NativeFails(cs, k) ==
    LET ob        == cs.native[k]
        shouldDie == ob.panic /\ ~RuntimeRecovers(cs.rec, ob.cond)
    IN  IF ob.died # shouldDie
        THEN {Fail("model-died", cs, k, ob.entry, ob.gosite)}
        ELSE IF ~ob.died THEN {}
        ELSE IF ~(SamePos(ob.entry, cs.entry) /\ ob.which \in 1 .. Len(cs.gosites)
                  /\ SamePos(ob.gosite, cs.gosites[ob.which]))
        THEN {Fail("model-trace", cs, k, ob.entry, ob.gosite)}
        ELSE IF /\ ~DefersRecover(cs.rec) /\ ~Excluded(cs.excl) /\ Progs[cs.prog].ok
                /\ ~Reported(cs.prog, ob.entry, ob.gosite)
        THEN {Fail("native-uncovered", cs, k, ob.entry, ob.gosite)}
        ELSE {}

-----------------------------------------------------------------------------
(* Role A: transcription of the algorithm (lightweight.go:48-77, 97-166, 246-254) on the launch / recover forms.  It    *)
(* only PREDICTS the real report: a disagreement between prediction and report is recorded as spec drift (register 2,   *)
(* mp_drift.ndjson) and never decides anything.  Its disagreement with the rule -- Gaps -- is the design-level list of  *)
(* forms on which the algorithm and the property differ.                                                                *)

\* what SSA construction makes of the go statement's call value (switch of findGoFunctions)
GoValueKind(l) ==
    CASE l \in {"named", "generic", "closureLit", "methodVal", "methodPtr", "methodEmb", "methodExpr", "fnLocal"} -> "Function"
      [] l \in {"closureCap", "closureVar", "boundMethod"} -> "MakeClosure"
      [] l = "ifaceMethod" -> "Invoke"
      [] OTHER -> "Other"   \* load of a global / field / element, parameter, free variable, call result
AlgoFinds(l) == GoValueKind(l) \in {"Function", "MakeClosure"}
\* bound-method and method-expression wrappers are what the go statement launches for the algorithm: they defer nothing;
\* wrappers and generic instances have no package (f.Pkg = nil) and skip the exclusion filter
Wrapper(l)      == l \in {"boundMethod", "methodExpr"}
AlgoExcluded(cs) == Excluded(cs.excl) /\ ~Wrapper(cs.launch) /\ cs.launch # "generic"
\* doesDeferRecover: a Defer whose value is a static function or a closure that calls the builtin directly
AlgoRecovers(cs) == ~Wrapper(cs.launch) /\ cs.rec \in {"deferClosure", "deferClosureCap", "deferNamed", "deferMethod", "condDefer"}
Predicted(cs)   == AlgoFinds(cs.launch) /\ ~AlgoExcluded(cs) /\ ~AlgoRecovers(cs) /\ cs.excl # "allow"

IsReported(cs) == \A j \in 1 .. Len(cs.gosites) : Reported(cs.prog, cs.entry, cs.gosites[j])

Drift(cs) == IF Progs[cs.prog].ok /\ IsReported(cs) # Predicted(cs)
             THEN {[case |-> cs.id, launch |-> cs.launch, rec |-> cs.rec, excl |-> cs.excl, site |-> cs.site,
                    predicted |-> Predicted(cs), reported |-> IsReported(cs)]}
             ELSE {}

Gaps == {[launch |-> Cases[k].launch, kind |-> GoValueKind(Cases[k].launch)] :
             k \in {j \in 1 .. NC : MustReport(Cases[j]) /\ ~Predicted(Cases[j])}}

ASSUME TLCSet(1, {}) /\ TLCSet(2, {})

Collect ==
    LET cs == Cases[c]
        fs == IF o = 0 THEN StaticFails(cs) ELSE NativeFails(cs, o)
        ds == IF o = 0 THEN Drift(cs) ELSE {}
    IN  /\ IF fs = {} THEN TRUE ELSE TLCSet(1, TLCGet(1) \cup fs)
        /\ IF ds = {} THEN TRUE ELSE TLCSet(2, TLCGet(2) \cup ds)

\* vacuity counters: how many cases carry an obligation, how many native runs died
NMust == Cardinality({k \in 1 .. NC : MustReport(Cases[k])})
NObs  == LET RECURSIVE Sum(_)
             Sum(k) == IF k = 0 THEN 0 ELSE Sum(k - 1) + Len(Cases[k].native)
         IN Sum(NC)
NDied == LET RECURSIVE Sum(_)
             Sum(k) == IF k = 0 THEN 0
                       ELSE Sum(k - 1) + Cardinality({j \in 1 .. Len(Cases[k].native) : Cases[k].native[j].died})
         IN Sum(NC)

Post == /\ ndJsonSerialize("mp_fail.ndjson", SetToSeq(TLCGet(1)))
        /\ ndJsonSerialize("mp_drift.ndjson", SetToSeq(TLCGet(2)))
        /\ ndJsonSerialize("mp_gaps.ndjson", SetToSeq(Gaps))
        /\ PrintT(<<"MAYPANIC_RESULT", NC, NMust, NObs, NDied, Cardinality(TLCGet(1))>>)
=============================================================================
