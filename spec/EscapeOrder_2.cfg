SPECIFICATION SpecOrder
CONSTANTS
  N = 2
  Flags = {1, 2}
  SelfLoops = FALSE
  Triples = FALSE
  IMode = "sym"
INVARIANTS
  OrderEndsInJoin
  OrderStaysBelow
POSTCONDITION PostOrder
CHECK_DEADLOCK FALSE
