------------------------------ MODULE ProgSpace ------------------------------
(***************************************************************************)
(* Generator specification of the SEM engine (B1): a type-state machine    *)
(* over flow steps.  The state is the chain of (step, decoration) chosen   *)
(* so far and the type-state of the value currently carrying the datum     *)
(* (DESIGN.md 3.1, Appendix D).  Next appends any step applicable in that  *)
(* type-state under any allowed decoration.  Every reachable state whose   *)
(* carrier can be handed to a sink is one program of the program space:    *)
(* TLC's state graph is the test suite.  The step table is exported by     *)
(* lib/semgen.py (single source of truth for names and type-states).       *)
(***************************************************************************)
EXTENDS Naturals, Sequences, FiniteSets, TLC, Json, SequencesExt

Steps  == ndJsonDeserialize("steps.ndjson")     \* [name, tin, tout, fam]
Params == ndJsonDeserialize("params.ndjson")[1] \* [k, decos, sinkable, fams, first]

K        == Params.k
Decos    == {Params.decos[j] : j \in 1 .. Len(Params.decos)}
Sinkable == {Params.sinkable[j] : j \in 1 .. Len(Params.sinkable)}
Fams     == {Params.fams[j] : j \in 1 .. Len(Params.fams)}
\* decorations other than "plain" are allowed on at most MaxDeco steps of a chain
MaxDeco  == Params.maxdeco

VARIABLES chain, ts, nd
vars == <<chain, ts, nd>>

Init == chain = <<>> /\ ts = "S" /\ nd = 0

Next ==
    /\ Len(chain) < K
    /\ \E i \in 1 .. Len(Steps), d \in Decos :
         /\ Steps[i].tin = ts
         /\ Steps[i].fam \in Fams
         /\ d # "plain" => nd < MaxDeco
         \* channel steps block when their branch is skipped or repeated: only straight-line placements
         /\ Steps[i].fam \in {"chan", "conc"} => d \in {"plain", "helper", "killafter"}
         /\ chain' = Append(chain, <<Steps[i].name, d>>)
         /\ ts' = Steps[i].tout
         /\ nd' = IF d = "plain" THEN nd ELSE nd + 1

Spec == Init /\ [][Next]_vars

\* Params.needfam # "" : only chains containing a step of that family (C02: "role")
FamOf(name) == (CHOOSE i \in 1 .. Len(Steps) : Steps[i].name = name) \* index
HasFam(f) == \E j \in 1 .. Len(chain) : Steps[FamOf(chain[j][1])].fam = f
Complete == /\ chain # <<>> /\ ts \in Sinkable
            /\ Params.needfam = "" \/ HasFam(Params.needfam)

\* every complete chain is printed on one line (parsed by lib/sem.py); a register would make the
\* collection quadratic in the number of chains
Collect == IF Complete THEN PrintT(ToString(<<"CHAIN", chain>>)) ELSE TRUE

ASSUME TLCSet(3, 0)
Post == PrintT(<<"PROGSPACE", TLCGet(3)>>)
=============================================================================
