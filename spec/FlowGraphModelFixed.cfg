SPECIFICATION Spec
CONSTANT InPerIndex = TRUE
INVARIANT Consistent
CHECK_DEADLOCK FALSE
