---------------------------- MODULE OptionSpace ----------------------------
(***************************************************************************)
(* Generator specification for C05: the option vectors under which every   *)
(* program is analysed.                                                    *)
(*                                                                         *)
(*   1 od  summarize-on-demand   0 / 1                                     *)
(*   2 pf  pkg-filter            0 none, 1 matches every package of the    *)
(*                               program, 2 matches the main package only, *)
(*                               3 matches no package                      *)
(*   3 rp  4 rs  5 rc  6 rn      report-paths / -summaries / -coverage /   *)
(*                               -no-callee-sites                          *)
(*   7 ll  log-level             1 .. 5   (digit 0 .. 4)                   *)
(*   8 ma  max-alarms            0 (unlimited) .. 3                        *)
(*                                                                         *)
(* The full product has 2560 vectors; a vector is its mixed-radix code     *)
(* 0 .. 2559.  The specification is the greedy construction of a covering  *)
(* set (AETG style): starting from the default vector, Next adds the       *)
(* vector -- among a Seed- and step-dependent window of candidates -- that *)
(* covers the largest number of still uncovered value combinations; the    *)
(* combinations to cover are all combinations of every T options (T = 2:   *)
(* pairwise) and, in full, of the option sets in Must (e.g. {1, 2, 8}:     *)
(* every on-demand x filter class is run with every alarm limit).  When no *)
(* candidate covers anything new, the default vector is overridden with an *)
(* uncovered combination, so every step makes progress.  The behaviour is  *)
(* deterministic; its final state is the test plan (POSTCONDITION).        *)
(***************************************************************************)
EXTENDS Naturals, Sequences, FiniteSets, TLC, Json, SequencesExt

CONSTANTS T,      \* strength of the covering set (2 or 3)
          Seed,   \* selects the permutation of the vectors
          Extra,  \* additional vectors (first in the permutation)
          Must,   \* option sets (indices) covered in full, e.g. {{1, 2, 8}}
          Groups  \* the option sets to cover (written by the check: every T-subset + Must; a constant VALUE,
                  \* because TLC re-evaluates a defined operator at every use)

N   == 8
D   == <<2, 4, 2, 2, 2, 2, 5, 4>>                  \* domain sizes
W   == <<1280, 320, 160, 80, 40, 20, 4, 1>>        \* mixed-radix weights
NV  == 2560
Digit(c, i) == (c \div W[i]) % D[i]

\* default: eager, no filter, no reports, log-level 3 (digit 2), unlimited alarms
DefaultCode == 2 * W[7]

ASSUME Groups = {S \in SUBSET (1 .. N) : Cardinality(S) = T} \cup Must

Pow2 == <<1, 2, 4, 8, 16, 32, 64, 128>>
RECURSIVE Sub(_, _, _)
\* the code c with every digit outside S set to 0
Sub(c, S, i) == IF i > N THEN 0 ELSE (IF i \in S THEN Digit(c, i) * W[i] ELSE 0) + Sub(c, S, i + 1)
RECURSIVE GCode(_, _)
\* an option set as a bit mask
GCode(S, i) == IF i > N THEN 0 ELSE (IF i \in S THEN Pow2[i] ELSE 0) + GCode(S, i + 1)
GSet(m) == {i \in 1 .. N : (m \div Pow2[i]) % 2 = 1}

\* a value combination = (option set, values) = mask * NV + sub-code
TupleId(c, S) == GCode(S, 1) * NV + Sub(c, S, 1)
Tuples(c)     == {TupleId(c, S) : S \in Groups}

RECURSIVE Combos(_, _)
\* all sub-codes over the options i .. N that belong to S
Combos(S, i) == IF i > N THEN {0}
                ELSE IF i \in S THEN {d * W[i] + r : d \in 0 .. (D[i] - 1), r \in Combos(S, i + 1)}
                ELSE Combos(S, i + 1)
AllTuples == UNION {{GCode(S, 1) * NV + s : s \in Combos(S, 1)} : S \in Groups}

\* a Seed-dependent permutation of the vectors (multiplication by a unit modulo the prime 2579 > 2560)
Mult    == LET m == ((2 * Seed + 1) * 7919) % 2579 IN IF m = 0 THEN 1 ELSE m
Rank(c) == ((c + 1) * Mult) % 2579

\* keys: the candidates' scores of the current step.  TLC re-evaluates a LET definition at every use inside an action,
\* so the scores are computed by one action (Score) into a variable and consumed by the next one (Select).
VARIABLES chosen, uncovered, step, keys
vars == <<chosen, uncovered, step, keys>>

Init == /\ chosen = {DefaultCode}
        /\ uncovered = AllTuples \ Tuples(DefaultCode)
        /\ step = 0
        /\ keys = {}

\* about 200 candidates per step
Window(s) == {c \in 0 .. (NV - 1) : (Rank(c) + 97 * s) % 13 = 0}
Gain(c, unc) == Cardinality(Tuples(c) \cap unc)

\* the default vector overridden with the uncovered combination t
FromTuple(t) == LET S == GSet(t \div NV)
                    s == t % NV
                IN DefaultCode - Sub(DefaultCode, S, 1) + s

\* gain first, permutation rank second (Rank is injective, so a key identifies its vector)
Score == /\ uncovered # {} /\ keys = {}
         /\ keys' = {Gain(c, uncovered) * 4096 + (2579 - Rank(c)) : c \in Window(step)}
         /\ UNCHANGED <<chosen, uncovered, step>>

Pick(best) == IF best \div 4096 > 0
              THEN CHOOSE c \in Window(step) : Rank(c) = 2579 - (best % 4096)
              ELSE FromTuple(CHOOSE t \in uncovered : \A u \in uncovered : t <= u)

Select == /\ keys # {}
          /\ \E v \in {Pick(CHOOSE k \in keys : \A j \in keys : j <= k)} :
                /\ chosen' = chosen \cup {v}
                /\ uncovered' = uncovered \ Tuples(v)
          /\ step' = step + 1
          /\ keys' = {}

Next == Score \/ Select

Spec == Init /\ [][Next]_vars

\* every step covers something new, so the construction terminates with everything covered
Progress   == [][step' # step => Cardinality(uncovered') < Cardinality(uncovered)]_vars
Covered(C) == AllTuples \subseteq UNION {Tuples(c) : c \in C}
TypeOK     == chosen \subseteq 0 .. (NV - 1) /\ uncovered \subseteq AllTuples

\* the n vectors of S that come first in the permutation
Lowest(S, n) == LET sorted == SortSeq(SetToSeq({Rank(c) : c \in S}), <)
                    first  == {sorted[j] : j \in 1 .. (IF n < Len(sorted) THEN n ELSE Len(sorted))}
                IN {c \in S : Rank(c) \in first}

Vec(c) == [od |-> Digit(c, 1), pf |-> Digit(c, 2), rp |-> Digit(c, 3), rs |-> Digit(c, 4), rc |-> Digit(c, 5),
           rn |-> Digit(c, 6), ll |-> Digit(c, 7) + 1, ma |-> Digit(c, 8), code |-> c]

ASSUME TLCSet(1, {})
Collect == IF uncovered = {} /\ keys = {} THEN TLCSet(1, chosen) ELSE TRUE

Post == LET base == TLCGet(1)
            plan == base \cup Lowest((0 .. (NV - 1)) \ base, Extra)
            q    == SetToSeq(plan)
        IN /\ Assert(base # {} /\ Covered(base), "the covering construction did not finish")
           /\ ndJsonSerialize("vectors.ndjson", [j \in 1 .. Len(q) |-> Vec(q[j])])
           /\ PrintT(<<"OPTIONSPACE", Cardinality(base), Len(q), Cardinality(AllTuples)>>)
=============================================================================
