---------------------------- MODULE OptionSpace ----------------------------
(***************************************************************************)
(* Generator specification for C05: the option vectors under which every   *)
(* program is analysed.                                                    *)
(*                                                                         *)
(*   od  summarize-on-demand      0 / 1                                    *)
(*   pf  pkg-filter               0 none, 1 matches every package of the   *)
(*                                program, 2 matches the main package      *)
(*                                only, 3 matches no package               *)
(*   rp rs rc rn  report-paths / -summaries / -coverage / -no-callee-sites *)
(*   ll  log-level                1 .. 5                                   *)
(*   ma  max-alarms               0 (unlimited) .. 3                       *)
(*                                                                         *)
(* The full product has 2560 vectors.  The specification is the greedy     *)
(* construction of a covering set: starting from the default vector, Next  *)
(* adds a vector that covers the largest number of still uncovered value   *)
(* combinations, where the combinations to cover are all combinations of   *)
(* every T options (T = 2: pairwise) and, in full, of the option sets in   *)
(* Must (e.g. {od, pf, ma}: every on-demand x filter class is run with     *)
(* every alarm limit).  Ties are broken by a Seed-dependent permutation of *)
(* the vectors, so that different VERIF_SEED values yield different        *)
(* covering sets; Extra further vectors are added in permutation order.    *)
(* The behaviour is deterministic (one successor per state); its final     *)
(* state is the test plan, written by the POSTCONDITION.                   *)
(***************************************************************************)
EXTENDS Naturals, Sequences, FiniteSets, TLC, Json, SequencesExt

CONSTANTS T,      \* strength of the covering set (2 or 3)
          Seed,   \* tie break
          Extra,  \* additional vectors
          Must    \* option sets covered in full, e.g. {{"od", "pf", "ma"}}

Opts == {"od", "pf", "rp", "rs", "rc", "rn", "ll", "ma"}
Dom  == [od |-> 0 .. 1, pf |-> 0 .. 3, rp |-> 0 .. 1, rs |-> 0 .. 1, rc |-> 0 .. 1, rn |-> 0 .. 1,
         ll |-> 1 .. 5, ma |-> 0 .. 3]

Vectors == {[od |-> a, pf |-> b, rp |-> c, rs |-> d, rc |-> e, rn |-> f, ll |-> g, ma |-> h] :
              a \in Dom.od, b \in Dom.pf, c \in Dom.rp, d \in Dom.rs, e \in Dom.rc, f \in Dom.rn,
              g \in Dom.ll, h \in Dom.ma}

Default == [od |-> 0, pf |-> 0, rp |-> 0, rs |-> 0, rc |-> 0, rn |-> 0, ll |-> 3, ma |-> 0]

\* the option sets whose value combinations must all occur
Groups == {S \in SUBSET Opts : Cardinality(S) = T} \cup Must

Proj(v, S)     == [o \in S |-> v[o]]
Tuples(v)      == {<<S, Proj(v, S)>> : S \in Groups}
AllTuples      == UNION {Tuples(v) : v \in Vectors}

\* a Seed-dependent permutation of the vectors (multiplication by a unit modulo the prime 2579 > 2560)
Code(v) == ((((((v.od * 4 + v.pf) * 2 + v.rp) * 2 + v.rs) * 2 + v.rc) * 2 + v.rn) * 5 + (v.ll - 1)) * 4 + v.ma
Mult    == LET m == ((2 * Seed + 1) * 7919) % 2579 IN IF m = 0 THEN 1 ELSE m
Rank(v) == ((Code(v) + 1) * Mult) % 2579

VARIABLES chosen, uncovered
vars == <<chosen, uncovered>>

Init == /\ chosen = {Default}
        /\ uncovered = AllTuples \ Tuples(Default)

Next == /\ uncovered # {}
        /\ LET gain == [w \in Vectors |-> Cardinality(Tuples(w) \cap uncovered)]
               best == CHOOSE n \in {gain[w] : w \in Vectors} : \A w \in Vectors : gain[w] <= n
               cand == {w \in Vectors : gain[w] = best}
               v    == CHOOSE w \in cand : \A u \in cand : Rank(w) <= Rank(u)
           IN /\ chosen' = chosen \cup {v}
              /\ uncovered' = uncovered \ Tuples(v)

Spec == Init /\ [][Next]_vars

\* every step covers something new, so the construction terminates with everything covered
Progress == [][Cardinality(uncovered') < Cardinality(uncovered)]_vars
Covered(C) == \A t \in AllTuples : \E v \in C : t \in Tuples(v)

RECURSIVE Lowest(_, _)
Lowest(S, n) == IF n = 0 \/ S = {} THEN {}
                ELSE LET v == CHOOSE w \in S : \A u \in S : Rank(w) <= Rank(u)
                     IN {v} \cup Lowest(S \ {v}, n - 1)

ASSUME TLCSet(1, {})
Collect == IF uncovered = {} THEN TLCSet(1, chosen) ELSE TRUE

Post == LET base == TLCGet(1)
            plan == base \cup Lowest(Vectors \ base, Extra)
            q    == SetToSeq(plan)
        IN /\ Assert(base # {} /\ Covered(base), "the covering construction did not finish")
           /\ ndJsonSerialize("vectors.ndjson", q)
           /\ PrintT(<<"OPTIONSPACE", Cardinality(base), Len(q), Cardinality(AllTuples)>>)
=============================================================================
