------------------------------ MODULE Options ------------------------------
(***************************************************************************)
(* C05 -- "Options documented as soundness-neutral do not change the       *)
(* verdict" (Role D, evaluated on result sets recorded from the REAL       *)
(* taint.Analyze / backtrace.Analyze, harness/cmd/optrun).                 *)
(*                                                                         *)
(* One TLC state per analysed program.  A program record carries one run   *)
(* per option vector of spec/OptionSpace.tla:                              *)
(*   vec   = [od, pf, rp, rs, rc, rn, ll, ma, code]                        *)
(*   flows = the reported (source site > sink site) pairs                  *)
(*   ok    = 1 iff the analysis returned (a run that crashed belongs to    *)
(*           C07 and is left out here)                                     *)
(* and, for the backward analysis, one run per summarize-on-demand value.  *)
(*                                                                         *)
(* Every option other than max-alarms is declared neutral:                 *)
(*   Neutral(c1, c2) == c1.ma = 0 /\ c2.ma = 0                             *)
(*   NeutralHolds    == Neutral(c1, c2) => R(c1) = R(c2)                   *)
(* and for max-alarms = k > 0                                              *)
(*   AlarmBound(k)   == R_k \subseteq R_inf /\ |R_k| <= k                  *)
(*                      /\ (R_inf # {} => R_k # {})                        *)
(* where, in the weakest reading, R_inf is the union of the unlimited      *)
(* results for "subset" and "every unlimited result is non-empty" for the  *)
(* non-emptiness clause (so that a Neutral failure is not reported twice). *)
(*                                                                         *)
(* Failures are accumulated in a TLC register and written by the           *)
(* POSTCONDITION: one run reports every failing (program, vector).         *)
(***************************************************************************)
EXTENDS Naturals, Sequences, FiniteSets, TLC, Json, SequencesExt

Progs == ndJsonDeserialize("results.ndjson")
NP    == Len(Progs)

SeqSet(s) == {s[j] : j \in 1 .. Len(s)}

VARIABLE p
Init == p \in 1 .. NP
Next == UNCHANGED p /\ FALSE
Spec == Init /\ [][Next]_p

Run(q, i)   == Progs[q].runs[i]
RunIdx(q)   == {i \in 1 .. Len(Progs[q].runs) : Run(q, i).ok = 1}
R(q, i)     == SeqSet(Run(q, i).flows)
Unlimited(q) == {i \in RunIdx(q) : Run(q, i).vec.ma = 0}
Limited(q)   == {i \in RunIdx(q) : Run(q, i).vec.ma > 0}

-----------------------------------------------------------------------------
\* the property, as stated
Neutral(c1, c2) == c1.ma = 0 /\ c2.ma = 0
NeutralHolds(q) == \A i, j \in RunIdx(q) : Neutral(Run(q, i).vec, Run(q, j).vec) => R(q, i) = R(q, j)

RInf(q)      == UNION {R(q, i) : i \in Unlimited(q)}
AllNonEmpty(q) == Unlimited(q) # {} /\ \A i \in Unlimited(q) : R(q, i) # {}
AlarmBound(q, i) == LET k == Run(q, i).vec.ma IN
                    /\ R(q, i) \subseteq RInf(q)
                    /\ Cardinality(R(q, i)) <= k
                    /\ AllNonEmpty(q) => R(q, i) # {}
AlarmHolds(q) == \A i \in Limited(q) : Unlimited(q) # {} => AlarmBound(q, i)

\* backward analysis: the set of (origin > entry point) pairs is the same eager and on demand
BtIdx(q)   == {i \in 1 .. Len(Progs[q].bt) : Progs[q].bt[i].ok = 1}
BtR(q, i)  == SeqSet(Progs[q].bt[i].traces)
BtHolds(q) == \A i, j \in BtIdx(q) : BtR(q, i) = BtR(q, j)

-----------------------------------------------------------------------------
\* failure records (uniform fields).  The reference run of a program is the unlimited run with the smallest code
\* that is eager and unfiltered when there is one (the default-like vectors), otherwise the smallest code.
RefIdx(q) == LET U  == Unlimited(q)
                 E  == {i \in U : Run(q, i).vec.od = 0 /\ Run(q, i).vec.pf = 0}
                 C  == IF E # {} THEN E ELSE U
             IN CHOOSE i \in C : \A j \in C : Run(q, i).vec.code <= Run(q, j).vec.code

Fail(q, what, vec, missing, extra) ==
    [p |-> q, prog |-> Progs[q].prog, what |-> what, vec |-> vec,
     missing |-> SetToSeq(missing), extra |-> SetToSeq(extra)]

NeutralFails(q) ==
    IF Unlimited(q) = {} THEN {}
    ELSE LET r == RefIdx(q) IN
         {Fail(q, "neutral", Run(q, i).vec, R(q, r) \ R(q, i), R(q, i) \ R(q, r)) :
              i \in {j \in Unlimited(q) : R(q, j) # R(q, r)}}

AlarmFails(q) ==
    IF Unlimited(q) = {} THEN {}
    ELSE UNION {LET k == Run(q, i).vec.ma IN
                (IF R(q, i) \subseteq RInf(q) THEN {}
                 ELSE {Fail(q, "alarm-subset", Run(q, i).vec, {}, R(q, i) \ RInf(q))})
                \cup (IF Cardinality(R(q, i)) <= k THEN {}
                      ELSE {Fail(q, "alarm-count", Run(q, i).vec, {}, R(q, i))})
                \cup (IF AllNonEmpty(q) /\ R(q, i) = {}
                      THEN {Fail(q, "alarm-empty", Run(q, i).vec, RInf(q), {})} ELSE {})
                : i \in Limited(q)}

BtVec(q, i) == [od |-> Progs[q].bt[i].od, pf |-> 0, rp |-> 0, rs |-> 0, rc |-> 0, rn |-> 0, ll |-> 1, ma |-> 0, code |-> 0]
BtFails(q) ==
    IF BtIdx(q) = {} THEN {}
    ELSE LET r == CHOOSE i \in BtIdx(q) : \A j \in BtIdx(q) : Progs[q].bt[i].od <= Progs[q].bt[j].od IN
         {Fail(q, "neutral-bt", BtVec(q, i), BtR(q, r) \ BtR(q, i), BtR(q, i) \ BtR(q, r)) :
              i \in {j \in BtIdx(q) : BtR(q, j) # BtR(q, r)}}

\* the failure sets are empty exactly when the stated property holds on the recorded runs
Agree(q) == /\ (NeutralFails(q) = {}) = NeutralHolds(q)
            /\ (AlarmFails(q) = {}) = AlarmHolds(q)
            /\ (BtFails(q) = {}) = BtHolds(q)

ASSUME TLCSet(1, {}) /\ TLCSet(2, {})
Collect == /\ TLCSet(1, TLCGet(1) \cup NeutralFails(p) \cup AlarmFails(p) \cup BtFails(p))
           /\ IF Agree(p) THEN TRUE ELSE TLCSet(2, TLCGet(2) \cup {p})

\* vacuity counters: programs with >= 2 unlimited runs, limited runs whose unlimited result is non-empty,
\* limited runs that actually truncate (|R_inf| > k), programs with two backward runs
Post ==
    LET fails == SetToSeq(TLCGet(1))
        n2    == Cardinality({q \in 1 .. NP : Cardinality(Unlimited(q)) >= 2})
        nlim  == Cardinality({<<q, i>> \in (1 .. NP) \X (1 .. 200) :
                                 i \in Limited(q) /\ RInf(q) # {}})
        ntr   == Cardinality({<<q, i>> \in (1 .. NP) \X (1 .. 200) :
                                 i \in Limited(q) /\ Cardinality(RInf(q)) > Run(q, i).vec.ma})
        nbt   == Cardinality({q \in 1 .. NP : Cardinality(BtIdx(q)) >= 2})
    IN /\ Assert(TLCGet(2) = {}, <<"failure sets disagree with the stated property on programs", TLCGet(2)>>)
       /\ ndJsonSerialize("options_fail.ndjson", fails)
       /\ PrintT(<<"OPTIONS_RESULT", NP, n2, nlim, ntr, nbt, Len(fails)>>)
=============================================================================
