---------------------------- MODULE BuildGraphObs ---------------------------
(***************************************************************************)
(* C20, binding B4/B3: the properties of BuildGraphConc.tla (and the       *)
(* remaining clauses of the statement) evaluated on runs of the REAL taint *)
(* analysis under the race detector.  harness/cmd/taintrace runs           *)
(* taint.Analyze on a program for every combination of report-summaries /  *)
(* report-coverage / report-paths / summarize-on-demand under the          *)
(* schedules free / hold / meet ("pre" = the harness's own pass through    *)
(* the real state initialisation and summary worker pool, no report        *)
(* option); checks/c20.py attaches to every run the                        *)
(* race detector's reports printed while it ran.  One record per run in    *)
(* tr_runs.ndjson:                                                         *)
(*   key, prog, mode, sum, cov, paths, ondemand   the run                  *)
(*   returned      taint.Analyze returned (FALSE: the process died/hung)   *)
(*   detached      the summaries writer ran on a goroutine other than the  *)
(*                 one that runs the analysis (selects the model variant)  *)
(*   expected      summaries that exist before BuildGraph ("name#k")       *)
(*   atreturn      summary sections in the report when Analyze returned    *)
(*   timesrows     rows of summary-times-*.csv when Analyze returned       *)
(*   flowfiles, flowsbad, pairs     report-paths files / malformed / flows *)
(*   gbase, gafter goroutines before the run / after it (settled)          *)
(*   races         race-detector reports during the run                    *)
(*   wraces        ... in which one of the two goroutines was created by   *)
(*                 BuildGraph (the summaries writer)                       *)
(*   fatal         "fatal error: concurrent map ..." / panic killed the run*)
(*                                                                         *)
(* The model says (BuildGraphConc, TLC): with a detached writer and        *)
(* report-summaries, NoRace and ReportComplete can fail; in every other    *)
(* variant they hold.  Accordingly a failure is attributed ("writer") to   *)
(* the summaries-writer goroutine only if the run had report-summaries on, *)
(* the writer was observed detached, every race report involves that       *)
(* goroutine, and the benign twin (same program, schedule and options but  *)
(* report-summaries off) is clean.  Everything else is attributed "other". *)
(* Failures are written to buildgraph_fail.ndjson; the check turns "other" *)
(* into VIOLATION and "writer" into the known finding (or VIOLATION if it  *)
(* is not listed).                                                         *)
(***************************************************************************)
EXTENDS Integers, Sequences, FiniteSets, TLC, Json, SequencesExt

Runs == ndJsonDeserialize("tr_runs.ndjson")
NR   == Len(Runs)

VARIABLE p
Init == p \in 1 .. NR
Next == UNCHANGED p
Spec == Init /\ [][Next]_p

\* ToSet(seq): SequencesExt

\* "performs no unsynchronised concurrent access to shared state"
ObsNoRace(r)         == r.races = 0 /\ ~r.fatal
\* "never deadlocks"
ObsReturns(r)        == r.returned
\* "or leaks goroutines"
ObsNoLeak(r)         == r.returned => r.gafter <= r.gbase
\* "report files are complete when the analysis returns" (BuildGraphConc!ReportComplete, weakest reading)
ObsReportComplete(r) == (r.returned /\ r.sum) => ToSet(r.expected) \subseteq ToSet(r.atreturn)
ObsTimesComplete(r)  == (r.returned /\ r.sum) => r.timesrows >= Len(r.expected)
ObsFlowsComplete(r)  == (r.returned /\ r.paths) => (r.flowsbad = 0 /\ (r.pairs > 0 => r.flowfiles > 0))

Clean(r) == /\ ObsNoRace(r) /\ ObsReturns(r) /\ ObsNoLeak(r) /\ ObsReportComplete(r)
            /\ ObsTimesComplete(r) /\ ObsFlowsComplete(r)

IsTwin(r, t) == /\ t.prog = r.prog /\ t.mode = r.mode /\ ~t.sum
                /\ t.cov = r.cov /\ t.paths = r.paths /\ t.ondemand = r.ondemand
TwinClean(r) == /\ \E q \in 1 .. NR : IsTwin(r, Runs[q])
                /\ \A q \in 1 .. NR : IsTwin(r, Runs[q]) => Clean(Runs[q])

\* the model variant that can fail: detached writer and report-summaries
WriterVariant(r) == r.sum /\ r.detached

Attrib(r, kind) ==
    IF /\ WriterVariant(r) /\ TwinClean(r)
       /\ \/ kind = "incomplete"
          \/ (kind = "race" /\ ~r.fatal /\ r.wraces = r.races)
    THEN "writer" ELSE "other"

Fail(r, kind) == [kind |-> kind, key |-> r.key, prog |-> r.prog, mode |-> r.mode, sum |-> r.sum,
                  ondemand |-> r.ondemand, detached |-> r.detached, attrib |-> Attrib(r, kind),
                  nexpected |-> Len(r.expected), natreturn |-> Len(r.atreturn), races |-> r.races]

R == Runs[p]
ASSUME TLCSet(1, {})
Add(kind) == TLCSet(1, TLCGet(1) \cup {Fail(R, kind)})
Collect ==
    /\ IF ~ObsNoRace(R)         THEN Add("race")       ELSE TRUE
    /\ IF ~ObsReturns(R)        THEN Add("noreturn")   ELSE TRUE
    /\ IF ~ObsNoLeak(R)         THEN Add("leak")       ELSE TRUE
    /\ IF ~ObsReportComplete(R) THEN Add("incomplete") ELSE TRUE
    /\ IF ~ObsTimesComplete(R)  THEN Add("times")      ELSE TRUE
    /\ IF ~ObsFlowsComplete(R)  THEN Add("flows")      ELSE TRUE

Post ==
    /\ ndJsonSerialize("buildgraph_fail.ndjson", SetToSeq(TLCGet(1)))
    /\ PrintT(<<"BUILDGRAPHOBS_RESULT", NR, Cardinality(TLCGet(1)),
                Cardinality({f \in TLCGet(1) : f.attrib = "other"})>>)

=============================================================================
