----------------------------- MODULE ParMapObs ------------------------------
(***************************************************************************)
(* C20, binding B4/B3: the properties of ParMap.tla evaluated on the REAL  *)
(* funcutil.MapParallel.  harness/cmd/parmap replays every schedule that   *)
(* TLC exported from ParMap.tla (completion orders of the f calls; f is    *)
(* the scheduler gate) under the race detector and records one record per  *)
(* replay in runs.ndjson:                                                  *)
(*   [id, n, w, a (input values), order (requested completion order, 1-    *)
(*    based indices), forder (observed completion order), returned,        *)
(*    res (returned slice), seq (result of the real sequential Map),       *)
(*    gbase / gafter (runtime.NumGoroutine before the call / after it      *)
(*    returned and the pool had time to drain), fgor (number of distinct   *)
(*    goroutines that executed f), oncaller (f ran on the caller's         *)
(*    goroutine), maxcalls / mincalls (calls of f per element),            *)
(*    races (race-detector reports printed while the schedule ran; added   *)
(*    by checks/c20.py), crashed (the process died, e.g. "send on closed   *)
(*    channel")]                                                           *)
(* (gated = FALSE: free-running stress run, no order is imposed).         *)
(* One TLC state per record.  Failures are accumulated and written to      *)
(* parmap_fail.ndjson; the check turns them into VIOLATION lines           *)
(* (kinds "order", "noreturn", "leak", "race") or spec-drift notes (kind   *)
(* "drift").                                                               *)
(***************************************************************************)
EXTENDS Integers, Sequences, FiniteSets, TLC, Json, SequencesExt, ParMapDefs

Runs == ndJsonDeserialize("runs.ndjson")
NR   == Len(Runs)

VARIABLE p
Init == p \in 1 .. NR
Next == UNCHANGED p
Spec == Init /\ [][Next]_p

R == Runs[p]

\* "its parallel map returns exactly the results of the sequential map in input order"
ObsResultOrder == R.returned => (R.res = MapSeq(R.a) /\ R.seq = MapSeq(R.a))
\* "never deadlocks": the model proves that every fair behaviour returns, so must the replay
ObsReturns     == R.returned
\* "or leaks goroutines": ParMap!NoLeak
ObsNoLeak      == R.returned => R.gafter <= R.gbase
\* "performs no unsynchronised concurrent access to shared state" (the race detector watched the replay)
ObsNoRace      == R.races = 0
\* Role A conformance (drift only, never a violation): the schedule was really enforced, the pool has at
\* most max(1, numRoutines) workers, f runs once per element and never on the caller's goroutine
ObsConforms    == R.returned => /\ (R.gated => R.forder = R.order)
                                /\ R.fgor <= EffRoutines(R.w)
                                /\ (R.n > 0 => (R.maxcalls = 1 /\ R.mincalls = 1))
                                /\ ~R.oncaller

Fail(kind) == [kind |-> kind, id |-> R.id, n |-> R.n, w |-> R.w, order |-> R.order]

ASSUME TLCSet(1, {})
Collect ==
    /\ IF ~ObsResultOrder THEN TLCSet(1, TLCGet(1) \cup {Fail("order")})    ELSE TRUE
    /\ IF ~ObsReturns     THEN TLCSet(1, TLCGet(1) \cup {Fail("noreturn")}) ELSE TRUE
    /\ IF ~ObsNoLeak      THEN TLCSet(1, TLCGet(1) \cup {Fail("leak")})     ELSE TRUE
    /\ IF ~ObsNoRace      THEN TLCSet(1, TLCGet(1) \cup {Fail("race")})     ELSE TRUE
    /\ IF ~ObsConforms    THEN TLCSet(1, TLCGet(1) \cup {Fail("drift")})    ELSE TRUE

Post ==
    /\ ndJsonSerialize("parmap_fail.ndjson", SetToSeq(TLCGet(1)))
    /\ PrintT(<<"PARMAPOBS_RESULT", NR, Cardinality(TLCGet(1))>>)

=============================================================================
