----------------------------- MODULE Terminates -----------------------------
(***************************************************************************)
(* C07 -- "The analyses terminate without crashing on every well-typed     *)
(* program" (Role D, evaluated on outcomes recorded from the REAL process, *)
(* harness/cmd/crashrun).                                                  *)
(*                                                                         *)
(* One TLC state per analysed program.  A record carries, for every        *)
(* analysis that was started on the program, how the real code came back:  *)
(*   "result" / "error"   it returned (a result or an error)               *)
(*   "panic"              a recovered panic (stack recorded)               *)
(*   "fatal"              the process died (Go fatal error, panic in a     *)
(*                        worker goroutine), nothing returned              *)
(*   "timeout"            no return within the bound (reproduced)          *)
(*                                                                         *)
(*   Returns  == every started analysis returned                           *)
(*   Covered  == every analysis REQUIRED for the program (field `req`)     *)
(*               has an outcome                                            *)
(*               (a harness that silently skipped an analysis is not a     *)
(*               pass: reported as "missing", which the check turns into   *)
(*               exit 2)                                                   *)
(*                                                                         *)
(* Failures are accumulated in a TLC register and written by the           *)
(* POSTCONDITION (one run reports every failing program).                  *)
(***************************************************************************)
EXTENDS Naturals, Sequences, FiniteSets, TLC, Json, SequencesExt

Recs        == ndJsonDeserialize("outcomes.ndjson")   \* [prog, req: <<analysis>>, outs: <<[a, o]>>]
Required(q) == {Recs[q].req[j] : j \in 1 .. Len(Recs[q].req)}

Returned(o) == o \in {"result", "error"}
Outcomes == {"result", "error", "panic", "fatal", "timeout"}

VARIABLE p
Init == p \in 1 .. Len(Recs)
Next == UNCHANGED p /\ FALSE
Spec == Init /\ [][Next]_p

Outs(q)    == {Recs[q].outs[j] : j \in 1 .. Len(Recs[q].outs)}
Started(q) == {x.a : x \in Outs(q)}

Returns(q) == \A x \in Outs(q) : Returned(x.o)
Covered(q) == Required(q) \subseteq Started(q)

Fail(q, a, o) == [p |-> q, prog |-> Recs[q].prog, a |-> a, o |-> o]

Fails(q) == {Fail(q, x.a, x.o) : x \in {y \in Outs(q) : ~Returned(y.o)}}
            \cup {Fail(q, a, "missing") : a \in Required(q) \ Started(q)}

TypeOK == \A x \in Outs(p) : x.o \in Outcomes

ASSUME TLCSet(1, {})
Collect == TLCSet(1, TLCGet(1) \cup Fails(p))

Post == LET q == SetToSeq(TLCGet(1))
            nok == Cardinality({j \in 1 .. Len(Recs) : Returns(j) /\ Covered(j)})
        IN /\ ndJsonSerialize("terminates_fail.ndjson", q)
           /\ PrintT(<<"TERMINATES_RESULT", Len(Recs), nok, Len(q)>>)
=============================================================================
