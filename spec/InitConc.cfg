SPECIFICATION Spec
INVARIANTS NoRace WgNonNegative
PROPERTIES Joins
