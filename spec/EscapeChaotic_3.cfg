SPECIFICATION FairChaotic
CONSTANTS
  N = 3
INVARIANTS
  BlockEndsWF
  TerminalIsFix
PROPERTIES
  Ascending
  Termination
CONSTRAINT CollectTerminal
POSTCONDITION PostChaotic
CHECK_DEADLOCK FALSE
