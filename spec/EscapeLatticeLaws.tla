-------------------------- MODULE EscapeLatticeLaws --------------------------
(***************************************************************************)
(* C15, exhaustive design-level part (nothing here observes the code; the  *)
(* binding is EscapeLatticeTrace).                                         *)
(*                                                                         *)
(*  SpecLaws    one state per (intrinsic assignment I, well-formed graph   *)
(*              g); the invariants quantify over all well-formed h (and k) *)
(*              : idempotent, commutative, associative, upper bound, least *)
(*              upper bound, order induced by the join, result well-formed,*)
(*              transcription MergeAlgo = declarative MergeD, AddEdge and  *)
(*              MergeNodeStatus = "add, then Close" and monotone.          *)
(*  SpecClose   one state per raw graph: Close is a closure operator       *)
(*              (extensive, idempotent, monotone, least closed graph above)*)
(***************************************************************************)
EXTENDS EscapeGraphSpace

VARIABLES I, g, ph
vars == <<I, g, ph>>

-----------------------------------------------------------------------------
(* SpecLaws.  The universe is generated in two steps (ph 0 -> 1: nodes and status, 1 -> 2: edges) only so that
   TLC's workers share the evaluation of the invariants; the laws are stated for the states with ph = 2. *)
InitLaws == I \in IntrSet /\ g = EmptyGraph /\ ph = 0
NextLaws ==
    /\ I' = I
    /\ \/ /\ ph = 0 /\ ph' = 1
          /\ \E D \in SUBSET Nodes : \E s \in [D -> 0 .. 2] : g' = [dom |-> D, s |-> s, e |-> {}]
       \/ /\ ph = 1 /\ ph' = 2
          /\ \E E \in SUBSET EdgesOver(g.dom) : g' = [g EXCEPT !.e = E]
          /\ g' \in WF(I)
SpecLaws == InitLaws /\ [][NextLaws]_vars
Ready == ph = 2

M(x, y) == MergeD(I, x, y)

Idempotent  == Ready => M(g, g) = g
Commutative == Ready => \A h \in WF(I) : M(g, h) = M(h, g)
UpperBound  == Ready => \A h \in WF(I) : Leq(g, M(g, h)) /\ Leq(h, M(g, h))
ResultWF    == Ready => \A h \in WF(I) : WellFormed(I, M(g, h))
OrderIsJoin == Ready => \A h \in WF(I) : Leq(g, h) <=> (M(g, h) = h)
AlgoIsDecl  == Ready => \A h \in WF(I) : MergeAlgo(I, g, h) = M(g, h)
UnitLaw     == Ready => M(EmptyGraph, g) = g /\ M(g, EmptyGraph) = g
Associative == (Ready /\ Triples) => \A h, k \in WF(I) : M(M(g, h), k) = M(g, M(h, k))
LeastUpper  == (Ready /\ Triples) => \A h, k \in WF(I) : (Leq(g, k) /\ Leq(h, k)) => Leq(M(g, h), k)
LeqPartial  == Ready =>
               /\ Leq(g, g)
               /\ \A h \in WF(I) : (Leq(g, h) /\ Leq(h, g)) => g = h
               /\ Triples => \A h, k \in WF(I) : (Leq(g, h) /\ Leq(h, k)) => Leq(g, k)

NaiveAddEdge(x, a, b, F) ==
    LET x1 == AddNode(I, AddNode(I, x, a), b) IN Close([x1 EXCEPT !.e = @ \cup {<<a, b, f>> : f \in F}])
NaiveRaise(x, n, st) == Close([x EXCEPT !.s[n] = Max2(@, st)])

AddEdgeLaws ==
    Ready =>
    \A a, b \in Nodes, F \in (SUBSET Flags) \ {{}} :
        (SelfLoops \/ a # b) =>
            /\ AddEdge(I, g, a, b, F) = NaiveAddEdge(g, a, b, F)
            /\ WellFormed(I, AddEdge(I, g, a, b, F))
            /\ Leq(g, AddEdge(I, g, a, b, F))
            /\ \A h \in WF(I) : Leq(g, h) => Leq(AddEdge(I, g, a, b, F), AddEdge(I, h, a, b, F))

RaiseLaws ==
    Ready =>
    \A n \in g.dom, st \in 0 .. 2 :
        /\ MergeNodeStatus(g, n, st) = NaiveRaise(g, n, st)
        /\ WellFormed(I, MergeNodeStatus(g, n, st))
        /\ \A h \in WF(I) : Leq(g, h) => Leq(MergeNodeStatus(g, n, st), MergeNodeStatus(h, n, st))

-----------------------------------------------------------------------------
(* SpecClose: raw graphs (not necessarily closed); I plays no role *)
InitClose == I = [n \in Nodes |-> 0] /\ g = EmptyGraph /\ ph = 0
NextClose ==
    /\ I' = I
    /\ \/ /\ ph = 0 /\ ph' = 1
          /\ \E D \in SUBSET Nodes : \E s \in [D -> 0 .. 2] : g' = [dom |-> D, s |-> s, e |-> {}]
       \/ /\ ph = 1 /\ ph' = 2
          /\ \E E \in SUBSET EdgesOver(g.dom) : g' = [g EXCEPT !.e = E]
SpecClose == InitClose /\ [][NextClose]_vars

CloseExtensive  == Ready => Leq(g, Close(g)) /\ Closed(Close(g)) /\ Close(g).dom = g.dom /\ Close(g).e = g.e
CloseIdempotent == Ready => Close(Close(g)) = Close(g)
CloseFixesClosed == (Ready /\ Closed(g)) => Close(g) = g
CloseMonotone   == Ready => \A h \in RawGraphs : Leq(g, h) => Leq(Close(g), Close(h))
CloseLeast      == Ready => \A h \in RawGraphs : (Closed(h) /\ Leq(g, h)) => Leq(Close(g), h)

-----------------------------------------------------------------------------
PostCount == PrintT(<<"LAWS_RESULT", [J \in IntrSet |-> Cardinality(WF(J))], Cardinality(RawGraphs)>>)
=============================================================================
