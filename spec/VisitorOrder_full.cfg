SPECIFICATION Spec
CONSTANTS N = 5
 MaxE = 5
 KeyHasPrev = TRUE
INVARIANT OrderIndependent
INVARIANT NoSpurious
CHECK_DEADLOCK FALSE
