\* default configuration (the check generates one cfg per (N, W) pair, see checks/c20.py)
SPECIFICATION Spec
CONSTANTS N = 3
 W = 3
 Hist = FALSE
INVARIANTS ResultOrder NoSendOnClosed NoPanic WgNonNegative OnlyAfterAll
PROPERTIES Returns NoLeak
