------------------------------- MODULE IntraDU -------------------------------
(***************************************************************************)
(* C08 -- "Function summaries cover every direct def-use chain of the      *)
(* function".                                                              *)
(*                                                                         *)
(* Role D.  Input: one record per function the REAL intra-procedural       *)
(* analysis of /repo summarised (harness/cmd/dudump): the SSA instructions *)
(* (kind, operands), the origins and targets with the node of the real     *)
(* summary each corresponds to, the Out() edges of the origin nodes, and   *)
(* for a sample of functions the final marks per instruction and value.    *)
(* One TLC state per function.                                             *)
(*                                                                         *)
(*   Chain     reflexive-transitive closure of the operand relation        *)
(*             restricted to the value-computing instruction kinds of the  *)
(*             statement (arithmetic, conversions, field / index           *)
(*             selection, phi, extraction, interface boxing, type          *)
(*             assertion, slicing, handled builtins) -- NOT loads, stores, *)
(*             address computations, channel operations; a map lookup      *)
(*             m[k] (also comma-ok) is an index selection on the map value *)
(*   Required  {(origin, target) : the origin's value reaches the target's *)
(*             value through Chain}, tuple-index aware: a result i of a    *)
(*             call returning a tuple starts at the Extract #i of it       *)
(*   Covered   every required pair is an edge origin node -> target node   *)
(*             of the real summary (with tuple index i for call origins)   *)
(*   Closed    marks(i, v) \subseteq marks(j, v) for every CFG successor   *)
(*             instruction j of i (final abstract state, origin marks)     *)
(*                                                                         *)
(* Counterexamples are accumulated in a TLC register and written by the    *)
(* POSTCONDITION.                                                          *)
(***************************************************************************)
EXTENDS Integers, Sequences, FiniteSets, TLC, Json, SequencesExt

Funcs == ndJsonDeserialize("funcs.ndjson")
NF    == Len(Funcs)

VARIABLE p
vars == <<p>>

Rng(s) == {s[k] : k \in 1 .. Len(s)}

-----------------------------------------------------------------------------
(* Items are <<value, component>>: component -1 = the value itself, c >= 0 = component c of a tuple value. *)

Unary == {"UnOp", "Convert", "MultiConvert", "ChangeType", "ChangeInterface", "SliceToArrayPointer",
          "MakeInterface", "TypeAssert",           \* arithmetic (unary), conversions, interface boxing, assertion
          "Field", "Index", "LookupString", "LookupMap", \* field / index selection on a VALUE: operand 1 is the aggregate
                                                     \* (a map lookup m[k] selects from the map VALUE m; the key is not data)
          "Slice",                                   \* slicing: operand 1 is the sliced value
          "Builtin:len", "Builtin:real", "Builtin:imag", "Builtin:ssa:wrapnilchk", "InvokeError"}
AllOps == {"BinOp", "Phi",                           \* arithmetic (binary), phi
           "Builtin:append", "Builtin:min", "Builtin:max", "Builtin:complex"}   \* handled builtins computing a value
\* deliberately NOT chain kinds: Load, Recv, FieldAddr, IndexAddr, Next, Range, Select, Alloc, Make*,
\* Call (an origin of its own), Builtin:cap (documented design decision of the analysis: "taking the capacity does
\* not propagate taint"), Builtin:copy / close / delete / clear / print / println / recover (no value computed from
\* the operands)

\* the items an item is directly computed from.  `off` switches single step classes off (used only to attribute a
\* counterexample to a known construct, see Construct below):
\*   "taok"   component 0 of a comma-ok type assertion <- the asserted value
\*   "nary"   min / max / complex / append with other than 2 operands
PredItems(F, it, off) ==
    LET v == it[1]
        c == it[2]
    IN IF v = 0 \/ v > F.ni THEN {}                            \* parameter / free variable / untracked: a leaf
       ELSE LET ins == F.ins[v] IN
            IF c >= 0                                            \* component c of a tuple
            THEN IF ins.k = "TypeAssertOk" /\ c = 0 /\ "taok" \notin off THEN {<<ins.ops[1], -1>>}
                 ELSE IF ins.k = "LookupMapOk" /\ c = 0 THEN {<<ins.ops[1], -1>>}    \* v, ok := m[k]: v is selected from m
                 ELSE {}
            ELSE CASE ins.k \in Unary  -> {<<ins.ops[1], -1>>}
                   [] ins.k \in AllOps ->
                        IF "nary" \in off /\ ins.k \in {"Builtin:append", "Builtin:min", "Builtin:max", "Builtin:complex"}
                                       /\ Len(ins.ops) # 2
                        THEN {} ELSE {<<ins.ops[k], -1>> : k \in 1 .. Len(ins.ops)}
                   [] ins.k = "Extract" -> {<<ins.ops[1], ins.x>>}
                   [] OTHER -> {}

RECURSIVE Back(_, _, _, _)
Back(F, frontier, seen, off) ==
    IF frontier = {} THEN seen
    ELSE LET nxt == {x \in UNION {PredItems(F, it, off) : it \in frontier} : x[1] # 0} \ seen
         IN Back(F, nxt, seen \cup nxt, off)

\* everything the item / the value v is computed from through Chain (reflexive)
ChainOfItem(F, it, off) == Back(F, {it}, {it}, off)
ChainOf(F, v) == IF v = 0 THEN {} ELSE ChainOfItem(F, <<v, -1>>, {})

OriginItem(o) == IF o.k = "call" /\ o.t THEN <<o.v, o.i>> ELSE <<o.v, -1>>

\* a target counts when its instruction can execute (block reachable from the entry)
Targets(F) == {t \in Rng(F.targets) : t.r /\ t.v # 0}

Required(F) ==
    UNION {LET ch == ChainOf(F, t.v)
           IN {<<o, t>> : o \in {x \in Rng(F.origins) : x.v # 0 /\ x.n # t.n /\ OriginItem(x) \in ch}}
           : t \in Targets(F)}

EdgeSet(F) == {<<e[1], e[2], e[3]>> : e \in Rng(F.edges)}
HasEdge(F, E, o, t) ==
    IF o.k = "call" THEN <<o.n, t.n, o.i>> \in E
    ELSE \E e \in E : e[1] = o.n /\ e[2] = t.n

\* kinds of the instructions on some chain from origin o to target value v (only evaluated for counterexamples)
PathKinds(F, o, v) ==
    {F.ins[x[1]].k : x \in {y \in ChainOf(F, v) : y[1] <= F.ni /\ OriginItem(o) \in ChainOfItem(F, y, {})}}

(***************************************************************************)
(* Attribution of a counterexample to the construct of a known finding     *)
(* (known_findings.d/C08.json); "" = none, i.e. a plain violation.         *)
(*   ret-index   addReturnEdge drops tuple indices greater than the number *)
(*               of Return instructions of the function                    *)
(*   dup-arg     the same SSA value is passed at two argument positions of *)
(*               one call: FindArg returns the first position, the later   *)
(*               argument node never gets an edge                          *)
(*   taok-index  every chain passes through component 0 of a comma-ok type *)
(*               assertion and the origin is result i > 0 of a call: the   *)
(*               tuple-index filter of DoExtract drops the mark            *)
(*   nary        every chain passes through min/max/complex/append with    *)
(*               other than two operands (doBuiltinCall returns false)     *)
(***************************************************************************)
Construct(F, o, t) ==
    IF t.k = "ret" /\ t.i > F.nretins THEN "ret-index"
    ELSE IF t.k = "arg" /\ \E u \in Rng(F.targets) : u.k = "arg" /\ u.c = t.c /\ u.v = t.v /\ u.i < t.i THEN "dup-arg"
    ELSE IF o.k = "call" /\ o.i > 0 /\ OriginItem(o) \notin ChainOfItem(F, <<t.v, -1>>, {"taok"}) THEN "taok-index"
    ELSE IF OriginItem(o) \notin ChainOfItem(F, <<t.v, -1>>, {"nary"}) THEN "nary"
    ELSE ""

Fail(F, kind, o, t, a, b, kinds) ==
    [fn |-> F.fn, prog |-> F.prog, kind |-> kind, construct |-> IF kind = "uncovered" THEN Construct(F, o, t) ELSE "", ok |-> o.k, oi |-> o.i, onode |-> o.n, ov |-> o.v,
     tk |-> t.k, ti |-> t.i, tnode |-> t.n, tv |-> t.v, tins |-> t.a, a |-> a, b |-> b, kinds |-> kinds,
     nretins |-> F.nretins, nresults |-> F.nresults]

NoO == [k |-> "", i |-> 0, n |-> 0, v |-> 0]
NoT == [k |-> "", i |-> 0, n |-> 0, v |-> 0, a |-> 0, c |-> 0]

CoveredFails(F) ==
    LET E == EdgeSet(F)
    IN {Fail(F, "uncovered", r[1], r[2], 0, 0, PathKinds(F, r[1], r[2].v)) :
            r \in {x \in Required(F) : ~HasEdge(F, E, x[1], x[2])}}

Covered(F) == CoveredFails(F) = {}

-----------------------------------------------------------------------------
(* Closed: origins attached to a value at a program point are attached at every later point *)
MarksAt(F, i, v) ==
    LET S == {e \in Rng(F.marks[i]) : e.v = v}
    IN IF S = {} THEN {} ELSE Rng((CHOOSE e \in S : TRUE).m)

ClosedFails(F) ==
    IF ~F.hasmarks THEN {}
    ELSE UNION {UNION {{Fail(F, "not-closed", NoO, NoT, i, j, {F.ins[i].k, F.ins[j].k, "value:" \o ToString(e.v)}) :
                           e \in {x \in Rng(F.marks[i]) : ~(Rng(x.m) \subseteq MarksAt(F, j, x.v))}}
                       : j \in {y \in Rng(F.succ[i]) : F.ins[y].r}}
                : i \in {x \in 1 .. F.ni : F.ins[x].r}}

Closed(F) == ClosedFails(F) = {}

Stats(F, idx) ==
    [idx |-> idx, fn |-> F.fn, prog |-> F.prog, ni |-> F.ni, origins |-> Len(F.origins), targets |-> Cardinality(Targets(F)),
     required |-> Cardinality(Required(F)),
     chained |-> Cardinality({r \in Required(F) : OriginItem(r[1]) # <<r[2].v, -1>>}),
     marks |-> IF F.hasmarks THEN 1 ELSE 0,
     markpoints |-> IF F.hasmarks THEN Cardinality(UNION {{<<i, e.v>> : e \in Rng(F.marks[i])} : i \in 1 .. F.ni}) ELSE 0]

-----------------------------------------------------------------------------
Init == p \in 1 .. NF
Next == FALSE /\ p' = p
Spec == Init /\ [][Next]_vars

ASSUME TLCSet(1, {}) /\ TLCSet(2, {}) /\ TLCSet(3, {})

Collect ==
    /\ TLCSet(1, TLCGet(1) \cup CoveredFails(Funcs[p]) \cup ClosedFails(Funcs[p]))
    /\ TLCSet(2, TLCGet(2) \cup {Stats(Funcs[p], p)})
    /\ TLCSet(3, TLCGet(3) \cup {Funcs[p].ins[x[1]].k : x \in {y \in UNION {ChainOf(Funcs[p], t.v) : t \in Targets(Funcs[p])} :
                                                                y[1] <= Funcs[p].ni}})

Post ==
    /\ ndJsonSerialize("du_fail.ndjson", SetToSeq(TLCGet(1)))
    /\ ndJsonSerialize("du_stats.ndjson", SetToSeq(TLCGet(2)))
    /\ ndJsonSerialize("du_kinds.ndjson", SetToSeq({[k |-> x] : x \in TLCGet(3)}))
    /\ PrintT(<<"INTRADU_RESULT", NF, Cardinality(TLCGet(2)), Cardinality(TLCGet(1))>>)

=============================================================================
