SPECIFICATION Spec
CONSTANTS MaxDec = 6
  MaxFrames = 12
  MaxGo = 5
VIEW View
CONSTRAINT Collect
POSTCONDITION Post
CHECK_DEADLOCK FALSE
