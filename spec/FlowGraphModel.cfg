SPECIFICATION Spec
CONSTANT InPerIndex = FALSE
INVARIANT Consistent
CHECK_DEADLOCK FALSE
