SPECIFICATION Spec
CONSTANTS MaxDec = 6
  MaxFrames = 12
  MaxGo = 5
INVARIANT Sound
CHECK_DEADLOCK FALSE
