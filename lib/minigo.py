"""MiniGo: programs in 3-address Go form, emitted from ONE statement list as
  (i)  Go source text (main.go; analysed by the real tools AND compiled/executed natively), and
  (ii) flat MiniGo code (JSON) interpreted by spec/GoSem.tla.

Every role call (source, sink, sanitize, validate, origin, bt, probe, gate) sits on its own source line;
its `site` in the flat code is that line number, which is also how analyzer positions and native
runtime.Caller lines are matched.

Flat instruction = record with uniform fields:
  op : string   d : dest var ("" none)   ds : list of dest vars (calls)   a : list of operand var names
  s  : auxiliary name (function, field, global, type, key id)   n : int (site / index)   l : list of jump targets
Operands: a variable name, "_" (clean constant datum), "_nil".
"""
import json

SCALAR = {"string", "int", "bool", "error"}


class Var:
    def __init__(self, name, typ, cell=False):
        self.name, self.typ, self.cell = name, typ, cell


def is_struct(t):
    return t in ("box", "pair")


def zero_desc(t):
    """type descriptor understood by GoSem!Zero"""
    if t in SCALAR:
        return "D"
    if t == "box":
        return "box"
    if t == "pair":
        return "pair"
    if t.startswith("[2]"):
        return "A2"
    return "P"  # pointers, slices, maps, interfaces, funcs, chans: nil


STRUCTS = {
    "box": [("s", "string"), ("t", "string"), ("p", "*box"), ("i", "any"), ("b", "[]byte")],
    "pair": [("a", "box"), ("s", "string")],
}

TYPE_DECLS = '''type box struct {
	s string
	t string
	p *box
	i any
	b []byte
}

type pair struct {
	a box
	s string
}

type getter interface {
	get() string
	put(string)
}

type namer interface {
	get() string
}

type putter interface {
	put(string)
}

type impA struct{ v string }

func (r *impA) get() string {
	enter()
	return r.v
}
func (r *impA) put(x string) {
	enter()
	r.v = x
}

type impB struct{ w, v string }

func (r *impB) get() string {
	enter()
	return r.v
}
func (r *impB) put(x string) {
	enter()
	r.v = x
}

type valT struct{ v string }

func (r valT) get() string {
	enter()
	return r.v
}
func (r valT) put(x string) {
	enter()
}

type bus interface {
	sub(f func(string) string)
	fire(x string) string
}

type busA struct{ h func(string) string }

func (r *busA) sub(f func(string) string) {
	enter()
	r.h = f
}
func (r *busA) fire(x string) string {
	enter()
	return r.h(x)
}

type gbox[T any] struct {
	s string
	z T
}

func (r gbox[T]) get() string {
	enter()
	return r.s
}
func (r gbox[T]) put(x string) {
	enter()
}
'''


class Func:
    """builder of one function.  Statements are appended through the methods; emission happens in Prog.render()."""

    def __init__(self, prog, name, params=(), results=(), named=(), frees=(), recv=None):
        self.prog = prog
        self.name = name
        self.params = list(params)      # [(name, type)]
        self.results = list(results)    # [type]
        self.named = list(named)        # [(name, type)] named results (cells)
        self.frees = list(frees)        # [(name, type)] captured variables of a closure (cells of the parent)
        self.receiver = recv            # (name, type) for methods
        self.vars = {}
        self.body = []                  # nested statement list
        self.stack = [self.body]
        self.ntmp = 0
        self.parent = None
        for n, t in self.params:
            self.vars[n] = Var(n, t, cell=is_struct(t) or t.startswith("[2]"))
        for n, t in self.named:
            self.vars[n] = Var(n, t, cell=True)
        self.locals = []
        prog.funcs[name] = self

    # ------------------------------------------------------------ declarations
    def var(self, name, typ):
        if name in self.vars:
            return name
        v = Var(name, typ, cell=is_struct(typ) or typ.startswith("[2]"))
        self.vars[name] = v
        self.locals.append(v)
        return name

    def lookup(self, name):
        f = self
        while f is not None:
            if name in f.vars:
                return f.vars[name], f
            f = f.parent
        if name in self.prog.globals:
            return self.prog.globals[name], None
        raise KeyError("unknown variable %s in %s" % (name, self.name))

    def mark_cell(self, name):
        v, _ = self.lookup(name)
        v.cell = True

    def st(self, kind, **kw):
        kw["k"] = kind
        self.stack[-1].append(kw)
        return kw

    # ------------------------------------------------------------ statements (3-address Go)
    def source(self, d):              self.st("src", d=d)
    def source_t(self, d, fn):        self.st("src", d=d, fn=fn)   # other source function (e.g. typed)
    def sink(self, x, fn="sink"):     self.st("sink", a=x, fn=fn)
    def origin(self, d):              self.st("origin", d=d)
    def bt(self, xs):                 self.st("bt", xs=list(xs))
    def sanitize(self, d, x):         self.st("san", d=d, a=x)
    def validate(self, d, x):         self.st("val", d=d, a=x)          # d bool
    def validate_err(self, d, x):     self.st("valerr", d=d, a=x)       # d error (nil = validated)
    def probe(self, x):               self.st("probe", a=x)
    def not_(self, d, x):             self.st("not", d=d, a=x)            # d = !x (bools)
    def copy(self, d, x):             self.st("copy", d=d, a=x)
    def lit(self, d, text="lit"):     self.st("lit", d=d, text=text)
    def cat(self, d, x, y):           self.st("cat", d=d, a=x, b=y)       # y may be "_" (literal)
    def maxlit(self, d, x, nlit=1):   self.st("maxlit", d=d, a=x, nlit=nlit)   # d = max(x, "0"[, "1"]): natively x
    def tobytes(self, d, x):          self.st("tobytes", d=d, a=x)
    def tostr(self, d, x):            self.st("tostr", d=d, a=x)
    def newbox(self, d):              self.st("newbox", d=d)
    def newstr(self, d):              self.st("newstr", d=d)
    def fstore(self, p, f, x):        self.st("fstore", p=p, f=f, a=x)
    def fload(self, d, p, f):         self.st("fload", d=d, p=p, f=f)
    def newimp(self, d, impl):        self.st("newimp", d=d, impl=impl)   # d = &impA{} (d of type *impA)
    def toiface(self, d, x, ityp, impl): self.st("toiface", d=d, a=x, ityp=ityp, impl=impl)   # d = namer(x)
    def stlit(self, d, f, x):         self.st("stlit", d=d, f=f, a=x)     # d = box{f: x} (whole-value assignment)
    def store(self, p, x):            self.st("store", p=p, a=x)
    def load(self, d, p):             self.st("load", d=d, p=p)
    def addr(self, d, x):
        self.mark_cell(x)
        self.st("addr", d=d, a=x)
    def faddr(self, d, p, f):         self.st("faddr", d=d, p=p, f=f)    # d = &p.f
    def structcopy(self, d, x):       self.st("copy", d=d, a=x)           # struct-typed vars: value copy
    def mkslice(self, d, xs, typ="string"): self.st("mkslice", d=d, xs=list(xs), typ=typ)
    def idxstore(self, s, i, x):      self.st("idxstore", p=s, i=i, a=x)
    def idxload(self, d, s, i):       self.st("idxload", d=d, p=s, i=i)
    def append(self, d, s, xs):       self.st("append", d=d, p=s, xs=list(xs))
    def appendspread(self, d, s, t):  self.st("appendspread", d=d, p=s, a=t)
    def copysl(self, dst, src):       self.st("copysl", p=dst, a=src)
    def rangeacc(self, d, s, what="val"): self.st("rangeacc", d=d, p=s, what=what)   # d += each key/val
    def mkmap(self, d):               self.st("mkmap", d=d)
    def mapput(self, m, key, x, kid=None):   self.st("mapput", p=m, key=key, a=x, kid=kid)  # key: var or "_lit:k1"
    def mapget(self, d, m, key, kid=None):   self.st("mapget", d=d, p=m, key=key, kid=kid)
    def box(self, d, x):              self.st("box", d=d, a=x)             # d = any(x)
    def assert_(self, d, x, typ):     self.st("assert", d=d, a=x, typ=typ)
    def mkiface(self, d, impl, x):    self.st("mkiface", d=d, impl=impl, a=x)   # d = &impA{v: x} as getter
    def invoke(self, ds, i, m, xs):   self.st("invoke", ds=list(ds), p=i, m=m, xs=list(xs))
    def call(self, ds, fn, xs):       self.st("call", ds=list(ds), fn=fn, xs=list(xs))
    def callv(self, ds, v, xs):       self.st("callv", ds=list(ds), p=v, xs=list(xs))
    def fnval(self, d, fn):           self.st("fnval", d=d, fn=fn)         # d = fn (function value)
    def methodval(self, d, x, m):     self.st("methodval", d=d, a=x, m=m)  # d = x.m
    def defer_call(self, fn, xs):     self.st("defer", fn=fn, xs=list(xs))
    def defer_clo(self, v):           self.st("deferv", p=v)
    def go_call(self, fn, xs):        self.st("go", fn=fn, xs=list(xs))
    def go_clo(self, v):              self.st("gov", p=v)
    def gstore(self, g, x):           self.st("copy", d=g, a=x)
    def gload(self, d, g):            self.st("copy", d=d, a=g)
    def ret(self, xs=()):             self.st("ret", xs=list(xs))
    def ret_zero(self):
        """return the zero value of every result"""
        if self.named:
            self.st("ret", xs=["_nil" if zero_desc(t) == "P" else "_" for _, t in self.named], zero=True)
        else:
            self.st("ret", xs=["_nil" if zero_desc(t) == "P" else "_" for t in self.results], zero=True)
    def panic(self, x="_"):           self.st("panic", a=x)
    def recover(self, d):             self.st("recover", d=d)
    def mkchan(self, d, n=1, typ="string"): self.st("mkchan", d=d, n=n, typ=typ)
    def selrecv(self, d, c, q):       self.st("selrecv", d=d, p=c, q=q)   # select { case <-q: ; case d = <-c: } (q is never ready)
    def send(self, c, x):             self.st("send", p=c, a=x)
    def recv(self, d, c):             self.st("recv", d=d, p=c)
    def gate(self, k):                self.st("gate", n=k)
    def raw(self, go):                self.st("raw", go=go)                # Go-only line without semantics (comments)

    def closure(self, d, name, params=(), results=(), captures=()):
        """d = func(params) results { ... } ; returns the Func to fill in.  captures: parent variable names."""
        for c in captures:
            self.mark_cell(c)
            # a variable owned by an outer function must be captured by every closure in between
            g = self
            while c not in g.vars and getattr(g, "is_closure", False):
                if c not in g.captures:
                    g.captures.append(c)
                g = g.parent
        f = Func(self.prog, name, params=params, results=results)
        f.parent = self
        f.is_closure = True
        f.captures = list(captures)
        self.st("mkclo", d=d, fn=name, caps=list(captures), f=f)
        return f

    # control flow
    def if_oracle(self):
        s = self.st("if", cond="oracle", then=[], els=[])
        return _If(self, s)

    def if_var(self, x, neg=False):
        """if x { } / if !x { }  (x a bool produced by validate)"""
        s = self.st("if", cond="var", a=x, neg=neg, then=[], els=[])
        return _If(self, s)

    def if_errnil(self, x, neg=False):
        """if x == nil { } / if x != nil { }  (x an error produced by validate_err)"""
        s = self.st("if", cond="errnil", a=x, neg=neg, then=[], els=[])
        return _If(self, s)

    def loop_oracle(self):
        s = self.st("for", body=[])
        return _Block(self, s["body"])


class _Block:
    def __init__(self, f, lst):
        self.f, self.lst = f, lst

    def __enter__(self):
        self.f.stack.append(self.lst)
        return self

    def __exit__(self, *a):
        self.f.stack.pop()


class _If(_Block):
    def __init__(self, f, s):
        super().__init__(f, s["then"])
        self.s = s

    def else_(self):
        return _Block(self.f, self.s["els"])


class Prog:
    def __init__(self, name="p"):
        self.name = name
        self.funcs = {}
        self.globals = {}
        self.order = []
        self.methods = {}   # type -> {method -> func name}
        self.lines = []
        self.meta = {}

    def glob(self, name, typ):
        self.globals[name] = Var(name, typ, cell=True)
        return name

    def func(self, name, params=(), results=(), named=(), recv=None, noenter=False):
        f = Func(self, name, params=params, results=results, named=named, recv=recv)
        f.is_closure = False
        f.noenter = noenter     # call-free accessor: no enter() line in the Go text (the flat code keeps its "enter")
        self.order.append(name)
        return f

    # ------------------------------------------------------------------ rendering
    def render(self):
        """returns (go_source, flat) ; flat = dict for GoSem"""
        self.lines = ["package main", ""]
        self.decl = {}
        self.lines += TYPE_DECLS.split("\n")
        for g, v in self.globals.items():
            self.lines.append("var %s %s" % (g, v.typ))
        self.lines.append("")
        self.lines.append("func resetGlobals() {")
        for g, v in self.globals.items():
            self.lines.append("\tvar z%s %s" % (g, v.typ))
            self.lines.append("\t%s = z%s" % (g, g))
        self.lines.append("}")
        self.lines.append("")
        flat = {"funcs": {}, "globals": [], "methods": {}, "types": FLAT_TYPES}
        for g, v in self.globals.items():
            flat["globals"].append({"name": g, "z": zero_desc(v.typ)})
        self.flatfuncs = flat["funcs"]
        for name in self.order:
            f = self.funcs[name]
            self._emit_func(f, toplevel=True)
        # fixed methods of the type declarations
        import copy
        fixed = copy.deepcopy(FIXED_METHOD_CODE)
        for fn, (idx, text) in CALLSITE_IN_FIXED.items():
            fixed[fn]["code"][idx]["n"] = self.lines.index(text) + 1
        flat["funcs"].update(fixed)
        flat["methods"] = FIXED_METHODS
        # declaration line of every function (closures: the line of the func literal), used to match analyzer facts
        decl = dict(self.decl)
        for i, l in enumerate(self.lines, 1):
            for m in ("sub", "fire"):
                if l.startswith("func (r *busA) %s(" % m):
                    decl["busA.%s" % m] = i
            for recv, tn in (("(r *impA)", "impA"), ("(r *impB)", "impB"), ("(r valT)", "valT")):
                for m in ("get", "put"):
                    if l.startswith("func %s %s(" % (recv, m)):
                        decl["%s.%s" % (tn, m)] = i
            for m in ("get", "put"):
                if l.startswith("func (r gbox[T]) %s(" % m):
                    decl["gboxS.%s" % m] = i
                    decl["gboxN.%s" % m] = i
        flat["decl"] = decl
        flat["inst"] = {fn: FIXED_INST.get(fn, "") for fn in list(flat["funcs"]) + list(decl)}
        flat["noenter"] = sorted(self.decl[n] for n, f_ in self.funcs.items() if getattr(f_, "noenter", False) and n in self.decl)
        flat["main"] = "main"
        flat["meta"] = self.meta
        return "\n".join(self.lines) + "\n", flat

    def _line(self, s):
        self.lines.append(s)
        return len(self.lines)

    def _emit_func(self, f, toplevel, header=None):
        code = []
        f.code = code
        sig_params = ", ".join("%s %s" % (n, t) for n, t in f.params)
        if f.named:
            sig_res = " (" + ", ".join("%s %s" % (n, t) for n, t in f.named) + ")"
        elif len(f.results) == 1:
            sig_res = " " + f.results[0]
        elif f.results:
            sig_res = " (" + ", ".join(f.results) + ")"
        else:
            sig_res = ""
        if toplevel:
            dl = self._line("func %s(%s)%s {" % (f.name, sig_params, sig_res))
        else:
            dl = self._line(header + "func(%s)%s {" % (sig_params, sig_res))
        self.decl[f.name] = dl
        if not getattr(f, "noenter", False):
            self._line("\tenter()")
        code.append(I("enter", n=dl))
        # locals are declared up front (flat scope); cells are allocated in the flat code
        for v in f.locals:
            v.line = self._line("\tvar %s %s" % (v.name, v.typ))
            self._line("\t_ = %s" % v.name)
        # params that became cells (captured / address-taken): copy into a cell
        for n, t in f.params:
            if f.vars[n].cell:
                code.append(I("cellparam", d=n, s=zero_desc(t), n=dl))
        for n, t in f.named:
            code.append(I("newvar", d=n, s=zero_desc(t), n=dl))
        for v in f.locals:
            if v.cell:
                code.append(I("newvar", d=v.name, s=zero_desc(v.typ), n=v.line))
            else:
                code.append(I("zero", d=v.name, s=zero_desc(v.typ)))
        self._emit_block(f, f.body, code, 1)
        # implicit return at the end
        if not f.results and not f.named:
            code.append(I("ret"))
        elif f.named:
            self._line("\treturn")
            code.append(I("retnamed", a=[n for n, _ in f.named]))
        else:
            # functions with results must end in a return statement written by the generator; add a
            # defensive zero return (unreachable if the generator did it)
            zs = ['""' if t == "string" else ("false" if t == "bool" else ("box{}" if t == "box" else ("pair{}" if t == "pair" else ("[2]string{}" if t.startswith("[2]") else "nil")))) for t in f.results]
            self._line("\treturn " + ", ".join(zs))
            zn = []
            for t in f.results:
                f.ntmp += 1
                z = "%%z%d" % f.ntmp
                code.append(I("zero", d=z, s=zero_desc(t)))
                zn.append(z)
            code.append(I("ret", a=zn))
        if toplevel:
            self._line("}")
            self._line("")
        self.flatfuncs[f.name] = {
            "params": [n for n, _ in f.params],
            "frees": getattr(f, "captures", []),
            "named": [n for n, _ in f.named],
            "results": [zero_desc(t) for t in f.results],
            "code": code,
        }

    # operand handling -------------------------------------------------------------------------
    def _use(self, f, code, x):
        """returns the flat operand name holding the VALUE of Go variable x (emits a load for cells)"""
        if x in ("_", "_nil"):
            return x
        v, owner = f.lookup(x)
        if v.cell:
            if is_struct(v.typ) or v.typ.startswith("[2]"):
                # value of a struct variable: load the whole struct
                pass
            f.ntmp += 1
            t = "%%t%d" % f.ntmp
            if owner is None:
                code.append(I("gref", d=t + "r", s=x))
                code.append(I("load", d=t, a=[t + "r"]))
            else:
                code.append(I("load", d=t, a=[x]))
            return t
        return x

    def _ref(self, f, code, x):
        """flat operand holding a POINTER to Go variable x (cells only)"""
        v, owner = f.lookup(x)
        assert v.cell, "address of non-cell %s" % x
        if owner is None:
            f.ntmp += 1
            t = "%%g%d" % f.ntmp
            code.append(I("gref", d=t, s=x))
            return t
        return x

    def _ptr(self, f, code, p):
        """operand usable as a pointer to a struct/array/cell: for a struct-typed variable its cell ref,
        otherwise the value of the pointer variable"""
        v, owner = f.lookup(p)
        if is_struct(v.typ) or v.typ.startswith("[2]"):
            return self._ref(f, code, p)
        return self._use(f, code, p)

    def _def(self, f, code, d):
        """returns (flat dest name, post) ; post() emits the store when d is a cell"""
        if d in ("", "_"):
            return "%drop", (lambda: None)
        v, owner = f.lookup(d)
        if v.cell:
            f.ntmp += 1
            t = "%%d%d" % f.ntmp

            def post():
                r = self._ref(f, code, d)
                code.append(I("store", a=[r, t]))
            return t, post
        return d, (lambda: None)

    # statements ------------------------------------------------------------------------------------
    def _emit_block(self, f, stmts, code, ind):
        tab = "\t" * ind
        for s in stmts:
            k = s["k"]
            _start, _l0 = len(code), len(self.lines) + 1
            self._emit_stmt(f, s, k, code, ind, tab)
            for ins in code[_start:]:
                if not ins.get("ln"):
                    ins["ln"] = _l0

    def _emit_stmt(self, f, s, k, code, ind, tab):
        if True:
            if k == "src":
                d, post = self._def(f, code, s["d"])
                ln = self._line("%s%s = %s()" % (tab, s["d"], s.get("fn", "source")))
                code.append(I("src", d=d, n=ln)); post()
            elif k == "origin":
                d, post = self._def(f, code, s["d"])
                ln = self._line("%s%s = origin()" % (tab, s["d"]))
                code.append(I("origin", d=d, n=ln)); post()
            elif k == "sink":
                a = self._use(f, code, s["a"])
                ln = self._line("%s%s(%s)" % (tab, s["fn"], s["a"]))
                code.append(I("sink", a=[a], n=ln))
            elif k == "bt":
                ops = [self._use(f, code, x) for x in s["xs"]]
                ln = self._line("%sbt%d(%s)" % (tab, len(s["xs"]), ", ".join(argtxt(s["xs"]))))
                code.append(I("bt", a=ops, n=ln))
            elif k == "probe":
                a = self._use(f, code, s["a"])
                ln = self._line("%sprobe(%s)" % (tab, s["a"]))
                code.append(I("probe", a=[a], n=ln))
            elif k == "san":
                a = self._use(f, code, s["a"]); d, post = self._def(f, code, s["d"])
                ln = self._line("%s%s = sanitize(%s)" % (tab, s["d"], s["a"]))
                code.append(I("san", d=d, a=[a], n=ln)); post()
            elif k == "val":
                a = self._use(f, code, s["a"]); d, post = self._def(f, code, s["d"])
                ln = self._line("%s%s = validate(%s)" % (tab, s["d"], s["a"]))
                code.append(I("val", d=d, a=[a], n=ln)); post()
            elif k == "valerr":
                a = self._use(f, code, s["a"]); d, post = self._def(f, code, s["d"])
                ln = self._line("%s%s = validateErr(%s)" % (tab, s["d"], s["a"]))
                code.append(I("val", d=d, a=[a], n=ln)); post()
            elif k == "copy":
                dv, _ = f.lookup(s["d"])
                a = self._use(f, code, s["a"]); d, post = self._def(f, code, s["d"])
                self._line("%s%s = %s" % (tab, s["d"], s["a"]))
                code.append(I("copy", d=d, a=[a])); post()
            elif k == "lit":
                d, post = self._def(f, code, s["d"])
                self._line('%s%s = "%s"' % (tab, s["d"], s["text"]))
                code.append(I("copy", d=d, a=["_"])); post()
            elif k == "cat":
                a = self._use(f, code, s["a"]); b = self._use(f, code, s["b"]); d, post = self._def(f, code, s["d"])
                self._line("%s%s = %s + %s" % (tab, s["d"], s["a"], '"-"' if s["b"] == "_" else s["b"]))
                code.append(I("mix", d=d, a=[a, b])); post()
            elif k == "maxlit":
                a = self._use(f, code, s["a"]); d, post = self._def(f, code, s["d"])
                lits = ", ".join('"%d"' % j for j in range(s["nlit"]))
                self._line("%s%s = max(%s, %s)" % (tab, s["d"], s["a"], lits))
                code.append(I("mix", d=d, a=[a] + ["_"] * s["nlit"])); post()
            elif k == "tobytes":
                a = self._use(f, code, s["a"]); d, post = self._def(f, code, s["d"])
                ln = self._line("%s%s = []byte(%s)" % (tab, s["d"], s["a"]))
                code.append(I("tobytes", d=d, a=[a], n=ln)); post()
            elif k == "tostr":
                a = self._use(f, code, s["a"]); d, post = self._def(f, code, s["d"])
                self._line("%s%s = string(%s)" % (tab, s["d"], s["a"]))
                code.append(I("tostr", d=d, a=[a])); post()
            elif k == "newbox":
                d, post = self._def(f, code, s["d"])
                ln = self._line("%s%s = &box{}" % (tab, s["d"]))
                code.append(I("new", d=d, s="box", n=ln)); post()
            elif k == "newstr":
                d, post = self._def(f, code, s["d"])
                ln = self._line("%s%s = new(string)" % (tab, s["d"]))
                code.append(I("new", d=d, s="D", n=ln)); post()
            elif k == "fstore":
                p = self._ptr(f, code, s["p"]); a = self._use(f, code, s["a"])
                self._line("%s%s.%s = %s" % (tab, s["p"], s["f"], s["a"]))
                f.ntmp += 1; t = "%%f%d" % f.ntmp
                code.append(I("faddr", d=t, a=[p], s=s["f"]))
                code.append(I("store", a=[t, a]))
            elif k == "newimp":
                d, post = self._def(f, code, s["d"])
                ln = self._line("%s%s = &%s{}" % (tab, s["d"], s["impl"]))
                code.append(I("new", d=d, s=s["impl"], n=ln)); post()
            elif k == "toiface":
                a = self._use(f, code, s["a"]); d, post = self._def(f, code, s["d"])
                self._line("%s%s = %s(%s)" % (tab, s["d"], s["ityp"], s["a"]))
                code.append(I("box", d=d, a=[a], s="*" + s["impl"])); post()
            elif k == "stlit":
                a = self._use(f, code, s["a"]); d, post = self._def(f, code, s["d"])
                self._line("%s%s = box{%s: %s}" % (tab, s["d"], s["f"], s["a"]))
                code.append(I("mkstruct", d=d, a=[a], ds=["box", s["f"]])); post()
            elif k == "fload":
                p = self._ptr(f, code, s["p"]); d, post = self._def(f, code, s["d"])
                self._line("%s%s = %s.%s" % (tab, s["d"], s["p"], s["f"]))
                f.ntmp += 1; t = "%%f%d" % f.ntmp
                code.append(I("faddr", d=t, a=[p], s=s["f"]))
                code.append(I("load", d=d, a=[t])); post()
            elif k == "faddr":
                p = self._ptr(f, code, s["p"]); d, post = self._def(f, code, s["d"])
                self._line("%s%s = &%s.%s" % (tab, s["d"], s["p"], s["f"]))
                code.append(I("faddr", d=d, a=[p], s=s["f"])); post()
            elif k == "store":
                p = self._use(f, code, s["p"]); a = self._use(f, code, s["a"])
                self._line("%s*%s = %s" % (tab, s["p"], s["a"]))
                code.append(I("store", a=[p, a]))
            elif k == "load":
                p = self._use(f, code, s["p"]); d, post = self._def(f, code, s["d"])
                self._line("%s%s = *%s" % (tab, s["d"], s["p"]))
                code.append(I("load", d=d, a=[p])); post()
            elif k == "addr":
                r = self._ref(f, code, s["a"]); d, post = self._def(f, code, s["d"])
                self._line("%s%s = &%s" % (tab, s["d"], s["a"]))
                code.append(I("copy", d=d, a=[r])); post()
            elif k == "mkslice":
                ops = [self._use(f, code, x) for x in s["xs"]]; d, post = self._def(f, code, s["d"])
                els = ", ".join('"c"' if x == "_" else x for x in s["xs"])
                ln = self._line("%s%s = []%s{%s}" % (tab, s["d"], s["typ"], els))
                code.append(I("mkslice", d=d, a=ops, n=ln)); post()
            elif k == "idxstore":
                p = self._ptr(f, code, s["p"]); a = self._use(f, code, s["a"])
                self._line("%s%s[%d] = %s" % (tab, s["p"], s["i"], s["a"]))
                f.ntmp += 1; t = "%%x%d" % f.ntmp
                code.append(I("idxaddr", d=t, a=[p], n=s["i"] + 1))
                code.append(I("store", a=[t, a]))
            elif k == "idxload":
                p = self._ptr(f, code, s["p"]); d, post = self._def(f, code, s["d"])
                self._line("%s%s = %s[%d]" % (tab, s["d"], s["p"], s["i"]))
                f.ntmp += 1; t = "%%x%d" % f.ntmp
                code.append(I("idxaddr", d=t, a=[p], n=s["i"] + 1))
                code.append(I("load", d=d, a=[t])); post()
            elif k == "append":
                p = self._use(f, code, s["p"]); ops = [self._use(f, code, x) for x in s["xs"]]
                d, post = self._def(f, code, s["d"])
                ln = self._line("%s%s = append(%s, %s)" % (tab, s["d"], s["p"], ", ".join(s["xs"])))
                code.append(I("append", d=d, a=[p] + ops, n=ln)); post()
            elif k == "appendspread":
                p = self._use(f, code, s["p"]); a = self._use(f, code, s["a"]); d, post = self._def(f, code, s["d"])
                ln = self._line("%s%s = append(%s, %s...)" % (tab, s["d"], s["p"], s["a"]))
                code.append(I("appendspread", d=d, a=[p, a], n=ln)); post()
            elif k == "copysl":
                p = self._use(f, code, s["p"]); a = self._use(f, code, s["a"])
                self._line("%scopy(%s, %s)" % (tab, s["p"], s["a"]))
                code.append(I("copysl", a=[p, a]))
            elif k == "rangeacc":
                p = self._use(f, code, s["p"]); cur = self._use(f, code, s["d"]); d, post = self._def(f, code, s["d"])
                if s["what"] == "key":
                    self._line("%sfor rk := range %s {" % (tab, s["p"]))
                    self._line("%s\t%s += rk" % (tab, s["d"]))
                else:
                    self._line("%sfor _, rv := range %s {" % (tab, s["p"]))
                    self._line("%s\t%s += rv" % (tab, s["d"]))
                self._line("%s}" % tab)
                code.append(I("rangeacc", d=d, a=[cur, p], s=s["what"])); post()
            elif k == "mkmap":
                d, post = self._def(f, code, s["d"])
                ln = self._line("%s%s = map[string]string{}" % (tab, s["d"]))
                code.append(I("mkmap", d=d, n=ln)); post()
            elif k == "mapput":
                p = self._use(f, code, s["p"]); a = self._use(f, code, s["a"])
                key = s["key"]
                if key.startswith("_lit:"):
                    kop, ktxt, kid = "_", '"%s"' % key[5:], key[5:]
                else:
                    kop, ktxt, kid = self._use(f, code, key), key, s["kid"] or ("v:" + key)
                self._line("%s%s[%s] = %s" % (tab, s["p"], ktxt, '"c"' if s["a"] == "_" else s["a"]))
                code.append(I("mapput", a=[p, kop, a], s=kid))
            elif k == "mapget":
                p = self._use(f, code, s["p"]); d, post = self._def(f, code, s["d"])
                key = s["key"]
                if key.startswith("_lit:"):
                    ktxt, kid = '"%s"' % key[5:], key[5:]
                else:
                    ktxt, kid = key, s["kid"] or ("v:" + key)
                self._line("%s%s = %s[%s]" % (tab, s["d"], s["p"], ktxt))
                code.append(I("mapget", d=d, a=[p], s=kid)); post()
            elif k == "box":
                a = self._use(f, code, s["a"]); d, post = self._def(f, code, s["d"])
                av, _ = f.lookup(s["a"])
                self._line("%s%s = any(%s)" % (tab, s["d"], s["a"]))
                code.append(I("box", d=d, a=[a], s=av.typ)); post()
            elif k == "assert":
                a = self._use(f, code, s["a"]); d, post = self._def(f, code, s["d"])
                self._line("%s%s = %s.(%s)" % (tab, s["d"], s["a"], s["typ"]))
                code.append(I("assert", d=d, a=[a], s=s["typ"])); post()
            elif k == "mkiface":
                a = self._use(f, code, s["a"]); d, post = self._def(f, code, s["d"])
                impl = s["impl"]
                if impl in GENERIC_IMPLS:
                    ln = self._line("%s%s = %s{s: %s}" % (tab, s["d"], GENERIC_IMPLS[impl], argtxt([s["a"]])[0]))
                    f.ntmp += 1; t = "%%i%d" % f.ntmp
                    code.append(I("mkstruct", d=t, a=[a], ds=[impl, "s"]))
                    code.append(I("box", d=d, a=[t], s=impl))
                elif impl == "valT":
                    ln = self._line("%s%s = valT{v: %s}" % (tab, s["d"], argtxt([s["a"]])[0]))
                    f.ntmp += 1; t = "%%i%d" % f.ntmp
                    code.append(I("mkstruct", d=t, a=[a], ds=["valT", "v"]))
                    code.append(I("box", d=d, a=[t], s="valT"))
                else:
                    ln = self._line("%s%s = &%s{v: %s}" % (tab, s["d"], impl, argtxt([s["a"]])[0]))
                    f.ntmp += 1; t = "%%i%d" % f.ntmp
                    code.append(I("new", d=t, s=impl, n=ln))
                    code.append(I("faddr", d=t + "f", a=[t], s="v"))
                    code.append(I("store", a=[t + "f", a]))
                    code.append(I("box", d=d, a=[t], s="*" + impl))
                post()
            elif k in ("call", "callv", "invoke"):
                ops = [self._use(f, code, x) for x in s["xs"]]
                posts = []
                ds = []
                for d0 in s["ds"]:
                    d, post = self._def(f, code, d0)
                    ds.append(d); posts.append(post)
                lhs = (", ".join(s["ds"]) + " = ") if s["ds"] else ""
                if k == "call":
                    ln = self._line("%s%s%s(%s)" % (tab, lhs, s["fn"], ", ".join(argtxt(s["xs"]))))
                    code.append(I("call", ds=ds, s=s["fn"], a=ops, n=ln))
                elif k == "callv":
                    p = self._use(f, code, s["p"])
                    ln = self._line("%s%s%s(%s)" % (tab, lhs, s["p"], ", ".join(argtxt(s["xs"]))))
                    code.append(I("callv", ds=ds, a=[p] + ops, n=ln))
                else:
                    p = self._use(f, code, s["p"])
                    ln = self._line("%s%s%s.%s(%s)" % (tab, lhs, s["p"], s["m"], ", ".join(argtxt(s["xs"]))))
                    code.append(I("invoke", ds=ds, a=[p] + ops, s=s["m"], n=ln))
                for post in posts:
                    post()
            elif k == "fnval":
                d, post = self._def(f, code, s["d"])
                self._line("%s%s = %s" % (tab, s["d"], s["fn"]))
                code.append(I("mkclo", d=d, s=s["fn"], a=[])); post()
            elif k == "methodval":
                a = self._use(f, code, s["a"]); d, post = self._def(f, code, s["d"])
                self._line("%s%s = %s.%s" % (tab, s["d"], s["a"], s["m"]))
                code.append(I("bind", d=d, a=[a], s=s["m"])); post()
            elif k == "mkclo":
                g = s["f"]
                d, post = self._def(f, code, s["d"])
                self._emit_func(g, toplevel=False, header="%s%s = " % (tab, s["d"]))
                self._line("%s}" % tab)
                refs = [self._ref(f, code, c) for c in g.captures]
                code.append(I("mkclo", d=d, s=g.name, a=refs)); post()
            elif k == "defer":
                ops = [self._use(f, code, x) for x in s["xs"]]
                ln = self._line("%sdefer %s(%s)" % (tab, s["fn"], ", ".join(argtxt(s["xs"]))))
                code.append(I("defer", s=s["fn"], a=ops, n=ln))
            elif k == "deferv":
                p = self._use(f, code, s["p"])
                ln = self._line("%sdefer %s()" % (tab, s["p"]))
                code.append(I("deferv", a=[p], n=ln))
            elif k == "go":
                ops = [self._use(f, code, x) for x in s["xs"]]
                ln = self._line("%sgo %s(%s)" % (tab, s["fn"], ", ".join(argtxt(s["xs"]))))
                code.append(I("go", s=s["fn"], a=ops, n=ln))
            elif k == "gov":
                p = self._use(f, code, s["p"])
                ln = self._line("%sgo %s()" % (tab, s["p"]))
                code.append(I("gov", a=[p], n=ln))
            elif k == "ret" and s.get("zero"):
                tys = [t for _, t in f.named] if f.named else f.results
                zs = ['""' if t == "string" else ("false" if t == "bool" else ("box{}" if t == "box" else ("pair{}" if t == "pair" else ("[2]string{}" if t.startswith("[2]") else "nil")))) for t in tys]
                self._line("%sreturn %s" % (tab, ", ".join(zs)))
                if f.named:
                    for (n, t) in f.named:
                        f.ntmp += 1
                        z = "%%z%d" % f.ntmp
                        code.append(I("zero", d=z, s=zero_desc(t)))
                        code.append(I("store", a=[n, z]))
                    code.append(I("retnamed", a=[n for n, _ in f.named]))
                else:
                    zn = []
                    for t in tys:
                        f.ntmp += 1
                        z = "%%z%d" % f.ntmp
                        code.append(I("zero", d=z, s=zero_desc(t)))
                        zn.append(z)
                    code.append(I("ret", a=zn))
            elif k == "ret":
                ops = [self._use(f, code, x) for x in s["xs"]]
                if f.named:
                    # return with named results: assign then return
                    for (n, _), x, o in zip(f.named, s["xs"], ops):
                        code.append(I("store", a=[n, o]))
                    self._line("%sreturn %s" % (tab, ", ".join(argtxt(s["xs"]))))
                    code.append(I("retnamed", a=[n for n, _ in f.named]))
                else:
                    self._line("%sreturn %s" % (tab, ", ".join(argtxt(s["xs"]))))
                    code.append(I("ret", a=ops))
            elif k == "panic":
                a = self._use(f, code, s["a"])
                ln = self._line("%spanic(%s)" % (tab, '"boom"' if s["a"] == "_" else s["a"]))
                code.append(I("panic", a=[a], n=ln))
            elif k == "recover":
                d, post = self._def(f, code, s["d"])
                self._line("%s%s = recover()" % (tab, s["d"]))
                code.append(I("recover", d=d)); post()
            elif k == "mkchan":
                d, post = self._def(f, code, s["d"])
                ln = self._line("%s%s = make(chan %s, %d)" % (tab, s["d"], s.get("typ", "string"), s["n"]))
                code.append(I("mkchan", d=d, n=ln, l=[s["n"]])); post()
            elif k == "send":
                p = self._use(f, code, s["p"]); a = self._use(f, code, s["a"])
                ln = self._line("%s%s <- %s" % (tab, s["p"], argtxt([s["a"]])[0]))
                code.append(I("send", a=[p, a], n=ln))
            elif k == "recv":
                p = self._use(f, code, s["p"]); d, post = self._def(f, code, s["d"])
                ln = self._line("%s%s = <-%s" % (tab, s["d"], s["p"]) if s["d"] not in ("", "_") else "%s<-%s" % (tab, s["p"]))
                code.append(I("recv", d=d, a=[p], n=ln)); post()
            elif k == "not":
                a = self._use(f, code, s["a"]); d, post = self._def(f, code, s["d"])
                self._line("%s%s = !%s" % (tab, s["d"], s["a"]))
                code.append(I("not", d=d, a=[a])); post()
            elif k == "selrecv":
                # the quit channel is never ready and the data channel holds one element: the select takes the receive
                p = self._use(f, code, s["p"]); d, post = self._def(f, code, s["d"])
                self._line("%sselect {" % tab)
                self._line("%scase <-%s:" % (tab, s["q"]))
                ln = self._line("%scase %s = <-%s:" % (tab, s["d"], s["p"]))
                self._line("%s}" % tab)
                code.append(I("recv", d=d, a=[p], n=ln)); post()
            elif k == "gate":
                ln = self._line("%sgate(%d)" % (tab, s["n"]))
                code.append(I("gate", n=s["n"]))
            elif k == "raw":
                self._line(tab + s["go"])
            elif k == "if":
                if s["cond"] == "oracle":
                    ln = self._line("%sif oracle() {" % tab)
                    br = I("br", n=ln, l=[0, 0])
                elif s["cond"] == "var":
                    a = self._use(f, code, s["a"])
                    self._line("%sif %s%s {" % (tab, "!" if s["neg"] else "", s["a"]))
                    br = I("brv", a=[a], l=[0, 0], s="neg" if s["neg"] else "pos")
                else:
                    a = self._use(f, code, s["a"])
                    self._line("%sif %s %s nil {" % (tab, s["a"], "!=" if s["neg"] else "=="))
                    br = I("brv", a=[a], l=[0, 0], s="neg" if s["neg"] else "pos")
                code.append(br)
                br["l"][0] = len(code) + 1
                self._emit_block(f, s["then"], code, ind + 1)
                j = I("jmp", l=[0])
                code.append(j)
                br["l"][1] = len(code) + 1
                if s["els"]:
                    self._line("%s} else {" % tab)
                    self._emit_block(f, s["els"], code, ind + 1)
                self._line("%s}" % tab)
                j["l"][0] = len(code) + 1
            elif k == "for":
                head = len(code) + 1
                ln = self._line("%sfor oracle() {" % tab)
                br = I("br", n=ln, l=[0, 0])
                code.append(br)
                br["l"][0] = len(code) + 1
                self._emit_block(f, s["body"], code, ind + 1)
                code.append(I("jmp", l=[head]))
                br["l"][1] = len(code) + 1
                self._line("%s}" % tab)
            else:
                raise ValueError("unknown statement kind " + k)


def argtxt(xs):
    return ['"c"' if x == "_" else ("nil" if x == "_nil" else x) for x in xs]


def I(op, d="", ds=None, a=None, s="", n=0, l=None):
    return {"op": op, "d": d, "ds": ds or [], "a": a or [], "s": s, "n": n, "l": l or [], "ln": 0}


# flat code of the fixed methods declared in TYPE_DECLS (receiver is parameter "r")
def _getter(field):
    return {"params": ["r"], "frees": [], "named": [], "results": ["D"], "code": [I("enter"), I("faddr", d="%f", a=["r"], s=field), I("load", d="%v", a=["%f"]), I("ret", a=["%v"])]}


def _putter(field):
    return {"params": ["r", "x"], "frees": [], "named": [], "results": [], "code": [I("enter"), I("faddr", d="%f", a=["r"], s=field), I("store", a=["%f", "x"]), I("ret")]}


FIXED_METHOD_CODE = {
    "impA.get": _getter("v"), "impA.put": _putter("v"),
    "impB.get": _getter("v"), "impB.put": _putter("v"),
    "valT.get": {"params": ["r"], "frees": [], "named": [], "results": ["D"], "code": [I("enter"), I("field", d="%v", a=["r"], s="v"), I("ret", a=["%v"])]},
    "valT.put": {"params": ["r", "x"], "frees": [], "named": [], "results": [], "code": [I("enter"), I("ret")]},
    # the two instantiations of the generic type gbox[T]: two functions, ONE declaration
    "gboxS.get": {"params": ["r"], "frees": [], "named": [], "results": ["D"], "code": [I("enter"), I("field", d="%v", a=["r"], s="s"), I("ret", a=["%v"])]},
    "gboxS.put": {"params": ["r", "x"], "frees": [], "named": [], "results": [], "code": [I("enter"), I("ret")]},
    "gboxN.get": {"params": ["r"], "frees": [], "named": [], "results": ["D"], "code": [I("enter"), I("field", d="%v", a=["r"], s="s"), I("ret", a=["%v"])]},
    "gboxN.put": {"params": ["r", "x"], "frees": [], "named": [], "results": [], "code": [I("enter"), I("ret")]},
}
FIXED_METHOD_CODE.update({
    "busA.sub": {"params": ["r", "f"], "frees": [], "named": [], "results": [], "code": [I("enter"), I("faddr", d="%f", a=["r"], s="h"), I("store", a=["%f", "f"]), I("ret")]},
    # the call site line of r.h(x) is filled in at render time (CALLSITE_IN_FIXED)
    "busA.fire": {"params": ["r", "x"], "frees": [], "named": [], "results": ["D"], "code": [I("enter"), I("faddr", d="%f", a=["r"], s="h"), I("load", d="%h", a=["%f"]), I("callv", ds=["%v"], a=["%h", "x"]), I("ret", a=["%v"])]},
})
CALLSITE_IN_FIXED = {"busA.fire": (3, "\treturn r.h(x)")}    # function -> (index of the call instruction, source line text)
# type arguments of the instantiated functions (the real analysis distinguishes them although they share a declaration)
FIXED_INST = {"gboxS.get": "string", "gboxS.put": "string", "gboxN.get": "int", "gboxN.put": "int"}
GENERIC_IMPLS = {"gboxS": "gbox[string]", "gboxN": "gbox[int]"}
FIXED_METHODS = {
    "*impA": {"get": "impA.get", "put": "impA.put"},
    "*impB": {"get": "impB.get", "put": "impB.put"},
    "valT": {"get": "valT.get", "put": "valT.put"},
    "*busA": {"sub": "busA.sub", "fire": "busA.fire"},
    "gboxS": {"get": "gboxS.get", "put": "gboxS.put"},
    "gboxN": {"get": "gboxN.get", "put": "gboxN.put"},
}


FLAT_TYPES = {
    "box": [["s", "D"], ["t", "D"], ["p", "P"], ["i", "P"], ["b", "P"]],
    "pair": [["a", "box"], ["s", "D"]],
    "impA": [["v", "D"]],
    "impB": [["w", "D"], ["v", "D"]],
    "valT": [["v", "D"]],
    "busA": [["h", "P"]],
    "gboxS": [["s", "D"], ["z", "D"]],
    "gboxN": [["s", "D"], ["z", "D"]],
}


def dumps(flat):
    return json.dumps(flat, sort_keys=True)


BASE_CONFIG = """options:
  log-level: 1
%(options)s
taint-tracking-problems:
  - sources:
      - package: "(main)|(command-line-arguments)|(prog)"
        method: "^source$"
    sinks:
      - package: "(main)|(command-line-arguments)|(prog)"
        method: "^sink$"
    sanitizers:
      - package: "(main)|(command-line-arguments)|(prog)"
        method: "^sanitize$"
    validators:
      - package: "(main)|(command-line-arguments)|(prog)"
        method: "^validate(Err)?$"
slicing-problems:
  - backtracepoints:
      - package: "(main)|(command-line-arguments)|(prog)"
        method: "^bt[0-9]$"
"""


def write_configs(d, configs):
    import os
    for name, opts in configs.items():
        lines = []
        for k, v in opts.items():
            if isinstance(v, bool):
                v = "true" if v else "false"
            elif isinstance(v, str):
                v = '"%s"' % v
            lines.append("  %s: %s" % (k, v))
        with open(os.path.join(d, name + ".yaml"), "w") as fh:
            fh.write(BASE_CONFIG % {"options": "\n".join(lines)})


def write_program(d, prog):
    """writes main.go, role files and prog.json of one program into the package directory d. Returns flat code."""
    import os, shutil
    os.makedirs(d, exist_ok=True)
    src, flat = prog.render()
    with open(os.path.join(d, "main.go"), "w") as fh:
        fh.write(src)
    here = os.path.dirname(os.path.abspath(__file__))
    for f in ("roles_stub.go", "roles_native.go"):
        shutil.copy(os.path.join(here, "roles", f), d)
    with open(os.path.join(d, "prog.json"), "w") as fh:
        fh.write(dumps(flat))
    return flat


def write_module(d, configs):
    """module directory holding several programs (one main package per sub-directory) and the config files"""
    import os
    os.makedirs(d, exist_ok=True)
    with open(os.path.join(d, "go.mod"), "w") as fh:
        fh.write("module prog\n\ngo 1.22\n")
    write_configs(d, configs)
