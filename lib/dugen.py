"""C08: the operation table of spec/DuSpace.tla (single source of truth) and the renderer that turns every def-use
chain TLC enumerates into one small Go function.  All functions go into ONE analysed program (one load).

A chain = (origin kind, origin type, [operation names], final type, target kind).
Types: S string | B []byte | N int | F float64 | C complex128 | I any | NM named | BX boxed | ST pt | AR [2]string |
       SL []string | M map[string]string | E error
"""
import re

GO = {"S": "string", "B": "[]byte", "N": "int", "F": "float64", "C": "complex128", "I": "any", "NM": "named",
      "BX": "boxed", "ST": "pt", "AR": "[2]string", "SL": "[]string", "M": "map[string]string", "E": "error"}
ZERO = {"S": '""', "B": "nil", "N": "0", "F": "0.0", "C": "0", "I": "nil", "NM": 'named("")', "BX": "nil",
        "ST": "pt{}", "AR": "[2]string{}", "SL": "nil", "M": "nil", "E": "nil"}

# name -> (tin, tout, kind, template).  kind "e": expression in {x};  kind "s": statements defining {y} from {x}
OPS = {
    "concat":    ("S", "S", "e", '{x} + "!"'),
    "strslice":  ("S", "S", "e", "{x}[1:]"),
    "tobytes":   ("S", "B", "e", "[]byte({x})"),
    "tostr":     ("B", "S", "e", "string({x})"),
    "bslice":    ("B", "B", "e", "{x}[1:]"),
    "named":     ("S", "NM", "e", "named({x})"),
    "unnamed":   ("NM", "S", "e", "string({x})"),
    "boxnm":     ("NM", "BX", "e", "boxed({x})"),
    "toany":     ("BX", "I", "e", "any({x})"),
    "boxs":      ("S", "I", "e", "any({x})"),
    "assert":    ("I", "S", "e", "{x}.(string)"),
    "assertok":  ("I", "S", "s", "{y}, _ := {x}.(string)"),
    "field":     ("ST", "S", "e", "{x}.y"),
    "index":     ("AR", "S", "e", "{x}[1]"),
    "len":       ("S", "N", "e", "len({x})"),
    "arith":     ("N", "N", "e", "{x}*2 + 1"),
    "neg":       ("N", "N", "e", "-{x}"),
    "itos":      ("N", "S", "e", "string(rune({x}))"),
    "slice":     ("SL", "SL", "e", "{x}[1:2]"),
    "append":    ("SL", "SL", "e", 'append({x}, "k")'),
    "appendto":  ("S", "SL", "e", "append([]string(nil), {x})"),
    "lookup":    ("M", "S", "e", '{x}["k"]'),
    "lookupok":  ("M", "S", "s", '{y}, _ := {x}["k"]'),
    "strindex":  ("S", "N", "e", "int({x}[0])"),
    "phi":       ("S", "S", "s", '{y} := "z"\n\tif cond() {{\n\t\t{y} = {x}\n\t}}'),
    "phin":      ("N", "N", "s", "{y} := 0\n\tif cond() {{\n\t\t{y} = {x}\n\t}}"),
    "loop":      ("S", "S", "s", '{y} := ""\n\tfor i := 0; i < 2; i++ {{\n\t\t{y} = {y} + {x}\n\t}}'),
    # a loop whose body is ONE basic block that branches back to itself and carries a value computed inside it
    "selfloop":  ("N", "N", "s", "{y}, {y}c, {y}n := 0, 0, 3\n\tfor {{\n\t\t{y} = {y}c\n\t\t{y}c = {x}*31 + {y}n\n\t\t{y}n--\n"
                                 "\t\tif {y}n <= 0 {{\n\t\t\tbreak\n\t\t}}\n\t}}"),
    "min2":      ("N", "N", "e", "min({x}, 7)"),
    "max3":      ("N", "N", "e", "max({x}, 1, 2)"),
    "errstr":    ("E", "S", "e", "{x}.Error()"),
    "tofloat":   ("N", "F", "e", "float64({x})"),
    "toint":     ("F", "N", "e", "int({x})"),
    "complex":   ("F", "C", "e", "complex({x}, 1.0)"),
    "real":      ("C", "F", "e", "real({x})"),
    "imag":      ("C", "F", "e", "imag({x})"),
}
ORIGINS = ["param", "freevar", "call1", "call2_0", "call2_1"]
OTYPES = ["S", "B", "N", "I", "NM", "ST", "AR", "SL", "M", "E", "F"]
TARGETS = ["ret", "ret2_1", "arg", "capture", "cond"]

HEADER = '''package main

type pt struct{ x, y string }
type boxed interface{ Get() string }
type named string

func (n named) Get() string { return string(n) }

func source() string { return "src" }
func sink(x any)     {}
func cond() bool     { return len(source()) > 3 }
'''


def ops_table():
    return [{"name": n, "tin": v[0], "tout": v[1]} for n, v in sorted(OPS.items())]


def mk_decls():
    """origin functions per type: mkT() T, twoT0() (T, int), twoT1() (int, T); opaque bodies (results are call origins)"""
    out = []
    mk = {"S": "source()", "B": "[]byte(source())", "N": "len(source())", "F": "float64(len(source()))", "I": "any(source())",
          "NM": "named(source())", "ST": 'pt{"x", source()}', "AR": '[2]string{"x", source()}', "SL": "[]string{source()}",
          "M": 'map[string]string{"k": source()}', "E": "error(nil)"}
    for t in OTYPES:
        out.append("func mk%s() %s { return %s }" % (t, GO[t], mk[t]))
        out.append("func two%s0() (%s, int) { return %s, 1 }" % (t, GO[t], mk[t]))
        out.append("func two%s1() (int, %s) { return 1, %s }" % (t, GO[t], mk[t]))
    return "\n".join(out) + "\n"


def eq_zero(x, t):
    """a branch condition computed from x (BinOp / call-free)"""
    if t in ("S", "NM"):
        return '%s == "q"' % x
    if t in ("N", "F"):
        return "%s > 3" % x
    if t == "C":
        return "%s == 0" % x
    if t in ("B", "SL", "M"):
        return "len(%s) > 3" % x
    if t in ("I", "BX", "E"):
        return "%s != nil" % x
    if t == "ST":
        return '%s.y == "q"' % x
    if t == "AR":
        return '%s[1] == "q"' % x
    raise ValueError(t)


def render_fn(idx, ch):
    """ch = (origin, otype, ops, final type, target) -> Go source of one function (plus its wrapper for freevar)"""
    origin, oty, ops, fty, target = ch
    name = "du%05d" % idx
    body = []
    x = "p"
    if origin == "call1":
        body.append("v0 := mk%s()" % oty)
        x = "v0"
    elif origin == "call2_0":
        body.append("v0, _ := two%s0()" % oty)
        x = "v0"
    elif origin == "call2_1":
        body.append("_, v0 := two%s1()" % oty)
        x = "v0"
    n = 0
    for o in ops:
        tin, tout, kind, tmpl = OPS[o]
        n += 1
        y = "v%d" % n
        if kind == "e":
            body.append("%s := %s" % (y, tmpl.format(x=x)))
        else:
            body.append(tmpl.format(x=x, y=y))
        x = y
    rt = GO[fty]
    if target == "ret":
        res = rt
        body.append("return %s" % x)
    elif target == "ret2_1":
        res = "(int, %s)" % rt
        body.append("return 7, %s" % x)
    elif target == "arg":
        res = ""
        body.append("sink(%s)" % x)
    elif target == "capture":
        res = "func() %s" % rt
        body.append("f := func() %s { return %s }" % (rt, x))
        body.append("return f")
    elif target == "cond":
        res = "int"
        body.append("if %s {\n\t\treturn 1\n\t}" % eq_zero(x, fty))
        body.append("return 2")
    else:
        raise ValueError(target)
    lines = "\n\t".join(body)
    doc = "// %s: %s %s %s -> %s\n" % (name, origin, oty, ",".join(ops) or "-", target)
    if origin == "param":
        return doc + "func %s(p %s) %s {\n\t%s\n}\n" % (name, GO[oty], res, lines)
    if origin == "freevar":
        inner = "func() %s {\n\t%s\n}" % (res, lines)
        inner = inner.replace("\n", "\n\t")
        return doc + "func %s(p %s) func() %s {\n\treturn %s\n}\n" % (name, GO[oty], res, inner)
    return doc + "func %s() %s {\n\t%s\n}\n" % (name, res, lines)


def parse_chains(tlc_out):
    """DUCHAIN lines printed by DuSpace.tla -> list of (origin, otype, [ops], final type, target)"""
    out = set()
    for line in tlc_out.splitlines():
        if not line.startswith('"<<\\"DUCHAIN\\"'):
            continue
        toks = re.findall(r'\\"([A-Za-z0-9_]+)\\"', line)
        # DUCHAIN origin oty op* ty target
        origin, oty = toks[1], toks[2]
        target, fty = toks[-1], toks[-2]
        ops = tuple(toks[3:-2])
        out.add((origin, oty, ops, fty, target))
    return sorted(out)


def render_program(chains):
    src = HEADER + "\n" + mk_decls() + "\n"
    for i, ch in enumerate(chains):
        src += render_fn(i, ch) + "\n"
    src += "func main() {}\n"
    return src
