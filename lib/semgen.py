"""Program generator of the SEM engine: a chain of flow steps (enumerated by spec/ProgSpace.tla) is expanded
into a MiniGo program (lib/minigo.py).  The step table STEPS is the single source of truth: it is exported as
steps.ndjson for ProgSpace.tla (name, input type-state, output type-state, family).

Type-states of the value currently carrying the datum (DESIGN.md Appendix D):
  S string | B []byte | P *box(.s) | PP *box(.p.s) | PS *string | ST box(.s) | SP box(.p = the pointer) | PR pair(.a.s) | SL []string[0] |
  AR [2]string[0] | M map val | MK map key | I any(string) | IB any(*box) | IF getter | C func() string |
  G global string | GP global *box | CH chan string
"""
import minigo

TYPES = {
    "S": "string", "B": "[]byte", "P": "*box", "PP": "*box", "PS": "*string", "ST": "box", "SP": "box", "PR": "pair",
    "SL": "[]string", "PSL": "*[]string", "AR": "[2]string", "M": "map[string]string", "MK": "map[string]string", "I": "any",
    "IB": "any", "IF": "getter", "C": "func() string", "CH": "chan string", "CHP": "chan *box",
}


class Ctx:
    """naming context of one program"""

    def __init__(self, prog):
        self.prog = prog
        self.n = 0
        self.helpers = {}

    def fresh(self, prefix="v"):
        self.n += 1
        return "%s%d" % (prefix, self.n)


class Env:
    """where a step puts its statements: `f` is the function receiving the statements, `outer` the function
    in which the input/output carrier variables live (differs from f inside closure decorations)."""

    def __init__(self, ctx, f, outer=None):
        self.ctx, self.f, self.outer = ctx, f, outer or f

    def out(self, ts):
        """declare the output carrier (in the outer function)"""
        v = self.ctx.fresh("c")
        self.outer.var(v, TYPES[ts])
        return v

    def tmp(self, typ):
        v = self.ctx.fresh("t")
        self.f.var(v, typ)
        return v

    def helper(self, key, build):
        """define a helper function once per program"""
        if key not in self.ctx.helpers:
            self.ctx.helpers[key] = build(self.ctx.prog)
        return self.ctx.helpers[key]


# ------------------------------------------------------------------------------------------ helpers
def h_id(P):
    f = P.func("id", params=[("a", "string")], results=["string"])
    f.ret(["a"])
    return "id"


def h_setter(P):
    f = P.func("setter", params=[("p", "*box"), ("v", "string")])
    f.fstore("p", "s", "v")
    return "setter"


def h_mk(P):
    f = P.func("mk", params=[("a", "string")], results=["*box"])
    f.var("r", "*box")
    f.newbox("r")
    f.fstore("r", "s", "a")
    f.ret(["r"])
    return "mk"


def h_two0(P):
    f = P.func("two0", params=[("a", "string")], results=["string", "string"])
    f.ret(["a", "_"])
    return "two0"


def h_two1(P):
    f = P.func("two1", params=[("a", "string")], results=["string", "string"])
    f.ret(["_", "a"])
    return "two1"


def h_rec(P):
    f = P.func("rec", params=[("a", "string")], results=["string"])
    f.var("r", "string")
    with f.if_oracle():
        f.call(["r"], "rec", ["a"])
        f.ret(["r"])
    f.ret(["a"])
    return "rec"


def h_mkclo(P):
    f = P.func("mkclo", params=[("a", "string")], results=["func() string"])
    f.var("c", "func() string")
    g = f.closure("c", "mkclo$1", results=["string"], captures=["a"])
    g.ret(["a"])
    f.ret(["c"])
    return "mkclo"


def h_setG(P):
    if "G" not in P.globals:
        P.glob("G", "string")
    f = P.func("setG", params=[("a", "string")])
    f.gstore("G", "a")
    return "setG"


def h_getG(P):
    if "G" not in P.globals:
        P.glob("G", "string")
    f = P.func("getG", results=["string"])
    f.var("r", "string")
    f.gload("r", "G")
    f.ret(["r"])
    return "getG"


def h_dn(P):
    f = P.func("dn", params=[("a", "string")], named=[("r", "string")])
    f.var("d", "func()")
    g = f.closure("d", "dn$1", captures=["r", "a"])
    g.copy("r", "a")
    f.defer_clo("d")
    f.ret(["_"])
    return "dn"


def h_dw(P):
    h_setter_name = "setter"
    if "setter" not in P.funcs:
        h_setter(P)
    f = P.func("dw", params=[("p", "*box"), ("v", "string")])
    f.defer_call("setter", ["p", "v"])
    return "dw"


def h_var(P):
    f = P.func("vari", params=[("a", "string"), ("b", "string")], results=["string"])
    f.var("r", "string")
    f.cat("r", "a", "b")
    f.ret(["r"])
    return "vari"


# ------------------------------------------------------------------------------------------ steps
def s_copy(e, x):
    y = e.out("S"); e.f.copy(y, x); return y


def s_concat(e, x):
    y = e.out("S"); e.f.cat(y, x, "_"); return y


def s_concat2(e, x):
    y = e.out("S"); t = e.tmp("string"); e.f.lit(t, "pre"); e.f.cat(y, t, x); return y


def s_tobytes(e, x):
    y = e.out("B"); e.f.tobytes(y, x); return y


def s_tostr(e, x):
    y = e.out("S"); e.f.tostr(y, x); return y


def s_fstore(e, x):
    y = e.out("P"); e.f.newbox(y); e.f.fstore(y, "s", x); return y


def s_fload(e, x):
    y = e.out("S"); e.f.fload(y, x, "s"); return y


def s_nest(e, x):
    y = e.out("PP"); e.f.newbox(y); e.f.fstore(y, "p", x); return y


def s_unnest(e, x):
    y = e.out("P"); e.f.fload(y, x, "p"); return y


def s_addr(e, x):
    # x must live in the function that takes its address
    y = e.out("PS"); e.f.addr(y, x); return y


def s_deref(e, x):
    y = e.out("S"); e.f.load(y, x); return y


def s_addrsl(e, x):
    # pointer to a pointer-like variable: the analysis answers *y through an INDIRECT query
    y = e.out("PSL"); e.f.addr(y, x); return y


def s_derefsl(e, x):
    y = e.out("SL"); e.f.load(y, x); return y


def h_getsl(P):
    # one block, no call (not even enter()): the pointer analysis analyses such accessors once per call site
    h = P.func("getsl", params=[("slot", "*[]string")], results=["[]string"], noenter=True)
    h.var("r", "[]string")
    h.load("r", "slot")
    h.ret(["r"])
    return "getsl"


def s_slotsl(e, x):
    g = e.helper("getsl", h_getsl)
    o = e.tmp("[]string"); e.f.mkslice(o, ["_"])
    po = e.tmp("*[]string"); e.f.addr(po, o)
    d0 = e.tmp("[]string"); e.f.call([d0], g, [po])
    y = e.out("SL"); e.f.call([y], g, [x]); return y


def s_newstr(e, x):
    y = e.out("PS"); e.f.newstr(y); e.f.store(y, x); return y


def s_structcopy(e, x):
    y = e.out("P"); t = e.tmp("box"); e.f.load(t, x); e.f.newbox(y); e.f.store(y, t); return y


def s_mkstruct(e, x):
    y = e.out("ST"); e.f.fstore(y, "s", x); return y


def s_wrapp(e, x):
    # whole-value assignment of a struct literal holding the pointer: under then/else the variable stays an SSA
    # register and the join is a struct-typed phi
    y = e.out("SP"); e.f.stlit(y, "p", x); return y


def h_pickp(P):
    # the struct variable is only assigned as a whole and returned: go/ssa keeps it in a register and the join of the
    # two arms is a STRUCT-typed phi node whose field p carries the pointer
    m = P.func("mkp", params=[("in", "*box")], results=["box"])
    m.var("r", "box")
    m.stlit("r", "p", "in")
    m.ret(["r"])
    h = P.func("pickp", params=[("in", "*box")], results=["box"])
    h.var("s", "box")
    with h.if_oracle() as br:
        h.call(["s"], "mkp", ["in"])        # both arms are call results (registers), not loads from a literal
        with br.else_():
            h.call(["s"], "mkp", ["in"])
    h.ret(["s"])
    return "pickp"


def s_wrapphi(e, x):
    g = e.helper("pickp", h_pickp)
    y = e.out("SP"); e.f.call([y], g, [x]); return y


def s_unwrapp(e, x):
    y = e.out("P"); e.f.fload(y, x, "p"); return y


def s_spcopy(e, x):
    y = e.out("SP"); e.f.copy(y, x); return y


def s_field(e, x):
    y = e.out("S"); e.f.fload(y, x, "s"); return y


def s_stcopy(e, x):
    y = e.out("ST"); e.f.copy(y, x); return y


def s_staddr(e, x):
    y = e.out("P"); e.f.addr(y, x); return y


def s_pairnest(e, x):
    y = e.out("PR"); e.f.fstore(y, "a", x); return y


def s_pairget(e, x):
    y = e.out("ST"); e.f.fload(y, x, "a"); return y


def s_sllit(e, x):
    y = e.out("SL"); e.f.mkslice(y, [x, "_"]); return y


def s_slstore(e, x):
    y = e.out("SL"); e.f.mkslice(y, ["_", "_"]); e.f.idxstore(y, 0, x); return y


def s_slidx(e, x):
    y = e.out("S"); e.f.idxload(y, x, 0); return y


def s_append1(e, x):
    y = e.out("SL"); t = e.tmp("[]string"); e.f.append(y, t, [x]); return y


def s_appendspread(e, x):
    y = e.out("SL"); t = e.tmp("[]string"); e.f.appendspread(y, t, x); return y


def s_copysl(e, x):
    y = e.out("SL"); e.f.mkslice(y, ["_", "_"]); e.f.copysl(y, x); return y


def s_rangesl(e, x):
    y = e.out("S"); e.f.rangeacc(y, x, "val"); return y


def s_arrstore(e, x):
    y = e.out("AR"); e.f.idxstore(y, 0, x); return y


def s_arrload(e, x):
    y = e.out("S"); e.f.idxload(y, x, 0); return y


def s_mapput(e, x):
    y = e.out("M"); e.f.mkmap(y); e.f.mapput(y, "_lit:k", x); return y


def s_mapget(e, x):
    y = e.out("S"); e.f.mapget(y, x, "_lit:k"); return y


def s_mapkey(e, x):
    y = e.out("MK"); e.f.mkmap(y); e.f.mapput(y, x, "_", kid="tk"); return y


def s_rangekey(e, x):
    y = e.out("S"); e.f.rangeacc(y, x, "key"); return y


def s_rangevalm(e, x):
    y = e.out("S"); e.f.rangeacc(y, x, "val"); return y


def s_box(e, x):
    y = e.out("I"); e.f.box(y, x); return y


def s_assert(e, x):
    y = e.out("S"); e.f.assert_(y, x, "string"); return y


def s_boxptr(e, x):
    y = e.out("IB"); e.f.box(y, x); return y


def s_assertptr(e, x):
    y = e.out("P"); e.f.assert_(y, x, "*box"); return y


def mk_mkiface(impl):
    def s(e, x):
        y = e.out("IF"); e.f.mkiface(y, impl, x); return y
    return s


def s_mkifaceG(e, x):
    # the interface value holds one of TWO instantiations of the same generic type: the invoke has two possible callees
    # that share one declaration
    y = e.out("IF")
    with e.f.if_oracle() as br:
        e.f.mkiface(y, "gboxS", x)
        with br.else_():
            e.f.mkiface(y, "gboxN", x)
    return y


def h_onEvent(P):
    f = P.func("onEvent", params=[("a", "string")], results=["string"])
    f.ret(["a"])
    return "onEvent"


def s_cbiface(e, x):
    # a plain top-level function, referenced nowhere else, handed to an INTERFACE method whose call has no result;
    # it is called back later through the same interface
    cb = e.helper("onEvent", h_onEvent)
    a = e.tmp("*busA"); e.f.newimp(a, "busA")
    b = e.tmp("bus"); e.f.toiface(b, a, "bus", "busA")
    t = e.tmp("func(string) string"); e.f.fnval(t, cb)
    e.f.invoke([], b, "sub", [t])
    y = e.out("S"); e.f.invoke([y], b, "fire", [x]); return y


def s_twoifaces(e, x):
    # ONE concrete type converted to TWO different interfaces, a different method called through each
    a = e.tmp("*impA"); e.f.newimp(a, "impA")
    p = e.tmp("putter"); e.f.toiface(p, a, "putter", "impA")
    e.f.invoke([], p, "put", [x])
    g = e.tmp("namer"); e.f.toiface(g, a, "namer", "impA")
    y = e.out("S"); e.f.invoke([y], g, "get", []); return y


def s_invoke(e, x):
    y = e.out("S"); e.f.invoke([y], x, "get", []); return y


def s_ifaceput(e, x):
    y = e.out("IF"); e.f.mkiface(y, "impA", "_"); e.f.invoke([], y, "put", [x]); return y


def s_idcall(e, x):
    y = e.out("S"); e.f.call([y], e.helper("id", h_id), [x]); return y


def s_outparam(e, x):
    y = e.out("P"); e.f.newbox(y); e.f.call([], e.helper("setter", h_setter), [y, x]); return y


def s_retptr(e, x):
    y = e.out("P"); e.f.call([y], e.helper("mk", h_mk), [x]); return y


def s_tuple0(e, x):
    y = e.out("S"); t = e.tmp("string"); e.f.call([y, t], e.helper("two0", h_two0), [x]); return y


def s_tuple1(e, x):
    y = e.out("S"); t = e.tmp("string"); e.f.call([t, y], e.helper("two1", h_two1), [x]); return y


def s_funcval(e, x):
    y = e.out("S"); t = e.tmp("func(string) string"); e.f.fnval(t, e.helper("id", h_id)); e.f.callv([y], t, [x]); return y


def s_methodval(e, x):
    y = e.out("C"); e.f.methodval(y, x, "get"); return y


def s_rec(e, x):
    y = e.out("S"); e.f.call([y], e.helper("rec", h_rec), [x]); return y


def h_recacc(P):
    # accumulator-style recursion: the datum reaches the result only through an ARGUMENT of the recursive call
    f = P.func("recacc", params=[("s", "string"), ("acc", "string")], results=["string"])
    f.var("t", "string"); f.var("r", "string")
    with f.if_oracle():          # recursion only while the decision script says so (exhausted script = false)
        f.cat("t", "acc", "s")
        f.call(["r"], "recacc", ["s", "t"])
        f.ret(["r"])
    f.ret(["acc"])
    return "recacc"


def s_recacc(e, x):
    z = e.tmp("string"); e.f.lit(z, "z")
    y = e.out("S"); e.f.call([y], e.helper("recacc", h_recacc), [x, z]); return y


def h_rec3(P):
    # mutual recursion through THREE functions ra -> rb -> rc -> ra
    for name, nxt in (("ra", "rb"), ("rb", "rc"), ("rc", "ra")):
        f = P.func(name, params=[("a", "string")], results=["string"])
        f.var("r", "string")
        with f.if_oracle():
            f.call(["r"], nxt, ["a"])
            f.ret(["r"])
        f.ret(["a"])
    return "ra"


def s_rec3(e, x):
    y = e.out("S"); e.f.call([y], e.helper("rec3", h_rec3), [x]); return y


def h_swapG(P):
    # one function both reads the global and writes it from its parameter ("remember the last value")
    if "GW" not in P.globals:
        P.glob("GW", "string")
    f = P.func("swapG", params=[("a", "string")], results=["string"])
    f.var("r", "string")
    f.gload("r", "GW")
    f.gstore("GW", "a")
    f.ret(["r"])
    return "swapG"


def s_swapg(e, x):
    # two call sites of the same function: the datum enters at the first and leaves at the second
    g = e.helper("swapG", h_swapG)
    d0 = e.tmp("string"); e.f.call([d0], g, [x])
    z = e.tmp("string"); e.f.lit(z, "b")
    y = e.out("S"); e.f.call([y], g, [z]); return y


def s_twoargs(e, x):
    y = e.out("S"); e.f.call([y], e.helper("vari", h_var), ["_", x]); return y


def s_capread(e, x):
    y = e.out("C")
    g = e.f.closure(y, e.ctx.fresh("clo"), results=["string"], captures=[x])
    g.ret([x])
    return y


def s_callclo(e, x):
    y = e.out("S"); e.f.callv([y], x, []); return y


def s_capwrite(e, x):
    y = e.out("S"); t = e.tmp("func()")
    g = e.f.closure(t, e.ctx.fresh("clo"), captures=[x, y])
    g.copy(y, x)
    e.f.callv([], t, [])
    return y


def s_cloparam(e, x):
    y = e.out("S"); t = e.tmp("func(string) string")
    g = e.f.closure(t, e.ctx.fresh("clo"), params=[("a", "string")], results=["string"])
    g.ret(["a"])
    e.f.callv([y], t, [x])
    return y


def s_retclo(e, x):
    y = e.out("C"); e.f.call([y], e.helper("mkclo", h_mkclo), [x]); return y


def s_gstore(e, x):
    if "G" not in e.ctx.prog.globals:
        e.ctx.prog.glob("G", "string")
    e.f.gstore("G", x); return "G"


def s_gload(e, x):
    y = e.out("S"); e.f.gload(y, "G"); return y


def s_gstorefn(e, x):
    e.f.call([], e.helper("setG", h_setG), [x]); return "G"


def s_gloadfn(e, x):
    y = e.out("S"); e.f.call([y], e.helper("getG", h_getG), []); return y


def s_gptrstore(e, x):
    if "GP" not in e.ctx.prog.globals:
        e.ctx.prog.glob("GP", "*box")
    e.f.gstore("GP", x); return "GP"


def s_gptrload(e, x):
    y = e.out("P"); e.f.gload(y, "GP"); return y


def s_defernamed(e, x):
    y = e.out("S"); e.f.call([y], e.helper("dn", h_dn), [x]); return y


def s_deferwrite(e, x):
    y = e.out("P"); e.f.newbox(y); e.f.call([], e.helper("dw", h_dw), [y, x]); return y


def s_send(e, x):
    y = e.out("CH"); e.f.mkchan(y, 1); e.f.send(y, x); return y


def s_recv(e, x):
    y = e.out("S"); e.f.recv(y, x); return y


def s_selrecv(e, x):
    q = e.tmp("chan bool"); e.f.mkchan(q, 0, "bool")
    y = e.out("S"); e.f.selrecv(y, x, q); return y


def s_sendp(e, x):
    y = e.out("CHP"); e.f.mkchan(y, 1, "*box"); e.f.send(y, x); return y


def s_recvp(e, x):
    y = e.out("P"); e.f.recv(y, x); return y


def s_selrecvp(e, x):
    # a select whose FIRST case receives from a channel of non-pointer elements and whose second case receives the pointer
    q = e.tmp("chan bool"); e.f.mkchan(q, 0, "bool")
    y = e.out("P"); e.f.selrecv(y, x, q); return y


def h_chanworker(P):
    # goroutine entry with parameters (no captured variables): receives the object in a select whose FIRST case is a
    # receive from a non-pointer channel, stores the datum through the received pointer, signals completion
    h = P.func("chanworker", params=[("ch", "chan *box"), ("v", "string"), ("done", "chan string")])
    h.var("q", "chan bool"); h.var("r", "*box")
    h.mkchan("q", 0, "bool")
    h.selrecv("r", "ch", "q")
    h.fstore("r", "s", "v")
    h.send("done", "_")
    return "chanworker"


def s_chanhand(e, x):
    # an object created here is handed to a goroutine through a channel and written there; the creator keeps its own
    # reference: the data flow crosses the goroutine boundary through the shared object only
    w = e.helper("chanworker", h_chanworker)
    o = e.out("P"); e.f.newbox(o)
    ch = e.tmp("chan *box"); e.f.mkchan(ch, 1, "*box"); e.f.send(ch, o)
    done = e.tmp("chan string"); e.f.mkchan(done, 1)
    e.f.go_call(w, [ch, x, done])
    e.f.recv("_", done)
    return o


def s_sanitize(e, x):
    y = e.out("S"); e.f.sanitize(y, x); return y


# ---- builtins with several operands, global aggregates
def s_minmax2(e, x):
    y = e.out("S"); e.f.maxlit(y, x, 1); return y


def s_minmax3(e, x):
    y = e.out("S"); e.f.maxlit(y, x, 2); return y


def _glob(e, name, typ):
    if name not in e.ctx.prog.globals:
        e.ctx.prog.glob(name, typ)
    return name


def h_setGA(P):
    f = P.func("setGA", params=[("a", "string")])
    f.idxstore("GA", 0, "a")
    return "setGA"


def s_garr(e, x):
    """element of a global array written in a helper, read in the caller"""
    _glob(e, "GA", "[2]string")
    y = e.out("S"); e.f.call([], e.helper("setGA", h_setGA), [x]); e.f.idxload(y, "GA", 0); return y


def h_setGB(P):
    f = P.func("setGB", params=[("a", "string")])
    f.fstore("GB", "s", "a")
    return "setGB"


def s_gfield(e, x):
    _glob(e, "GB", "box")
    y = e.out("S"); e.f.call([], e.helper("setGB", h_setGB), [x]); e.f.fload(y, "GB", "s"); return y


def h_setGS(P):
    f = P.func("setGS", params=[("a", "string")])
    f.var("t", "[]string")
    f.gload("t", "GS")
    f.idxstore("t", 0, "a")
    return "setGS"


def s_gslice(e, x):
    _glob(e, "GS", "[]string")
    y = e.out("S"); t = e.tmp("[]string"); t2 = e.tmp("[]string")
    e.f.mkslice(t, ["_", "_"]); e.f.gstore("GS", t)
    e.f.call([], e.helper("setGS", h_setGS), [x])
    e.f.gload(t2, "GS"); e.f.idxload(y, t2, 0); return y


def h_setGM(P):
    f = P.func("setGM", params=[("a", "string")])
    f.var("t", "map[string]string")
    f.gload("t", "GM")
    f.mapput("t", "_lit:k", "a")
    return "setGM"


def s_gmap(e, x):
    _glob(e, "GM", "map[string]string")
    y = e.out("S"); t = e.tmp("map[string]string"); t2 = e.tmp("map[string]string")
    e.f.mkmap(t); e.f.gstore("GM", t)
    e.f.call([], e.helper("setGM", h_setGM), [x])
    e.f.gload(t2, "GM"); e.f.mapget(y, t2, "_lit:k"); return y


def s_garr_local(e, x):
    """same function writes and reads the global array element"""
    _glob(e, "GA", "[2]string")
    y = e.out("S"); e.f.idxstore("GA", 0, x); e.f.idxload(y, "GA", 0); return y


# ---- more call forms (C12 / C18)
def h_apply(P):
    f = P.func("apply", params=[("g", "func(string) string"), ("a", "string")], results=["string"])
    f.var("r", "string")
    f.callv(["r"], "g", ["a"])
    f.ret(["r"])
    return "apply"


def h_id2(P):
    f = P.func("id2", params=[("a", "string")], results=["string"])
    f.ret(["a"])
    return "id2"


def h_dapply(P):
    f = P.func("dapply", params=[("p", "*box"), ("g", "func(string) string"), ("a", "string")])
    f.var("r", "string")
    f.callv(["r"], "g", ["a"])
    f.fstore("p", "s", "r")
    return "dapply"


def h_dwf(P):
    for k, h in (("dapply", h_dapply), ("id2", h_id2)):
        if k not in P.funcs:
            h(P)
    f = P.func("dwf", params=[("p", "*box"), ("v", "string")])
    f.var("g", "func(string) string")
    f.fnval("g", "id2")
    f.defer_call("dapply", ["p", "g", "v"])
    return "dwf"


def s_fnparam(e, x):
    y = e.out("S"); t = e.tmp("func(string) string")
    e.f.fnval(t, e.helper("id", h_id)); e.f.call([y], e.helper("apply", h_apply), [t, x]); return y


def s_fnglobal(e, x):
    if "GF" not in e.ctx.prog.globals:
        e.ctx.prog.glob("GF", "func(string) string")
    y = e.out("S"); t = e.tmp("func(string) string")
    e.f.fnval(t, e.helper("id", h_id)); e.f.gstore("GF", t)
    t2 = e.tmp("func(string) string"); e.f.gload(t2, "GF"); e.f.callv([y], t2, [x]); return y


def s_deferarg(e, x):
    y = e.out("P"); e.f.newbox(y); e.f.call([], e.helper("dwf", h_dwf), [y, x]); return y


def s_deferclo(e, x):
    """a deferred closure inside an immediately invoked closure copies the datum"""
    y = e.out("S"); t = e.tmp("func()")
    g = e.f.closure(t, e.ctx.fresh("clo"), captures=[x, y])
    g.var("d", "func()")
    h = g.closure("d", e.ctx.fresh("clo"), captures=[x, y])
    h.copy(y, x)
    g.defer_clo("d")
    e.f.callv([], t, [])
    return y


# ---- role steps (C02): sanitizers and validators in every position relative to the branch structure
def s_san_ret(e, x):
    y = e.out("S"); e.f.sanitize(y, x); return y


def s_san_arg(e, x):
    y = e.out("S"); t = e.tmp("string"); e.f.sanitize(t, x); e.f.copy(y, x); return y


def s_san_mix(e, x):
    y = e.out("S"); t = e.tmp("string"); e.f.sanitize(t, x); e.f.cat(y, t, x); return y


def s_san_branch(e, x):
    y = e.out("S")
    with e.f.if_oracle() as br:
        e.f.sanitize(y, x)
        with br.else_():
            e.f.copy(y, x)
    return y


def s_val_then(e, x):
    y = e.out("S"); b = e.tmp("bool"); e.f.validate(b, x)
    with e.f.if_var(b):
        e.f.copy(y, x)
    return y


def s_val_else(e, x):
    y = e.out("S"); b = e.tmp("bool"); t = e.tmp("string"); e.f.validate(b, x)
    with e.f.if_var(b) as br:
        e.f.lit(t, "ok")
        with br.else_():
            e.f.copy(y, x)
    return y


def s_val_negelse(e, x):
    y = e.out("S"); b = e.tmp("bool"); t = e.tmp("string"); e.f.validate(b, x)
    with e.f.if_var(b, neg=True) as br:
        e.f.lit(t, "bad")
        with br.else_():
            e.f.copy(y, x)
    return y


def s_val_storedneg(e, x):
    # the negated verdict is stored first: the If condition is an SSA `!t` instruction (go/ssa only swaps the successors
    # for `if !validate(x)`); the datum is used on the arm where validation FAILED
    y = e.out("S"); b = e.tmp("bool"); n = e.tmp("bool"); e.f.validate(b, x); e.f.not_(n, b)
    with e.f.if_var(n):
        e.f.copy(y, x)
    return y


def s_val_storedneg_store(e, x):
    # the use on the arm where validation FAILED is a memory store (an instruction inside the guarded block, whose
    # edge carries the branch condition), not a register copy that ends in a phi after the join
    y = e.out("P"); e.f.newbox(y)
    b = e.tmp("bool"); n = e.tmp("bool"); e.f.validate(b, x); e.f.not_(n, b)
    with e.f.if_var(n):
        e.f.fstore(y, "s", x)
    return y


def s_val_then_store(e, x):
    # the mirror image: the store sits on the arm where validation SUCCEEDED (no report demanded)
    y = e.out("P"); e.f.newbox(y)
    b = e.tmp("bool"); e.f.validate(b, x)
    with e.f.if_var(b):
        e.f.fstore(y, "s", x)
    return y


def s_val_else_store(e, x):
    y = e.out("P"); e.f.newbox(y)
    b = e.tmp("bool"); t = e.tmp("string"); e.f.validate(b, x)
    with e.f.if_var(b) as br:
        e.f.lit(t, "ok")
        with br.else_():
            e.f.fstore(y, "s", x)
    return y


def s_val_storedneg_guard(e, x):
    # the function goes on ONLY when the stored negated verdict says "invalid": everything after the guard (the sink
    # call included) is reached on the branch where validation failed and must be reported
    b = e.tmp("bool"); n = e.tmp("bool"); t = e.tmp("string"); e.f.validate(b, x); e.f.not_(n, b)
    with e.f.if_var(n) as br:
        e.f.lit(t, "invalid")
        with br.else_():
            e.f.ret_zero()
    return x


def s_val_storedneg_guard_ok(e, x):
    # the mirror image: leave when invalid, go on when validated (no report demanded)
    b = e.tmp("bool"); n = e.tmp("bool"); e.f.validate(b, x); e.f.not_(n, b)
    with e.f.if_var(n):
        e.f.ret_zero()
    return x


def s_val_storedneg_else(e, x):
    # ... and on the arm where it SUCCEEDED (validated: no report demanded; keeps the polarity honest both ways)
    y = e.out("S"); b = e.tmp("bool"); n = e.tmp("bool"); t = e.tmp("string"); e.f.validate(b, x); e.f.not_(n, b)
    with e.f.if_var(n) as br:
        e.f.lit(t, "bad")
        with br.else_():
            e.f.copy(y, x)
    return y


def s_val_guard(e, x):
    y = e.out("S"); b = e.tmp("bool"); e.f.validate(b, x)
    with e.f.if_var(b, neg=True):
        e.f.ret_zero()
    e.f.copy(y, x)
    return y


def s_val_ignore(e, x):
    y = e.out("S"); b = e.tmp("bool"); e.f.validate(b, x); e.f.copy(y, x); return y


def s_val_both(e, x):
    y = e.out("S"); b = e.tmp("bool"); e.f.validate(b, x)
    with e.f.if_var(b) as br:
        e.f.copy(y, x)
        with br.else_():
            e.f.cat(y, x, "_")
    return y


def s_val_copy(e, x):
    y = e.out("S"); b = e.tmp("bool"); t = e.tmp("string"); e.f.copy(t, x); e.f.validate(b, t)
    with e.f.if_var(b):
        e.f.copy(y, x)
    return y


def s_val_other(e, x):
    y = e.out("S"); b = e.tmp("bool"); t = e.tmp("string"); e.f.lit(t, "other"); e.f.validate(b, t)
    with e.f.if_var(b):
        e.f.copy(y, x)
    return y


def s_valerr_guard(e, x):
    y = e.out("S"); er = e.tmp("error"); e.f.validate_err(er, x)
    with e.f.if_errnil(er, neg=True):
        e.f.ret_zero()
    e.f.copy(y, x)
    return y


def s_valerr_then(e, x):
    y = e.out("S"); er = e.tmp("error"); e.f.validate_err(er, x)
    with e.f.if_errnil(er):
        e.f.copy(y, x)
    return y


def s_valerr_else(e, x):
    y = e.out("S"); er = e.tmp("error"); t = e.tmp("string"); e.f.validate_err(er, x)
    with e.f.if_errnil(er) as br:
        e.f.lit(t, "ok")
        with br.else_():
            e.f.copy(y, x)
    return y


def s_val_guard_same(e, x):
    """validate the carrier in place and return early on failure; the SAME variable goes on to the sink, so a
    decoration that skips this step lets unvalidated data through"""
    b = e.tmp("bool"); e.f.validate(b, x)
    with e.f.if_var(b, neg=True):
        e.f.ret_zero()
    return x


def s_valerr_guard_same(e, x):
    er = e.tmp("error"); e.f.validate_err(er, x)
    with e.f.if_errnil(er, neg=True):
        e.f.ret_zero()
    return x


def s_san_same(e, x):
    """x = sanitize(x): the carrier itself is overwritten with the sanitized value"""
    e.f.sanitize(x, x)
    return x


def h_check(P):
    f = P.func("check", params=[("a", "string")], results=["bool"])
    f.var("r", "bool")
    f.validate("r", "a")
    f.ret(["r"])
    return "check"


def s_val_helper(e, x):
    y = e.out("S"); b = e.tmp("bool"); e.f.call([b], e.helper("check", h_check), [x])
    with e.f.if_var(b, neg=True):
        e.f.copy(y, x)
    return y


def s_val_after(e, x):
    """the sink-bound copy is taken BEFORE the validation"""
    y = e.out("S"); b = e.tmp("bool"); e.f.copy(y, x); e.f.validate(b, x)
    with e.f.if_var(b, neg=True):
        e.f.ret_zero()
    return y


# name: (in, out, family, function)
STEPS = {
    "copy": ("S", "S", "value", s_copy),
    "concat": ("S", "S", "value", s_concat),
    "concat2": ("S", "S", "value", s_concat2),
    "minmax2": ("S", "S", "value", s_minmax2),
    "minmax3": ("S", "S", "value", s_minmax3),
    "garr": ("S", "S", "global", s_garr),
    "garr_local": ("S", "S", "global", s_garr_local),
    "gfield": ("S", "S", "global", s_gfield),
    "gslice": ("S", "S", "global", s_gslice),
    "gmap": ("S", "S", "global", s_gmap),
    "tobytes": ("S", "B", "value", s_tobytes),
    "tostr": ("B", "S", "value", s_tostr),
    "fstore": ("S", "P", "field", s_fstore),
    "fload": ("P", "S", "field", s_fload),
    "nest": ("P", "PP", "field", s_nest),
    "unnest": ("PP", "P", "field", s_unnest),
    "addr": ("S", "PS", "field", s_addr),
    "deref": ("PS", "S", "field", s_deref),
    "newstr": ("S", "PS", "field", s_newstr),
    "addrsl": ("SL", "PSL", "container", s_addrsl),
    "derefsl": ("PSL", "SL", "container", s_derefsl),
    "slotsl": ("PSL", "SL", "call", s_slotsl),
    "structcopy": ("P", "P", "field", s_structcopy),
    "mkstruct": ("S", "ST", "field", s_mkstruct),
    "field": ("ST", "S", "field", s_field),
    "wrapp": ("P", "SP", "field", s_wrapp),
    "wrapphi": ("P", "SP", "field", s_wrapphi),
    "unwrapp": ("SP", "P", "field", s_unwrapp),
    "spcopy": ("SP", "SP", "field", s_spcopy),
    "stcopy": ("ST", "ST", "field", s_stcopy),
    "staddr": ("ST", "P", "field", s_staddr),
    "pairnest": ("ST", "PR", "field", s_pairnest),
    "pairget": ("PR", "ST", "field", s_pairget),
    "sllit": ("S", "SL", "container", s_sllit),
    "slstore": ("S", "SL", "container", s_slstore),
    "slidx": ("SL", "S", "container", s_slidx),
    "append1": ("S", "SL", "container", s_append1),
    "appendspread": ("SL", "SL", "container", s_appendspread),
    "copysl": ("SL", "SL", "container", s_copysl),
    "rangesl": ("SL", "S", "container", s_rangesl),
    "arrstore": ("S", "AR", "container", s_arrstore),
    "arrload": ("AR", "S", "container", s_arrload),
    "mapput": ("S", "M", "container", s_mapput),
    "mapget": ("M", "S", "container", s_mapget),
    "mapkey": ("S", "MK", "container", s_mapkey),
    "rangekey": ("MK", "S", "container", s_rangekey),
    "rangevalm": ("M", "S", "container", s_rangevalm),
    "box": ("S", "I", "iface", s_box),
    "assert": ("I", "S", "iface", s_assert),
    "boxptr": ("P", "IB", "iface", s_boxptr),
    "assertptr": ("IB", "P", "iface", s_assertptr),
    "mkifaceA": ("S", "IF", "iface", mk_mkiface("impA")),
    "mkifaceB": ("S", "IF", "iface", mk_mkiface("impB")),
    "mkifaceV": ("S", "IF", "iface", mk_mkiface("valT")),
    "mkifaceG": ("S", "IF", "iface", s_mkifaceG),
    "twoifaces": ("S", "S", "iface", s_twoifaces),
    "cbiface": ("S", "S", "iface", s_cbiface),
    "invoke": ("IF", "S", "iface", s_invoke),
    "ifaceput": ("S", "IF", "iface", s_ifaceput),
    "idcall": ("S", "S", "call", s_idcall),
    "outparam": ("S", "P", "call", s_outparam),
    "retptr": ("S", "P", "call", s_retptr),
    "tuple0": ("S", "S", "call", s_tuple0),
    "tuple1": ("S", "S", "call", s_tuple1),
    "funcval": ("S", "S", "call", s_funcval),
    "methodval": ("IF", "C", "call", s_methodval),
    "rec": ("S", "S", "call", s_rec),
    "recacc": ("S", "S", "call", s_recacc),
    "rec3": ("S", "S", "call", s_rec3),
    "swapg": ("S", "S", "global", s_swapg),
    "twoargs": ("S", "S", "call", s_twoargs),
    "fnparam": ("S", "S", "call", s_fnparam),
    "fnglobal": ("S", "S", "call", s_fnglobal),
    "deferarg": ("S", "P", "defer", s_deferarg),
    "deferclo": ("S", "S", "defer", s_deferclo),
    "capread": ("S", "C", "closure", s_capread),
    "callclo": ("C", "S", "closure", s_callclo),
    "capwrite": ("S", "S", "closure", s_capwrite),
    "cloparam": ("S", "S", "closure", s_cloparam),
    "retclo": ("S", "C", "closure", s_retclo),
    "gstore": ("S", "G", "global", s_gstore),
    "gload": ("G", "S", "global", s_gload),
    "gstorefn": ("S", "G", "global", s_gstorefn),
    "gloadfn": ("G", "S", "global", s_gloadfn),
    "gptrstore": ("P", "GP", "global", s_gptrstore),
    "gptrload": ("GP", "P", "global", s_gptrload),
    "defernamed": ("S", "S", "defer", s_defernamed),
    "deferwrite": ("S", "P", "defer", s_deferwrite),
    "send": ("S", "CH", "chan", s_send),
    "recv": ("CH", "S", "chan", s_recv),
    "selrecv": ("CH", "S", "chan", s_selrecv),
    "sendp": ("P", "CHP", "chan", s_sendp),
    "recvp": ("CHP", "P", "chan", s_recvp),
    "selrecvp": ("CHP", "P", "chan", s_selrecvp),
    "chanhand": ("S", "P", "conc", s_chanhand),   # contains a goroutine: only in the concurrent spaces (C13 / C14)
    "san_ret": ("S", "S", "role", s_san_ret),
    "san_arg": ("S", "S", "role", s_san_arg),
    "san_mix": ("S", "S", "role", s_san_mix),
    "san_branch": ("S", "S", "role", s_san_branch),
    "val_then": ("S", "S", "role", s_val_then),
    "val_storedneg": ("S", "S", "role", s_val_storedneg),
    "val_storedneg_else": ("S", "S", "role", s_val_storedneg_else),
    "val_storedneg_store": ("S", "P", "role", s_val_storedneg_store),
    "val_storedneg_guard": ("S", "S", "role", s_val_storedneg_guard),
    "val_storedneg_guard_ok": ("S", "S", "role", s_val_storedneg_guard_ok),
    "val_then_store": ("S", "P", "role", s_val_then_store),
    "val_else_store": ("S", "P", "role", s_val_else_store),
    "val_else": ("S", "S", "role", s_val_else),
    "val_negelse": ("S", "S", "role", s_val_negelse),
    "val_guard": ("S", "S", "role", s_val_guard),
    "val_ignore": ("S", "S", "role", s_val_ignore),
    "val_both": ("S", "S", "role", s_val_both),
    "val_copy": ("S", "S", "role", s_val_copy),
    "val_other": ("S", "S", "role", s_val_other),
    "valerr_guard": ("S", "S", "role", s_valerr_guard),
    "valerr_then": ("S", "S", "role", s_valerr_then),
    "valerr_else": ("S", "S", "role", s_valerr_else),
    "val_guard_same": ("S", "S", "role", s_val_guard_same),
    "valerr_guard_same": ("S", "S", "role", s_valerr_guard_same),
    "san_same": ("S", "S", "role", s_san_same),
    "val_helper": ("S", "S", "role", s_val_helper),
    "val_after": ("S", "S", "role", s_val_after),
}

FLOW_FAMS = sorted({v[2] for v in STEPS.values()} - {"role", "conc"})   # "conc": steps with goroutines of their own (C13 / C14 only)

# type-states whose carrier can be handed to sink() with the datum reachable from it
SINKABLE = {"S", "B", "P", "PP", "PS", "ST", "SP", "PR", "SL", "PSL", "AR", "M", "MK", "I", "IB", "IF", "G", "GP"}

DECORATIONS = ["plain", "then", "else", "loop", "helper", "iife", "killafter"]


def steps_table():
    return [{"name": n, "tin": v[0], "tout": v[1], "fam": v[2]} for n, v in sorted(STEPS.items())]


def apply_step(ctx, f, name, deco, x, tin):
    """emit step `name` under decoration `deco` into function f with input carrier x; returns output carrier"""
    tin_, tout, fam, fn = STEPS[name]
    assert tin_ == tin, (name, tin_, tin)
    # global carriers are not variables of f
    if deco == "plain" or tout in ("G", "GP") or tin in ("G", "GP") and deco in ("helper",):
        return fn(Env(ctx, f), x)
    if deco == "then":
        with f.if_oracle():
            return fn(Env(ctx, f), x)
    if deco == "else":
        with f.if_oracle() as br:
            t = ctx.fresh("t"); f.var(t, "string"); f.lit(t, "noop")
            with br.else_():
                return fn(Env(ctx, f), x)
    if deco == "loop":
        with f.loop_oracle():
            return fn(Env(ctx, f), x)
    if deco == "killafter":
        y = fn(Env(ctx, f), x)
        if tin == "S":
            f.lit(x, "killed")
        return y
    if deco == "helper":
        # the step runs in a helper function receiving the input carrier and returning the output carrier
        hname = ctx.fresh("h")
        h = ctx.prog.func(hname, params=[("in", TYPES[tin])], results=[TYPES[tout]])
        y_in = fn(Env(ctx, h), "in")
        h.ret([y_in])
        y = ctx.fresh("c"); f.var(y, TYPES[tout])
        f.call([y], hname, [x])
        return y
    if deco == "iife":
        # the step runs inside an immediately invoked closure capturing input and output carriers
        t = ctx.fresh("t"); f.var(t, "func()")
        cname = ctx.fresh("clo")
        env = Env(ctx, None, outer=f)
        # output must exist before the closure is created: run the step on a scratch closure builder
        g = f.closure(t, cname, captures=[])
        env.f = g
        y = fn(env, x)
        # captures: every outer variable the closure mentions
        for v in (x, y):
            if v in f.vars or any(v in (p.vars if p else {}) for p in [f.parent]):
                if v not in g.captures:
                    g.captures.append(v)
                    f.mark_cell(v)
        f.callv([], t, [])
        return y
    if deco == "go":
        # the step runs in a goroutine (closure capturing the carriers); the launcher waits for it on a channel
        y = run_in_goroutine(ctx, f, lambda env: fn(env, x), [x])
        return y
    raise ValueError(deco)


def run_in_goroutine(ctx, f, body, uses):
    """go func() { body; done <- "d" }(); <-done   -- returns what body returns"""
    t = ctx.fresh("t"); f.var(t, "func()")
    done = ctx.fresh("done"); f.var(done, "chan string")
    f.mkchan(done, 1)
    g = f.closure(t, ctx.fresh("clo"), captures=[done])
    env = Env(ctx, g, outer=f)
    y = body(env)
    for v in list(uses) + ([y] if isinstance(y, str) else []):
        if v in f.vars and v not in g.captures:
            g.captures.append(v)
            f.mark_cell(v)
    g.send(done, "_")
    f.go_clo(t)
    f.recv("_", done)
    return y


PROBEABLE = {"P", "PP", "PS", "SL", "PSL", "M", "MK", "B", "GP", "CH", "CHP"}


def build_chain(chain, sink_kind="sink", name="p", source_kind="source", probes=False, src_in_go=False,
                sink_in_go=False):
    """chain: list of (step name, decoration).  Returns minigo.Prog with main = source; steps; sink."""
    P = minigo.Prog(name)
    ctx = Ctx(P)
    f = P.func("main")
    x = ctx.fresh("c")
    f.var(x, "string")
    if source_kind == "origin":
        f.origin(x)
    elif src_in_go:
        run_in_goroutine(ctx, f, lambda env: env.f.source(x), [x])
    else:
        f.source(x)
    ts = "S"
    carriers = []
    for step, deco in chain:
        x = apply_step(ctx, f, step, deco, x, ts)
        ts = STEPS[step][1]
        if probes and ts in PROBEABLE:
            f.probe(x)
            carriers.append((x, ts))
    if probes:
        # probe every pointer-like carrier once more at the end: objects that are still referenced alias
        for v, t in carriers:
            f.probe(v)
    if sink_kind == "sink" and sink_in_go and x in f.vars:
        run_in_goroutine(ctx, f, lambda env: env.f.sink(x), [x])
    elif sink_kind == "sink":
        f.sink(x)
    elif sink_kind == "bt":
        f.bt([x])
    elif sink_kind == "bt_arg1":
        f.bt(["_", x])
    elif sink_kind == "bt_helper" and x in f.vars:
        h = P.func("btwrap", params=[("in", TYPES[ts])])
        h.bt(["in"])
        f.call([], "btwrap", [x])
    elif sink_kind == "bt_helper":
        f.bt([x])
    P.meta = {"chain": [[s, d] for s, d in chain], "final": ts, "src_in_go": src_in_go, "sink_in_go": sink_in_go,
              "sink_kind": sink_kind}
    return P
