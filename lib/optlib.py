"""Helpers of the checks C05 / C06 / C07 (builder-owned; the SEM engine files are only imported).

* render_shape(rec)        CallShapeSpace state -> Go program text (C07)
* write_plain_program(...) one independent main package in a module directory
* crashrun(...)            run harness/cmd/crashrun on a module / one package and parse its progress file
"""
import json
import os
import subprocess

import vlib

# ---------------------------------------------------------------------------------------------------------------
# C07: rendering of call-graph shapes
# ---------------------------------------------------------------------------------------------------------------
ROLES_SHAPES = '''package main

var opaque bool
var opaqueN int

func oracle() bool       { return opaque }
func oracleN() int       { return opaqueN }
func source() string     { return "tainted" }
func origin() string     { return "origin" }
func sink(x any)         {}
func bt1(x any)          {}
'''

TYPE_DECLS = {
    "plain": '''
func mk(s string) string  { return s }
func val(x string) string { return x }
func work(x string) string { return x + "w" }
''',
    "recstruct": '''
type node struct {
	next *node
	val  string
	kids []*node
	self map[string]*node
}

func mk(s string) *node {
	n := &node{val: s}
	n.next = &node{next: n, val: s}
	n.kids = append(n.kids, n, n.next)
	n.self = map[string]*node{"me": n}
	return n
}
func val(x *node) string {
	r := ""
	for p := x; p != nil && oracle(); p = p.next {
		r += p.val
		for _, k := range p.kids {
			r += k.val
		}
	}
	return r
}
func work(x *node) *node { return &node{next: x, val: x.val, kids: x.kids} }
''',
    "reciface": '''
type link interface {
	Next() link
	Val() string
	Wrap(link) link
}

type cell struct {
	n link
	v string
}

func (c *cell) Next() link      { return c.n }
func (c *cell) Val() string     { return c.v }
func (c *cell) Wrap(l link) link { return &cell{n: l, v: c.v + l.Val()} }

type stop struct{ v string }

func (s stop) Next() link      { return nil }
func (s stop) Val() string     { return s.v }
func (s stop) Wrap(l link) link { return &cell{n: l, v: s.v} }

func mk(s string) link {
	c := &cell{v: s}
	c.n = c
	if oracle() {
		return stop{v: s}
	}
	return c
}
func val(x link) string {
	r := x.Val()
	for p := x.Next(); p != nil && oracle(); p = p.Next() {
		r += p.Val()
	}
	return r
}
func work(x link) link { return x.Wrap(&cell{n: x, v: x.Val()}) }
''',
    "generic": '''
type gbox[T any] struct {
	v    T
	next *gbox[T]
}

func (b *gbox[T]) get() T { return b.v }
func (b *gbox[T]) rec(n int) T {
	if n > 0 && b.next != nil {
		return b.next.rec(n - 1)
	}
	return b.v
}

func mk(s string) string  { return s }
func val(x string) string { return x }
func work[T any](x T) T {
	b := &gbox[T]{v: x}
	b.next = b
	if oracle() {
		return b.rec(oracleN())
	}
	return b.get()
}

type num interface{ ~int | ~string }

func gsum[T num](xs ...T) T {
	var z T
	for _, x := range xs {
		z += x
	}
	return z
}
''',
}

EXT_ASM = '''#include "textflag.h"

// func ext(x string) (r string)
TEXT ·ext(SB),NOSPLIT,$0-32
	MOVQ x_base+0(FP), AX
	MOVQ x_len+8(FP), BX
	MOVQ AX, r_base+16(FP)
	MOVQ BX, r_len+24(FP)
	RET

// func ext2(p *string, n int) (s string, err error)
TEXT ·ext2(SB),NOSPLIT,$0-48
	MOVQ $0, s_base+16(FP)
	MOVQ $0, s_len+24(FP)
	MOVQ $0, err_itable+32(FP)
	MOVQ $0, err_data+40(FP)
	RET
'''

TY = {"plain": "string", "recstruct": "*node", "reciface": "link", "generic": "T"}


def render_shape(rec):
    """rec: {"nf": n, "edges": [{"f","t","k"}], "shapes": [...]} -> (main.go text, extra files {name: text})"""
    nf = rec["nf"]
    shapes = set(rec["shapes"])
    tshape = ([s for s in ("recstruct", "reciface", "generic") if s in shapes] or ["plain"])[0]
    gen = tshape == "generic"
    ty = TY[tshape]
    GD = "[T any]" if gen else ""      # declaration suffix
    G = "[T]" if gen else ""           # use inside a generic function
    edges = sorted(rec["edges"], key=lambda e: (e["f"], e["t"], e["k"]))
    extra = {}
    L = ["package main", ""]
    L += TYPE_DECLS[tshape].strip("\n").split("\n")
    L.append("")
    need_impl = sorted({e["t"] for e in edges if e["k"] in ("iface", "methodval")})
    if need_impl:
        L.append("type caller%s interface{ call(%s) %s }" % (GD, ty, ty))
        L.append("type implW%s struct{}" % GD)
        L.append("func (implW%s) call(x %s) %s { return work%s(x) }" % (G, ty, ty, G))
        for t in need_impl:
            L.append("type impl%d%s struct{ tag string }" % (t, GD))
            L.append("func (impl%d%s) call(x %s) %s { return f%d%s(x) }" % (t, G, ty, ty, t, G))
        L.append("")
    if "deferloop" in shapes:
        L += ["func keep%s(x %s) {}" % (GD, ty), ""]
    if "empty" in shapes:
        L += ["func emp() {}", "func emp2%s(x %s) {}" % (GD, ty), "func emp3() (r string) { return }", ""]
    if "bodyless" in shapes:
        L += ["// declared without a body: implemented in assembly (ext_amd64.s)",
              "func ext(x string) (r string)", "func ext2(p *string, n int) (s string, err error)", ""]
        extra["ext_amd64.s"] = EXT_ASM

    def call_form(e, idx, g, ty_here, in_main):
        """statements performing the edge e with data variable y; g = generic instantiation suffix at this site"""
        t, k = e["t"], e["k"]
        fn = "f%d%s" % (t, g)
        out = []
        if k == "static":
            out.append("y = %s(y)" % fn)
        elif k == "closure":
            out += ["cl%d := func() %s { return %s(y) }" % (idx, ty_here, fn), "y = cl%d()" % idx]
        elif k == "funcval":
            out += ["var g%d func(%s) %s = %s" % (idx, ty_here, ty_here, fn),
                    "if oracle() {", "\tg%d = work%s" % (idx, g), "}", "y = g%d(y)" % idx]
        elif k == "iface":
            out += ["var i%d caller%s = impl%d%s{}" % (idx, g, t, g),
                    "if oracle() {", "\ti%d = implW%s{}" % (idx, g), "}", "y = i%d.call(y)" % idx]
        elif k == "methodval":
            out += ["m%d := impl%d%s{}.call" % (idx, t, g), "y = m%d(y)" % idx]
        elif k == "defer":
            out.append("defer %s(y)" % fn)
        elif k == "go":
            out.append("go %s(y)" % fn)
        else:
            raise ValueError(k)
        return out

    # every function calls the shared helper `work` exactly once: the visitors are context-sensitive over call
    # strings, so every additional call site of a shared helper multiplies the number of contexts (the decorations
    # below therefore use copies and the one-call-site helper `keep`)
    for i in range(1, nf + 1):
        L.append("func f%d%s(x %s) %s {" % (i, GD, ty, ty))
        L.append("\ty := work%s(x)" % G)
        if i == 1:
            if "deferloop" in shapes:
                L += ["\tfor oracle() {", "\t\tdefer keep%s(y)" % G, "\t}",
                      "\tfor j := 0; j < oracleN(); j++ {", "\t\tdefer func() { y = x }()", "\t}"]
            if "goto" in shapes:
                L += ["\tif oracle() {", "\t\tgoto L2", "\t}", "L1:", "\ty = x", "L2:",
                      "\tx = y", "\tif oracle() {", "\t\tgoto L1", "\t}",
                      "\tif oracle() {", "\t\tgoto L2", "\t}"]
            if "empty" in shapes:
                L += ["\temp()", "\temp2%s(y)" % G, "\tdefer emp()", "\tgo emp()", "\t_ = emp3()"]
            if "switch" in shapes:
                L.append("\tswitch oracleN() {")
                for c in range(40):
                    L.append("\tcase %d:" % c)
                    L.append("\t\t%s" % ("y = x" if c % 2 else "x = y"))
                    if c == 7:
                        L.append("\t\tfallthrough")
                L += ["\tdefault:", "\t\ty = x", "\t}"]
        for idx, e in enumerate(edges):
            if e["f"] != i:
                continue
            L.append("\tif oracle() {")
            for st in call_form(e, idx, G, ty, False):
                L.append("\t\t" + st)
            L.append("\t}")
        L.append("\treturn y")
        L.append("}")
        L.append("")
    L.append("func main() {")
    L.append("\ts := source()")
    L.append("\ty := mk(s)")
    mty = "string" if gen else ty
    for idx, e in enumerate(edges):
        if e["f"] == 0:
            for st in call_form(e, idx, "[string]" if gen else "", mty, True):
                L.append("\t" + st)
    L.append("\tr := val(y)")
    if gen:
        L += ["\tr = gsum(r, \"a\")", "\t_ = gsum(1, 2)", "\t_ = work[int](oracleN())"]
    if "bodyless" in shapes:
        L += ["\tr = ext(r)", "\tr2, _ := ext2(&r, 1)", "\tsink(r2)"]
    L.append("\tsink(r)")
    L.append("\tbt1(r)")
    L.append("}")
    return "\n".join(L) + "\n", extra


def shape_key(rec):
    return json.dumps({"nf": rec["nf"], "edges": sorted([[e["f"], e["t"], e["k"]] for e in rec["edges"]]),
                       "shapes": sorted(rec["shapes"])}, sort_keys=True)


def shape_constructs(rec):
    """the constructs of a shape, used to attribute failures to known findings (never a hash)"""
    cs = {"kind:" + e["k"] for e in rec["edges"]} | {"shape:" + s for s in rec["shapes"]}
    for e in rec["edges"]:
        if e["f"] == e["t"]:
            cs.add("self:" + e["k"])
        elif 0 < e["t"] < e["f"]:
            cs.add("back:" + e["k"])
    return cs


def write_plain_program(d, main_go, extra=None, roles=ROLES_SHAPES):
    os.makedirs(d, exist_ok=True)
    with open(os.path.join(d, "main.go"), "w") as fh:
        fh.write(main_go)
    with open(os.path.join(d, "roles.go"), "w") as fh:
        fh.write(roles)
    for n, t in (extra or {}).items():
        with open(os.path.join(d, n), "w") as fh:
            fh.write(t)


# ---------------------------------------------------------------------------------------------------------------
# C07: running the analyses
# ---------------------------------------------------------------------------------------------------------------
def crashrun(bins, mod, pattern, analyses, out, timeout=120, cfgdir=None, gomaxprocs="2", walltimeout=1800):
    """returns {"load": rec|None, "runs": {name: rec}, "running": name|None, "rc": int, "stderr": str, "killed": bool}
    `running` = analysis that was started but did not end (fatal error, crash of a worker goroutine, timeout)"""
    cmd = [bins["crashrun"], "-dir", mod, "-pattern", pattern, "-out", out, "-analyses", ",".join(analyses),
           "-timeout", str(timeout), "-walltimeout", str(walltimeout)]
    if cfgdir:
        cmd += ["-cfgdir", cfgdir]
    env = vlib.goenv()
    env["GOMAXPROCS"] = gomaxprocs
    killed = False
    try:
        q = subprocess.run(cmd, env=env, stdout=subprocess.DEVNULL, stderr=subprocess.PIPE, text=True,
                           timeout=walltimeout * 2 + 600)
        rc, err = q.returncode, q.stderr
    except subprocess.TimeoutExpired as e:
        rc, err, killed = -9, (e.stderr or b"").decode("utf8", "replace") if isinstance(e.stderr, bytes) else (e.stderr or ""), True
    res = {"load": None, "runs": {}, "running": None, "rc": rc, "stderr": err[-6000:], "killed": killed, "done": False,
           "timeout": None, "timeout_stack": "", "timeout_cpu_ms": 0}
    if os.path.exists(out):
        for r in vlib.read_ndjson(out):
            if r["ev"] == "load":
                res["load"] = r
            elif r["ev"] == "start":
                res["running"] = r["name"]
            elif r["ev"] == "end":
                res["runs"][r["name"]] = r
                res["running"] = None
            elif r["ev"] == "timeout":
                res["timeout"] = r["name"]
                res["timeout_stack"] = r.get("panic", "")
                res["timeout_cpu_ms"] = r.get("n", 0)
            elif r["ev"] == "done":
                res["done"] = True
    return res


# ---------------------------------------------------------------------------------------------------------------
# C05 / C06: option vectors, configurations, programs
# ---------------------------------------------------------------------------------------------------------------
GEN_CONFIG_TMPL = """options:
%(options)s
taint-tracking-problems:
  - sources:
      - package: "(main)|(command-line-arguments)|(prog)"
        method: "^source$"
    sinks:
      - package: "(main)|(command-line-arguments)|(prog)"
        method: "^sink$"
    sanitizers:
      - package: "(main)|(command-line-arguments)|(prog)"
        method: "^sanitize$"
    validators:
      - package: "(main)|(command-line-arguments)|(prog)"
        method: "^validate(Err)?$"
slicing-problems:
  - backtracepoints:
      - package: "(main)|(command-line-arguments)|(prog)"
        method: "^(bt[0-9]|sink)$"
"""

# pkg-filter regexes per program class: index = pf value of OptionSpace (0 none, 1 all, 2 main only, 3 none matching)
PF_GENERATED = ["", "^prog/", "^prog/[a-z0-9]+$", "zzz_no_such_package"]
PF_REPO = ["", "ar-go-tools", "testdata/[A-Za-z0-9_-]+$", "zzz_no_such_package"]


def vec_name(v):
    return "v%04d" % v["code"]


def vec_options(v, pf_table, reports_dir):
    """option vector of OptionSpace -> {yaml option: value}"""
    o = {"summarize-on-demand": bool(v["od"]), "report-paths": bool(v["rp"]), "report-summaries": bool(v["rs"]),
         "report-coverage": bool(v["rc"]), "report-no-callee-sites": bool(v["rn"]), "log-level": int(v["ll"]),
         "max-alarms": int(v["ma"]), "reports-dir": reports_dir}
    if pf_table[v["pf"]]:
        o["pkg-filter"] = pf_table[v["pf"]]
    return o


def yaml_scalar(v):
    if v is True:
        return "true"
    if v is False:
        return "false"
    if isinstance(v, str):
        return '"%s"' % v.replace("\\", "\\\\")
    return str(v)


def write_gen_config(path, options):
    lines = ["  %s: %s" % (k, yaml_scalar(v)) for k, v in options.items()]
    with open(path, "w") as fh:
        fh.write(GEN_CONFIG_TMPL % {"options": "\n".join(lines)})


def write_repo_config(path, base_yaml, options):
    """the repository's own config.yaml of a testdata program with the options under test overridden; relative
    file references are made absolute (the rewritten file lives in the scratch directory)"""
    import yaml
    base_dir = os.path.dirname(os.path.abspath(base_yaml))
    cfg = yaml.safe_load(open(base_yaml)) or {}
    opts = dict(cfg.get("options") or {})
    opts.update(options)
    if "pkg-filter" not in options:
        opts.pop("pkg-filter", None)
    if opts.get("escape-config"):
        opts["escape-config"] = os.path.join(base_dir, opts["escape-config"])
    cfg["options"] = opts
    if cfg.get("dataflow-specs"):
        cfg["dataflow-specs"] = [os.path.join(base_dir, f) for f in cfg["dataflow-specs"]]
    with open(path, "w") as fh:
        yaml.safe_dump(cfg, fh, default_flow_style=False, sort_keys=False)


def build_chain2(chain, name="p"):
    """like semgen.build_chain, with TWO sources and THREE sink calls so that max-alarms matters:
    c := source(); steps; sink(c'); d := source(); sink(d); sink(c')"""
    import minigo
    import semgen
    P = minigo.Prog(name)
    ctx = semgen.Ctx(P)
    f = P.func("main")
    x = ctx.fresh("c")
    f.var(x, "string")
    f.source(x)
    ts = "S"
    for step, deco in chain:
        x = semgen.apply_step(ctx, f, step, deco, x, ts)
        ts = semgen.STEPS[step][1]
    f.sink(x)
    d = ctx.fresh("d")
    f.var(d, "string")
    f.source(d)
    f.sink(d)
    f.sink(x)
    P.meta = {"chain": [[s, d_] for s, d_ in chain], "final": ts}
    return P


# instruction kinds that read / write a global in a function other than the writer / reader.  Each entry:
# name -> (declarations of package lib, body of Wr(x string), body of Rd() string)
LIB_HEAD = '''package lib

type Box struct{ S string }

func (b *Box) Get() string  { return b.S }
func (b *Box) Set(x string) { b.S = x }

var Opaque bool

func oracle() bool           { return Opaque }
func deref(p *string) string { return *p }
func setp(p *string, x string) { *p = x }
func addrG() *string         { return &G }

var G string
var H string
'''

GLOBAL_KINDS = {
    # ---- reader side (writer: plain store G = x)
    "r_load": ("", "G = x", "return G"),
    "r_callarg": ("", "G = x", "return deref(&G)"),
    "r_binop": ("", "G = x", 'return G + "s"'),
    "r_convert": ("", "G = x", "return string([]byte(G))"),
    "r_iface": ("", "G = x", "var i any = &G\n\treturn *(i.(*string))"),
    "r_phi": ("", "G = x", "p := &H\n\tif oracle() {\n\t\tp = &G\n\t}\n\treturn *p"),
    "r_ret": ("", "G = x", "return *addrG()"),
    "r_storeaddr": ("", "G = x", "var p *string\n\tpp := &p\n\t*pp = &G\n\treturn **pp"),
    "r_mapaddr": ("", "G = x", 'm := map[string]*string{}\n\tm["k"] = &G\n\treturn *m["k"]'),
    "r_sendaddr": ("", "G = x", "c := make(chan *string, 1)\n\tc <- &G\n\treturn *(<-c)"),
    "r_sliceaddr": ("", "G = x", "ps := []*string{&G}\n\treturn *ps[0]"),
    "r_closure": ("", "G = x", "f := func() string { return G }\n\treturn f()"),
    "r_defer": ("", "G = x", 'r := ""\n\tfunc() {\n\t\tdefer func() { r = G }()\n\t}()\n\treturn r'),
    "r_deferarg": ("func keepp(p *string, out *string) { *out = *p }", "G = x",
                   'r := ""\n\tfunc() {\n\t\tdefer keepp(&G, &r)\n\t}()\n\treturn r'),
    "r_send": ("", "G = x", "c := make(chan string, 1)\n\tc <- G\n\treturn <-c"),
    "r_mapval": ("", "G = x", 'm := map[string]string{}\n\tm["k"] = G\n\treturn m["k"]'),
    "r_field_of_struct": ("", "G = x", "b := Box{S: G}\n\treturn b.S"),
    # ---- both sides through a method receiver (call argument &GB)
    "rw_receiver": ("var GB Box", "GB.Set(x)", "return GB.Get()"),
    # ---- aggregates
    "a_field": ("var GS Box", "GS.S = x", "return GS.S"),
    "a_index": ("var GA [2]string", "GA[0] = x", "return GA[0]"),
    "a_slice": ("var GA [2]string", "GA[0] = x", "s := GA[:]\n\treturn s[0]"),
    "a_slelem": ("var GSL = make([]string, 2)", "GSL[0] = x", "return GSL[0]"),
    "a_range": ("var GSL = make([]string, 2)", "GSL[0] = x", 'r := ""\n\tfor _, v := range GSL {\n\t\tr += v\n\t}\n\treturn r'),
    "a_mapentry": ("var GM = map[string]string{}", 'GM["k"] = x', 'return GM["k"]'),
    "a_ptrfield": ("var GP = &Box{}", "GP.S = x", "return GP.S"),
    "a_chan": ("var GCH = make(chan string, 1)", "GCH <- x", "return <-GCH"),
    "a_ifaceglobal": ("var GI any", "GI = x", "s, _ := GI.(string)\n\treturn s"),
    "a_fnglobal": ("var GF func() string", "GF = func() string { return x }", "return GF()"),
    # ---- writer side (reader: plain load)
    "w_callarg": ("", "setp(&G, x)", "return G"),
    "w_closure": ("", "f := func() { G = x }\n\tf()", "return G"),
    "w_defer": ("", "func() {\n\t\tdefer func() { G = x }()\n\t}()", "return G"),
    "w_phi": ("", "p := &H\n\tif oracle() {\n\t\tp = &G\n\t}\n\t*p = x", "return G"),
    "w_ret": ("", "*addrG() = x", "return G"),
}

KIND_MAIN = '''package main

import "prog/%(name)s/lib"

func source() string { return "tainted" }
func sink(x any)     {}

func main() {
	x := source()
	lib.Wr(x)
	r := lib.Rd()
	sink(r)
	y := source()
	sink(y)
	sink(r)
}
'''


# call chains of a given depth between the function that produces the tainted datum and the function that consumes it
# (the visitor keeps at most max-entrypoint-context-size = 5 frames of calling context): mechanism x depth
DEPTH_KINDS = {"d_%s_%d" % (m, n): (m, n) for m in ("outparam", "ret", "global") for n in (1, 4, 5, 6, 7)}

DEPTH_MAIN = '''package main

import "prog/%(name)s/lib"

func source() string { return "tainted" }
func sink(x any)     {}

func main() {
	b := &lib.Box{}
%(use)s
	y := source()
	sink(y)
	sink(r)
}
'''


def write_depth_program(d, name, kind):
    mech, n = DEPTH_KINDS[kind]
    os.makedirs(os.path.join(d, "lib"), exist_ok=True)
    fs = ["func source() string { return \"tainted\" }", ""]
    if mech == "outparam":
        for i in range(1, n):
            fs.append("func F%d(b *Box) { F%d(b) }" % (i, i + 1))
        fs.append("func F%d(b *Box) { b.S = source() }" % n)
        use = "\tlib.F1(b)\n\tr := b.S\n\tsink(r)"
    elif mech == "ret":
        for i in range(1, n):
            fs.append("func F%d() string { return F%d() }" % (i, i + 1))
        fs.append("func F%d() string { return source() }" % n)
        use = "\t_ = b\n\tr := lib.F1()\n\tsink(r)"
    else:
        for i in range(1, n):
            fs.append("func F%d() { F%d() }" % (i, i + 1))
        fs.append("func F%d() { G = source() }" % n)
        use = "\t_ = b\n\tlib.F1()\n\tr := lib.Rd()\n\tsink(r)"
    with open(os.path.join(d, "main.go"), "w") as fh:
        fh.write(DEPTH_MAIN % {"name": name, "use": use})
    with open(os.path.join(d, "lib", "lib.go"), "w") as fh:
        fh.write(LIB_HEAD + "\n// kind: " + kind + "\n" + "\n".join(fs) + "\n\nfunc Rd() string {\n\treturn G\n}\n")


def write_kind_program(d, name, kind):
    if kind in DEPTH_KINDS:
        return write_depth_program(d, name, kind)
    decls, wr, rd = GLOBAL_KINDS[kind]
    os.makedirs(os.path.join(d, "lib"), exist_ok=True)
    with open(os.path.join(d, "main.go"), "w") as fh:
        fh.write(KIND_MAIN % {"name": name})
    with open(os.path.join(d, "lib", "lib.go"), "w") as fh:
        fh.write(LIB_HEAD + decls + "\n\n// kind: " + kind + "\nfunc Wr(x string) {\n\t" + wr + "\n}\n\nfunc Rd() string {\n\t" + rd + "\n}\n")


def optrun(bins, mod, patterns, out, taint=(), backtrace=(), repeat=1, env_extra=None, timeout=1800, prefix=()):
    """runs harness/cmd/optrun; returns (records, stderr, returncode)"""
    cmd = list(prefix) + [bins["optrun"], "-dir", mod, "-patterns", ",".join(patterns), "-out", out, "-repeat", str(repeat)]
    if taint:
        cmd += ["-taint", ",".join(taint)]
    if backtrace:
        cmd += ["-backtrace", ",".join(backtrace)]
    env = vlib.goenv()
    env["GOMAXPROCS"] = "2"
    env.update(env_extra or {})
    try:
        q = subprocess.run(cmd, env=env, stdout=subprocess.DEVNULL, stderr=subprocess.PIPE, text=True, timeout=timeout)
    except subprocess.TimeoutExpired:
        return [], "timeout", -9
    recs = vlib.read_ndjson(out) if os.path.exists(out) else []
    return recs, q.stderr[-3000:], q.returncode
