"""Common machinery for the /verif checks (see DESIGN.md section 2).

Every check is a Python module checks/cNN.py with a function run(ctx) that
returns nothing and uses ctx (a Ctx) to build the Go harness from /repo's
current working tree, run TLC, report violations / known findings and write
the evidence file.  Exit codes: 0 held, 1 violation, 2 inconclusive.
"""
import hashlib
import json
import os
import re
import shutil
import subprocess
import sys
import time

VERIF = os.path.dirname(os.path.dirname(os.path.abspath(__file__)))
REPO = os.environ.get("VERIF_REPO", "/repo")
SPEC = os.path.join(VERIF, "spec")
HARNESS = os.path.join(VERIF, "harness")
TLA_CP = "/opt/veriftools/tla/tla2tools.jar:/opt/veriftools/tla/CommunityModules-deps.jar"
NCPU = os.cpu_count() or 4


class Inconclusive(Exception):
    pass


def goenv():
    e = dict(os.environ)
    e.update(GOFLAGS="-mod=mod", GOPROXY="off", GOSUMDB="off", GOTOOLCHAIN="local",
             CGO_ENABLED=e.get("CGO_ENABLED", "1"))
    e.pop("GOWORK", None)
    e["GOWORK"] = "off"
    return e


def sh(cmd, cwd=None, env=None, timeout=None, check=True, input=None):
    p = subprocess.run(cmd, cwd=cwd, env=env, timeout=timeout, input=input,
                       stdout=subprocess.PIPE, stderr=subprocess.STDOUT, text=True,
                       shell=isinstance(cmd, str))
    if check and p.returncode != 0:
        raise Inconclusive("command failed (%d): %s\n%s" % (p.returncode, cmd, p.stdout[-4000:]))
    return p


class TlcResult:
    def __init__(self, out, rc):
        self.out = out
        self.rc = rc
        self.generated = 0
        self.distinct = 0
        m = None
        for m in re.finditer(r"(\d+) states generated, (\d+) distinct states found", out):
            pass
        if m:
            self.generated, self.distinct = int(m.group(1)), int(m.group(2))
        else:
            # simulation mode: "The number of states generated: N"
            m2 = re.search(r"The number of states generated: (\d+)", out)
            if m2:
                self.generated = self.distinct = int(m2.group(1))
        self.violated = ("is violated" in out) or ("Error: Invariant" in out) or \
                        ("Error: Action property" in out) or ("Temporal properties were violated" in out) \
                        or ("Deadlock reached" in out)
        self.error = ("Error:" in out) and not self.violated
        self.ok = (rc == 0) and not self.violated and "Error:" not in out

    def coverage_zero(self):
        """lines of a -coverage 1 report with a zero count"""
        return [l.strip() for l in self.out.splitlines() if re.search(r": 0$", l.strip()) and l.startswith("<")]


class Ctx:
    def __init__(self, prop, tier, seed, replay=None):
        self.prop = prop
        self.tier = tier
        self.seed = seed
        self.replay = replay
        self.t0 = time.time()
        self.work = os.path.join(VERIF, "work", "%s-%d" % (prop, os.getpid()))
        shutil.rmtree(self.work, ignore_errors=True)
        os.makedirs(self.work)
        self.bin = os.path.join(self.work, "bin")
        self.states = 0
        self.transitions = 0
        self.traces = 0
        self.samples = []
        self.violations = []
        self.known_seen = []
        self.extra = {}
        self.assumptions = []
        self.tlc_runs = 0
        self.exhaustive = None
        self.kf = load_known_findings(prop)

    # ---------------------------------------------------------------- build
    def build(self, cmds, race=False, tags="verif"):
        """go build harness commands against /repo's current working tree."""
        hdir = os.path.join(self.work, "harness")
        ensure_harness_mod(hdir)
        os.makedirs(self.bin, exist_ok=True)
        outs = {}
        for c in cmds:
            out = os.path.join(self.bin, c + ("-race" if race else ""))
            args = ["go", "build", "-tags", tags]
            if race:
                args.append("-race")
            args += ["-o", out, "./cmd/" + c]
            p = sh(args, cwd=hdir, env=goenv(), check=False, timeout=1200)
            if p.returncode != 0:
                raise Inconclusive("harness build failed for %s:\n%s" % (c, p.stdout[-6000:]))
            outs[c] = out
        return outs

    # ---------------------------------------------------------------- TLC
    def tlc(self, module, cfg=None, files=(), data=None, workers=1, timeout=600, simulate=None,
            depth=None, seed=None, xmx="4g", coverage=False, deadlock=True, extra=(), subdir=None,
            dfid=None):
        """Run TLC on spec/<module>.tla in a scratch copy.  data: {filename: text} extra files.
        Returns TlcResult; raises Inconclusive on timeout/crash (never a violation)."""
        d = os.path.join(self.work, "tlc", subdir or ("%s-%d" % (module, self.tlc_runs)))
        self.tlc_runs += 1
        os.makedirs(d, exist_ok=True)
        for f in os.listdir(SPEC):
            if f.endswith(".tla"):
                shutil.copy(os.path.join(SPEC, f), d)
        cfgname = cfg or (module + ".cfg")
        if os.path.exists(os.path.join(SPEC, cfgname)):
            shutil.copy(os.path.join(SPEC, cfgname), d)
        for f in files:
            shutil.copy(f, d)
        for name, text in (data or {}).items():
            with open(os.path.join(d, name), "w") as fh:
                fh.write(text)
        cmd = ["java", "-XX:+UseParallelGC", "-Xmx" + xmx, "-Xss64m", "-cp", TLA_CP, "tlc2.TLC",
               "-metadir", os.path.join(d, "states"), "-workers", str(workers), "-config", cfgname]
        if not deadlock:
            cmd.append("-deadlock")
        if coverage:
            cmd += ["-coverage", "1"]
        if simulate:
            cmd += ["-simulate", simulate]
            if depth:
                cmd += ["-depth", str(depth)]
        if dfid:
            cmd += ["-dfid", str(dfid)]
        if seed is not None:
            cmd += ["-seed", str(seed)]
        cmd += list(extra)
        cmd.append(module + ".tla")
        try:
            p = subprocess.run(cmd, cwd=d, stdout=subprocess.PIPE, stderr=subprocess.STDOUT, text=True,
                               timeout=timeout)
        except subprocess.TimeoutExpired:
            raise Inconclusive("TLC timeout (%ds) on %s/%s" % (timeout, module, cfgname))
        r = TlcResult(p.stdout, p.returncode)
        r.dir = d
        self.states += r.distinct
        self.transitions += r.generated
        with open(os.path.join(d, "tlc.out"), "w") as fh:
            fh.write(p.stdout)
        if "java.lang.OutOfMemoryError" in p.stdout or "StackOverflowError" in p.stdout:
            raise Inconclusive("TLC resource failure on %s:\n%s" % (module, p.stdout[-2000:]))
        return r

    def tlc_must_pass(self, *a, **kw):
        """TLC run whose failure is a problem of the model / machinery (exit 2), never a violation."""
        r = self.tlc(*a, **kw)
        if not r.ok:
            raise Inconclusive("TLC did not complete cleanly on %s:\n%s" % (a[0], r.out[-5000:]))
        return r

    # ---------------------------------------------------------------- verdicts
    def violation(self, what, files=None, key=None):
        """Record a violation backed by real-code behaviour.  files: {name: text} replay material."""
        h = hashlib.sha1((key or what).encode()).hexdigest()[:12]
        d = os.path.join(VERIF, "replays", self.prop, h)
        os.makedirs(d, exist_ok=True)
        with open(os.path.join(d, "README"), "w") as fh:
            fh.write(what + "\n")
        for name, text in (files or {}).items():
            p = os.path.join(d, name)
            os.makedirs(os.path.dirname(p), exist_ok=True)
            with open(p, "w") as fh:
                fh.write(text if isinstance(text, str) else json.dumps(text, indent=1))
        self.violations.append({"what": what, "replay": d})
        print("VIOLATION property=%s replay=%s" % (self.prop, d))
        print("  reason: %s" % what[:600])
        sys.stdout.flush()

    def known(self, entry_id, what):
        if entry_id not in self.known_seen:
            self.known_seen.append(entry_id)
            print("KNOWN-FINDING: property=%s %s" % (self.prop, what))
            sys.stdout.flush()

    def known_entry(self, entry_id):
        for e in self.kf:
            if e["id"] == entry_id:
                return e
        return None

    def is_known(self, entry_id):
        e = self.known_entry(entry_id)
        return bool(e) and e.get("status") == "known"

    # ---------------------------------------------------------------- evidence
    def sample(self, s):
        if len(self.samples) < 8:
            self.samples.append(s)

    def finish(self, exhaustive=None, rule=None, evaluations=None, distinct=None):
        cov = {
            "states": max(1, self.states),
            "transitions": max(1, self.transitions),
            "traces_validated_against_impl": self.traces,
            "samples": self.samples or ["(none)"],
            "tlc_runs": self.tlc_runs,
            "known_findings_seen": self.known_seen,
        }
        if evaluations is not None:
            cov["evaluations"] = evaluations
        if distinct is not None:
            cov["distinct_nontrivial"] = distinct
        if rule:
            cov["rule"] = rule
        if exhaustive is not None:
            cov["exhaustive"] = bool(exhaustive)
        cov.update(self.extra)
        ev = {
            "property_id": self.prop, "tier": self.tier, "seed": self.seed, "level": "model_checking",
            "coverage": cov, "assumptions": self.assumptions,
            "wall_s": round(time.time() - self.t0, 2), "violations": len(self.violations),
        }
        os.makedirs(os.path.join(VERIF, "evidence"), exist_ok=True)
        with open(os.path.join(VERIF, "evidence", self.prop + ".json"), "w") as fh:
            json.dump(ev, fh, indent=1, sort_keys=True, default=str)
            fh.write("\n")

    def cleanup(self):
        if os.environ.get("VERIF_KEEP"):
            return
        shutil.rmtree(self.work, ignore_errors=True)


def load_known_findings(prop=None):
    p = os.path.join(VERIF, "known_findings.json")
    if not os.path.exists(p):
        return []
    with open(p) as fh:
        kf = json.load(fh)
    ents = kf.get("findings", [])
    if prop:
        ents = [e for e in ents if e.get("property") == prop or prop in e.get("properties", [])]
    return ents


def ensure_harness_mod(dst):
    """Copy the harness sources to dst (scratch) and point its go.mod at REPO (so that checks run against
    VERIF_REPO=<other tree> do not disturb each other); go.sum is copied from the repo (offline: no sumdb)."""
    if os.path.exists(dst):
        shutil.rmtree(dst)
    shutil.copytree(HARNESS, dst, ignore=shutil.ignore_patterns("go.mod", "go.sum", "bin"))
    with open(os.path.join(dst, "go.mod"), "w") as fh:
        fh.write(open(os.path.join(HARNESS, "go.mod.tmpl")).read().replace("@REPO@", REPO))
    shutil.copy(os.path.join(REPO, "go.sum"), os.path.join(dst, "go.sum"))


def ndjson(recs):
    return "".join(json.dumps(r, sort_keys=True) + "\n" for r in recs)


def read_ndjson(path):
    out = []
    with open(path) as fh:
        for l in fh:
            l = l.strip()
            if l:
                out.append(json.loads(l))
    return out


def pmap(fn, items, nproc=None):
    """thread-pool map (the work is in subprocesses)"""
    from concurrent.futures import ThreadPoolExecutor
    with ThreadPoolExecutor(max_workers=nproc or NCPU) as ex:
        return list(ex.map(fn, items))


def main(argv):
    import importlib
    if len(argv) < 2:
        print("usage: check <ID> [--tier quick|thorough] [--replay path]")
        return 2
    prop = argv[1].upper()
    tier = os.environ.get("VERIF_TIER", "quick")
    replay = None
    i = 2
    while i < len(argv):
        if argv[i] == "--tier":
            tier = argv[i + 1]; i += 2
        elif argv[i] == "--replay":
            replay = argv[i + 1]; i += 2
        else:
            i += 1
    if tier not in ("quick", "thorough"):
        tier = "quick"
    try:
        seed = int(os.environ.get("VERIF_SEED", "1"))
    except ValueError:
        seed = 1
    sys.path.insert(0, VERIF)
    mod = importlib.import_module("checks." + prop.lower())
    ctx = Ctx(prop, tier, seed, replay)
    rc = 0
    try:
        mod.run(ctx)
        rc = 1 if ctx.violations else 0
    except Inconclusive as e:
        print("INCONCLUSIVE property=%s: %s" % (prop, e))
        rc = 2
    except subprocess.TimeoutExpired as e:
        print("INCONCLUSIVE property=%s: timeout %s" % (prop, e))
        rc = 2
    except Exception:   # a defect of the machinery is never a verdict
        import traceback
        traceback.print_exc()
        print("INCONCLUSIVE property=%s: internal error of the check (see traceback)" % prop)
        rc = 2
    finally:
        if rc != 2 or ctx.violations:
            try:
                ctx.finish(**getattr(ctx, "finish_args", {}))
            except Exception as e:  # evidence must not turn a verdict into a crash
                print("evidence write failed: %r" % e)
        ctx.cleanup()
    print("RESULT property=%s tier=%s seed=%d exit=%d wall=%.1fs states=%d traces=%d known=%s" % (
        prop, tier, seed, rc, time.time() - ctx.t0, ctx.states, ctx.traces, ctx.known_seen))
    return rc
