"""Shared pipeline of the SEM engine (DESIGN.md 2.2, 2.8):
ProgSpace (TLC) -> chains -> programs (Go + flat code) -> real analyzer facts (semdrive) ->
GoSem + Obs_* (TLC) -> truth / misses -> native replay -> verdicts."""
import json
import os
import random
import subprocess

import minigo
import semgen
import vlib
from vlib import Inconclusive

TAINT_CONFIGS = {}
for fs in (False, True):
    for od in (False, True):
        for pf in (False, True):
            name = "t%d%d%d" % (fs, od, pf)
            o = {"field-sensitive": fs, "summarize-on-demand": od}
            if pf:
                o["pkg-filter"] = "prog"
            TAINT_CONFIGS[name] = o


def enum_chains(ctx, k, decos, maxdeco=1, fams=None, sinkable=None, simulate=None, depth=None, tag="ps",
                needfam=""):
    """chains of <= k steps from ProgSpace.tla (exhaustive, or `simulate` behaviours with -seed ctx.seed)"""
    params = {"k": k, "decos": list(decos), "sinkable": sorted(sinkable or semgen.SINKABLE),
              "fams": sorted(fams or semgen.FLOW_FAMS), "maxdeco": maxdeco, "needfam": needfam}
    data = {"steps.ndjson": vlib.ndjson(semgen.steps_table()), "params.ndjson": vlib.ndjson([params])}
    kw = {}
    if simulate:
        kw = dict(simulate="num=%d" % simulate, depth=depth or (k + 1), seed=ctx.seed)
    r = ctx.tlc_must_pass("ProgSpace", data=data, subdir="progspace-" + tag, timeout=900, deadlock=False, **kw)
    import re
    chains = set()
    for line in r.out.splitlines():
        if line.startswith('"<<\\"CHAIN\\"'):
            pairs = re.findall(r'<<\\"([A-Za-z0-9_]+)\\", \\"([A-Za-z0-9_]+)\\">>', line)
            chains.add(tuple((a, b) for a, b in pairs))
    if "PROGSPACE" not in r.out:
        raise Inconclusive("ProgSpace did not reach its postcondition:\n" + r.out[-2000:])
    chains = [list(c) for c in chains]
    chains.sort()
    return chains


class Program:
    def __init__(self, idx, name, mod, d, prog, flat, meta):
        self.idx, self.name, self.mod, self.dir, self.prog, self.flat, self.meta = idx, name, mod, d, prog, flat, meta
        self.facts = None     # {"taint": {cfg: {"flows": [[src, dst]], "escapes": [[src, dst]]}}, "backtrace": {...}}
        self.absent = None    # reason why the analyzer's facts are absent (crash, panic, timeout, load error)
        self.native = None


BATCH = 25


def build_programs(ctx, items, configs, builder, batch=BATCH):
    """items: list of anything; builder(item, name) -> minigo.Prog.  Programs are grouped `batch` per Go module
    (one main package per program) so that loading is amortised; every program stays an independent main."""
    progs = []
    root = os.path.join(ctx.work, "progs")
    for i, it in enumerate(items):
        name = "p%05d" % i
        mod = os.path.join(root, "m%04d" % (i // batch))
        if i % batch == 0:
            minigo.write_module(mod, configs)
        d = os.path.join(mod, name)
        P = builder(it, name)
        flat = minigo.write_program(d, P)
        progs.append(Program(i, name, mod, d, P, flat, P.meta))
    return progs


def _semdrive(bins, mod, pattern, taint, backtrace, out, timeout, pointer=(), escape=()):
    cmd = [bins["semdrive"], "-dir", mod, "-pattern", pattern, "-out", out]
    if taint:
        cmd += ["-taint", ",".join(os.path.join(mod, c.split(":")[0] + ".yaml") + (":rw" if c.endswith(":rw") else "")
                                   for c in taint)]
    if backtrace:
        cmd += ["-backtrace", ",".join(os.path.join(mod, c + ".yaml") for c in backtrace)]
    if pointer:
        cmd += ["-pointer", ",".join(os.path.join(mod, c + ".yaml") for c in pointer)]
    if escape:
        cmd += ["-escape", ",".join(os.path.join(mod, c + ".yaml") for c in escape)]
    env = vlib.goenv()
    env["GOMAXPROCS"] = "2"   # 16 drivers run in parallel
    try:
        q = subprocess.run(cmd, env=env, stdout=subprocess.PIPE, stderr=subprocess.STDOUT, text=True,
                           timeout=timeout)
    except subprocess.TimeoutExpired:
        return None, "driver timeout (%ds)" % timeout
    if q.returncode != 0 or not os.path.exists(out):
        return None, "driver crash: " + q.stdout[-1500:]
    return json.load(open(out)), None


def inst_of(name):
    """type arguments of an instantiated generic function: '(prog/p.gbox[int]).get[int]' -> 'int'; '' otherwise"""
    import re
    m = re.search(r"\[([^\[\]]*)\]$", name or "")
    return m.group(1) if m else ""


def _split_facts(f, plist):
    """distribute the facts of one semdrive run over its programs; returns reason if they are unusable"""
    if f.get("loaderr"):
        return "load error: " + f["loaderr"]
    for name, t in list(f["taint"].items()) + list(f["backtrace"].items()) + list(f.get("pointer", {}).items()) + \
            list(f.get("escape", {}).items()):
        if t["panic"]:
            return "panic in %s: %s" % (name, t["panic"][:1500])
    for p in plist:
        p.facts = {"taint": {}, "backtrace": {}, "pointer": {}, "escape": {}}
    byname = {p.name: p for p in plist}
    for name, t in f["taint"].items():
        for p in plist:
            p.facts["taint"][name] = {"flows": [], "escapes": [], "err": t["err"]}
        for fl in t["flows"]:
            if fl["prog"] in byname:
                byname[fl["prog"]].facts["taint"][name]["flows"].append([fl["src"], fl["dst"]])
        for fl in t["escapes"]:
            if fl["prog"] in byname:
                byname[fl["prog"]].facts["taint"][name]["escapes"].append([fl["src"], fl["dst"]])
    for name, t in f["backtrace"].items():
        for p in plist:
            p.facts["backtrace"][name] = {"traces": [], "err": t["err"]}
        for tr in t["traces"]:
            if tr["prog"] in byname:
                byname[tr["prog"]].facts["backtrace"][name]["traces"].append(tr)
    for name, t in f.get("escape", {}).items():
        if t.get("err"):
            return "escape facts error in %s: %s" % (name, t["err"])
        for p in plist:
            p.facts["escape"][name] = {"local": [], "nonlocal": []}
        for e in t["lines"]:
            if e["prog"] in byname:
                byname[e["prog"]].facts["escape"][name]["local" if e["local"] else "nonlocal"].append(e["line"])
    for name, t in f.get("pointer", {}).items():
        if t.get("err"):
            return "pointer facts error in %s: %s" % (name, t["err"])
        for p in plist:
            p.facts["pointer"][name] = {"edges": [], "resolve": [], "reach": [], "allfuncs": [], "probes": [], "iparams": [],
                                        "findreach": {k: [] for k in t["findreach"]}}
        for e in t["edges"]:
            if e["prog"] in byname:
                byname[e["prog"]].facts["pointer"][name]["edges"].append([e["site"], e["callee"], inst_of(e["name"])])
        for e in t["resolve"]:
            if e["prog"] in byname:
                byname[e["prog"]].facts["pointer"][name]["resolve"].append([e["site"], e["callee"], inst_of(e["name"])])
        for k in ("reach", "allfuncs"):
            for e in t[k]:
                if e["prog"] in byname:
                    byname[e["prog"]].facts["pointer"][name][k].append(e["line"])
                    if k == "reach":
                        byname[e["prog"]].facts["pointer"][name].setdefault("reachi", []).append([e["line"], inst_of(e["name"])])
        for sel, lst in t["findreach"].items():
            for e in lst:
                if e["prog"] in byname:
                    byname[e["prog"]].facts["pointer"][name]["findreach"][sel].append(e["line"])
        for e in t["probes"]:
            if e["prog"] in byname:
                byname[e["prog"]].facts["pointer"][name]["probes"].append(e)
        for e in t.get("iparams", []):
            if e["prog"] in byname:
                byname[e["prog"]].facts["pointer"][name]["iparams"].append(e)
    return None


def drive(ctx, bins, progs, taint=(), backtrace=(), nproc=None, timeout=600, pointer=(), escape=(), iso_timeout=150):
    """run the real analyses (semdrive) module by module (parallel); a module whose run fails is re-run program by
    program (in parallel, short timeout) so that one crashing or diverging program does not take the facts of the
    others with it.  Sets p.facts / p.absent.  Divergence of an analysis is C07's subject: here it only makes the
    facts of that one program absent, and the time spent on it is bounded (timeout + iso_timeout)."""
    mods = {}
    for p in progs:
        mods.setdefault(p.mod, []).append(p)

    def iso(p):
        f, err1 = _semdrive(bins, p.mod, "./" + p.name, taint, backtrace, os.path.join(p.dir, "facts.json"), iso_timeout,
                            pointer, escape)
        if f is not None:
            err1 = _split_facts(f, [p])
        if err1 is not None:
            p.facts = None
            p.absent = err1

    def one(mod):
        plist = mods[mod]
        f, err = _semdrive(bins, mod, "./...", taint, backtrace, os.path.join(mod, "facts.json"), timeout, pointer, escape)
        if f is not None:
            err = _split_facts(f, plist)
        if err is None:
            return
        vlib.pmap(iso, plist, nproc=6)
    vlib.pmap(one, sorted(mods), nproc=nproc or vlib.NCPU)


def native_all(ctx, progs, nbits=6, nproc=None):
    """build the programs natively (one go build per module) and run each under all decision scripts;
    sets p.native = list of run records"""
    mods = {}
    for p in progs:
        mods.setdefault(p.mod, []).append(p)

    def one(mod):
        bindir = os.path.join(mod, "bin")
        os.makedirs(bindir, exist_ok=True)
        q = subprocess.run(["go", "build", "-p", "2", "-tags", "native", "-o", bindir + "/"] + ["./" + p.name for p in mods[mod]],
                           cwd=mod, env=vlib.goenv(), stdout=subprocess.PIPE, stderr=subprocess.STDOUT, text=True,
                           timeout=1200)
        for p in mods[mod]:
            exe = os.path.join(bindir, p.name)
            if q.returncode != 0 or not os.path.exists(exe):
                p.native = {"builderr": q.stdout[-3000:]}
                continue
            env = dict(os.environ, NATIVE_SCRIPTS="all:%d" % nbits)
            try:
                r = subprocess.run([exe], env=env, stdout=subprocess.PIPE, stderr=subprocess.PIPE, text=True, timeout=120)
            except subprocess.TimeoutExpired:
                p.native = {"builderr": "native run timeout"}
                continue
            if r.returncode != 0:
                p.native = {"builderr": "native run failed: " + r.stderr[-2000:]}
                continue
            p.native = [json.loads(l) for l in r.stdout.splitlines() if l.strip()]
    vlib.pmap(one, sorted(mods), nproc=nproc or vlib.NCPU)


def native_script(p, bits):
    exe = os.path.join(p.mod, "bin", p.name)
    env = dict(os.environ, NATIVE_SCRIPTS=bits if bits else "0")
    r = subprocess.run([exe], env=env, stdout=subprocess.PIPE, stderr=subprocess.PIPE, text=True, timeout=60)
    if r.returncode != 0:
        raise Inconclusive("native run failed: " + r.stderr[-1000:])
    return [json.loads(l) for l in r.stdout.splitlines() if l.strip()][0]


def bits_of(dec):
    return "".join("1" if b else "0" for b in dec)


def tlc_batches(ctx, progs, module, cfg, facts_of, nbatch=8, timeout=1200, tag="obs", extra_out=None):
    """run GoSem+Obs module over the programs in nbatch parallel TLC processes.
    facts_of(p) -> record for facts.ndjson.  Returns (truth, misses) with program indices mapped back."""
    # registers are sets: keep batches small (collection is quadratic in the batch size)
    nb = max(nbatch, (len(progs) + 399) // 400)
    batches = [progs[i::nb] for i in range(nb)]
    batches = [b for b in batches if b]

    def run(bi):
        b = batches[bi]
        data = {"progs.ndjson": vlib.ndjson([p.flat for p in b]),
                "facts.ndjson": vlib.ndjson([facts_of(p) for p in b])}
        r = ctx.tlc_must_pass(module, cfg=cfg, data=data, subdir="%s-%d" % (tag, bi), timeout=timeout, deadlock=False)
        tp, mp = os.path.join(r.dir, "truth.ndjson"), os.path.join(r.dir, "misses.ndjson")
        if not os.path.exists(tp):
            raise Inconclusive("%s did not reach its postcondition:\n%s" % (module, r.out[-3000:]))
        truth = vlib.read_ndjson(tp)
        misses = vlib.read_ndjson(mp) if os.path.exists(mp) else []
        if extra_out and os.path.exists(os.path.join(r.dir, extra_out)):
            for rec in vlib.read_ndjson(os.path.join(r.dir, extra_out)):
                rec["illformed"] = True
                misses.append(rec)
        for rec in truth + misses:
            rec["prog"] = b[rec["p"] - 1]
        return truth, misses

    res = vlib.pmap(run, range(len(batches)), nproc=min(8, len(batches)))
    truth = [t for r in res for t in r[0]]
    misses = [m for r in res for m in r[1]]
    return truth, misses


def native_subset(ctx, ok, misses, n):
    """programs executed natively: every program with a miss + a seeded sample of n others (GoSem under test)"""
    need = {m["prog"].idx for m in misses}
    rest = [p for p in ok if p.idx not in need]
    rnd = random.Random(ctx.seed * 7919 + 1)
    rnd.shuffle(rest)
    return [p for p in ok if p.idx in need] + rest[:n]


def check_model_vs_native(ctx, progs, truth, kinds=("flow",)):
    """GoSem is itself under test: the set of events GoSem predicts for a program must equal the set observed
    natively over all decision scripts.  Any difference is a MODEL problem (exit 2), never a verdict."""
    pred = {}
    for t in truth:
        e = t["ev"]
        if e["e"] in kinds:
            pred.setdefault(t["prog"].idx, set()).add((e["e"], e["a"], e["b"], e["c"], e["v"]))
    bad = []
    for p in progs:
        if not isinstance(p.native, list):
            raise Inconclusive("native build/run failed for %s: %s" % (p.dir, p.native))
        nat = set()
        for run in p.native:
            for e in run["events"]:
                if e["e"] in kinds:
                    nat.add((e["e"], e["a"], e["b"], e["c"], e["v"]))
        if nat != pred.get(p.idx, set()):
            bad.append((p, sorted(pred.get(p.idx, set()) - nat), sorted(nat - pred.get(p.idx, set()))))
    return bad


RW_RUNS = [c + ":rw" for c in TAINT_CONFIGS]
# source rewrites only concern calls into the standard library (sort.Slice, sync.Once.Do, ...): the generated
# programs are import-free, so the rewritten load is exercised on two configurations only
ALL_TAINT_RUNS = list(TAINT_CONFIGS) + ["t000:rw", "t111:rw"]


def taint_facts_of(p):
    cfgs = []
    for name in sorted(p.facts["taint"]):
        t = p.facts["taint"][name]
        cfgs.append({"name": name, "flows": t["flows"], "escapes": t["escapes"], "esc": name.startswith("e")})
    return {"cfgs": cfgs}


ESC_CONFIGS = {"e00": {"use-escape-analysis": True},
               "e01": {"use-escape-analysis": True, "summarize-on-demand": True},
               "e10": {"use-escape-analysis": True, "field-sensitive": True}}


CAPTURING = {"capread", "capwrite", "deferclo", "defernamed"}


def pred_clo_ret_then_capture(chain):
    """a value returned by a closure call (callclo) later enters another closure through a captured variable"""
    seen = False
    for s_, d in chain:
        if seen and (d == "iife" or s_ in CAPTURING):
            return True
        if s_ == "callclo":
            seen = True
    return False


def pred_validator_guard_else_arm(chain):
    """an early-return validator guard on the carrier itself sits on the else arm of an opaque branch"""
    return any(s_ in ("val_guard_same", "valerr_guard_same", "val_storedneg_guard_ok") and d == "else" for s_, d in chain)


def pred_closure_from_inner_closure(chain):
    """a function value (closure, bound method) is created and stored in a captured variable inside a nested closure
    or goroutine and is then called directly by the enclosing function"""
    made = False
    for s_, d in chain:
        if semgen.STEPS[s_][1] == "C" and d in ("iife", "go"):
            made = True
        elif made and s_ == "callclo" and d not in ("iife", "go"):
            return True
        elif semgen.STEPS[s_][1] == "C":
            made = False
    return False


INTERPROC_FAMS = {"call", "iface", "closure", "defer", "global"}


def pred_container_then_interproc(chain):
    """a value that went through a container element (map entry, slice/array element: access path [*]) later crosses a
    function boundary (call, method, closure, deferred call) or is decorated into a helper / closure"""
    seen = False
    for s_, d in chain:
        fam = semgen.STEPS[s_][2]
        if seen and (fam in INTERPROC_FAMS or d in ("helper", "iife")):
            return True
        if fam == "container":
            seen = True
    return False


def pred_closure_crosses_goroutine(chain):
    """a closure that reads a captured variable is created on one goroutine and called on another"""
    made = None
    for s_, d in chain:
        if semgen.STEPS[s_][1] == "C":
            made = (d == "go")
        elif made is not None and s_ == "callclo":
            if made or d == "go":       # every go-decorated step runs on a goroutine of its own
                return True
    return False


KNOWN_PREDS = {"clo_ret_then_capture": pred_clo_ret_then_capture,
               "closure_crosses_goroutine": pred_closure_crosses_goroutine,
               "container_then_interproc": pred_container_then_interproc,
               "closure_from_inner_closure": pred_closure_from_inner_closure,
               "validator_guard_else_arm": pred_validator_guard_else_arm}


def known_construct(ctx, chain, cfgs):
    """attribution of a miss to a known finding: by the construct (step, optionally decoration / configuration
    class, or a named predicate over the chain) recorded in known_findings.json -- never by a program hash"""
    for e in ctx.kf:
        if e.get("status") != "known":
            continue
        m = e.get("match", {})
        if "configs_containing" in m:
            alts = m["configs_containing"] if isinstance(m["configs_containing"], list) else [m["configs_containing"]]
            if not all(any(a in c for a in alts) for c in cfgs):
                continue
        if "pred" in m:
            if KNOWN_PREDS[m["pred"]](chain):
                return e["id"]
            continue
        if "step" not in m:
            continue
        if any(s_ == m["step"] and ("deco" not in m or d == m["deco"]) for s_, d in chain):
            return e["id"]
    return None


def pinned_chains(prop):
    """chains of the pinned inputs of the known/fixed findings of a property (always part of the program set)"""
    out = []
    for e in vlib.load_known_findings(prop):
        pth = e.get("pinned_input")
        if pth and pth.endswith(".json") and os.path.isfile(os.path.join(vlib.VERIF, pth)):
            j = json.load(open(os.path.join(vlib.VERIF, pth)))
            if isinstance(j, dict) and "chain" in j:
                out.append([tuple(x) for x in j["chain"]])
    return out


BT_CONFIGS = {"b0": {}, "b1": {"summarize-on-demand": True}}


def bt_facts_of(p):
    cfgs = []
    for name in sorted(p.facts["backtrace"]):
        t = p.facts["backtrace"][name]
        cfgs.append({"name": name, "traces": [{"entry": x["entry"], "arg": x["arg"], "lines": x["lines"]} for x in t["traces"]]})
    return {"cfgs": cfgs}


def taint_flow_check(ctx, items, builder, nexh, nsim, runs=None, prop_what="taint analysis misses the flow", mode="taint",
                     configs=None):
    """the common body of C01 / C02 / C03: programs -> real facts -> GoSem+Obs_* -> native confirmation -> verdicts"""
    thorough = ctx.tier == "thorough"
    bins = ctx.build(["semdrive"])
    evkind = "flow" if mode == "taint" else "bt"
    if mode == "taint":
        runs = runs or (list(configs) if configs else ALL_TAINT_RUNS)
        progs = build_programs(ctx, items, configs or TAINT_CONFIGS, builder)
        drive(ctx, bins, progs, taint=runs)
    else:
        runs = runs or list(BT_CONFIGS)
        progs = build_programs(ctx, items, BT_CONFIGS, builder)
        drive(ctx, bins, progs, backtrace=runs)
    ok = [p for p in progs if p.facts is not None]
    absent = [(p, p.absent or "no facts") for p in progs if p.facts is None]
    if len(absent) > max(3, len(progs) // 20):
        raise Inconclusive("analyzer facts absent for %d/%d programs, e.g. %s: %s" % (
            len(absent), len(progs), absent[0][0].meta, absent[0][1]))
    if mode == "taint":
        truth, misses = tlc_batches(ctx, ok, "Obs_Taint", "Obs_Taint.cfg", taint_facts_of, nbatch=8,
                                    timeout=3000 if thorough else 1200)
    else:
        truth, misses = tlc_batches(ctx, ok, "Obs_Back", "Obs_Back.cfg", bt_facts_of, nbatch=8,
                                    timeout=3000 if thorough else 1200, extra_out="illformed.ndjson")
    # misses attributed to a known finding are confirmed natively only for a few representatives per entry;
    # every other miss is confirmed natively before it is reported
    kcount = {}
    to_confirm = []
    for m in misses:
        if m.get("illformed"):
            continue
        kid = known_construct(ctx, m["prog"].meta.get("chain"), [m["cfg"]])
        m["kid"] = kid
        if kid:
            kcount.setdefault(kid, set())
            if len(kcount[kid]) < 3 or m["prog"].idx in kcount[kid]:
                kcount[kid].add(m["prog"].idx)
                to_confirm.append(m)
        else:
            to_confirm.append(m)
    unknown_progs = sorted({m["prog"].idx for m in to_confirm if not m.get("kid")})
    if len(unknown_progs) > 400:
        keep = set(unknown_progs[:400])
        to_confirm = [m for m in to_confirm if m.get("kid") or m["prog"].idx in keep]
    nat = native_subset(ctx, ok, to_confirm, 1500 if thorough else 150)
    native_all(ctx, nat)
    bad = check_model_vs_native(ctx, nat, truth, kinds=(evkind,))
    if bad:
        p, only_model, only_native = bad[0]
        raise Inconclusive("MODEL-MISMATCH: GoSem and the native run disagree on %d programs, e.g. chain %s: "
                           "only in model %s, only natively %s" % (len(bad), p.meta.get("chain"), only_model, only_native))
    natset = {p.idx for p in nat}
    ctx.traces += sum(len(p.native) for p in nat)
    if os.environ.get("VERIF_DUMP_MISSES"):
        with open(os.environ["VERIF_DUMP_MISSES"], "w") as fh:
            for m in misses:
                fh.write(json.dumps({"chain": m["prog"].meta.get("chain"), "cfg": m["cfg"], "src": m["src"],
                                     "sink": m["sink"], "dec": bits_of(m["dec"])}) + "\n")
            for p_, why in absent:
                fh.write(json.dumps({"chain": p_.meta.get("chain"), "absent": why[:3000]}) + "\n")
    bykey = {}
    illformed = [m for m in misses if m.get("illformed")]
    misses = [m for m in misses if not m.get("illformed")]
    for m in misses:
        bykey.setdefault((m["prog"].idx, m["src"], m["sink"]), []).append(m)
    nviol = 0
    for m in illformed[:10]:
        p = m["prog"]
        nviol += 1
        ctx.violation("backtrace reports a trace for the backtrace point at line %d (argument %d) of the program with "
                      "chain %s (config %s) that is empty or does not end at the backtrace-point call" % (
                          m["sink"], m["arg"], p.meta.get("chain"), m["cfg"]),
                      {"main.go": open(os.path.join(p.dir, "main.go")).read(), "facts.json": json.dumps(p.facts)},
                      key="%s/illformed/%s" % (ctx.prop, json.dumps(p.meta.get("chain"))))
    for (pi, src, sink), ms in sorted(bykey.items()):
        p = ms[0]["prog"]
        bits = bits_of(ms[0]["dec"])
        cfgs = sorted(m["cfg"] for m in ms)
        chain = p.meta.get("chain")
        kid = known_construct(ctx, chain, cfgs)
        run_ = None
        if p.idx in natset:
            run_ = native_script(p, bits)
            confirmed = any(e["e"] == evkind and e["a"] == src and e["b"] == sink and not e["v"] for e in run_["events"])
            if not confirmed:
                raise Inconclusive("MODEL-MISMATCH: witness %s of chain %s not reproduced natively" % (bits, chain))
        elif not kid:
            continue   # beyond the confirmation budget: not reported (the reported ones already fail the check)
        if kid:
            ctx.known(kid, "%s (e.g. chain %s, configs %s)" % (ctx.known_entry(kid)["what"], chain, cfgs[:3]))
            continue
        nviol += 1
        if nviol <= 25:
            ctx.violation(
                "%s source@line%d -> sink@line%d of the generated program with chain %s under configurations %s; "
                "GoSem exhibits it with decision script '%s' and the native run confirms it" % (
                    prop_what, src, sink, chain, cfgs, bits),
                {"main.go": open(os.path.join(p.dir, "main.go")).read(), "prog.json": json.dumps(p.flat),
                 "facts.json": json.dumps(p.facts), "witness.json": json.dumps({"dec": bits, "native": run_}),
                 "config.yaml": open(os.path.join(p.mod, cfgs[0].replace("+rw", "") + ".yaml")).read()},
                key="%s/%s" % (ctx.prop, json.dumps(chain)))
    if mode == "taint" and not ctx.replay:
        cli_exit_status(ctx, ok, truth, bykey, sorted(configs or TAINT_CONFIGS)[0])
    for p, why in absent[:5]:
        print("NOTE analyzer facts absent for chain %s: %s" % (p.meta.get("chain"), why[:300].replace("\n", " ")))
    nflows = len({(t["prog"].idx, t["ev"]["a"], t["ev"]["b"]) for t in truth if t["ev"]["e"] == evkind})
    ndem = len({(t["prog"].idx, t["ev"]["a"], t["ev"]["b"]) for t in truth if t["ev"]["e"] == evkind and not t["ev"]["v"]})
    mid = ok[len(ok) // 2]
    fk = "taint" if mode == "taint" else "backtrace"
    rep = mid.facts[fk][sorted(mid.facts[fk])[0]]
    ctx.sample({"chain": mid.meta.get("chain"), "main.go": open(os.path.join(mid.dir, "main.go")).read()[-1200:],
                "reported": rep.get("flows", rep.get("traces"))})
    ctx.extra.update({"programs": len(progs), "programs_checked": len(ok), "facts_absent": len(absent),
                      "exhaustive_chains": nexh, "simulated_chains": nsim, "configurations": len(runs),
                      "ground_truth_flows": nflows, "flows_demanded": ndem, "misses": len(bykey),
                      "native_runs": ctx.traces, "programs_run_natively": len(nat)})
    ctx.assumptions += ["GoSem is an exact semantics of the generated fragment: checked on every program with a miss and "
                        "on a seeded sample of the others by comparing its events with the native runs under all 6-bit "
                        "decision scripts (disagreement = exit 2)",
                        "x/tools SSA and the Go toolchain are trusted",
                        "programs are analysed in modules of 25 independent main packages (one load per module)"]
    ctx.finish_args = dict(exhaustive=True, evaluations=len(progs) * len(runs), distinct=len(progs),
                           rule="one case = one generated program (chain of flow steps with decorations, TLC-enumerated "
                                "from ProgSpace) analysed under %d configurations; distinct = distinct chains" % len(runs))
    return progs, truth, misses


PTR_CONFIGS = {"ptr": {}}
CALL_FAMS = ["value", "field", "call", "closure", "iface", "defer", "global"]


def calls_facts_of(p):
    f = p.facts["pointer"]["ptr"]
    return {"edges": f["edges"], "resolve": f["resolve"], "reach": f["reach"], "reachi": f.get("reachi", []), "allfuncs": f["allfuncs"],
            "fr_all": f["findreach"]["all"], "fr_nomain": f["findreach"]["nomain"],
            "fr_noinit": f["findreach"]["noinit"], "fr_none": f["findreach"]["none"]}


def calls_check(ctx, whats, prop_text):
    """common body of C12 (whats = edge/exec/resolve) and C18 (whats = reach/relations)"""
    thorough = ctx.tier == "thorough"
    bins = ctx.build(["semdrive"])
    k1 = enum_chains(ctx, 1, semgen.DECORATIONS, maxdeco=1, tag="k1", fams=CALL_FAMS)
    k2 = enum_chains(ctx, 2, ["plain"], maxdeco=0, tag="k2", fams=CALL_FAMS)
    chains = {tuple(c) for c in k1} | {tuple(c) for c in k2}
    if thorough:
        chains |= {tuple(c) for c in enum_chains(ctx, 2, semgen.DECORATIONS, maxdeco=1, tag="k2d", fams=CALL_FAMS)}
        chains |= {tuple(c) for c in enum_chains(ctx, 3, ["plain"], maxdeco=0, tag="k3", fams=CALL_FAMS)}
    # only chains that perform at least one call
    callsteps = {n for n, v in semgen.STEPS.items() if v[2] in ("call", "closure", "defer") or n in ("invoke", "ifaceput", "methodval")}
    chains = sorted(c for c in chains if any(s in callsteps or d in ("helper", "iife") for s, d in c))
    nexh = len(chains)
    sim = enum_chains(ctx, 5, semgen.DECORATIONS, maxdeco=2, simulate=(3000 if thorough else 400), depth=6, tag="sim",
                      fams=CALL_FAMS)
    sim = sorted({tuple(c) for c in sim if len(c) >= 3} - set(chains))
    rnd = random.Random(ctx.seed)
    rnd.shuffle(sim)
    sim = sim[: (1000 if thorough else 100)]
    items = [list(c) for c in chains] + [list(c) for c in sim]
    items += [c for c in pinned_chains(ctx.prop) if list(c) not in items]
    progs = build_programs(ctx, items, PTR_CONFIGS, lambda ch, name: semgen.build_chain(ch, name=name))
    drive(ctx, bins, progs, pointer=["ptr"])
    ok = [p for p in progs if p.facts is not None]
    absent = [(p, p.absent or "no facts") for p in progs if p.facts is None]
    if len(absent) > max(3, len(progs) // 20):
        raise Inconclusive("analyzer facts absent for %d/%d programs, e.g. %s: %s" % (
            len(absent), len(progs), absent[0][0].meta, absent[0][1]))
    truth, misses = tlc_batches(ctx, ok, "Obs_Calls", "Obs_Calls.cfg", calls_facts_of, nbatch=8,
                                timeout=3000 if thorough else 1200)
    nat = native_subset(ctx, ok, [m for m in misses if m["what"] in whats], 1000 if thorough else 120)
    native_all(ctx, nat)
    # GoSem under test: executed functions predicted = functions entered natively
    bad = []
    for p in nat:
        if not isinstance(p.native, list):
            raise Inconclusive("native build/run failed for %s: %s" % (p.dir, p.native))
        natf = {e["a"] for r in p.native for e in r["events"] if e["e"] == "enter"}
        pred = {p.flat["decl"][t["ev"]["s"]] for t in truth if t["prog"] is p and t["ev"]["e"] in ("call", "go")}
        pred -= set(p.flat.get("noenter", []))     # call-free accessors have no enter() line in the Go text
        if natf != pred:
            bad.append((p, sorted(pred - natf), sorted(natf - pred)))
    if bad:
        p, a, b = bad[0]
        raise Inconclusive("MODEL-MISMATCH: executed functions differ on %d programs, e.g. chain %s: only model %s, "
                           "only native %s" % (len(bad), p.meta.get("chain"), a, b))
    ctx.traces += sum(len(p.native) for p in nat)
    if os.environ.get("VERIF_DUMP_MISSES"):
        with open(os.environ["VERIF_DUMP_MISSES"], "w") as fh:
            for m in misses:
                fh.write(json.dumps({"chain": m["prog"].meta.get("chain"), "what": m["what"], "site": m["site"],
                                     "callee": m["callee"], "dec": bits_of(m["dec"])}) + "\n")
            for p_, why in absent:
                fh.write(json.dumps({"chain": p_.meta.get("chain"), "absent": why[:3000]}) + "\n")
    nviol = 0
    seen = set()
    for m in misses:
        if m["what"] not in whats:
            continue
        p = m["prog"]
        chain = p.meta.get("chain")
        key = (p.idx, m["what"], m["site"], m["callee"])
        if key in seen:
            continue
        seen.add(key)
        if m["what"] != "relations":
            bits = bits_of(m["dec"])
            run_ = native_script(p, bits)
            dl = p.flat["decl"][m["callee"]]
            if not any(e["e"] == "enter" and e["a"] == dl for e in run_["events"]):
                raise Inconclusive("MODEL-MISMATCH: witness %s of chain %s not reproduced natively" % (bits, chain))
        kid = known_construct(ctx, chain, [m["what"]])
        if kid:
            ctx.known(kid, "%s (e.g. chain %s)" % (ctx.known_entry(kid)["what"], chain))
            continue
        nviol += 1
        if nviol <= 25:
            what = {"edge": "the call graph has no edge for the run-time call at line %d to %s" % (m["site"], m["callee"]),
                    "exec": "the executed function %s is not in the analyzer's reachable-function set" % m["callee"],
                    "resolve": "callee resolution at line %d omits the function actually called (%s)" % (m["site"], m["callee"]),
                    "reach": "the reachability analysis does not report the executed function %s" % m["callee"],
                    "relations": "the reported reachable sets violate the subset relations of the property"}[m["what"]]
            ctx.violation("%s: %s; generated program with chain %s; decision script '%s' (confirmed natively)" % (
                prop_text, what, chain, bits_of(m["dec"])),
                {"main.go": open(os.path.join(p.dir, "main.go")).read(), "prog.json": json.dumps(p.flat),
                 "facts.json": json.dumps(p.facts)}, key="%s/%s/%s" % (ctx.prop, m["what"], json.dumps(chain)))
    nstd = stdcb_check(ctx, bins, whats, prop_text)
    ncalls = len({(t["prog"].idx, t["ev"]["a"], t["ev"]["s"]) for t in truth if t["ev"]["e"] in ("call", "go")})
    mid = ok[len(ok) // 2]
    ctx.sample({"chain": mid.meta.get("chain"), "main.go": open(os.path.join(mid.dir, "main.go")).read()[-1200:],
                "edges": mid.facts["pointer"]["ptr"]["edges"]})
    ctx.extra["std_callback_programs"] = nstd
    ctx.extra.update({"programs": len(progs), "programs_checked": len(ok), "facts_absent": len(absent),
                      "exhaustive_chains": nexh, "simulated_chains": len(sim), "runtime_call_events": ncalls,
                      "native_runs": ctx.traces})
    ctx.assumptions += ["GoSem is an exact semantics of the generated fragment: the set of functions it executes is "
                        "compared with the functions entered natively under all 6-bit decision scripts (exit 2 on mismatch)",
                        "functions are identified by declaration line; x/tools SSA and the Go toolchain are trusted"]
    ctx.finish_args = dict(exhaustive=True, evaluations=len(progs), distinct=len(progs),
                           rule="one case = one generated program (chain of call/closure/interface/defer steps, "
                                "TLC-enumerated from ProgSpace); distinct = distinct chains")


def stdcb_check(ctx, bins, whats, prop_text):
    """programs whose run-time calls go through the standard library (corpus/stdcb): the native run is the oracle
    (enter() log), the real reachable sets are the facts, Obs_Exec.tla decides ExecOK / ReachOK / RelOK"""
    import shutil
    root = os.path.join(ctx.work, "stdcb")
    os.makedirs(root)
    with open(os.path.join(root, "go.mod"), "w") as fh:
        fh.write("module prog\n\ngo 1.22\n")
    with open(os.path.join(root, "ptr.yaml"), "w") as fh:
        fh.write("options:\n  log-level: 1\n")
    here = os.path.dirname(os.path.abspath(__file__))
    src = os.path.join(vlib.VERIF, "corpus", "stdcb")
    names = sorted(d for d in os.listdir(src) if os.path.isdir(os.path.join(src, d)))
    recs = []
    for n in names:
        d = os.path.join(root, n)
        shutil.copytree(os.path.join(src, n), d)
        for f in ("roles_stub.go", "roles_native.go"):
            shutil.copy(os.path.join(here, "roles", f), d)
    q = subprocess.run(["go", "build", "-p", "4", "-tags", "native", "-o", os.path.join(root, "bin") + "/"] + ["./" + n for n in names],
                       cwd=root, env=vlib.goenv(), stdout=subprocess.PIPE, stderr=subprocess.STDOUT, text=True, timeout=1200)
    if q.returncode != 0:
        raise Inconclusive("std-callback corpus does not build natively: " + q.stdout[-2000:])
    for n in names:
        r = subprocess.run([os.path.join(root, "bin", n)], env=dict(os.environ, NATIVE_SCRIPTS="0"), stdout=subprocess.PIPE,
                           stderr=subprocess.PIPE, text=True, timeout=120)
        if r.returncode != 0:
            raise Inconclusive("std-callback program %s failed natively: %s" % (n, r.stderr[-1000:]))
        run = json.loads(r.stdout.splitlines()[0])
        executed = sorted({e["a"] for e in run["events"] if e["e"] == "enter"})
        f, err = _semdrive(bins, root, "./" + n, (), (), os.path.join(root, n, "facts.json"), 900, pointer=["ptr"])
        if f is None or f.get("loaderr") or f["pointer"]["ptr"].get("err") or f["pointer"]["ptr"].get("panic"):
            raise Inconclusive("no pointer facts for std-callback program %s: %s" % (n, err or json.dumps(f)[:800]))
        t = f["pointer"]["ptr"]
        # functions are identified by declaration line; the corpus keeps its declarations below line 40, where the
        # role files have none
        L = lambda lst: sorted({e["line"] for e in lst if e["line"] > 40})
        recs.append({"prog": n, "executed": [x for x in executed if x > 40], "reach": L(t["reach"]), "allfuncs": L(t["allfuncs"]),
                     "fr_all": L(t["findreach"]["all"]), "fr_nomain": L(t["findreach"]["nomain"]),
                     "fr_noinit": L(t["findreach"]["noinit"]), "fr_none": L(t["findreach"]["none"])})
        if len(recs[-1]["executed"]) < 5:
            raise Inconclusive("std-callback program %s executed only %s" % (n, recs[-1]["executed"]))
    r = ctx.tlc_must_pass("Obs_Exec", data={"exec.ndjson": vlib.ndjson(recs)}, subdir="obs-exec", timeout=600, deadlock=False)
    fp = os.path.join(r.dir, "exec_fail.ndjson")
    if "OBS_EXEC" not in r.out or not os.path.exists(fp):
        raise Inconclusive("Obs_Exec.tla did not reach its postcondition:\n" + r.out[-2000:])
    ctx.traces += len(recs)
    want = {"exec"} if "exec" in whats else set()
    want |= {"reach", "relations"} if "reach" in whats else set()
    for fl in vlib.read_ndjson(fp):
        if fl["what"] not in want:
            continue
        rec = [x for x in recs if x["prog"] == fl["prog"]][0]
        srcs = open(os.path.join(root, fl["prog"], "main.go")).read().split("\n")
        names_ = [srcs[l - 1].strip() for l in fl["lines"] if 0 < l <= len(srcs)]
        what = {"exec": "functions executed natively are not in the analyzer's reachable-function set",
                "reach": "functions executed natively are not reported by the reachability analysis",
                "relations": "the reported reachable sets violate the subset relations of the property"}[fl["what"]]
        ctx.violation("%s: %s: %s (std-callback corpus program %s; the native run logged their enter())" % (
            prop_text, what, names_, fl["prog"]),
            {"main.go": "\n".join(srcs), "record.json": json.dumps(rec)}, key="%s/stdcb/%s/%s" % (ctx.prop, fl["prog"], fl["what"]))
    return len(recs)


ALIAS_FAMS = ["value", "field", "container", "call", "closure", "global", "iface", "defer"]


def alias_facts_of(p):
    return {"probes": [{"line": e["line"], "type": e["type"], "labels": e["labels"], "alias": e["alias"], "query": e["query"],
                        "iquery": bool(e.get("iquery")), "ilabels": e.get("ilabels") or []}
                       for e in p.facts["pointer"]["ptr"]["probes"]],
            "iparams": [{"decl": e["decl"], "idx": e["idx"], "ilabels": e["ilabels"]}
                        for e in p.facts["pointer"]["ptr"].get("iparams", [])]}


def alias_check(ctx):
    """C11: probes after every step that yields a pointer-like carrier; GoSem gives the object and its allocation
    site; the real points-to sets must contain the site and may-alias must hold for run-time aliases."""
    thorough = ctx.tier == "thorough"
    bins = ctx.build(["semdrive"])
    k2 = enum_chains(ctx, 2, ["plain"], maxdeco=0, tag="k2", fams=ALIAS_FAMS)
    k1 = enum_chains(ctx, 1, semgen.DECORATIONS, maxdeco=1, tag="k1", fams=ALIAS_FAMS)
    chains = {tuple(c) for c in k1} | {tuple(c) for c in k2}
    if thorough:
        chains |= {tuple(c) for c in enum_chains(ctx, 3, ["plain"], maxdeco=0, tag="k3", fams=ALIAS_FAMS)}
        chains |= {tuple(c) for c in enum_chains(ctx, 2, semgen.DECORATIONS, maxdeco=1, tag="k2d", fams=ALIAS_FAMS)}
    chains = sorted(c for c in chains if any(semgen.STEPS[s][1] in semgen.PROBEABLE for s, _ in c))
    # aggregates assigned as a whole on one arm of a branch (struct / array typed phi nodes carrying pointers): every
    # chain of <= 3 field-family steps in which a step producing a by-value aggregate is decorated and followed by a step
    agg = enum_chains(ctx, 3, ["plain", "then", "else"], maxdeco=1, tag="aggphi", fams=["field"])
    AGG = {"ST", "SP", "PR", "AR"}
    agg = sorted({tuple(c) for c in agg
                  if (any(d != "plain" and semgen.STEPS[s_][1] in AGG and j < len(c) - 1 for j, (s_, d) in enumerate(c))
                      or any(s_ == "wrapphi" and j < len(c) - 1 for j, (s_, d) in enumerate(c)))
                  and any(semgen.STEPS[s_][1] in semgen.PROBEABLE for s_, _ in c)} - set(chains))
    if not thorough:
        random.Random(ctx.seed + 5).shuffle(agg)
        agg = sorted(agg[:200])
    # pointers to pointer-like variables (indirect queries), read directly and through the call-free accessor
    ind = enum_chains(ctx, 3, ["plain"], maxdeco=0, tag="indirect", fams=["container", "call"])
    ind = sorted({tuple(c) for c in ind if any(s_ == "addrsl" and j < len(c) - 1 for j, (s_, d) in enumerate(c))} - set(chains))
    if not thorough:
        random.Random(ctx.seed + 6).shuffle(ind)
        ind = sorted(ind[:120] + [c for c in ind if any(s_ == "slotsl" for s_, _ in c)][:40])
    chains = sorted(set(chains) | set(agg) | set(ind))
    nexh = len(chains)
    sim = enum_chains(ctx, 5, semgen.DECORATIONS, maxdeco=2, simulate=(3000 if thorough else 400), depth=6, tag="sim",
                      fams=ALIAS_FAMS)
    sim = sorted({tuple(c) for c in sim if len(c) >= 3 and any(semgen.STEPS[s][1] in semgen.PROBEABLE for s, _ in c)} - set(chains))
    rnd = random.Random(ctx.seed)
    rnd.shuffle(sim)
    sim = sim[: (1000 if thorough else 100)]
    items = [list(c) for c in chains] + [list(c) for c in sim]
    progs = build_programs(ctx, items, PTR_CONFIGS, lambda ch, name: semgen.build_chain(ch, name=name, probes=True))
    drive(ctx, bins, progs, pointer=["ptr"])
    ok = [p for p in progs if p.facts is not None]
    absent = [(p, p.absent or "no facts") for p in progs if p.facts is None]
    if len(absent) > max(3, len(progs) // 20):
        raise Inconclusive("analyzer facts absent for %d/%d programs, e.g. %s: %s" % (
            len(absent), len(progs), absent[0][0].meta, absent[0][1]))
    truth, misses = tlc_batches(ctx, ok, "Obs_Alias", "Obs_Alias.cfg", alias_facts_of, nbatch=8,
                                timeout=3000 if thorough else 1200)
    nip = len({(t["prog"].idx, t["ev"]["a"], t["ev"]["b"]) for t in truth if t["ev"]["e"] == "iprobe"})
    npar = len({(t["prog"].idx, t["ev"]["s"], t["ev"]["a"]) for t in truth if t["ev"]["e"] == "iparam"})
    niq = sum(1 for p_ in ok for e in p_.facts["pointer"]["ptr"]["probes"] if e.get("iquery"))
    if nip == 0 or npar == 0 or niq == 0:
        raise Inconclusive("vacuous: %d indirect probe observations, %d indirect parameter observations, %d probes with an "
                           "indirect query" % (nip, npar, niq))
    nat = native_subset(ctx, ok, misses, 1000 if thorough else 120)
    native_all(ctx, nat)
    # GoSem under test: same-type run-time alias pairs predicted = observed natively
    bad = []
    for p in nat:
        if not isinstance(p.native, list):
            raise Inconclusive("native build/run failed for %s: %s" % (p.dir, p.native))
        ty = {e["line"]: e["type"] for e in p.facts["pointer"]["ptr"]["probes"]}
        pred = {frozenset((t["ev"]["a"], t["ev"]["b"])) for t in truth
                if t["prog"] is p and t["ev"]["e"] == "alias" and ty.get(t["ev"]["a"]) == ty.get(t["ev"]["b"])}
        natp = set()
        for r in p.native:
            pe = [e for e in r["events"] if e["e"] == "probe"]
            for i, e1 in enumerate(pe):
                for e2 in pe[:i]:
                    if e1["b"] == e2["b"] and e1["s"] == e2["s"] and e1["a"] != e2["a"]:
                        natp.add(frozenset((e1["a"], e2["a"])))
        if natp != pred:
            bad.append((p, sorted(map(sorted, pred - natp)), sorted(map(sorted, natp - pred))))
    if bad:
        p, a, b = bad[0]
        raise Inconclusive("MODEL-MISMATCH: run-time alias pairs differ on %d programs, e.g. chain %s: only model %s, "
                           "only native %s" % (len(bad), p.meta.get("chain"), a, b))
    ctx.traces += sum(len(p.native) for p in nat)
    if os.environ.get("VERIF_DUMP_MISSES"):
        with open(os.environ["VERIF_DUMP_MISSES"], "w") as fh:
            for m in misses:
                fh.write(json.dumps({"chain": m["prog"].meta.get("chain"), "what": m["what"], "a": m["a"], "b": m["b"],
                                     "c": m["c"], "dec": bits_of(m["dec"])}) + "\n")
            for p_, why in absent:
                fh.write(json.dumps({"chain": p_.meta.get("chain"), "absent": why[:3000]}) + "\n")
    nviol = 0
    seen = set()
    for m in misses:
        p = m["prog"]
        chain = p.meta.get("chain")
        key = (p.idx, m["what"], m["a"], m["b"] if m["what"] == "alias" else m["c"])
        if key in seen:
            continue
        seen.add(key)
        kid = known_construct(ctx, chain, [m["what"]])
        if kid:
            ctx.known(kid, "%s (e.g. chain %s)" % (ctx.known_entry(kid)["what"], chain))
            continue
        nviol += 1
        if nviol <= 25:
            what = ("the object observed by probe@line%d was allocated at line %d, which is not in the points-to set %s "
                    "of the probed value" % (m["a"], m["c"], [e["labels"] for e in p.facts["pointer"]["ptr"]["probes"] if e["line"] == m["a"]])
                    if m["what"] == "alloc" else
                    "the probed value at line %d points to a pointer-like variable that refers to an object allocated at line "
                    "%d, which is not in the points-to set %s of its INDIRECT query" % (
                        m["a"], m["c"], [e.get("ilabels") for e in p.facts["pointer"]["ptr"]["probes"] if e["line"] == m["a"]])
                    if m["what"] == "ialloc" else
                    "parameter %d of the function declared at line %s receives a pointer to a pointer-like variable that "
                    "refers to an object allocated at line %d, which is not in the points-to set %s of the parameter's INDIRECT "
                    "query" % (m["a"], [e["decl"] for e in p.facts["pointer"]["ptr"].get("iparams", []) if e["idx"] == m["a"]],
                               m["c"], [e["ilabels"] for e in p.facts["pointer"]["ptr"].get("iparams", []) if e["idx"] == m["a"]])
                    if m["what"] == "iparam" else
                    "probe@line%d and probe@line%d observe the same location at run time but their points-to sets do "
                    "not intersect (may-alias false)" % (m["a"], m["b"]))
            ctx.violation("pointer analysis misses a run-time alias: %s; generated program with chain %s; decision script "
                          "'%s' (object identities confirmed natively)" % (what, chain, bits_of(m["dec"])),
                          {"main.go": open(os.path.join(p.dir, "main.go")).read(), "prog.json": json.dumps(p.flat),
                           "facts.json": json.dumps(p.facts)}, key="C11/%s/%s" % (m["what"], json.dumps(chain)))
    npr = len({(t["prog"].idx, t["ev"]["a"], t["ev"]["b"]) for t in truth if t["ev"]["e"] == "probe"})
    nal = len({(t["prog"].idx, t["ev"]["a"], t["ev"]["b"]) for t in truth if t["ev"]["e"] == "alias"})

    mid = ok[len(ok) // 2]
    ctx.sample({"chain": mid.meta.get("chain"), "main.go": open(os.path.join(mid.dir, "main.go")).read()[-1200:],
                "probes": mid.facts["pointer"]["ptr"]["probes"]})
    ctx.extra.update({"programs": len(progs), "programs_checked": len(ok), "facts_absent": len(absent),
                      "exhaustive_chains": nexh, "simulated_chains": len(sim), "probe_observations": npr,
                      "runtime_alias_pairs": nal, "native_runs": ctx.traces, "programs_run_natively": len(nat),
                      "indirect_probe_observations": nip, "indirect_param_observations": npar,
                      "probes_with_indirect_query": niq, "aggregate_phi_chains": len(agg),
                      "indirect_query_chains": len(ind)})
    ctx.assumptions += ["GoSem object identities are checked against native addresses (same-type alias pairs over all "
                        "6-bit decision scripts) on every program with a miss and a seeded sample; allocation sites "
                        "are attributed by GoSem (line of the allocating statement)"]
    ctx.finish_args = dict(exhaustive=True, evaluations=len(progs), distinct=len(progs),
                           rule="one case = one generated program with probes after every pointer-like carrier; "
                                "distinct = distinct chains")


def shared_facts_of(p):
    return {"cfgs": [{"name": n, "local": sorted(set(v["local"]))} for n, v in sorted(p.facts["escape"].items())]}


def shared_check(ctx, items, builder, nexh, nsim):
    """C14: lines the real escape analysis classifies as local in every derived context must never access memory
    that GoSem finds reachable from another goroutine (all schedules)."""
    thorough = ctx.tier == "thorough"
    bins = ctx.build(["semdrive"])
    cfgs = {"esc": {"use-escape-analysis": True}}
    progs = build_programs(ctx, items, cfgs, builder)
    drive(ctx, bins, progs, escape=["esc"])
    ok = [p for p in progs if p.facts is not None]
    absent = [(p, p.absent or "no facts") for p in progs if p.facts is None]
    if len(absent) > max(3, len(progs) // 20):
        raise Inconclusive("analyzer facts absent for %d/%d programs, e.g. %s: %s" % (
            len(absent), len(progs), absent[0][0].meta, absent[0][1]))
    truth, misses = tlc_batches(ctx, ok, "Obs_Shared", "Obs_Shared.cfg", shared_facts_of, nbatch=8,
                                timeout=3000 if thorough else 1200)
    nat = native_subset(ctx, ok, misses, 600 if thorough else 80)
    native_all(ctx, nat)
    bad = check_model_vs_native(ctx, nat, truth, kinds=("flow",))
    if bad:
        p, a, b = bad[0]
        raise Inconclusive("MODEL-MISMATCH: GoSem and the native run disagree on %d programs, e.g. chain %s: only model "
                           "%s, only native %s" % (len(bad), p.meta.get("chain"), a, b))
    ctx.traces += sum(len(p.native) for p in nat)
    if os.environ.get("VERIF_DUMP_MISSES"):
        with open(os.environ["VERIF_DUMP_MISSES"], "w") as fh:
            for m in misses:
                fh.write(json.dumps({"chain": m["prog"].meta.get("chain"), "meta": m["prog"].meta, "line": m["line"],
                                     "src": open(os.path.join(m["prog"].dir, "main.go")).read().split("\n")[m["line"] - 1]}) + "\n")
            for p_, why in absent:
                fh.write(json.dumps({"chain": p_.meta.get("chain"), "absent": why[:3000]}) + "\n")
    seen = set()
    nviol = 0
    for m in misses:
        p = m["prog"]
        chain = p.meta.get("chain")
        key = (p.idx, m["line"])
        if key in seen:
            continue
        seen.add(key)
        kid = known_construct(ctx, chain, [m["cfg"]])
        if kid:
            ctx.known(kid, "%s (e.g. chain %s)" % (ctx.known_entry(kid)["what"], chain))
            continue
        nviol += 1
        if nviol <= 25:
            srcline = open(os.path.join(p.dir, "main.go")).read().split("\n")[m["line"] - 1].strip()
            ctx.violation("the escape analysis classifies line %d (`%s`) as thread-local in every context, but GoSem "
                          "exhibits an execution (decisions '%s', schedule %s) in which goroutine %d accesses there an "
                          "object reachable from another goroutine; generated program with chain %s (src_in_go=%s, "
                          "sink_in_go=%s); the program's GoSem semantics is validated natively" % (
                              m["line"], srcline, bits_of(m["dec"]), m["sched"], m["gor"], chain,
                              p.meta.get("src_in_go"), p.meta.get("sink_in_go")),
                          {"main.go": open(os.path.join(p.dir, "main.go")).read(), "prog.json": json.dumps(p.flat),
                           "facts.json": json.dumps(p.facts)}, key="C14/%s/%d" % (json.dumps(p.meta), m["line"]))
    nsh = len({(t["prog"].idx, t["ev"]["a"]) for t in truth if t["ev"]["e"] == "shared"})
    nloc = sum(len(set(p.facts["escape"]["esc"]["local"])) for p in ok)
    mid = ok[len(ok) // 2]
    ctx.sample({"chain": mid.meta, "main.go": open(os.path.join(mid.dir, "main.go")).read()[-1500:],
                "local_lines": sorted(set(mid.facts["escape"]["esc"]["local"]))})
    ctx.extra.update({"programs": len(progs), "programs_checked": len(ok), "facts_absent": len(absent),
                      "exhaustive_chains": nexh, "simulated_chains": nsim, "shared_access_lines": nsh,
                      "lines_classified_local": nloc, "native_runs": ctx.traces})
    ctx.assumptions += ["reachability from another goroutine is decided by GoSem (heap reachability from the frames, "
                        "closures and channel buffers of the other running goroutines and from globals) over all "
                        "schedules; the native run validates GoSem's executions (flows), not the reachability itself",
                        "locality is compared per source line: a line counts as local only if all its classified "
                        "instructions are local in the merged context of every reachable function"]
    ctx.finish_args = dict(exhaustive=True, evaluations=len(progs), distinct=len(progs),
                           rule="one case = one generated concurrent program (chain with a goroutine-decorated step, "
                                "source or sink); distinct = distinct (chain, placement) pairs")


def cli_exit_status(ctx, ok, truth, bykey, cfgname, n=6):
    """the statement's last clause: when a flow is reported the `argot taint` tool exits with a failure status
    (and with success when nothing is reported).  Checked on a seeded sample with the real CLI binary."""
    exe = os.path.join(ctx.bin, "argot")
    q = vlib.sh(["go", "build", "-o", exe, "./cmd/argot"], cwd=vlib.REPO, env=vlib.goenv(), check=False, timeout=900)
    if q.returncode != 0:
        raise Inconclusive("cannot build cmd/argot: " + q.stdout[-2000:])
    missed = {k[0] for k in bykey}
    withflow = {t["prog"].idx for t in truth if t["ev"]["e"] == "flow" and not t["ev"]["v"]}
    rnd = random.Random(ctx.seed + 99)
    cand = [p for p in ok if p.idx in withflow and p.idx not in missed]
    none = [p for p in ok if not any(t["prog"] is p and t["ev"]["e"] == "flow" for t in truth)
            and not p.facts["taint"][cfgname]["flows"] and not p.facts["taint"][cfgname]["escapes"]]
    rnd.shuffle(cand); rnd.shuffle(none)
    nchk = 0
    for p, want_fail in [(x, True) for x in cand[:n]] + [(x, False) for x in none[:2]]:
        r = subprocess.run([exe, "taint", "-config", os.path.join(p.mod, cfgname + ".yaml"), "./" + p.name], cwd=p.mod,
                           env=vlib.goenv(), stdout=subprocess.PIPE, stderr=subprocess.STDOUT, text=True, timeout=600)
        nchk += 1
        reported = bool(p.facts["taint"][cfgname]["flows"])
        if want_fail and reported and r.returncode == 0:
            ctx.violation("`argot taint` exits with status 0 although the analysis reports a taint flow for the program "
                          "with chain %s (config %s)" % (p.meta.get("chain"), cfgname),
                          {"main.go": open(os.path.join(p.dir, "main.go")).read(), "output.txt": r.stdout[-4000:]},
                          key="%s/cli-exit/%s" % (ctx.prop, json.dumps(p.meta.get("chain"))))
        if not want_fail and r.returncode != 0 and "found problems" in r.stdout:
            pass   # over-reporting is not part of the property
    ctx.extra["cli_exit_status_checked"] = nchk


def replay(ctx, path, mode="taint", configs=None):
    """./check <ID> --replay <dir>: re-run the real analysis, GoSem (+Obs) and the native witness on the program
    stored in a replay directory; prints the VIOLATION line again if the property still fails on the current /repo."""
    import shutil
    flat = json.load(open(os.path.join(path, "prog.json")))
    bins = ctx.build(["semdrive"])
    cfgs = configs or {"taint": TAINT_CONFIGS, "bt": BT_CONFIGS, "esc": ESC_CONFIGS}[mode]
    mod = os.path.join(ctx.work, "progs", "m0000")
    minigo.write_module(mod, cfgs)
    d = os.path.join(mod, "p00000")
    os.makedirs(d)
    shutil.copy(os.path.join(path, "main.go"), d)
    here = os.path.dirname(os.path.abspath(__file__))
    for f in ("roles_stub.go", "roles_native.go"):
        shutil.copy(os.path.join(here, "roles", f), d)
    p = Program(0, "p00000", mod, d, None, flat, flat.get("meta", {}))
    if mode == "bt":
        drive(ctx, bins, [p], backtrace=list(cfgs))
        spec, fo, evk = ("Obs_Back", bt_facts_of, "bt")
    else:
        drive(ctx, bins, [p], taint=(ALL_TAINT_RUNS if mode == "taint" else list(cfgs)))
        spec, fo, evk = ("Obs_Taint", taint_facts_of, "flow")
    if p.facts is None:
        raise Inconclusive("analyzer facts absent: %s" % p.absent)
    truth, misses = tlc_batches(ctx, [p], spec, spec + ".cfg", fo, nbatch=1)
    native_all(ctx, [p])
    still = 0
    for m in misses:
        if m.get("illformed"):
            still += 1
            continue
        run_ = native_script(p, bits_of(m["dec"]))
        if any(e["e"] == evk and e["a"] == m["src"] and e["b"] == m["sink"] and not e["v"] for e in run_["events"]):
            still += 1
            print("still failing: %s source@%d -> sink@%d config %s script '%s'" % (evk, m["src"], m["sink"], m["cfg"], bits_of(m["dec"])))
    if still:
        print("VIOLATION property=%s replay=%s" % (ctx.prop, path))
        ctx.violations.append({"what": "replay", "replay": path})
    else:
        print("replay: the property holds on this input now")
    ctx.finish_args = dict(exhaustive=False, evaluations=1, distinct=1, rule="replay of one stored input")
    ctx.sample({"replayed": path, "still_failing": still})
    ctx.traces += 1
