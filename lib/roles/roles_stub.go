//go:build !native

package main



var opaque bool
type verr struct{}

func (verr) Error() string { return "invalid" }

var errV error = verr{}

func oracle() bool       { return opaque }
func source() string     { return "tainted" }
func origin() string     { return "origin" }
func sink(x any)         {}
func sanitize(x string) string { return "clean" }
func validate(x string) bool   { return oracle() }
func validateErr(x string) error {
	if oracle() {
		return nil
	}
	return errV
}
func bt1(x any)       {}
func bt2(x, y any)    {}
func bt3(x, y, z any) {}
func probe(x any)     {}
func gate(k int)      {}
func enter()          {}
