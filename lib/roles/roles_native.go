//go:build native

package main

import (
	"encoding/json"
	"errors"
	"fmt"
	"os"
	"reflect"
	"regexp"
	"runtime"
	"sort"
	"strconv"
	"strings"
	"unsafe"
)

// Native variant of the role functions: tokens, decision scripts, event log (DESIGN.md 2.1 B2).

var errV = errors.New("invalid")

var (
	script    []bool
	pos       int
	events    []event
	validated = map[int]bool{}
	probeIDs  = map[uintptr]int{}
)

type event struct {
	E string `json:"e"`
	A int    `json:"a"`
	B int    `json:"b"`
	C int    `json:"c"`
	S string `json:"s"`
	V bool   `json:"v"`
}

func callerLine(skip int) int {
	_, _, line, _ := runtime.Caller(skip)
	return line
}

func oracle() bool {
	if pos < len(script) {
		pos++
		return script[pos-1]
	}
	pos++
	return false
}

func tok(kind string, line int) string { return "⟦" + kind + strconv.Itoa(line) + "⟧" }

func source() string { return tok("S", callerLine(2)) }
func origin() string { return tok("S", callerLine(2)) }

var tokRe = regexp.MustCompile("⟦S([0-9]+)⟧")

func tagsOfString(s string, out map[int]bool) {
	for _, m := range tokRe.FindAllStringSubmatch(s, -1) {
		n, _ := strconv.Atoi(m[1])
		out[n] = true
	}
}

// walk collects the tags in v itself and in memory reachable through pointers, slices, arrays, maps, interfaces
// and struct fields (not through functions/closures or channels).
func walk(v reflect.Value, seen map[uintptr]bool, out map[int]bool) {
	if !v.IsValid() {
		return
	}
	switch v.Kind() {
	case reflect.String:
		tagsOfString(v.String(), out)
	case reflect.Pointer:
		if v.IsNil() {
			return
		}
		p := v.Pointer()
		if seen[p] {
			return
		}
		seen[p] = true
		walk(v.Elem(), seen, out)
	case reflect.Interface:
		if !v.IsNil() {
			walk(v.Elem(), seen, out)
		}
	case reflect.Slice:
		if v.IsNil() {
			return
		}
		if v.Type().Elem().Kind() == reflect.Uint8 {
			b := make([]byte, v.Len())
			for i := 0; i < v.Len(); i++ {
				b[i] = byte(v.Index(i).Uint())
			}
			tagsOfString(string(b), out)
			return
		}
		for i := 0; i < v.Len(); i++ {
			walk(v.Index(i), seen, out)
		}
	case reflect.Array:
		for i := 0; i < v.Len(); i++ {
			walk(v.Index(i), seen, out)
		}
	case reflect.Map:
		it := v.MapRange()
		for it.Next() {
			walk(it.Key(), seen, out)
			walk(it.Value(), seen, out)
		}
	case reflect.Struct:
		for i := 0; i < v.NumField(); i++ {
			f := v.Field(i)
			if !f.CanInterface() && f.CanAddr() {
				f = reflect.NewAt(f.Type(), unsafe.Pointer(f.UnsafeAddr())).Elem()
			}
			walk(f, seen, out)
		}
	}
}

func tagsOf(x any) []int {
	out := map[int]bool{}
	walk(reflect.ValueOf(x), map[uintptr]bool{}, out)
	r := []int{}
	for t := range out {
		r = append(r, t)
	}
	sort.Ints(r)
	return r
}

func sink(x any) {
	line := callerLine(2)
	for _, t := range tagsOf(x) {
		events = append(events, event{E: "flow", A: t, B: line, V: validated[t]})
	}
}

func btN(line int, xs ...any) {
	for i, x := range xs {
		for _, t := range tagsOf(x) {
			events = append(events, event{E: "bt", A: t, B: line, C: i})
		}
	}
}
func bt1(x any)       { btN(callerLine(2), x) }
func bt2(x, y any)    { btN(callerLine(2), x, y) }
func bt3(x, y, z any) { btN(callerLine(2), x, y, z) }

func sanitize(x string) string { return "clean" }

func validate(x string) bool {
	ok := oracle()
	if ok {
		for _, t := range tagsOf(x) {
			validated[t] = true
		}
	}
	return ok
}

func validateErr(x string) error {
	if validate(x) {
		return nil
	}
	return errV
}

// probe logs the identity of the object a pointer-like value refers to (canonicalised by first appearance).
func probe(x any) {
	line := callerLine(2)
	v := reflect.ValueOf(x)
	if !v.IsValid() {
		return
	}
	var p uintptr
	switch v.Kind() {
	case reflect.Pointer, reflect.Map, reflect.Chan, reflect.Slice, reflect.UnsafePointer, reflect.Func:
		if v.IsNil() {
			return
		}
		p = v.Pointer()
	default:
		return
	}
	id, ok := probeIDs[p]
	if !ok {
		id = len(probeIDs) + 1
		probeIDs[p] = id
	}
	events = append(events, event{E: "probe", A: line, B: id, S: v.Type().String()})
}

func gate(k int) {}

// enter logs the execution of the enclosing function (identified by its declaration line) and the line it was
// called from.
func enter() {
	pc, _, line, ok := runtime.Caller(1)
	if !ok {
		return
	}
	fn := runtime.FuncForPC(pc)
	// enter() is always the first statement of a generated function, on the line after its declaration
	decl := line - 1
	_, _, from, _ := runtime.Caller(2)
	events = append(events, event{E: "enter", A: decl, B: from, S: fn.Name()})
}

type runRec struct {
	Dec      string  `json:"dec"`
	Used     int     `json:"used"`
	Panicked bool    `json:"panicked"`
	Events   []event `json:"events"`
}

func runOnce(bits string) runRec {
	script = script[:0]
	for _, c := range bits {
		script = append(script, c == '1')
	}
	pos = 0
	events = nil
	validated = map[int]bool{}
	probeIDs = map[uintptr]int{}
	resetGlobals()
	r := runRec{Dec: bits}
	func() {
		defer func() {
			if e := recover(); e != nil {
				r.Panicked = true
			}
		}()
		main()
	}()
	r.Used = pos
	r.Events = events
	if r.Events == nil {
		r.Events = []event{}
	}
	return r
}

// The native driver runs before main: NATIVE_SCRIPTS is "all:<n>" (every script of n bits) or a comma separated
// list of bit strings; one JSON line per run.
func init() {
	spec := os.Getenv("NATIVE_SCRIPTS")
	if spec == "" {
		spec = "all:6"
	}
	enc := json.NewEncoder(os.Stdout)
	if strings.HasPrefix(spec, "all:") {
		n, _ := strconv.Atoi(spec[4:])
		seen := map[string]bool{}
		for b := 0; b < 1<<n; b++ {
			s := ""
			for k := 0; k < n; k++ {
				if b&(1<<k) != 0 {
					s += "1"
				} else {
					s += "0"
				}
			}
			r := runOnce(s)
			// runs that consumed only a prefix of the script are reported once under that prefix
			u := r.Used
			if u > n {
				u = n
			}
			key := s[:u]
			if seen[key] {
				continue
			}
			seen[key] = true
			r.Dec = key
			enc.Encode(r)
		}
	} else {
		for _, s := range strings.Split(spec, ",") {
			enc.Encode(runOnce(s))
		}
	}
	fmt.Fprint(os.Stderr, "")
	os.Exit(0)
}
