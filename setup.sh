#!/bin/sh
# Offline setup: warm the Go build cache for the harness (every check rebuilds from /repo's working tree anyway).
set -e
cd "$(dirname "$0")"
export GOFLAGS=-mod=mod GOPROXY=off GOSUMDB=off GOTOOLCHAIN=local GOWORK=off
rm -rf work/setup && mkdir -p work/setup
python3 - <<'PY'
import sys; sys.path.insert(0, "lib")
import vlib
vlib.ensure_harness_mod("work/setup/harness")
PY
(cd work/setup/harness && go build -tags verif -o ../bin/ ./cmd/... ) || exit 1
rm -rf work/setup
echo "setup ok"
