"""C04 -- every code location matching a specification is identified, and only those (DESIGN.md section 4, C04).

Pipeline: TLC(CodeIdSpace) enumerates cases [role, form, target layout, specification] and the universe of sites of
every form -> one multi-package Go module per (role, form) + one config per case -> the REAL analyses
(harness/cmd/codeid: taint.Analyze / backtrace.Analyze and the real entry-point scans) -> per case the set of sites
the real code identified -> TLC(CodeIdCheck + CodeId) decides Expected = Observed in both directions -> disagreements
are attributed to the known cells of known_findings.d/C04.json (role, form, spec shape) or become VIOLATIONs.

Python only renders, drives and attributes; the oracle (Matches / Match / Cid / Expected) lives in spec/CodeId.tla.
"""
import json
import os
import random
import sys
import time

import vlib
from vlib import Inconclusive

LAY_DIR = {"main": "", "sub": "lib", "nested": "x/lib"}
LAY_QUAL = {"main": "", "sub": "lib.", "nested": "xlib."}
LAY_PKGNAME = {"main": "main", "sub": "lib", "nested": "lib"}
ROLES = ["source", "sink", "sanitizer", "validator", "backtracepoint"]
POOL = 4  # the machine is shared: never more than 4 harness / TLC processes of this check at a time

ZQ = '''package zq

func Zsrc() string     { return "s" }
func Zmk() string      { return "v" }
func Zsnk(s string)    {}
func ZsnkAny(x any)    {}
'''


def S(chars):
    return "".join(chars)


# ----------------------------------------------------------------------------------------------- rendering
def decls(role, form, lay):
    """declarations of the candidate callees / types of one package"""
    ret = "bool" if role == "validator" else "string"
    body = "return len(x) > 0" if role == "validator" else "return x"
    out = []
    names = ["Fetch", "Fetchx"]
    recvs = ["Recv", "Recvx"]
    if form in ("alloc", "fieldread", "fieldstore", "chanrecv"):
        for t in ("Data", "Datax"):
            out.append("type %s struct {\n\tTok  string\n\tTokx string\n}" % t)
        return out
    if form == "generic":
        for n in names:
            if role == "validator":
                out.append("func %s[T any](x T) bool { return true }" % n)
            else:
                out.append("func %s[T any](x T) T { return x }" % n)
        return out
    if form == "directvm":
        for n in names:
            out.append("func %s(c string, x string) %s { %s }" % (n, ret, body))
        return out
    if form in ("mval", "mptr", "promoted", "invoke", "mvalue", "mexpr"):
        star = "*" if form == "mptr" else ""
        for r in recvs:
            out.append("type %s struct{ s string }" % r)
            for n in names:
                out.append("func (r %s%s) %s(x string) %s { %s }" % (star, r, n, ret, body))
            if form == "promoted":
                out.append("type Emb%s struct{ %s }" % (r, r))
        return out
    for n in names:
        out.append("func %s(x string) %s { %s }" % (n, ret, body))
    return out


def callexpr(form, q, N, R, k, arg, const):
    """(prelude statements, global declarations, call expression)"""
    if form in ("direct", "defer", "go", "closure"):
        return [], [], "%s%s(%s)" % (q, N, arg)
    if form == "directvm":
        return [], [], '%s%s("%s", %s)' % (q, N, const, arg)
    if form == "alias":
        return ["f%d := %s%s" % (k, q, N), "g%d := f%d" % (k, k)], [], "g%d(%s)" % (k, arg)
    if form == "mval":
        return ["var r%d %s%s" % (k, q, R)], [], "r%d.%s(%s)" % (k, N, arg)
    if form == "mptr":
        return ["r%d := &%s%s{}" % (k, q, R)], [], "r%d.%s(%s)" % (k, N, arg)
    if form == "promoted":
        return ["var o%d %sEmb%s" % (k, q, R)], [], "o%d.%s(%s)" % (k, N, arg)
    if form == "invoke":
        return ["var i%d If%s = %s%s{}" % (k, N, q, R)], [], "i%d.%s(%s)" % (k, N, arg)
    if form == "fval":
        return [], ["var fv%d = %s%s" % (k, q, N)], "fv%d(%s)" % (k, arg)
    if form == "mvalue":
        return ["var r%d %s%s" % (k, q, R), "g%d := r%d.%s" % (k, k, N)], [], "g%d(%s)" % (k, arg)
    if form == "mexpr":
        return ["g%d := %s%s.%s" % (k, q, R, N)], [], "g%d(%s%s{}, %s)" % (k, q, R, arg)
    if form == "generic":
        return [], [], "%s%s[string](%s)" % (q, N, arg)
    raise Inconclusive("unknown form %r" % form)


def site_code(role, form, site, k):
    """returns (lines, index of the site line, index of the witness-sink line or None, global decls)"""
    q = LAY_QUAL[site["lay"]]
    if not site["iscall"]:
        T = S(site["typ"])
        F = S(site["field"])
        if form == "alloc":
            return (["d%d := new(%s%s)" % (k, q, T), "zq.ZsnkAny(d%d)" % k], 0, 1, [])
        if form == "fieldread":
            return (["var d%d %s%s" % (k, q, T), "t%d := d%d.%s" % (k, k, F), "zq.Zsnk(t%d)" % k], 1, 2, [])
        if form == "fieldstore":
            return (["x%d := zq.Zsrc()" % k, "var d%d %s%s" % (k, q, T), "d%d.%s = x%d" % (k, F, k), "_ = d%d" % k], 2, None, [])
        if form == "chanrecv":
            # v is only loaded and stored, so SSA lifts it: no allocation of the named type on the site line
            return (["ch%d := make(chan %s%s, 1)" % (k, q, T), "v%d := <-ch%d" % (k, k), "zq.ZsnkAny(v%d)" % k], 1, 2, [])
        raise Inconclusive("unknown kind form %r" % form)
    N, R, const = S(site["method"]), S(site["recv"]), S(site["const"])
    arg = '"k"' if role == "source" else "x%d" % k
    pre, glob, call = callexpr(form, q, N, R, k, arg, const)
    stmt = {"defer": "defer ", "go": "go "}.get(form, "")
    lines = []
    if role == "source":
        if stmt:
            lines = pre + [stmt + call]
            si, wi = len(lines) - 1, None
        else:
            lines = pre + ["y%d := %s" % (k, call), "zq.Zsnk(y%d)" % k]
            si, wi = len(pre), len(pre) + 1
    elif role in ("sink", "backtracepoint"):
        lines = ["x%d := %s" % (k, "zq.Zsrc()" if role == "sink" else "zq.Zmk()")] + pre + [stmt + call]
        si, wi = len(lines) - 1, None
    elif role == "sanitizer":
        lines = ["x%d := zq.Zsrc()" % k] + pre + ["y%d := %s" % (k, call), "zq.Zsnk(y%d)" % k]
        si, wi = len(lines) - 2, len(lines) - 1
    elif role == "validator":
        lines = ["x%d := zq.Zsrc()" % k] + pre + ["if %s {" % call, "zq.Zsnk(x%d)" % k, "}"]
        si, wi = len(lines) - 3, len(lines) - 2
    else:
        raise Inconclusive("unknown role %r" % role)
    if form == "closure":
        # the whole witness (data origin, candidate call, witness sink) sits in the body of a function literal
        lines = ["func() {"] + lines + ["}()"]
        si += 1
        if wi is not None:
            wi += 1
    return lines, si, wi, glob


def render_module(d, role, form, sites):
    """writes the module for (role, form); returns {site key: {"site": [file, line], "snk": [file, line] | None}}"""
    os.makedirs(os.path.join(d, "lib"), exist_ok=True)
    os.makedirs(os.path.join(d, "x", "lib"), exist_ok=True)
    os.makedirs(os.path.join(d, "zq"), exist_ok=True)
    with open(os.path.join(d, "go.mod"), "w") as fh:
        fh.write("module app\n\ngo 1.22\n\nrequire zq v0.0.0\n\nreplace zq => ./zq\n")
    with open(os.path.join(d, "zq", "go.mod"), "w") as fh:
        fh.write("module zq\n\ngo 1.22\n")
    with open(os.path.join(d, "zq", "zq.go"), "w") as fh:
        fh.write(ZQ)
    for lay in ("sub", "nested"):
        with open(os.path.join(d, LAY_DIR[lay], "lib.go"), "w") as fh:
            fh.write("package lib\n\n" + "\n\n".join(decls(role, form, lay)) + "\n")
    lines = ["package main", "", "import (", '\t"app/lib"', '\txlib "app/x/lib"', '\t"zq"', ")", ""]
    for dd in decls(role, form, "main"):
        lines += dd.split("\n") + [""]
    if form == "invoke":
        ret = "bool" if role == "validator" else "string"
        for n in ("Fetch", "Fetchx"):
            lines += ["type If%s interface{ %s(x string) %s }" % (n, n, ret), ""]
    pos = {}
    globs = []
    order = sorted(sites, key=lambda s: s["key"])
    bodies = {}
    for k, s in enumerate(order):
        code, si, wi, glob = site_code(role, form, s, k)
        globs += glob
        oi = None  # the line of the data origin of the site (x := zq.Zsrc() / zq.Zmk())
        for j, ln in enumerate(code):
            if "zq.Zsrc()" in ln or "zq.Zmk()" in ln:
                oi = j
        bodies.setdefault(S(s["ctx"]).split(".")[-1], []).append((s, code, si, wi, oi))
    for g in globs:
        lines += [g]
    lines += [""]
    for fn in sorted(bodies):
        lines.append("func %s() {" % fn)
        for s, code, si, wi, oi in bodies[fn]:
            base = len(lines)
            for ln in code:
                lines.append("\t" + ln)
            pos[s["key"]] = {"site": ["main.go", base + si + 1], "snk": ["main.go", base + wi + 1] if wi is not None else None,
                             "org": ["main.go", base + oi + 1] if oi is not None else None}
        lines.append("}")
        lines.append("")
    lines += ["// keep every imported package used whatever the form", "var _ = lib.%s" % _anchor(role, form),
              "var _ = xlib.%s" % _anchor(role, form), "var _ = zq.Zmk", ""]
    lines += ["func main() {"] + ["\t%s()" % fn for fn in sorted(bodies)] + ["}"]
    with open(os.path.join(d, "main.go"), "w") as fh:
        fh.write("\n".join(lines) + "\n")
    return pos


def _anchor(role, form):
    if form in ("alloc", "fieldread", "fieldstore", "chanrecv"):
        return "Data{}"
    if form in ("mval", "mptr", "promoted", "invoke", "mvalue", "mexpr"):
        return "Recv{}"
    if form == "generic":
        return "Fetch[int]"
    return "Fetch"


# ------------------------------------------------------------------------------------------------- configs
def quote(lit):
    return "".join(("\\" + ch) if ch in "\\.+*?()|[]{}^$" else ch for ch in lit)


def regex(p):
    if not p["given"]:
        return ""
    alts = [quote(S(a)) for a in p["alts"]]
    body = alts[0] if len(alts) == 1 else ("(" + "|".join(alts) + ")" if (p["l"] or p["r"]) else "|".join(alts))
    return ("^" if p["l"] else "") + body + ("$" if p["r"] else "")


YAML_KEY = {"pkg": "package", "method": "method", "recv": "receiver", "ctx": "context", "vm": "value-match",
            "typ": "type", "field": "field"}


def cand_of(spec):
    c = {}
    for f, key in YAML_KEY.items():
        r = regex(spec[f])
        if r != "":
            c[key] = r
    if spec["kind"]:
        c["kind"] = spec["kind"]
    return c


NOMATCH = {"package": "^nomatch$", "method": "^nomatch$"}
TRUE_SRC = {"package": "^zq$", "method": "^Zsrc$"}
TRUE_SNK = {"package": "^zq$", "method": "^Zsnk"}


def config_of(role, cand):
    """the config file (JSON is YAML) holding exactly one candidate code identifier in the role's list"""
    if role == "backtracepoint":
        return json.dumps({"slicing-problems": [{"backtracepoints": [cand]}]})
    prob = {"sources": [TRUE_SRC], "sinks": [TRUE_SNK]}
    if role == "source":
        prob["sources"] = [cand]
    elif role == "sink":
        prob["sinks"] = [cand]
    elif role == "sanitizer":
        prob["sanitizers"] = [cand]
    elif role == "validator":
        prob["validators"] = [cand]
    return json.dumps({"taint-tracking-problems": [prob]})


# -------------------------------------------------------------------------------------------- observations
def observe(role, pos, out, control):
    """(identified site keys, unobservable site keys) of one case from the raw record of the real analyses"""
    flows = {((f["src"]["f"], f["src"]["l"]), (f["snk"]["f"], f["snk"]["l"])) for f in out["flows"]}
    entries = {(e["f"], e["l"]) for e in out["entries"]}
    traced = {(e["f"], e["l"]) for e in out["traced"]}
    srcs = {a for a, _ in flows}
    snks = {b for _, b in flows}
    ident, unobs = [], []
    for key, p in pos.items():
        site = tuple(p["site"])
        snk = tuple(p["snk"]) if p["snk"] else None
        if role == "source":
            if site in entries or site in srcs:
                ident.append(key)
        elif role == "sink":
            # the datum of the site can only reach the candidate call: a reported flow from the site's own origin means
            # the candidate was treated as a sink (inside $thunk / $bound wrappers the sink instruction has no position)
            org = tuple(p["org"])
            if site in snks or org in srcs:
                ident.append(key)
        elif role == "backtracepoint":
            if site in entries or site in traced:
                ident.append(key)
        else:  # sanitizer, validator: the flow through the candidate disappears
            if snk not in control:
                unobs.append(key)
            elif snk not in snks:
                ident.append(key)
    return sorted(ident), sorted(unobs)


# -------------------------------------------------------------------------------------------- known cells
def cell_matches(m, fl):
    """does the known-cell predicate m (known_findings.d/C04.json: "match") cover the disagreement record fl?
    keys: role / form / dir / lay (lists), given / not_given (fields of the specification), cls {field: [classes]},
    any [alternative sub-predicates]"""
    for key in ("role", "form", "dir", "lay"):
        if key in m and fl[key] not in m[key]:
            return False
    shape = fl["shape"]
    for f in m.get("given", []):
        if shape[f].startswith("none"):
            return False
    for f in m.get("not_given", []):
        if not shape[f].startswith("none"):
            return False
    for f, classes in m.get("cls", {}).items():
        if shape[f].rstrip("0123456789") not in classes:
            return False
    if "any" in m and not any(cell_matches(sub, fl) for sub in m["any"]):
        return False
    return True


def cell_name(fl):
    sh = fl["shape"]
    return "%s/%s/%s/%s" % (fl["role"], fl["form"], fl["dir"],
                            ",".join("%s=%s" % (f, sh[f]) for f in sorted(sh) if not sh[f].startswith("none")) +
                            (",kind=" + fl["kind"] if fl["kind"] else ""))


# ----------------------------------------------------------------------------------------------------- run
def pick_quick(cases, rnd, budget):
    """seeded subset covering every (role, form, target) x (field, option) pair at least once"""
    idx = list(range(len(cases)))
    rnd.shuffle(idx)
    need = set()
    feats = []
    for i in range(len(cases)):
        c = cases[i]
        sp = c["spec"]
        fs = {(c["role"], c["form"], f, sp[f]["cls"], sp[f]["base"]) for f in YAML_KEY}
        fs |= {(c["form"], c["target"], f, sp[f]["cls"], sp[f]["base"]) for f in YAML_KEY}
        fs.add((c["role"], c["form"], "kind", sp["kind"]))
        feats.append(fs)
        need |= fs
    chosen = []
    taken = set()
    for thr in (10, 8, 6, 4, 3, 2, 1):  # cheap approximation of the greedy set cover
        for i in idx:
            if i in taken:
                continue
            new = feats[i] & need
            if len(new) >= thr:
                chosen.append(i)
                taken.add(i)
                need -= new
    rest = [i for i in idx if i not in set(chosen)]
    chosen += rest[:max(0, budget - len(chosen))]
    return sorted(chosen)


def run(ctx):
    thorough = ctx.tier == "thorough"
    t0 = time.time()

    def phase(name):
        if os.environ.get("C04_DEBUG"):
            import resource
            ru = resource.getrusage(resource.RUSAGE_CHILDREN)
            sys.stderr.write("[c04 %6.1fs | children cpu user %.0fs sys %.0fs] %s\n" % (time.time() - t0, ru.ru_utime, ru.ru_stime, name))
    rnd = random.Random(ctx.seed)
    # known_findings.json is assembled from known_findings.d/*.json by the lead; during development read our own file
    kfp = os.path.join(vlib.VERIF, "known_findings.d", "C04.json")
    if not ctx.kf and os.path.exists(kfp):
        ctx.kf = [e for e in json.load(open(kfp)) if e.get("property") == "C04"]
    # several JVMs / harness processes run side by side: keep each of them small
    os.environ.setdefault("JAVA_TOOL_OPTIONS", "-XX:ParallelGCThreads=2 -XX:CICompilerCount=2")
    os.environ.setdefault("GOMAXPROCS", "4")  # also the default of `go build -p`
    bins = ctx.build(["codeid"])
    phase("harness built")

    # ---- 1. case space and site universe from TLC -------------------------------------------------------
    cache = os.environ.get("C04_SPACE_CACHE")  # development aid only: reuse a previous TLC export
    if cache and os.path.exists(os.path.join(cache, "cases.ndjson")):
        sdir = cache
    else:
        r = ctx.tlc_must_pass("CodeIdSpace", timeout=1500, deadlock=False, xmx="6g")
        sdir = r.dir
    cases = vlib.read_ndjson(os.path.join(sdir, "cases.ndjson"))
    sites = vlib.read_ndjson(os.path.join(sdir, "sites.ndjson"))
    if len(cases) < 1000 or len(sites) < 100:
        raise Inconclusive("CodeIdSpace produced %d cases / %d sites" % (len(cases), len(sites)))
    phase("CodeIdSpace done: %d cases" % len(cases))
    cases.sort(key=lambda c: json.dumps(c, sort_keys=True))
    for i, c in enumerate(cases):
        c["id"] = "c%05d" % i
    total_cases = len(cases)
    # one pinned canonical case per known / fixed finding runs on every invocation (DESIGN.md 2.6)
    pinned = []
    for e in ctx.kf:
        pp = os.path.join(vlib.VERIF, e.get("pinned_input", ""))
        if e.get("pinned_input") and os.path.exists(pp):
            pc = json.load(open(pp))
            pc["id"] = "pin-" + e["id"]
            pinned.append(pc)
    if ctx.replay:
        # ./check C04 --replay <dir>: re-run exactly the case stored with a violation
        cp = os.path.join(ctx.replay, "case.json") if os.path.isdir(ctx.replay) else ctx.replay
        rc = json.load(open(cp))
        rc["id"] = "replay"
        cases, pinned_ok = [rc], False
    else:
        pinned_ok = True
    only = os.environ.get("C04_ONLY")  # development aid: "role/form,role/*,*/form"
    if only:
        pats = [x.split("/") for x in only.split(",")]
        cases = [c for c in cases if any(a in ("*", c["role"]) and b in ("*", c["form"]) for a, b in pats)]
    if not thorough and not ctx.replay:
        keep = pick_quick(cases, rnd, int(os.environ.get("C04_QUICK_CASES", "3000")))
        cases = [cases[i] for i in keep]
    if pinned_ok and not os.environ.get("C04_ONLY"):
        have = {json.dumps({k: v for k, v in c.items() if k != "id"}, sort_keys=True) for c in cases}
        cases += [pc for pc in pinned if json.dumps({k: v for k, v in pc.items() if k != "id"}, sort_keys=True) not in have]
    by_form = {}
    for s in sites:
        by_form.setdefault(s["form"], []).append(s)

    # ---- 2. one module per (role, form); run the real analyses ---------------------------------------------
    groups = {}
    for c in cases:
        groups.setdefault((c["role"], c["form"]), []).append(c)
    # split large groups so that the 16 cores stay busy
    jobs = []
    for (role, form), cs in sorted(groups.items()):
        CH = 250
        for j in range(0, len(cs), CH):
            jobs.append((role, form, j // CH, cs[j:j + CH]))

    def runjob(job):
        role, form, part, cs = job
        d = os.path.join(ctx.work, "mods", "%s-%s-%d" % (role, form, part))
        pos = render_module(d, role, form, by_form[form])
        recs = [{"id": "control", "role": role, "config": config_of(role, NOMATCH)}]
        recs += [{"id": c["id"], "role": role, "config": config_of(role, cand_of(c["spec"]))} for c in cs]
        with open(os.path.join(d, "cases.ndjson"), "w") as fh:
            fh.write(vlib.ndjson(recs))
        out = os.path.join(d, "obs.ndjson")
        reuse = os.environ.get("C04_REUSE")  # development aid only: raw observations of a previous (kept) run
        if reuse:
            old = os.path.join(reuse, "mods", os.path.basename(d), "obs.ndjson")
            oldc = os.path.join(reuse, "mods", os.path.basename(d), "cases.ndjson")
            if os.path.exists(old) and open(oldc).read() == vlib.ndjson(recs):
                return job, d, pos, {o["id"]: o for o in vlib.read_ndjson(old)}
        env = vlib.goenv()
        env["GOMAXPROCS"] = "2"  # POOL harness processes side by side; the analyses' own worker pools only add overhead here
        p = vlib.sh([bins["codeid"], "-dir", d, "-cases", os.path.join(d, "cases.ndjson"), "-out", out],
                    env=env, check=False, timeout=3000)
        if p.returncode != 0:
            raise Inconclusive("codeid failed on %s/%s: %s" % (role, form, p.stdout[-3000:]))
        outs = {o["id"]: o for o in vlib.read_ndjson(out)}
        return job, d, pos, outs

    phase("rendering + real analyses: %d modules, %d cases" % (len(jobs), len(cases)))
    results = vlib.pmap(runjob, jobs, nproc=POOL)
    phase("real analyses done")

    obs = []
    dirs = {}
    raw = {}
    nunobs = 0
    for (role, form, part, cs), d, pos, outs in results:
        ctl = outs.get("control")
        if ctl is None or ctl["panic"] or ctl["err"]:
            raise Inconclusive("control run failed for %s/%s: %s" % (role, form, ctl))
        control = {(f["snk"]["f"], f["snk"]["l"]) for f in ctl["flows"]}
        if role in ("sanitizer", "validator") and not control:
            raise Inconclusive("control run of %s/%s reports no flow at all: the witness flows are dead" % (role, form))
        if role in ("source", "sink") and ctl["flows"]:
            raise Inconclusive("control run of %s/%s reports flows %s" % (role, form, ctl["flows"][:3]))
        for c in cs:
            o = outs.get(c["id"])
            if o is None:
                raise Inconclusive("no observation for case %s" % c["id"])
            if o["panic"]:
                raise Inconclusive("real analysis panicked on case %s (%s/%s): %s" % (c["id"], role, form, o["panic"]))
            ident, unobs = observe(role, pos, o, control)
            nunobs += len(unobs)
            rec = dict(c)
            rec["ident"], rec["unobs"] = ident, unobs
            obs.append(rec)
            dirs[c["id"]] = (d, pos)
            raw[c["id"]] = o
    ctx.traces += len(obs)

    # ---- 3. TLC: Expected = Observed, both directions ------------------------------------------------------
    NB = 8 if len(obs) > 8000 else 4
    batches = [obs[i::NB] for i in range(NB)]  # NB TLC runs, at most POOL at a time, one worker each

    def runbatch(bi):
        if not batches[bi]:
            return [], (0, 0, 0, 0)
        rr = ctx.tlc_must_pass("CodeIdCheck", data={"obs.ndjson": vlib.ndjson(batches[bi])}, subdir="check-%d" % bi,
                               timeout=2400, deadlock=False, xmx="4g")
        fp = os.path.join(rr.dir, "codeid_fail.ndjson")
        if "CODEID_RESULT" not in rr.out or not os.path.exists(fp):
            raise Inconclusive("CodeIdCheck did not reach its postcondition:\n" + rr.out[-3000:])
        import re
        m = re.search(r'"CODEID_RESULT", (\d+), (\d+), (\d+), (\d+), (\d+), (\d+)', rr.out)
        return vlib.read_ndjson(fp), tuple(int(x) for x in m.groups()[2:6])

    phase("TLC CodeIdCheck on %d observations" % len(obs))
    res = vlib.pmap(runbatch, range(NB), nproc=POOL)
    phase("TLC done")
    fails = [f for fl, _ in res for f in fl]
    nyes = sum(st[0] for _, st in res)
    nno = sum(st[1] for _, st in res)
    nfree = sum(st[2] for _, st in res)
    if (nyes == 0 or nno == 0) and not ctx.replay:
        raise Inconclusive("vacuous: %d must-identify and %d must-not-identify verdicts" % (nyes, nno))

    if os.environ.get("VERIF_KEEP"):
        with open(os.path.join(ctx.work, "fails.ndjson"), "w") as fh:
            fh.write(vlib.ndjson(fails))
    # ---- 4. attribution to known cells, verdicts -------------------------------------------------------------
    known = [e for e in ctx.kf if e.get("status") == "known"]
    seen_cells = {}
    unknown = {}
    for fl in sorted(fails, key=lambda f: (f["id"], f["site"])):
        hit = None
        for e in known:
            if cell_matches(e["match"], fl):
                hit = e
                break
        if hit:
            seen_cells.setdefault(hit["id"], []).append(fl)
        else:
            unknown.setdefault(cell_name(fl), []).append(fl)
    for eid, fls in sorted(seen_cells.items()):
        e = ctx.known_entry(eid)
        ctx.known(eid, "%s -- %s (%d disagreeing (case, site) pairs in this run, e.g. case %s site %s %s)" % (
            eid, e["what"], len(fls), fls[0]["id"], fls[0]["site"], fls[0]["dir"]))
    case_by_id = {c["id"]: c for c in cases}
    MAXV = 25  # one VIOLATION (with replay material) per disagreeing cell, at most MAXV of them
    for nv, (cell, fls) in enumerate(sorted(unknown.items(), key=lambda kv: (-len(kv[1]), kv[0]))):
        if nv >= MAXV:
            print("  ... and %d more disagreeing cells (not listed; %d disagreeing (case, site) pairs in all cells together)" % (
                len(unknown) - MAXV, sum(len(v) for v in unknown.values())))
            break
        fl = fls[0]
        c = case_by_id[fl["id"]]
        d, pos = dirs[fl["id"]]
        files = {"failure.json": fl, "case.json": c, "observed.json": raw[fl["id"]], "sites.json": pos,
                 "config.yaml": config_of(c["role"], cand_of(c["spec"])),
                 "all_failures_of_cell.json": fls[:50]}
        for rel in ("main.go", "lib/lib.go", "x/lib/lib.go", "zq/zq.go", "go.mod"):
            try:
                files["module/" + rel] = open(os.path.join(d, rel)).read()
            except OSError:
                pass
        what = ("code identifier %s as %s, call form/kind %s: site %s (main.go:%d; package %s) is %s -- the specification %s it, "
                "the real analysis %s it  [cell %s; %d (case, site) pairs]" % (
                    json.dumps(cand_of(c["spec"])), c["role"], c["form"], fl["site"], pos[fl["site"]]["site"][1],
                    fl["lay"], fl["dir"],
                    "matches" if fl["dir"] == "missed" else "does not match",
                    "did not identify" if fl["dir"] == "missed" else "identified", cell, len(fls)))
        ctx.violation(what, files, key=cell)

    for c in obs[:3]:
        ctx.sample({"role": c["role"], "form": c["form"], "target": c["target"], "spec": cand_of(c["spec"]),
                    "identified_sites": c["ident"]})
    ctx.extra.update({
        "cases_total_space": total_cases, "cases_run": len(obs), "modules": len(jobs),
        "site_verdicts_must_identify": nyes, "site_verdicts_must_not_identify": nno, "site_verdicts_free": nfree,
        "unobservable_site_verdicts": nunobs, "disagreements": len(fails),
        "disagreements_in_known_cells": sum(len(v) for v in seen_cells.values()),
        "disagreeing_unknown_cells": len(unknown),
        "explanation": "one TLC state per case; every case is one config analysed by the real taint/backtrace analyses "
                       "on the module of its (role, form); each case yields a verdict for each of the 12..24 sites",
    })
    ctx.assumptions += [
        "Go regexp (RE2) is trusted beyond the pattern classes exact/^$/prefix/suffix/substring/alternation",
        "classification is observed through public behaviour: reported flows, analysis entry points, backtraces",
        "names whose textual form the statement leaves open (package name vs path for type/field identifiers, "
        "T vs *T, T vs chan T) carry no obligation when the readings disagree",
    ]
    ctx.finish_args = dict(exhaustive=thorough, evaluations=nyes + nno + nfree, distinct=len(obs),
                           rule="one case = (role, form, target layout, specification); specifications deviate from the "
                                "form's baseline in <= 1 field (all pattern classes x target/decoy names) or in 2 fields "
                                "(reduced classes); quick = seeded covering subset")
