"""C17 -- dataflow graphs are structurally consistent in both directions (DESIGN.md section 4, C17).

Pipeline: corpus (repository testdata programs + seeded generated programs + pinned inputs)
  -> REAL taint / backtrace analysis of /repo in eager and summarize-on-demand mode (harness/cmd/fgdump)
  -> ndjson snapshots of the linked graph: after BuildGraph, after the visitor, after every on-demand
     construction step (hook dataflow.VerifOnSummaryConstructed)
  -> TLC on spec/FlowGraph.tla: one state per snapshot, `Consistent` of the property statement clause by clause
     + forward/backward closure agreement; counterexamples collected and written by the POSTCONDITION
  -> verdicts (known-finding protocol for the tuple-index construct).
Role A (never a verdict): spec/FlowGraphModel.tla, the edge/link actions as implemented on <= 4 nodes; TLC finds the
design counterexample "out keeps one EdgeInfo per index, in keeps one per source".
"""
import json
import os
import random
import re
import shutil

import vlib
from vlib import Inconclusive

KNOWN_ID = "tuple-index-in-edge"
SHORT = {
    "tuple-index": "In() keeps one EdgeInfo per source node while Out() keeps one per tuple index",
    "orphan-callee": "backtrace (summarize-on-demand) links a call node to a callee summary it creates on the fly without "
                     "registering the call site",
}
# construct (as attributed by FlowGraph.tla, field `known`) -> (known-finding id, failure kinds it may explain, pinned program)
CONSTRUCTS = {
    "tuple-index": ("tuple-index-in-edge", ("out-edge-not-in-in", "forward-closure-differs"), "pinned/tuple_same_node"),
    "orphan-callee": ("orphan-callee-summary", ("linked-call-not-among-callsites",), "pinned/orphan_callee_summary"),
}
POOL = 4  # processes of this check running at the same time (the machine is shared)
PINNED = os.path.join(vlib.VERIF, "corpus", "pinned", "C17")

CONFIG = '''taint-tracking-problems:
  - sources:
      - package: "(main)|(command-line-arguments)"
        method: "source[0-9]*"
    sinks:
      - package: "(main)|(command-line-arguments)"
        method: "sink[0-9]*"
slicing-problems:
  - backtracepoints:
      - package: "(main)|(command-line-arguments)"
        method: "sink[0-9]*"
'''

PRELUDE = '''package main
@IMPORTS@
func source() string { return "tainted" }
func sink(s string)  {}
func cond() bool     { return len(source()) > 3 }
'''

# catalogue of constructs; @ is replaced by a per-instance suffix.  (name, declarations, call from main)
SNIPPETS = [
    ("tuple_same", '''func two@() (string, string) { return source(), "b" }
func tupSame@() { x, y := two@(); sink(x + y) }''', "tupSame@()"),
    ("tuple_distinct", '''func twoD@() (string, string) { return source(), "b" }
func tupDist@() { x, y := twoD@(); sink(x); sink(y) }''', "tupDist@()"),
    ("tuple_phi", '''func twoP@() (string, string) { return "a", source() }
func tupPhi@() { x, y := twoP@(); var z string; if cond() { z = x } else { z = y }; sink(z) }''', "tupPhi@()"),
    ("tuple3", '''func three@(a string) (string, int, string) { return a, len(a), a + "!" }
func tup3@() { x, n, y := three@(source()); if n > 0 { sink(x) }; sink(y) }''', "tup3@()"),
    ("tuple_pass", '''func swap@(a, b string) (string, string) { return b, a }
func tupPass@() { x, y := swap@(source(), "k"); sink(x); sink(y) }''', "tupPass@()"),
    ("tuple_ret", '''func inner@() (string, string) { return source(), "q" }
func outer@() (string, string) { a, b := inner@(); return b, a }
func tupRet@() { _, v := outer@(); sink(v) }''', "tupRet@()"),
    ("closure_value", '''func cloVal@() { a := source(); f := func() string { return a + "x" }; sink(f()) }''', "cloVal@()"),
    ("closure_write", '''func cloWr@() { a := "x"; f := func() { a = source() }; f(); sink(a) }''', "cloWr@()"),
    ("closure_ret", '''func mk@() func() string { s := source(); return func() string { return s } }
func cloRet@() { sink(mk@()()) }''', "cloRet@()"),
    ("closure_arg", '''func apply@(f func(string) string, v string) string { return f(v) }
func cloArg@() { p := "<"; sink(apply@(func(s string) string { return p + s }, source())) }''', "cloArg@()"),
    ("closure_nested", '''func cloNest@() { a := source(); f := func() func() string { return func() string { return a } }; sink(f()()) }''',
     "cloNest@()"),
    ("global_scalar", '''var G@ string
func gWr@() { G@ = source() }
func gRd@() { sink(G@) }''', "gWr@(); gRd@()"),
    ("global_ptr", '''var GP@ *string
func gpWr@() { s := source(); GP@ = &s }
func gpRd@() { if GP@ != nil { sink(*GP@) } }''', "gpWr@(); gpRd@()"),
    ("global_unread", '''var GU@ string
var GV@ string
func guWr@() { GU@ = source(); _ = GV@ }''', "guWr@()"),
    ("global_arg", '''var GA@ string
func gaWr@() { GA@ = source() }
func gaSink@(p *string) { sink(*p) }
func gaRd@() { gaSink@(&GA@) }''', "gaWr@(); gaRd@()"),
    ("iface", '''type I@ interface{ Get() string }
type A@ struct{ s string }
func (a A@) Get() string { return a.s }
type B@ struct{}
func (B@) Get() string { return source() }
func useI@(i I@) { sink(i.Get()) }''', "useI@(A@{source()}); useI@(B@{})"),
    ("method_value", '''type M@ struct{ s string }
func (m M@) Get() string { return m.s }
func mval@() { m := M@{source()}; f := m.Get; sink(f()) }''', "mval@()"),
    ("variadic", '''func join@(xs ...string) string { r := ""; for _, x := range xs { r += x }; return r }
func vari@() { sink(join@("a", source(), "b")) }''', "vari@()"),
    ("defer_call", '''func dfr@() { x := source(); defer sink(x) }''', "dfr@()"),
    ("defer_closure", '''func dfc@() { x := "a"; defer func() { sink(x) }(); x = source() }''', "dfc@()"),
    ("param_write", '''func fill@(p *string) { *p = source() }
func pw@() { var s string; fill@(&s); sink(s) }''', "pw@()"),
    ("field", '''type T@ struct{ a, b string }
func fld@() { t := T@{}; t.a = source(); sink(t.b); sink(t.a) }''', "fld@()"),
    ("mapslice", '''func ms@() { m := map[string]string{}; m["k"] = source(); v, ok := m["k"]; if ok { sink(v) }; s := []string{source()}; sink(s[0]) }''',
     "ms@()"),
    ("recursion", '''func rec@(n int, s string) string { if n == 0 { return s }; return rec@(n-1, s+"x") }
func recUse@() { sink(rec@(3, source())) }''', "recUse@()"),
    ("channel", '''func chn@() { ch := make(chan string, 1); go func() { ch <- source() }(); sink(<-ch) }''', "chn@()"),
    ("typeassert", '''func ta@() { var i interface{} = source(); s, ok := i.(string); if ok { sink(s) } }''', "ta@()"),
    # calls of standard-library functions that have predefined (by-position) summaries
    ("stdcall", '''func stdc@() { s := strings.ToUpper(source()); t := strings.Split(s, ","); sink(strings.Join(t, ";")) }''', "stdc@()",
     ["strings"]),
    ("stdfmt", '''func stdf@() { s := fmt.Sprintf("%s-%d", source(), 3); var b strings.Builder; b.WriteString(s); sink(b.String()) }''',
     "stdf@()", ["fmt", "strings"]),
    ("funcvalue", '''func id@(s string) string { return s }
func fv@() { f := id@; if cond() { f = func(s string) string { return s + "y" } }; sink(f(source())) }''', "fv@()"),
]

LIGHT = [s for s in SNIPPETS if s[0] != "stdfmt"]  # fmt drags in ~1000 summaries: only as a single-construct program

# repository test programs (directory under analysis/<tool>/testdata); the small ones first
REPO_DIRS = [
    ("taint", d) for d in
    ["tuples", "closures_paper", "globals", "builtins", "defers", "panics", "interfaces", "fields", "closures",
     "closures_flowprecise", "example0", "example1", "example2", "implicit-flow", "intra-procedural", "parameters",
     "selects", "validators", "sanitizers", "filters", "fromlevee", "playground", "with-context", "basic", "stdlib",
     "interface-summaries", "annotations", "benchmark", "builtins_121", "stdlib_121", "stdlib-no-effect-constraint"]
] + [("backtrace", "backtrace")]
ALWAYS = {("taint", "tuples"), ("taint", "closures_paper"), ("backtrace", "backtrace")}
# backtrace.Analyze does not finish on these programs within 30 CPU minutes (observed on the unchanged tree; C07's business)
BACKTRACE_SKIP = {"fromlevee"}


def gen_program(rnd, names):
    decls, calls, imports = [], [], set()
    for k, nm in enumerate(names):
        sn = next(s for s in SNIPPETS if s[0] == nm)
        suf = "%d" % (k + 1)
        decls.append(sn[1].replace("@", suf))
        calls.append(sn[2].replace("@", suf))
        imports.update(sn[3] if len(sn) > 3 else [])
    rnd.shuffle(calls)
    imp = "".join('\nimport "%s"' % i for i in sorted(imports)) + "\n"
    return (PRELUDE.replace("@IMPORTS@", imp) + "\n" + "\n\n".join(decls) + "\n\nfunc main() {\n\t" +
            "\n\t".join(calls) + "\n}\n")


def write_prog(d, src):
    os.makedirs(d, exist_ok=True)
    open(os.path.join(d, "main.go"), "w").write(src)
    open(os.path.join(d, "config.yaml"), "w").write(CONFIG)


def clean_desc(s):
    """node description without the run-dependent summary / node numbers"""
    return re.sub(r"\[#\d+(\.\d+)?\]\s*", "", s)


def run(ctx):
    thorough = ctx.tier == "thorough"
    rnd = random.Random(ctx.seed)
    bins = ctx.build(["fgdump"])
    fg = bins["fgdump"]

    # ---- 1. corpus ------------------------------------------------------------------------------------------
    progs = []  # (name, dir, kind)
    for d in sorted(os.listdir(PINNED)):
        if os.path.isdir(os.path.join(PINNED, d)):
            pd = os.path.join(ctx.work, "pinned", d)
            shutil.copytree(os.path.join(PINNED, d), pd)
            progs.append(("pinned/" + d, pd, "pinned"))
    singles = [[s[0]] for s in SNIPPETS]
    combos = []
    for _ in range(60 if thorough else 10):
        k = rnd.randint(3, 6)
        combos.append([rnd.choice(LIGHT)[0] for _ in range(k)])
    for n, names in enumerate(singles + combos):
        gd = os.path.join(ctx.work, "gen", "g%03d" % n)
        write_prog(gd, gen_program(rnd, names))
        progs.append(("gen/g%03d[%s]" % (n, "+".join(names)), gd, "gen"))
    repo_dirs = []
    for tool, d in REPO_DIRS:
        p = os.path.join(vlib.REPO, "analysis", tool, "testdata", d)
        if os.path.isdir(p):
            repo_dirs.append((tool, d, p))
    if len(repo_dirs) < 10:
        raise Inconclusive("repository testdata not found under %s" % vlib.REPO)
    only = os.environ.get("VERIF_C17_ONLY", "")  # development knob (mutation runs): "gen" = no repository testdata
    if only == "gen":
        repo_dirs = [x for x in repo_dirs if (x[0], x[1]) in ALWAYS]
    elif not thorough:
        keep = [x for x in repo_dirs if (x[0], x[1]) in ALWAYS]
        rest = [x for x in repo_dirs if (x[0], x[1]) not in ALWAYS]
        rnd.shuffle(rest)
        repo_dirs = keep + rest[:3]
    for tool, d, p in repo_dirs:
        progs.append(("repo/%s/%s" % (tool, d), p, "repo"))

    jobs = []
    for name, d, kind in progs:
        for mode in ("taint", "backtrace"):
            if kind == "repo" and name.startswith("repo/backtrace/") and mode == "taint":
                continue
            if kind == "repo" and mode == "backtrace" and name.split("/")[-1] in BACKTRACE_SKIP:
                continue
            for od in (False, True):
                jobs.append((name, d, kind, mode, od))

    # ---- 2. the real analyses --------------------------------------------------------------------------------
    outdir = os.path.join(ctx.work, "snaps")
    os.makedirs(outdir)
    budget = 20000 if thorough else 5000
    tmo = 900  # per run; a run that does not finish is counted in runs_failed (termination is C07's business)

    def dump(j):
        k, (name, d, kind, mode, od) = j
        out = os.path.join(outdir, "s%04d.ndjson" % k)
        run_name = "%s|%s|%s" % (name, mode, "ondemand" if od else "eager")
        try:
            p = vlib.sh([fg, "-dir", d, "-mode", mode, "-ondemand=%s" % ("true" if od else "false"), "-name", run_name,
                         "-out", out, "-maxnodes", str(budget), "-maxsteps", "400" if thorough else "150",
                         "-seed", str(ctx.seed), "-starts", "16" if thorough else "10"],
                        env=vlib.goenv(), check=False, timeout=tmo)
        except Exception as e:  # timeout
            return (run_name, out, "timeout", str(e)[-300:])
        tail = "\n".join(l for l in p.stdout.splitlines() if l.startswith("fgdump:"))
        if p.returncode == 0:
            return (run_name, out, "ok", tail)
        return (run_name, out, {3: "load", 4: "analysis"}.get(p.returncode, "crash"), tail or p.stdout[-600:])

    results = vlib.pmap(dump, list(enumerate(jobs)), nproc=POOL)
    ok = [r for r in results if r[2] == "ok" or (r[2] == "analysis" and os.path.exists(r[1]) and os.path.getsize(r[1]) > 0)]
    bad = [r for r in results if r not in ok]
    if len(ok) < 0.8 * len(results):
        raise Inconclusive("fgdump failed on %d of %d runs, e.g. %s" % (len(bad), len(results), bad[:3]))
    stats_line = re.compile(r"snapshots=(\d+) steps=(\d+) skipped_steps=(\d+) skipped_big=(\d+) stubbed_dummies=(\d+)")
    tot = dict(snapshots=0, steps=0, skipped_steps=0, skipped_big=0, stubbed_dummies=0)
    for r in ok:
        m = stats_line.search(r[3])
        if m:
            for key, v in zip(tot, m.groups()):
                tot[key] += int(v)

    # ---- 3. TLC over the snapshots ----------------------------------------------------------------------------
    files = sorted((os.path.getsize(r[1]), r[1]) for r in ok if os.path.exists(r[1]) and os.path.getsize(r[1]) > 0)
    if not files:
        raise Inconclusive("no snapshots were recorded")
    batches, cur, cursz = [], [], 0
    LIMIT = 6 << 20
    for sz, f in files:
        if cur and cursz + sz > LIMIT:
            batches.append(cur)
            cur, cursz = [], 0
        cur.append(f)
        cursz += sz
    if cur:
        batches.append(cur)

    def tlc(bi):
        text = "".join(open(f).read() for f in batches[bi])
        r = ctx.tlc_must_pass("FlowGraph", data={"snaps.ndjson": text}, subdir="fg-%03d" % bi,
                              timeout=3000 if thorough else 1500, deadlock=False, xmx="3g")
        fp = os.path.join(r.dir, "fg_fail.ndjson")
        sp = os.path.join(r.dir, "fg_stats.ndjson")
        if "FLOWGRAPH_RESULT" not in r.out or not os.path.exists(fp):
            raise Inconclusive("FlowGraph.tla did not reach its postcondition:\n" + r.out[-3000:])
        os.remove(os.path.join(r.dir, "snaps.ndjson"))
        return vlib.read_ndjson(fp), vlib.read_ndjson(sp)

    tl = vlib.pmap(tlc, range(len(batches)), nproc=POOL)
    fails = [f for fl, _ in tl for f in fl]
    stats = [s for _, sl in tl for s in sl]
    ctx.traces += len(stats)
    if len(stats) < tot["snapshots"]:
        raise Inconclusive("TLC evaluated %d snapshots, %d were recorded" % (len(stats), tot["snapshots"]))

    # ---- 4. Role A: the design-level model (never a verdict) --------------------------------------------------------
    model = {}
    try:
        rm = ctx.tlc("FlowGraphModel", timeout=900, deadlock=False, subdir="fg-model")
        model["states"] = rm.distinct
        model["consistent_violated_by_design"] = bool(rm.violated)
        m = re.search(r"Invariant (\w+) is violated", rm.out)
        model["violated_invariant"] = m.group(1) if m else None
        rm2 = ctx.tlc("FlowGraphModel", cfg="FlowGraphModelFixed.cfg", timeout=900, deadlock=False, subdir="fg-model-fixed")
        model["fixed_variant_states"] = rm2.distinct
        model["fixed_variant_consistent"] = bool(rm2.ok)
    except Inconclusive as e:
        model["error"] = str(e)[:300]
    ctx.extra["role_a_model"] = model

    # ---- 5. verdicts ----------------------------------------------------------------------------------------------
    if any(f["kind"].startswith("harness-") for f in fails):
        raise Inconclusive("the re-indexed adjacency lists of the dump are not faithful: %s" %
                           [f for f in fails if f["kind"].startswith("harness-")][:3])
    descs = {}

    def desc_of(prog, seq):
        if prog not in descs:
            r = next((x for x in ok if x[0] == prog), None)
            descs[prog] = {}
            if r and os.path.exists(r[1] + ".desc"):
                for rec in vlib.read_ndjson(r[1] + ".desc"):
                    descs[prog][rec["seq"]] = rec
        return descs[prog].get(seq)

    def node_desc(f, n):
        d = desc_of(f["prog"], f["seq"])
        if not d or n <= 0 or n > len(d["nodes"]):
            return "#%d" % n
        return clean_desc(d["nodes"][n - 1])

    def entry(kid):
        return ctx.known_entry(kid) or local_known_entry(kid)

    grouped = {}
    for f in fails:
        base = f["prog"].split("|")[0]
        edge = f["kind"].endswith(("in-in", "in-out"))
        key = (f["kind"], base, node_desc(f, f["a"]), node_desc(f, f["b"]) if edge else "", f["i"] if edge else 0, f["known"] or "")
        grouped.setdefault(key, []).append(f)
    pinned_failed = {}
    known_seen = {}
    nviol = 0
    suppressed = []
    for key, fl in sorted(grouped.items(), key=lambda kv: str(kv[0])):
        kind, base, da, db, idx, construct = key
        c = CONSTRUCTS.get(construct)
        ent = entry(c[0]) if c else None
        if c and kind in c[1] and ent and ent.get("status") == "known":
            known_seen[construct] = known_seen.get(construct, 0) + len(fl)
            if base == c[2]:
                pinned_failed[construct] = True
            continue
        f0 = fl[0]
        nviol += 1
        if nviol > 30:  # one replay directory per distinct counterexample, but not thousands of them
            suppressed.append(key)
            continue
        what = ("%s in %s (%s, snapshot %d/%s and %d more): node %s ; node %s ; index/summary/global %d%s" % (
            kind, base, f0["prog"], f0["seq"], f0["stage"], len(fl) - 1, da, node_desc(f0, f0["b"]), f0["i"],
            (" [matches the construct %s, but that finding is not recorded as known]" % construct) if construct else ""))
        ctx.violation(what, {"failures.json": fl[:50]}, key="%s/%s/%s/%s/%s" % (kind, base, da, db, idx))
    if suppressed:
        ctx.violation("%d further distinct inconsistencies (kinds: %s)" % (
            len(suppressed), sorted({k[0] for k in suppressed})), {"keys.json": [list(map(str, k)) for k in suppressed[:500]]},
            key="further-inconsistencies")
    for construct, (kid, _, pname) in CONSTRUCTS.items():
        ent = entry(kid)
        if not ent or ent.get("status") != "known":
            continue
        if pinned_failed.get(construct):
            ctx.known(kid, "%s: %s; pinned input corpus/%s still fails (%d occurrences in this run's snapshots)" % (
                kid, SHORT[construct], pname.replace("pinned/", "pinned/C17/"), known_seen.get(construct, 0)))
        elif known_seen.get(construct):
            # the construct fails elsewhere although the pinned input passes: not attributable
            ctx.violation("construct %s fails in the corpus (%d occurrences) although its pinned input passes" % (
                construct, known_seen[construct]), {"failures.json": [f for f in fails if f["known"] == construct][:50]},
                key="unpinned/" + construct)
    # the benign twin must be clean (it is part of the pinned directory)
    if not any(s["prog"].startswith("pinned/tuple_distinct_nodes") for s in stats):
        raise Inconclusive("benign twin of the pinned input was not analysed")

    # ---- 6. evidence ------------------------------------------------------------------------------------------------
    def tot_of(k):
        return sum(s[k] for s in stats)

    for s in stats:
        if s["stage"] == "final" and s["edges"] > 20:
            ctx.sample({k: s[k] for k in ("prog", "stage", "nodes", "fullgraphs", "built", "edges", "multi", "calls",
                                          "callsites", "closures", "boundlabels", "gwrites", "greads", "starts")})
    ctx.extra.update({
        "programs": len(progs), "runs": len(jobs), "runs_ok": len(ok),
        "runs_failed": [(r[0], r[2]) for r in bad][:20],
        "snapshots": len(stats),
        "snapshots_by_stage": {st: sum(1 for s in stats if s["stage"] == st) for st in ("built", "final", "step")},
        "on_demand_steps_seen": tot["steps"], "on_demand_steps_not_dumped": tot["skipped_steps"] + tot["skipped_big"],
        "non_constructed_summaries_dumped_as_stubs": tot["stubbed_dummies"],
        "edges_compared": tot_of("edges"), "edges_with_several_indices": tot_of("multi"),
        "linked_calls_checked": tot_of("calls"), "callsite_entries_checked": tot_of("callsites"),
        "closures_checked": tot_of("closures"), "bound_labels_checked": tot_of("boundlabels"),
        "global_write_nodes_checked": tot_of("gwrites"), "global_read_nodes_checked": tot_of("greads"),
        "reach_start_nodes": tot_of("starts"),
        "known_construct_occurrences": known_seen,
        "explanation": "one TLC state per recorded snapshot of the real linked dataflow graph",
    })
    for k in ("edges", "calls", "closures", "gwrites", "greads", "starts", "boundlabels"):
        if tot_of(k) == 0:
            raise Inconclusive("vacuous run: nothing of kind %r was checked" % k)
    ctx.assumptions += [
        "node identity = pointer identity of dataflow.GraphNode values read through the public accessors",
        "RelPath / Cond of an EdgeInfo are not compared (the statement asks for the same tuple index)",
        "non-constructed summaries beyond the node budget are dumped as stubs (their own links are not checked)",
    ]
    ctx.finish_args = dict(exhaustive=False, evaluations=len(stats), distinct=len(stats),
                           rule="one case = one snapshot of the linked graph (program x tool x eager/on-demand x stage)")


def local_known_entry(kid=KNOWN_ID):
    """known_findings.json is assembled by the lead from known_findings.d; fall back to the per-property file"""
    p = os.path.join(vlib.VERIF, "known_findings.d", "C17.json")
    if os.path.exists(p):
        for e in json.load(open(p)):
            if e.get("id") == kid:
                return e
    return None
