"""C08 -- function summaries cover every direct def-use chain of the function (DESIGN.md section 4, C08).

Pipeline: functions of (a) the C17 corpus (seeded generated programs + repository testdata) and (b) the standard-library
packages loaded by a program importing ~40 common packages
  -> REAL dataflow.IntraProceduralAnalysis of /repo per function (harness/cmd/dudump): SSA instructions, origins and
     targets anchored to the nodes of the real summary, Out() edges, final marks (public post-block callback)
  -> TLC on spec/IntraDU.tla, one state per function: Required pairs = reachability over SSA operands restricted to the
     value-computing instruction kinds; Covered (every required pair is an edge of the real summary); Closed (marks at an
     instruction are contained in the marks at every CFG successor)
  -> verdicts; counterexamples that fall under the construct of a known finding are attributed (known_findings.d/C08.json),
     every pinned input and its benign twin is run on every invocation.
"""
import json
import os
import random
import re
import shutil

import dugen
import vlib
from vlib import Inconclusive
from checks import c17 as corpus

PINNED = os.path.join(vlib.VERIF, "corpus", "pinned", "C08")
# construct (as attributed by IntraDU.tla) -> known-finding id, pinned directory
CONSTRUCTS = {
    "ret-index": ("ret-index-beyond-return-instr-count", "ret_index"),
    "dup-arg": ("same-value-at-two-arg-positions", "dup_arg"),
    "taok-index": ("commaok-typeassert-drops-call-tuple-index", "taok_index"),
    "nary": ("builtin-not-2-operands", "nary"),
}

STDPROG = '''package main

import (
	_ "archive/tar"
	_ "bufio"
	_ "bytes"
	_ "compress/gzip"
	_ "context"
	_ "encoding/base64"
	_ "encoding/binary"
	_ "encoding/csv"
	_ "encoding/hex"
	_ "encoding/json"
	_ "encoding/xml"
	_ "errors"
	_ "flag"
	_ "fmt"
	_ "go/parser"
	_ "go/scanner"
	_ "hash/crc32"
	_ "html"
	_ "io"
	_ "log"
	_ "math/big"
	_ "math/rand"
	_ "mime"
	_ "net/url"
	_ "os"
	_ "path"
	_ "path/filepath"
	_ "reflect"
	_ "regexp"
	_ "sort"
	_ "strconv"
	_ "strings"
	_ "sync"
	_ "text/scanner"
	_ "text/tabwriter"
	_ "text/template"
	_ "time"
	_ "unicode/utf8"
)

func main() {}
'''

# more def-use shapes than the C17 catalogue has (intra-procedural: every instruction kind of the statement)
EXTRA = '''
type pt struct{ x, y string }
type boxed interface{ Get() string }
type named string

func (n named) Get() string { return string(n) }

func duArith(a, b int) int               { c := a*2 + b; d := -c; return d ^ (c >> 1) }
func duConv(a string) []byte             { b := []byte(a); return b }
func duConv2(a []byte) string            { return string(a) }
func duChangeType(a string) named        { return named(a) }
func duBox(a named) boxed                { return a }
func duIface(a boxed) interface{}        { return a }
func duAssert(a interface{}) string      { return a.(string) }
func duAssertOk(a interface{}) string    { s, ok := a.(string); if ok { return s }; return "" }
func duField(a pt) string                { return a.y }
func mkpt(a string) pt                   { return pt{a, "y"} }
func duField2(a string) string           { return mkpt(a).x }
func duIndex2(a string) string           { return mkarr(a)[1] }
func mkarr(a string) [2]string           { return [2]string{"x", a} }
func duIndex(a [3]string) string         { return a[1] }
func duStrIndex(a string, i int) byte    { return a[i] }
func duSlice(a []string) []string        { return a[1:2] }
func duStrSlice(a string) string         { return a[1:] }
func duPhi(a, b string) string           { r := a; if cond() { r = b }; return r }
func duLoop(a string, n int) string      { r := ""; for i := 0; i < n; i++ { r = r + a }; return r }
func duExtract() string                  { _, y := duTwo(); return y }
func duTwo() (string, string)            { return "a", source() }
func duAppend(a []string, b string) []string { return append(a, b) }
func duLen(a string) int                 { return len(a) }
func duMinMax(a, b int) int              { return min(a, b) + max(a, b) }
func duCallArg(a string)                 { sink(a + "!") }
func duCallChain(a string)               { sink(duPhi(a, "k")) }
func duIf(a string) int                  { if a == "x" { return 1 }; return 2 }
func duClosure(a string) func() string   { f := func() string { return a }; return f }
func duDefer(a string)                   { defer sink(a + "?") }
func duGo(a string)                      { go sink(a) }
func duSwitch(a int) string              { switch a { case 1: return "one"; case 2: return "two" }; return "many" }
func duErr(e error) string               { return e.Error() }
func duComplex(a, b float64) float64     { c := complex(a, b); return real(c) + imag(c) }
func duMulti(a, b string) (string, string, int) { if cond() { return a, b, 1 }; if a == b { return b, a, 2 }; return a + b, b + a, 3 }
'''


def write_std(d):
    os.makedirs(d, exist_ok=True)
    open(os.path.join(d, "go.mod"), "w").write("module stdprog\n\ngo 1.22\n")
    open(os.path.join(d, "main.go"), "w").write(STDPROG)


def local_known(entry_id):
    p = os.path.join(vlib.VERIF, "known_findings.d", "C08.json")
    if os.path.exists(p):
        for e in json.load(open(p)):
            if e.get("id") == entry_id:
                return e
    return None


def run(ctx):
    thorough = ctx.tier == "thorough"
    rnd = random.Random(ctx.seed)
    bins = ctx.build(["dudump"])
    du = bins["dudump"]

    # ---- 1. corpus -----------------------------------------------------------------------------------------------
    progs = []  # (name, dir, only-prefix, sample)
    for d in sorted(os.listdir(PINNED)):
        if os.path.isdir(os.path.join(PINNED, d)):
            pd = os.path.join(ctx.work, "pinned", d)
            shutil.copytree(os.path.join(PINNED, d), pd)
            progs.append(("pinned/" + d, pd, "command-line-arguments", 0))
    names = [s[0] for s in corpus.LIGHT]
    combos = [names[i::4] for i in range(4)]  # every catalogue construct once
    for _ in range(40 if thorough else 8):
        combos.append([rnd.choice(names) for _ in range(rnd.randint(4, 8))])
    for n, cs in enumerate(combos):
        gd = os.path.join(ctx.work, "gen", "g%03d" % n)
        src = corpus.gen_program(rnd, cs)
        if n == 0:
            src += EXTRA
        corpus.write_prog(gd, src)
        progs.append(("gen/g%03d" % n, gd, "command-line-arguments", 0))
    # the def-use chain space enumerated by TLC (spec/DuSpace.tla): origin kind x origin type x operation sequence x
    # target kind, every chain rendered to one small function of ONE program
    duk = 3 if thorough else 2
    r = ctx.tlc_must_pass("DuSpace", data={"duops.ndjson": vlib.ndjson(dugen.ops_table()),
                                           "duparams.ndjson": vlib.ndjson([{"k": duk, "origins": dugen.ORIGINS,
                                                                            "otypes": dugen.OTYPES, "targets": dugen.TARGETS}])},
                          subdir="duspace", timeout=900, deadlock=False)
    if "DUSPACE" not in r.out:
        raise Inconclusive("DuSpace did not reach its postcondition:\n" + r.out[-2000:])
    allchains = dugen.parse_chains(r.out)
    short = [c for c in allchains if len(c[2]) <= (2 if thorough else 1)]
    longer = [c for c in allchains if len(c[2]) > (2 if thorough else 1)]
    rnd.shuffle(longer)
    duchains = short + longer[: (6000 if thorough else 1200)]
    if len(short) < 500:
        raise Inconclusive("DuSpace produced only %d short chains" % len(short))
    cf = {"phi", "phin", "loop", "selfloop"}     # operations with control flow: final marks of ALL these functions (Closed)
    duparts = {"duspace": [c for c in duchains if not (set(c[2]) & cf)], "duloops": [c for c in duchains if set(c[2]) & cf]}
    dumarks = {"gen/duspace": 300, "gen/duloops": len(duparts["duloops"])}
    for part, chs in duparts.items():
        dud = os.path.join(ctx.work, "gen", part)
        os.makedirs(dud)
        open(os.path.join(dud, "main.go"), "w").write(dugen.render_program(chs))
        progs.append(("gen/" + part, dud, "command-line-arguments", 0))
    repo_dirs = []
    for tool, d in corpus.REPO_DIRS:
        p = os.path.join(vlib.REPO, "analysis", tool, "testdata", d)
        if os.path.isdir(p):
            repo_dirs.append((tool, d, p))
    if len(repo_dirs) < 10:
        raise Inconclusive("repository testdata not found under %s" % vlib.REPO)
    only = os.environ.get("VERIF_C08_ONLY", "")  # development knob (mutation runs): "gen" = no repository testdata / std
    if only == "gen":
        repo_dirs = []
    elif not thorough:
        rnd.shuffle(repo_dirs)
        repo_dirs = repo_dirs[:3]
    for tool, d, p in repo_dirs:
        progs.append(("repo/%s/%s" % (tool, d), p, "command-line-arguments", 0))
    if only != "gen":
        sd = os.path.join(ctx.work, "stdprog")
        write_std(sd)
        progs.append(("std", sd, "", 0 if thorough else 2000))

    # ---- 2. the real intra-procedural analysis ---------------------------------------------------------------------------
    outdir = os.path.join(ctx.work, "funcs")
    os.makedirs(outdir)
    tmo = 3600 if thorough else 1500

    def dump(j):
        k, (name, d, pref, sample) = j
        out = os.path.join(outdir, "f%04d.ndjson" % k)
        args = [du, "-dir", d, "-name", name, "-out", out, "-seed", str(ctx.seed), "-maxinstr", "400",
                "-marks", str((1000 if thorough else 250) if name == "std" else dumarks.get(name, 60)), "-marksmaxinstr", "60"]
        if pref:
            args += ["-only", pref]
        if sample:
            args += ["-sample", str(sample)]
        try:
            p = vlib.sh(args, env=vlib.goenv(), check=False, timeout=tmo)
        except Exception as e:
            return (name, out, "timeout", str(e)[-300:])
        tail = "\n".join(l for l in p.stdout.splitlines() if l.startswith("dudump:"))
        return (name, out, "ok" if p.returncode == 0 else "rc%d" % p.returncode, tail or p.stdout[-800:])

    results = vlib.pmap(dump, list(enumerate(progs)), nproc=2)  # dudump itself analyses with 2 goroutines
    ok = [r for r in results if r[2] == "ok" and os.path.exists(r[1])]
    bad = [r for r in results if r not in ok]
    if bad and (len(ok) < 0.8 * len(results) or any(r[0] == "std" or r[0].startswith("pinned/") for r in bad)):
        raise Inconclusive("dudump failed on %d of %d programs, e.g. %s" % (len(bad), len(results), bad[:3]))
    line = re.compile(r"functions_with_body=(\d+) selected=(\d+) too_big=(\d+) dumped=(\d+) failed=(\d+)")
    tot = dict(functions_with_body=0, selected=0, too_big=0, dumped=0, failed=0)
    crashed = []
    for r in ok:
        m = line.search(r[3])
        if m:
            for key, v in zip(tot, m.groups()):
                tot[key] += int(v)
        crashed += [l for l in r[3].splitlines() if "panic" in l][:5]

    # ---- 3. TLC --------------------------------------------------------------------------------------------------------
    recs = []
    for r in ok:
        with open(r[1]) as fh:
            recs += [l for l in fh if l.strip()]
    if len(recs) < 50:
        raise Inconclusive("only %d functions were summarised" % len(recs))
    recs.sort(key=len)
    NB = 16 if thorough else 8
    batches = [recs[i::NB] for i in range(NB)]

    def tlc(bi):
        r = ctx.tlc_must_pass("IntraDU", data={"funcs.ndjson": "".join(batches[bi])}, subdir="du-%02d" % bi,
                              timeout=3000 if thorough else 1500, deadlock=False, xmx="3g")
        fp = os.path.join(r.dir, "du_fail.ndjson")
        if "INTRADU_RESULT" not in r.out or not os.path.exists(fp):
            raise Inconclusive("IntraDU.tla did not reach its postcondition:\n" + r.out[-3000:])
        os.remove(os.path.join(r.dir, "funcs.ndjson"))
        return (vlib.read_ndjson(fp), vlib.read_ndjson(os.path.join(r.dir, "du_stats.ndjson")),
                vlib.read_ndjson(os.path.join(r.dir, "du_kinds.ndjson")))

    tl = vlib.pmap(tlc, range(NB), nproc=4)
    fails = [f for a, _, _ in tl for f in a]
    stats = [s for _, b, _ in tl for s in b]
    kinds = sorted({k["k"] for _, _, c in tl for k in c})
    ctx.traces += len(stats)
    if len(stats) != len(recs):
        raise Inconclusive("TLC evaluated %d functions, %d were dumped" % (len(stats), len(recs)))

    # ---- 4. verdicts -----------------------------------------------------------------------------------------------------
    descs = {}

    def desc_of(prog, fn):
        if prog not in descs:
            descs[prog] = {}
            r = next((x for x in ok if x[0] == prog), None)
            if r and os.path.exists(r[1] + ".desc"):
                for rec in vlib.read_ndjson(r[1] + ".desc"):
                    descs[prog][rec["fn"]] = rec
        return descs[prog].get(fn)

    def explain(f):
        d = desc_of(f["prog"], f["fn"])
        if not d:
            return ""
        clean = corpus.clean_desc
        if f["kind"] == "uncovered":
            s = "origin %s ; target %s" % (clean(d["nodes"][f["onode"] - 1]), clean(d["nodes"][f["tnode"] - 1]))
            if 0 < f["tins"] <= len(d["ins"]):
                s += " ; at " + d["ins"][f["tins"] - 1]
            return s
        return "instruction %s -> successor %s" % (d["ins"][f["a"] - 1], d["ins"][f["b"] - 1])

    pinned_hit = {}
    attributed = {}
    for f in fails:
        c = f.get("construct", "")
        ent = None
        if f["kind"] == "uncovered" and c in CONSTRUCTS:
            kid = CONSTRUCTS[c][0]
            ent = ctx.known_entry(kid) or local_known(kid)
        if ent and ent.get("status") == "known":
            attributed[c] = attributed.get(c, 0) + 1
            if f["prog"] == "pinned/" + CONSTRUCTS[c][1]:
                pinned_hit[c] = True
            continue
        if f["kind"] == "uncovered":
            what = ("summary of %s (%s) does not connect %s -> %s although the value reaches it through a def-use chain of "
                    "value-computing instructions %s: %s%s" % (
                        f["fn"], f["prog"], "%s%s" % (f["ok"], "#%d" % f["oi"] if f["ok"] == "call" else ""),
                        "%s#%d" % (f["tk"], f["ti"]), sorted(f["kinds"]), explain(f),
                        (" [construct %s, not recorded as known]" % c) if c else ""))
            key = "uncovered/%s/%s/%s%d/%s%d/%s" % (f["prog"].split("/")[0], f["fn"], f["ok"], f["oi"], f["tk"], f["ti"],
                                                    explain(f)[:200])
        else:
            what = ("final abstract state of %s (%s) is not closed under control flow: origins attached to %s at an instruction "
                    "are missing at its CFG successor: %s" % (f["fn"], f["prog"], sorted(f["kinds"]), explain(f)))
            key = "notclosed/%s/%s/%d/%d" % (f["prog"].split("/")[0], f["fn"], f["a"], f["b"])
        ctx.violation(what, {"failure.json": f}, key=key)
    for c, (kid, pdir) in CONSTRUCTS.items():
        ent = ctx.known_entry(kid) or local_known(kid)
        if not ent:
            continue
        if ent.get("status") == "known":
            if pinned_hit.get(c):
                ctx.known(kid, "%s: pinned input corpus/pinned/C08/%s still loses the def-use chain (%d counterexamples of this "
                               "construct in this run)" % (kid, pdir, attributed.get(c, 0)))
            elif attributed.get(c):
                ctx.violation("construct %s fails in the corpus (%d) although its pinned input passes" % (c, attributed[c]),
                              {"failures.json": [f for f in fails if f.get("construct") == c][:50]}, key="unpinned/" + c)
    if not any(s["prog"] == "pinned/twins" for s in stats):
        raise Inconclusive("the benign twins were not analysed")

    # ---- 5. evidence --------------------------------------------------------------------------------------------------------
    def tot_of(k):
        return sum(s[k] for s in stats)

    chain_kinds = [k for k in kinds if k in (
        "BinOp", "UnOp", "Convert", "MultiConvert", "ChangeType", "ChangeInterface", "SliceToArrayPointer", "MakeInterface",
        "TypeAssert", "TypeAssertOk", "Field", "Index", "LookupString", "LookupMap", "LookupMapOk", "Slice", "Phi", "Extract", "Builtin:len",
        "Builtin:append", "Builtin:min", "Builtin:max", "Builtin:real", "Builtin:imag", "Builtin:complex", "InvokeError")]
    big = sorted(stats, key=lambda s: -s["required"])[:4]
    for s in big:
        ctx.sample(s)
    ctx.extra.update({
        "programs": len(progs), "functions_with_body": tot["functions_with_body"], "functions_selected": tot["selected"],
        "functions_skipped_over_400_instructions": tot["too_big"], "functions_checked": len(stats),
        "functions_analysis_failed": tot["failed"], "analysis_panics": crashed[:10],
        "programs_failed": [(r[0], r[2]) for r in bad],
        "required_pairs": tot_of("required"), "required_pairs_through_instructions": tot_of("chained"),
        "origins": tot_of("origins"), "targets": tot_of("targets"),
        "functions_with_marks": tot_of("marks"), "mark_points_checked": tot_of("markpoints"),
        "chain_instruction_kinds_seen": chain_kinds,
        "known_constructs_attributed": attributed,
        "explanation": "one TLC state per function summarised by the real analysis",
    })
    ctx.finish_args = dict(exhaustive=thorough, evaluations=len(stats), distinct=len(stats),
                           rule="one case = one function with a body (generated programs, repository testdata, %s standard-library "
                                "functions of a 40-package program)" % ("all" if thorough else "a seeded sample of"))
    if ctx.violations:
        return  # the verdict stands; vacuity of the rest of the run does not matter
    if tot_of("required") == 0 or tot_of("chained") == 0 or tot_of("markpoints") == 0:
        raise Inconclusive("vacuous run: no required pair / no marks were checked")
    missing = [k for k in ("BinOp", "Convert", "ChangeType", "MakeInterface", "TypeAssert", "Field", "Index", "Slice", "Phi",
                           "Extract", "Builtin:append", "Builtin:len") if k not in chain_kinds]
    if missing:
        raise Inconclusive("vacuous run: chain instruction kinds never seen: %s" % missing)
    ctx.assumptions += [
        "x/tools SSA operands are the def-use relation; chains through memory (Load/Store/FieldAddr/IndexAddr/map lookups), "
        "channels and calls are not demanded (calls are origins of their own)",
        "cap() is not a chain instruction (documented design decision of the analysis); copy/close/delete/clear/print/recover "
        "compute no value from their operands",
        "origins / targets are demanded only where the real summary has the corresponding node (calls without resolved "
        "callee, calls the analysis treats as builtins have none) and only for instructions in blocks reachable from the entry",
        "Closed is checked on the marks of the origin kinds named by the statement (parameter, free variable, call result)",
    ]
