"""C18 -- the reachability analysis is conservative (DESIGN.md section 4, C18)."""
import sem


def run(ctx):
    sem.calls_check(ctx, {"reach", "relations"}, "reachability is not conservative")
