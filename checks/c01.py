"""C01 -- taint analysis reports every explicit source-to-sink flow (DESIGN.md section 4, C01)."""
import random

import sem
import semgen


def chains_for(ctx, thorough, needfam="", fams=None):
    fams = fams or semgen.FLOW_FAMS
    plain2 = sem.enum_chains(ctx, 2, ["plain"], maxdeco=0, tag="k2plain", needfam=needfam, fams=fams)
    deco1 = sem.enum_chains(ctx, 1, semgen.DECORATIONS, maxdeco=1, tag="k1deco", needfam=needfam, fams=fams)
    chains = {tuple(c) for c in plain2} | {tuple(c) for c in deco1}
    if thorough:
        deco2 = sem.enum_chains(ctx, 2, semgen.DECORATIONS, maxdeco=1, tag="k2deco", needfam=needfam, fams=fams)
        plain3 = sem.enum_chains(ctx, 3, ["plain"], maxdeco=0, tag="k3plain", needfam=needfam, fams=fams)
        p3 = sorted({tuple(c) for c in plain3} - chains)
        rnd0 = random.Random(ctx.seed + 17)
        rnd0.shuffle(p3)
        chains |= {tuple(c) for c in deco2} | set(p3[:8000])
    exhaustive = len(chains)
    simk = 5
    sim = sem.enum_chains(ctx, simk, semgen.DECORATIONS, maxdeco=2, simulate=(4000 if thorough else 500),
                          depth=simk + 1, tag="sim", needfam=needfam, fams=fams)
    sim = sorted({tuple(c) for c in sim if len(c) >= 3} - chains)
    rnd = random.Random(ctx.seed)
    rnd.shuffle(sim)
    sim = sim[: (1500 if thorough else 120)]
    return sorted(chains), sim, exhaustive


def run(ctx):
    if ctx.replay:
        return sem.replay(ctx, ctx.replay, mode="taint")
    chains, sim, nexh = chains_for(ctx, ctx.tier == "thorough")
    items = [list(c) for c in chains] + [list(c) for c in sim]
    items += [c for c in sem.pinned_chains(ctx.prop) if list(c) not in items]
    sem.taint_flow_check(ctx, items, lambda ch, name: semgen.build_chain(ch, name=name), nexh, len(sim))
