"""C09 -- built-in standard-library summaries over-approximate the real functions (DESIGN.md section 4, C09).

Pipeline: harness/cmd/stdsum dumps every entry of the REAL summary table with the REAL signature of the function the
key resolves to and the edges the REAL loader builds from it, and generates one-call probes (type-directed argument
synthesis) -> the probes are executed natively (token containment = a real flow) and analysed by the REAL taint
analysis (harness/cmd/contractrun) -> TLC(StdSummaries) judges every entry (InRange / Dropped) and every probe record
(native flows are reported; native flows are in the table).
"""
import json
import os
import random
import re
import shutil
import subprocess

import vlib
from vlib import Inconclusive

MODULE = "c09prog"
PINNED_KEYS = os.path.join(vlib.VERIF, "corpus", "pinned", "C09", "keys.json")
KNOWN_FILE = os.path.join(vlib.VERIF, "known_findings.d", "C09.json")
HEAVY = ("net/http", "crypto", "encoding/xml")     # packages whose import makes whole-program analysis expensive

HELPERS = '''package main

import (
	"context"
	"io"
)

// helper values used to synthesise arguments; their bodies are analysed like any user code
type tokRW struct {
	buf []byte
	pos int
}

func newRW(s string) *tokRW { return &tokRW{buf: []byte(s)} }
func (r *tokRW) Read(p []byte) (int, error) {
	if r.pos >= len(r.buf) {
		return 0, io.EOF
	}
	n := copy(p, r.buf[r.pos:])
	r.pos += n
	return n, nil
}
func (r *tokRW) Write(p []byte) (int, error)       { r.buf = append(r.buf, p...); return len(p), nil }
func (r *tokRW) WriteString(s string) (int, error) { r.buf = append(r.buf, s...); return len(s), nil }
func (r *tokRW) WriteByte(c byte) error            { r.buf = append(r.buf, c); return nil }
func (r *tokRW) ReadByte() (byte, error) {
	if r.pos >= len(r.buf) {
		return 0, io.EOF
	}
	r.pos++
	return r.buf[r.pos-1], nil
}
func (r *tokRW) UnreadByte() error {
	if r.pos > 0 {
		r.pos--
	}
	return nil
}
func (r *tokRW) ReadRune() (rune, int, error) {
	b, err := r.ReadByte()
	return rune(b), 1, err
}
func (r *tokRW) UnreadRune() error { return r.UnreadByte() }
func (r *tokRW) Close() error      { return nil }
func (r *tokRW) Seek(off int64, whence int) (int64, error) {
	if whence == 0 && off >= 0 && int(off) <= len(r.buf) {
		r.pos = int(off)
	}
	return int64(r.pos), nil
}
func (r *tokRW) ReadAt(p []byte, off int64) (int, error) {
	if off < 0 || int(off) >= len(r.buf) {
		return 0, io.EOF
	}
	n := copy(p, r.buf[off:])
	if n < len(p) {
		return n, io.EOF
	}
	return n, nil
}
func (r *tokRW) WriteAt(p []byte, off int64) (int, error) { r.buf = append(r.buf, p...); return len(p), nil }

type tokErr struct{ s string }

func (e tokErr) Error() string { return e.s }

type tokStr struct{ s string }

func (e tokStr) String() string { return e.s }

type tokPair struct{ S, T string }

type tokCtx struct {
	context.Context
	s string
}

func toInt(s string) int {
	n := 0
	for i := 0; i < len(s); i++ {
		n = n*10 + int(s[i]-'0')
	}
	return n
}
'''

ROLES_STUB = '''//go:build !native

package main

func source() string { return "130000007" }
func sink(x any)      {}
'''

ROLES_NATIVE = '''//go:build native

package main

import (
	"bytes"
	"encoding/json"
	"fmt"
	"os"
	"reflect"
	"runtime"
	"strings"
	"sync"
	"time"
)

// native roles: source() hands out a fresh all-digit token (invariant under case mapping, quoting and number
// parsing), sink(x) walks x reflectively and records whether the current token occurs in it.
var (
	mu      sync.Mutex
	curTok  string
	curNum  uint64
	counter int
	enc     *json.Encoder
	nodes   int
)

func init() {
	f, err := os.Create(os.Getenv("VERIF_OBS"))
	if err != nil {
		panic(err)
	}
	enc = json.NewEncoder(f)
}

type obs struct {
	Ev   string `json:"ev"`
	File string `json:"file"`
	Line int    `json:"line"`
	Tok  string `json:"tok"`
	Hit  bool   `json:"hit"`
	Msg  string `json:"msg"`
}

func where() (string, int) {
	_, f, l, _ := runtime.Caller(2)
	if k := strings.LastIndex(f, "/"); k >= 0 {
		f = f[k+1:]
	}
	return f, l
}

func source() string {
	mu.Lock()
	defer mu.Unlock()
	counter++
	curTok = fmt.Sprintf("13%06d7", counter)
	curNum = 0
	for i := 0; i < len(curTok); i++ {
		curNum = curNum*10 + uint64(curTok[i]-'0')
	}
	f, l := where()
	enc.Encode(obs{Ev: "source", File: f, Line: l, Tok: curTok})
	return curTok
}

func sink(x any) {
	mu.Lock()
	defer mu.Unlock()
	f, l := where()
	nodes = 0
	hit := false
	func() {
		defer func() { recover() }()
		hit = has(reflect.ValueOf(x), 0, map[uintptr]bool{})
	}()
	enc.Encode(obs{Ev: "sink", File: f, Line: l, Tok: curTok, Hit: hit})
}

func has(v reflect.Value, depth int, seen map[uintptr]bool) bool {
	nodes++
	if !v.IsValid() || depth > 14 || nodes > 400000 {
		return false
	}
	switch v.Kind() {
	case reflect.String:
		return strings.Contains(v.String(), curTok)
	case reflect.Int, reflect.Int64, reflect.Int32:
		return v.Int() > 0 && uint64(v.Int()) == curNum
	case reflect.Uint, reflect.Uint64, reflect.Uint32, reflect.Uintptr:
		return v.Uint() == curNum
	case reflect.Float64, reflect.Float32:
		return v.Float() == float64(curNum)
	case reflect.Slice, reflect.Array:
		if v.Kind() == reflect.Slice && v.IsNil() {
			return false
		}
		n := v.Len()
		switch v.Type().Elem().Kind() {
		case reflect.Uint8:
			w := v
			if v.Kind() == reflect.Slice && v.Cap() > n && v.Cap() < 1<<20 { // data beyond len (buffers)
				w = v.Slice(0, v.Cap())
			}
			b := make([]byte, w.Len())
			for i := range b {
				b[i] = byte(w.Index(i).Uint())
			}
			return bytes.Contains(b, []byte(curTok))
		case reflect.Int32:
			r := make([]rune, n)
			for i := 0; i < n; i++ {
				r[i] = rune(v.Index(i).Int())
			}
			if strings.Contains(string(r), curTok) {
				return true
			}
		}
		if n > 5000 {
			n = 5000
		}
		for i := 0; i < n; i++ {
			if has(v.Index(i), depth+1, seen) {
				return true
			}
		}
		return false
	case reflect.Map:
		if v.IsNil() {
			return false
		}
		it := v.MapRange()
		for it.Next() {
			if has(it.Key(), depth+1, seen) || has(it.Value(), depth+1, seen) {
				return true
			}
		}
		return false
	case reflect.Ptr:
		if v.IsNil() {
			return false
		}
		p := v.Pointer()
		if seen[p] {
			return false
		}
		seen[p] = true
		return has(v.Elem(), depth+1, seen)
	case reflect.Interface:
		if v.IsNil() {
			return false
		}
		return has(v.Elem(), depth+1, seen)
	case reflect.Struct:
		for i := 0; i < v.NumField(); i++ {
			if has(v.Field(i), depth+1, seen) {
				return true
			}
		}
		return false
	}
	return false
}

// guard runs one probe with panic recovery and a time limit
func guard(name string, f func()) {
	done := make(chan string, 1)
	go func() {
		defer func() {
			if e := recover(); e != nil {
				done <- fmt.Sprint("panic: ", e)
				return
			}
			done <- ""
		}()
		f()
	}()
	select {
	case msg := <-done:
		mu.Lock()
		enc.Encode(obs{Ev: "done", File: name, Msg: msg})
		mu.Unlock()
	case <-time.After(3 * time.Second):
		mu.Lock()
		enc.Encode(obs{Ev: "hang", File: name})
		mu.Unlock()
	}
}
'''

CONFIG = """options:
  log-level: 1
  summarize-on-demand: %s
taint-tracking-problems:
  - sources:
      - package: "%s"
        method: "^source$"
    sinks:
      - package: "%s"
        method: "^sink$"
"""


def load_known(ctx):
    ents = list(ctx.kf)
    ids = {e["id"] for e in ents}
    if os.path.exists(KNOWN_FILE):
        for e in json.load(open(KNOWN_FILE)):
            if e["id"] not in ids and e.get("property") == "C09":
                ents.append(e)
    return [e for e in ents if e.get("status") == "known"]


def write_program(d, pdir, files, probes, configs):
    os.makedirs(d, exist_ok=True)
    for name, text in (("go.mod", "module %s\n\ngo 1.22\n" % MODULE), ("helpers.go", HELPERS),
                       ("roles_stub.go", ROLES_STUB), ("roles_native.go", ROLES_NATIVE)):
        open(os.path.join(d, name), "w").write(text)
    for f in files:
        shutil.copy(os.path.join(pdir, f), d)
    write_mains(d, [p for p in probes if p["file"] in files])
    for name, od in configs.items():
        open(os.path.join(d, name + ".yaml"), "w").write(CONFIG % (od, MODULE, MODULE))


def write_mains(d, probes):
    open(os.path.join(d, "main_stub.go"), "w").write(
        "//go:build !native\n\npackage main\n\nfunc main() {\n" + "".join("\t%s()\n" % p["func"] for p in probes) + "}\n")
    open(os.path.join(d, "main_native.go"), "w").write(
        "//go:build native\n\npackage main\n\nfunc main() {\n" +
        "".join('\tguard("%s", %s)\n' % (p["func"], p["func"]) for p in probes) + "}\n")


def native_run(d, probes, files):
    """build with -tags native (dropping probe files that do not compile), execute, return (observations, dropped)"""
    dropped = []
    files = list(files)
    for _ in range(8):
        p = vlib.sh(["go", "build", "-p", "4", "-tags", "native", "-o", "prog_native", "."], cwd=d, env=vlib.goenv(), check=False,
                    timeout=1800)
        if p.returncode == 0:
            break
        bad = sorted(set(re.findall(r"\./(p\d+\.go):\d+", p.stdout)))
        if not bad:
            raise Inconclusive("native build failed:\n" + p.stdout[-3000:])
        for b in bad:
            os.remove(os.path.join(d, b))
            files.remove(b)
            dropped.append(b)
        write_mains(d, [q for q in probes if q["file"] in files])
    else:
        raise Inconclusive("native build keeps failing in %s" % d)
    rundir = os.path.join(d, "run")
    os.makedirs(rundir, exist_ok=True)
    obsf = os.path.join(d, "native_obs.ndjson")
    env = {"PATH": os.environ.get("PATH", ""), "HOME": rundir, "VERIF_OBS": obsf, "TMPDIR": rundir}
    try:
        q = subprocess.run([os.path.join(d, "prog_native")], cwd=rundir, env=env, stdin=subprocess.DEVNULL,
                           stdout=subprocess.DEVNULL, stderr=subprocess.PIPE, timeout=1500)
    except subprocess.TimeoutExpired:
        raise Inconclusive("native execution timed out in %s" % d)
    if q.returncode != 0 and not os.path.exists(obsf):
        raise Inconclusive("native execution failed in %s: %s" % (d, q.stderr[-2000:]))
    obs = []
    for l in open(obsf, errors="replace"):
        try:
            obs.append(json.loads(l))
        except ValueError:
            pass
    crashed = q.returncode != 0
    return obs, dropped, files, crashed


def analyse(binpath, d, configs):
    out = os.path.join(d, "flows.ndjson")
    cfgs = ",".join(os.path.join(d, n + ".yaml") for n in configs)
    p = vlib.sh([binpath, "-share", "-dir", d, "-configs", cfgs, "-out", out], env=dict(vlib.goenv(), GOMAXPROCS="4"),
                check=False, timeout=3000)
    if p.returncode != 0 or not os.path.exists(out):
        raise Inconclusive("contractrun failed in %s:\n%s" % (d, p.stdout[-3000:]))
    res = {}
    for r in vlib.read_ndjson(out):
        name = r["config"].replace(".yaml", "")
        if not r["ok"]:
            raise Inconclusive("taint.Analyze failed on %s (%s): %s" % (d, name, r["err"][:2000]))
        res[name] = {"flows": {(f["sf"], f["sl"], f["kf"], f["kl"]) for f in r["flows"]}, "load_s": r["load_s"],
                     "taint_s": r["taint_s"]}
    if set(res) != set(configs):
        raise Inconclusive("contractrun produced no record for some configuration in %s" % d)
    return res


def tgt(t):
    return {"t": t[0], "x": int(t[1:])}


def tname(t):
    return "%s%d" % (("result " if t[0] == "r" else "argument "), t[1])


def run(ctx):
    thorough = ctx.tier == "thorough"
    rnd = random.Random(ctx.seed)
    if ctx.replay:
        # a replay directory holds probe.go / entry.json of one finding; the probes are regenerated from the table
        # keys, so replaying = re-running the (thorough) check on the current tree
        print("replay of %s: re-running the check on the current tree" % ctx.replay)
        thorough = True
    bins = ctx.build(["stdsum", "contractrun"])
    known = load_known(ctx)

    # ---- 1. the table, the real signatures, the real loader's edges, the probes ----------------------
    W = os.path.join(ctx.work, "std")
    os.makedirs(W)
    cmd = [bins["stdsum"], "-work", W]
    if os.path.exists(PINNED_KEYS):
        cmd += ["-extra", PINNED_KEYS]
    p = vlib.sh(cmd, env=vlib.goenv(), check=False, timeout=2400)
    if p.returncode != 0:
        raise Inconclusive("stdsum failed:\n" + p.stdout[-3000:])
    entries = vlib.read_ndjson(os.path.join(W, "entries.ndjson"))
    probes = vlib.read_ndjson(os.path.join(W, "probes.ndjson"))
    by_n = {e["n"]: e for e in entries}
    if len(entries) < 100 or sum(1 for e in entries if e["resolved"]) < len(entries) // 2:
        raise Inconclusive("stdsum resolved only %d of %d entries" % (sum(1 for e in entries if e["resolved"]), len(entries)))
    pdir = os.path.join(W, "probes")

    # ---- 2. programs: the probe files grouped by the weight of their imports --------------------------
    files = sorted({q["file"] for q in probes}, key=lambda f: int(f[1:-3]))
    heavy = [f for f in files if any(('"%s' % h) in open(os.path.join(pdir, f)).read() for h in HEAVY)]
    core = [f for f in files if f not in heavy]
    rnd.shuffle(core)
    groups = []
    NG = 2
    for g in range(NG):
        groups.append(("core%d" % g, sorted(core[g::NG]), {"eager": "false", "ondemand": "true"}))
    if thorough and heavy:
        groups.append(("heavy", heavy, {"ondemand": "true"}))

    def do_group(g):
        name, fl, configs = g
        d = os.path.join(ctx.work, "prog-" + name)
        write_program(d, pdir, fl, probes, configs)
        obs, dropped, kept, crashed = native_run(d, probes, fl)
        res = analyse(bins["contractrun"], d, configs)
        return name, obs, dropped, kept, crashed, res

    results = vlib.pmap(do_group, groups, nproc=int(os.environ.get("VERIF_POOL", "3")))

    # ---- 3. probe records -----------------------------------------------------------------------------
    recs, nat_stats = [], {"probes": 0, "ran": 0, "panicked": 0, "hung": 0, "not_compiled": 0, "native_targets": 0,
                           "control_seen_natively": 0}
    t_load = t_taint = 0.0
    for name, obs, dropped, kept, crashed, res in results:
        hit = {(o["file"], o["line"]): o["hit"] for o in obs if o.get("ev") == "sink"}
        status = {o["file"]: ("hang" if o["ev"] == "hang" else ("panic" if o.get("msg") else "ok"))
                  for o in obs if o.get("ev") in ("done", "hang")}
        nat_stats["not_compiled"] += len(dropped)
        for cfg in res:
            t_load += res[cfg]["load_s"]
            t_taint += res[cfg]["taint_s"]
        for q in probes:
            if q["file"] not in kept:
                continue
            st = status.get(q["func"], "notrun")
            nat_stats["probes"] += 1
            nat_stats["ran"] += st == "ok"
            nat_stats["panicked"] += st == "panic"
            nat_stats["hung"] += st == "hang"
            nat_stats["control_seen_natively"] += bool(hit.get((q["file"], q["control"])))
            native = sorted(t for t, ln in q["sinks"].items() if hit.get((q["file"], ln)))
            nat_stats["native_targets"] += len(native)
            e = by_n[q["entry"]]
            for cfg in sorted(res):
                fl = res[cfg]["flows"]
                rec = {"key": q["key"], "entry": q["entry"], "i": q["i"], "cfg": cfg, "status": st, "absent": e["absent"],
                       "setupok": (q["file"], q["src"], q["file"], q["control"]) in fl,
                       "native": [tgt(t) for t in native],
                       "reported": [tgt(t) for t, ln in sorted(q["sinks"].items()) if (q["file"], q["src"], q["file"], ln) in fl],
                       "targets": [tgt(t) for t in sorted(q["sinks"])],
                       "realedges": e["realedges"], "file": q["file"], "group": name}
                recs.append(rec)
    if nat_stats["ran"] < nat_stats["probes"] // 3 or nat_stats["native_targets"] < 20:
        raise Inconclusive("native execution produced too few observations: %s" % nat_stats)
    ctx.traces += len(recs) + len(entries)

    # ---- 4. TLC: every entry and every probe record ----------------------------------------------------
    keep = ("n", "key", "resolved", "nparams", "nresults", "args", "rets", "realedges")
    r = ctx.tlc_must_pass("StdSummaries", data={"entries.ndjson": vlib.ndjson([{k: e[k] for k in keep} for e in entries]),
                                                 "pobs.ndjson": vlib.ndjson(recs)}, timeout=1800, deadlock=False)
    m = [l for l in r.out.splitlines() if "STDSUM_RESULT" in l]
    ef, pf = os.path.join(r.dir, "entry_fail.ndjson"), os.path.join(r.dir, "probe_fail.ndjson")
    if not m or not os.path.exists(ef) or not os.path.exists(pf):
        raise Inconclusive("StdSummaries.tla did not reach its postcondition:\n" + r.out[-3000:])
    nums = [int(x) for x in m[-1].replace("<<", "").replace(">>", "").split(",")[1:]]
    n_entries, n_resolved, n_rows, n_efail, n_probes, n_setup, n_hasnative, n_pfail = nums
    efails, pfails = vlib.read_ndjson(ef), vlib.read_ndjson(pf)
    if n_entries != len(entries) or n_probes != len(recs):
        raise Inconclusive("StdSummaries.tla saw %d entries / %d probe records, expected %d / %d" % (
            n_entries, n_probes, len(entries), len(recs)))
    if n_hasnative < 20:
        raise Inconclusive("vacuous: only %d probe records with a native flow" % n_hasnative)

    # ---- 5. verdicts --------------------------------------------------------------------------------------
    def known_for(match):
        for k in known:
            mt = k.get("match", {})
            if "keys" in mt:
                if match.get("kind") == mt.get("kind") and match.get("key") in mt["keys"]:
                    return k
            elif all(mt.get(f) == match.get(f) for f in ("kind", "key", "i", "target")):
                return k
        return None

    def probe_src(key):
        e = next(x for x in entries if x["key"] == key)
        f = os.path.join(pdir, "p%d.go" % e["n"])
        return open(f).read() if os.path.exists(f) else "(no probe)"

    # 5a. real flows that are lost (Part 2)
    lost = {}
    uncovered_only = []
    for f in pfails:
        for t in f["lost"]:
            lost.setdefault((f["key"], f["i"], "%s%d" % (t[0], t[1])), []).append(f)
        for t in f["uncovered"]:
            if t not in f["lost"]:
                uncovered_only.append({"key": f["key"], "i": f["i"], "target": "%s%d" % (t[0], t[1]), "cfg": f["cfg"]})
    known_groups = {}
    for (key, i, t), fl in sorted(lost.items()):
        e = next(x for x in entries if x["key"] == key)
        in_table = all([t[0], int(t[1:])] in f["table"] for f in fl)
        oor = [x for x in efails if x["key"] == key]
        why = ("the table has no entry for this function any more (its package is in the table, so its body is never analysed)"
               if e["absent"] else
               "the entry lists the flow but the positions do not fit the signature (dropped by the loader: %s)" % oor[0]["dropped"]
               if (oor and not in_table) else
               "the table lists the flow, it is lost when the summary is applied" if in_table else
               "the entry does not list it (Args=%s Rets=%s, signature %s -> %s)" % (e["args"], e["rets"], e["ptypes"], e["rtypes"]))
        what = ("std summary loses a real flow: %s: %s -> %s really flows (native execution finds the token) but "
                "taint.Analyze does not report it [%s]; %s" % (
                    key, "argument %d" % i if not (e["recv"] and i == 0) else "receiver", tname((t[0], int(t[1:]))),
                    ",".join(sorted({f["cfg"] for f in fl})), why))
        k = known_for({"kind": "lost-flow", "key": key, "i": i, "target": t})
        if k:
            known_groups.setdefault(k["id"], []).append(what)
        else:
            ctx.violation(what, {"probe.go": probe_src(key), "entry.json": e, "failures.json": fl}, key="lost/%s/%d/%s" % (key, i, t))

    # 5b. entries that do not fit the signature (Part 1)
    for f in sorted(efails, key=lambda x: x["key"]):
        e = by_n[f["n"]]
        what = ("std summary entry does not fit the real signature: %s has %d parameter(s)%s and %d result(s) (%s -> %s) but the "
                "entry is Args=%s Rets=%s; the loader silently dropped %s%s" % (
                    f["key"], f["nparams"], " (receiver = position 0)" if e["recv"] else "", f["nresults"], e["ptypes"], e["rtypes"],
                    e["args"], e["rets"], f["dropped"],
                    "" if f["inrange"] or not f["unlisted"] else "; edges built but not listed: %s" % f["unlisted"]))
        if f["inrange"]:
            what = "loader does not build what an in-range entry lists: " + what
        k = known_for({"kind": "out-of-range", "key": f["key"]})
        if k and not f["inrange"]:
            known_groups.setdefault(k["id"], []).append(what)
        else:
            ctx.violation(what, {"entry.json": e, "failure.json": f}, key="oor/" + f["key"])

    for kid, whats in sorted(known_groups.items()):
        ctx.known(kid, "%s: %s" % (kid, " || ".join(whats))[:1500])

    # ---- 6. evidence -------------------------------------------------------------------------------------
    unresolved = [e["key"] for e in entries if not e["resolved"]]
    ctx.sample({"entry": {k: by_n[q["entry"]][k] for k in ("key", "nparams", "nresults", "args", "rets", "ptypes", "rtypes")},
                "probe": {k: q[k] for k in ("i", "func", "sinks")}} if (q := probes[len(probes) // 3]) else {})
    some = next((x for x in recs if x["native"]), None)
    if some:
        ctx.sample({"probe_record": {k: some[k] for k in ("key", "i", "cfg", "setupok", "native", "reported")}})
    ctx.extra.update({
        "table_entries": len(entries), "resolved_entries": n_resolved, "unresolved_keys": unresolved,
        "entries_with_more_rows_than_parameters": n_rows, "entries_not_fitting_signature": len(efails),
        "entries_with_probes": len({q["entry"] for q in probes}), "probe_files_heavy_imports": len(heavy),
        "probes": nat_stats, "probe_records": len(recs), "records_setup_ok": n_setup, "records_with_native_flow": n_hasnative,
        "records_failing": len(pfails), "lost_flows": len(lost), "in_table_but_unobservable_natively_is_no_claim": True,
        "flows_reported_but_not_in_table": uncovered_only[:20],
        "groups": [g[0] for g in groups], "analysis_cpu_s": {"load": round(t_load, 1), "taint": round(t_taint, 1)},
        "explanation": "states = one TLC state per table entry + one per (probe, configuration) record",
    })
    ctx.assumptions += [
        "a real flow is shown by finding the all-digit token (substring of strings/byte slices, value of integers/floats) in the "
        "target after executing the call natively with the synthesised arguments; flows the inputs do not exhibit are not claimed",
        "a probe whose tainted argument is not seen arriving at the call by the analysis (control sink) says nothing about the summary",
        "functions of os/exec, net, syscall, runtime and a few blocking/fatal functions are never executed (signature conformance only)",
        "entries whose key resolves to no function of the loaded program are listed (unresolved_keys), not judged",
    ]
    ctx.finish_args = dict(exhaustive=True, evaluations=len(entries) + len(recs), distinct=len(entries),
                           rule="signature conformance: every entry of the table (exhaustive); dynamic part: every entry whose "
                                "arguments can be synthesised, one probe per taintable position%s" % (
                                    "" if thorough else " (packages with heavy imports only in the thorough tier)"))
