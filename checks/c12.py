"""C12 -- the call graph contains every call that can happen at run time (DESIGN.md section 4, C12)."""
import sem


def run(ctx):
    sem.calls_check(ctx, {"edge", "exec", "resolve"}, "call graph / callee resolution is not conservative")
