"""C06 -- analysis results are deterministic (DESIGN.md section 4, C06; design.d/C06.md).

Pipeline: programs (TLC ProgSpace chains rendered several per program with shared helpers, the per-kind global
programs of C05, hand-rendered instances of the counterexample shape TLC finds in VisitorOrder.tla, repository taint
testdata, pinned inputs of known findings) -> the REAL taint.Analyze / backtrace.Analyze (harness/cmd/optrun) run
REPEATEDLY: R in-process repetitions (fresh map iteration orders, re-scheduled worker pool) in each of several
processes that differ in the number of CPUs the process may use (taskset: runtime.NumCPU() decides the number of
worker routines) and in GOMAXPROCS -> TLC(Determinism) decides Deterministic / DrawnFrom over the recorded result sets.

Role A (never a verdict): spec/VisitorOrder.tla -- all processing orders of the traversal on every graph within the
bound; with a key that determines the successors the reached set is order independent, with the implemented key
(VisitorNode.Key() without Prev) TLC exhibits an order-dependent graph (recorded as design hazard).
"""
import json
import os
import random
import re

import minigo
import optlib
import sem
import semgen
import vlib
from vlib import Inconclusive

POOL = 4
BATCH = 12

# hand-rendered instances of the VisitorOrder counterexample: a parameter node is reached, with the same call stack,
# once from the call site (its out-edges are followed) and once from a sibling parameter of the same function (only the
# way back to the call site is followed); both elements have the same key
HAZARDS = {
    "hz_param_sibling": '''package main

func source() string { return "tainted" }
func sink(x any)     {}

type box struct{ s string }

func g(s string, s2 *box) {
	sink(s2.s)
	s2.s = s
}

func main() {
	x := source()
	p := &box{}
	p.s = x
	g(x, p)
	sink(p)
}
''',
    "hz_param_sibling2": '''package main

func source() string { return "tainted" }
func sink(x any)     {}

func g(a *string, b *string, c *string) {
	sink(*c)
	*c = *a
	*b = *a
}

func h(a *string, c *string) {
	g(a, a, c)
	g(c, c, a)
}

func main() {
	x := source()
	y := "y"
	h(&x, &y)
	sink(y)
	z := source()
	h(&y, &z)
	sink(z)
}
''',
    "hz_two_results": '''package main

func source() string { return "tainted" }
func source2() string { return "tainted2" }
func sink(x any)     {}
func bt1(x any)      {}

func two() (string, string) { return source(), source2() }

func main() {
	x, y := two()
	sink(x + y)
	bt1(x + y)
	a, b := two()
	sink(b)
	bt1(a)
}
''',
    "hz_depth": '''package main

func source() string { return "tainted" }
func sink(x any)     {}
func cond() bool     { return len(source()) > 3 }

func id(s string) string    { return s }
func two(s string) string   { return id(id(s)) }
func three(s string) string { return id(two(s)) }
func five(s string) string  { return two(three(s)) }

// the same node is reached from the source through a short and through a long path: with a depth bound the result must
// not depend on which of them the traversal follows first
func pick(a, b string) string {
	if cond() {
		return a
	}
	return b
}

func main() {
	x := source()
	sink(pick(x, id(x)))
	sink(pick(id(x), two(x)))
	sink(pick(x, three(x)))
	sink(id(pick(two(x), five(x))))
	sink(two(pick(x, five(x))))
	y := pick(three(x), x)
	sink(id(id(y)))
	sink(three(y))
}
''',
    "hz_closure_shared": '''package main

func source() string { return "tainted" }
func sink(x any)     {}

func apply(f func(string) string, v string) string { return f(v) }

func main() {
	x := source()
	y := "clean"
	id := func(s string) string { return s }
	wrap := func(s string) string { return apply(id, s) }
	a := apply(wrap, x)
	b := apply(wrap, y)
	c := apply(id, x)
	sink(a)
	sink(b)
	sink(c)
}
''',
}

REPO_FIXED = ["closures"]
REPO_SKIP = {"benchmark", "playground", "src", "agent-example", "stdlib", "stdlib_121", "stdlib-no-effect-constraint",
             "escape-integration", "sample-escape", "with-context", "fromlevee"}

# taint configurations: name -> (options, max-alarms, base)
TAINT_CFGS = [
    ("d_eager", {"summarize-on-demand": False}, 0, "d_eager"),
    ("d_ondemand", {"summarize-on-demand": True}, 0, "d_ondemand"),
    ("d_fs", {"field-sensitive": True}, 0, "d_fs"),
    ("d_esc", {"use-escape-analysis": True}, 0, "d_esc"),
    ("d_pf", {"pkg-filter": "PF_MAIN_ONLY"}, 0, "d_pf"),  # summaries of the main package only: the others are built lazily
    ("d_md7", {"unsafe-max-depth": 7}, 0, "d_md7"),     # a depth bound: which paths are cut must not depend on the order
    ("d_ma1", {"summarize-on-demand": False, "max-alarms": 1}, 1, "d_eager"),
    ("d_ma2", {"summarize-on-demand": True, "max-alarms": 2}, 2, "d_ondemand"),
]
BT_CFGS = [("bt0", {"summarize-on-demand": False}), ("bt1", {"summarize-on-demand": True})]


def build_multi(chains, name):
    """several chains in ONE main, each with its own source and sink; helper functions are shared between the chains
    (semgen defines a helper once per program), so the same summaries are entered from several call sites"""
    P = minigo.Prog(name)
    ctx = semgen.Ctx(P)
    f = P.func("main")
    finals = []
    for chain in chains:
        x = ctx.fresh("c")
        f.var(x, "string")
        f.source(x)
        ts = "S"
        for step, deco in chain:
            x = semgen.apply_step(ctx, f, step, deco, x, ts)
            ts = semgen.STEPS[step][1]
        f.sink(x)
        finals.append((x, ts))
    # one more sink call fed by the first carrier again (two sink sites for one datum)
    f.sink(finals[0][0])
    P.meta = {"chains": [[[s, d] for s, d in c] for c in chains]}
    return P


def processes(thorough):
    """(name, command prefix, GOMAXPROCS): the number of CPUs of the process decides numRoutines of the summary pass"""
    ncpu = os.cpu_count() or 4
    ps = [("cpu1", ["taskset", "-c", "0"], "1"),
          ("cpu4", ["taskset", "-c", "0-%d" % min(3, ncpu - 1)], "4"),
          ("cpuall", [], str(ncpu))]
    if thorough:
        ps += [("cpu2", ["taskset", "-c", "0-%d" % min(1, ncpu - 1)], "8"),
               ("cpuall-g2", [], "2")]
    return ps


def local_known(ctx):
    p = os.path.join(vlib.VERIF, "known_findings.d", "C06.json")
    return json.load(open(p)) if os.path.exists(p) else ctx.kf


def role_a(ctx):
    """VisitorOrder.tla: exhaustive over all graphs of the bound, both keys"""
    r1 = ctx.tlc("VisitorOrder", cfg="VisitorOrder_full.cfg", subdir="vo-full", workers=2, timeout=900, deadlock=False)
    if not r1.ok:
        raise Inconclusive("VisitorOrder (key determines successors) did not pass:\n" + r1.out[-2500:])
    r2 = ctx.tlc("VisitorOrder", cfg="VisitorOrder_impl.cfg", subdir="vo-impl", workers=2, timeout=900, deadlock=False)
    hazard = r2.violated and "OrderIndependent" in r2.out
    m = re.search(r"/\\ E = (\{[^\n]*\})", r2.out)
    ctx.extra["role_a_visitor_order"] = {
        "full_key_states": r1.distinct, "full_key_order_independent": True,
        "implemented_key_order_dependent": bool(hazard),
        "implemented_key_counterexample_graph": m.group(1) if (hazard and m) else "",
        "note": "design hazard only (Role A): VisitorNode.Key() omits Prev although the ParamNode case of the taint "
                "visitor branches on cur.Prev; the verdict comes from the repeated real runs"}
    if not hazard and not r2.ok:
        raise Inconclusive("VisitorOrder (implemented key) neither passed nor produced the counterexample:\n" + r2.out[-2500:])


def run(ctx):
    thorough = ctx.tier == "thorough"
    rnd = random.Random(ctx.seed)
    bins = ctx.build(["optrun"])
    kf = local_known(ctx)
    role_a(ctx)
    R = 6 if thorough else 3
    procs = processes(thorough)

    # ---- programs -----------------------------------------------------------------------------------------------
    k1 = sem.enum_chains(ctx, 1, semgen.DECORATIONS, maxdeco=1, tag="k1")
    k2 = sem.enum_chains(ctx, 2, ["plain", "helper", "iife"], maxdeco=1, tag="k2")
    sim = sem.enum_chains(ctx, 4, semgen.DECORATIONS, maxdeco=2, simulate=(1500 if thorough else 300), depth=5, tag="sim")
    pool = sorted({tuple(c) for c in k1} | {tuple(c) for c in k2 if len(c) == 2} | {tuple(c) for c in sim if len(c) >= 3})
    pool = [c for c in pool if semgen.STEPS[c[-1][0]][1] in semgen.SINKABLE]
    rnd.shuffle(pool)
    nmulti = 120 if thorough else 20
    multis = []
    for i in range(nmulti):
        n = 2 + (i % 3)
        cs = [pool[(i * 5 + j * 7) % len(pool)] for j in range(n)]
        multis.append(cs)
    kinds = sorted(optlib.GLOBAL_KINDS)
    rnd.shuffle(kinds)
    kinds = kinds[: (len(kinds) if thorough else 6)]

    root = os.path.join(ctx.work, "c06")
    os.makedirs(root)
    progs, mods = [], {}

    def write_cfgs(d, repo_base=None):
        for name, opts, ma, _ in TAINT_CFGS:
            o = dict(opts)
            if o.get("pkg-filter") == "PF_MAIN_ONLY":
                o["pkg-filter"] = (optlib.PF_REPO if repo_base else optlib.PF_GENERATED)[2]
            o["log-level"] = 1
            o["reports-dir"] = os.path.join(d, "reports", name)
            if repo_base:
                optlib.write_repo_config(os.path.join(d, name + ".yaml"), repo_base, o)
            else:
                optlib.write_gen_config(os.path.join(d, name + ".yaml"), o)
        for name, opts in BT_CFGS:
            o = dict(opts)
            o["log-level"] = 1
            optlib.write_gen_config(os.path.join(d, name + ".yaml"), o)

    def new_mod(i):
        mod = os.path.join(root, "m%03d" % i)
        os.makedirs(os.path.join(mod, "reports"))
        with open(os.path.join(mod, "go.mod"), "w") as fh:
            fh.write("module prog\n\ngo 1.22\n")
        write_cfgs(mod)
        mods[mod] = []
        return mod

    items = [("hazard", h) for h in sorted(HAZARDS)] + [("multi", m) for m in multis] + [("kind", k) for k in kinds]
    for e in kf:
        pth = e.get("pinned_input")
        if pth and os.path.exists(os.path.join(vlib.VERIF, pth)):
            j = json.load(open(os.path.join(vlib.VERIF, pth)))
            if "hazard" in j and ("hazard", j["hazard"]) not in items:
                items.append(("hazard", j["hazard"]))
    nmod = 0
    for i, (cls, it) in enumerate(items):
        if i % BATCH == 0:
            mod = new_mod(nmod)
            nmod += 1
        name = "%s%03d" % (cls[0], i)
        d = os.path.join(mod, name)
        if cls == "hazard":
            os.makedirs(d)
            with open(os.path.join(d, "main.go"), "w") as fh:
                fh.write(HAZARDS[it])
            desc = {"hazard": it}
        elif cls == "kind":
            optlib.write_kind_program(d, name, it)
            desc = {"kind": it}
        else:
            minigo.write_program(d, build_multi(it, name))
            desc = {"chains": [[list(x) for x in c] for c in it]}
        p = {"name": name, "cls": cls, "mod": mod, "pattern": "./" + name, "desc": desc, "dir": d}
        progs.append(p)
        mods[mod].append(p)

    tdir = os.path.join(vlib.REPO, "analysis", "taint", "testdata")
    avail = sorted(d for d in os.listdir(tdir) if d not in REPO_SKIP and os.path.exists(os.path.join(tdir, d, "config.yaml"))
                   and os.path.exists(os.path.join(tdir, d, "main.go")))
    rest = [d for d in avail if d not in REPO_FIXED]
    rnd.shuffle(rest)
    repo_sel = [d for d in REPO_FIXED if d in avail] + rest[: (12 if thorough else 1)]
    for d in repo_sel:
        cdir = os.path.join(root, "repo-" + d)
        os.makedirs(os.path.join(cdir, "reports"))
        write_cfgs(cdir, repo_base=os.path.join(tdir, d, "config.yaml"))
        progs.append({"name": "repo-" + d, "cls": "repo", "mod": os.path.join(tdir, d), "pattern": ".",
                      "desc": {"repo_testdata": d}, "dir": os.path.join(tdir, d), "cfgdir": cdir})

    # ---- the real analyses, repeated ------------------------------------------------------------------------------
    tnames = [c[0] for c in TAINT_CFGS]
    bnames = [c[0] for c in BT_CFGS]
    allrecs = {}     # prog name -> list of (proc, record)
    jobs = []
    for mod in sorted(mods):
        for pr in procs:
            jobs.append(("mod", mod, pr))
    for p in progs:
        if p["cls"] == "repo":
            for pr in procs:
                jobs.append(("repo", p, pr))

    def run_job(job):
        kind, what, (pname, prefix, gmp) = job
        if kind == "mod":
            mod, plist = what, mods[what]
            recs, err, rc = optlib.optrun(bins, mod, [p["pattern"] for p in plist], os.path.join(mod, "res-%s.ndjson" % pname),
                                          taint=[os.path.join(mod, n + ".yaml") for n in tnames],
                                          backtrace=[os.path.join(mod, n + ".yaml") for n in bnames],
                                          repeat=R, env_extra={"GOMAXPROCS": gmp}, prefix=prefix, timeout=2400)
            if rc != 0:
                raise Inconclusive("optrun failed on %s/%s (rc %s): %s" % (mod, pname, rc, err[-1500:]))
            return [(p["name"], pname, [x for x in recs if x["prog"] == p["pattern"]]) for p in plist]
        p = what
        recs, err, rc = optlib.optrun(bins, p["mod"], ["."], os.path.join(p["cfgdir"], "res-%s.ndjson" % pname),
                                      taint=[os.path.join(p["cfgdir"], n + ".yaml") for n in tnames
                                             if thorough or n in ("d_eager", "d_ondemand", "d_esc", "d_ma1")],
                                      repeat=R, env_extra={"GOMAXPROCS": gmp}, prefix=prefix, timeout=2400)
        if rc != 0:
            raise Inconclusive("optrun failed on %s/%s (rc %s): %s" % (p["mod"], pname, rc, err[-1500:]))
        return [(p["name"], pname, recs)]

    for res in vlib.pmap(run_job, jobs, nproc=POOL):
        for name, pname, recs in res:
            allrecs.setdefault(name, []).append((pname, recs))

    # ---- records for TLC ------------------------------------------------------------------------------------------
    tlc_recs, dropped, crashed = [], [], 0
    cfgidx = {n: i + 1 for i, n in enumerate(tnames + bnames)}
    ncpus = set()
    for p in progs:
        per = allrecs.get(p["name"], [])
        loaderr = [x["err"] for _, recs in per for x in recs if x["kind"] == "load" and x["err"]]
        if loaderr or not per:
            dropped.append((p, (loaderr[0] if loaderr else "no records")[:300]))
            continue
        cfgs = []
        for n in tnames + bnames:
            ma = next((c[2] for c in TAINT_CFGS if c[0] == n), 0)
            base = next((c[3] for c in TAINT_CFGS if c[0] == n), n)
            runs = []
            for pname, recs in per:
                load = [x for x in recs if x["kind"] == "load"][0]
                ncpus.add(load["numcpu"])
                for x in recs:
                    if x["kind"] in ("taint", "backtrace") and x["cfg"] == n:
                        if x["panic"]:
                            crashed += 1
                        runs.append({"proc": pname, "rep": x["rep"], "ncpu": load["numcpu"], "gmp": load["gomaxprocs"],
                                     "ok": 0 if x["panic"] else 1, "flows": x["flows"], "escapes": x["escapes"],
                                     "traces": x["traces"]})
            if runs:
                cfgs.append({"cfg": n, "kind": "backtrace" if n in bnames else "taint", "ma": ma, "base": base, "runs": runs})
        names = [c["cfg"] for c in cfgs]
        for c in cfgs:
            c["base"] = names.index(c["base"]) + 1 if c["base"] in names else names.index(c["cfg"]) + 1
        p["cfgs"] = cfgs
        tlc_recs.append({"prog": p["name"], "cfgs": cfgs})
    gen_dropped = [d for d in dropped if d[0]["cls"] != "repo"]
    if gen_dropped:
        raise Inconclusive("generated program did not load: %s: %s" % (gen_dropped[0][0]["desc"], gen_dropped[0][1]))
    if len(tlc_recs) < 10:
        raise Inconclusive("only %d programs produced results" % len(tlc_recs))
    if len(ncpus) < 2:
        raise Inconclusive("the processes did not differ in their number of CPUs (taskset ineffective?): %s" % sorted(ncpus))
    nruns = sum(len(c["runs"]) for r_ in tlc_recs for c in r_["cfgs"])
    ctx.traces += nruns

    # ---- TLC decides ------------------------------------------------------------------------------------------------
    r = ctx.tlc_must_pass("Determinism", data={"runs.ndjson": vlib.ndjson(tlc_recs)}, subdir="determinism", timeout=2400,
                          deadlock=False, xmx="6g")
    fp = os.path.join(r.dir, "determinism_fail.ndjson")
    m = re.search(r'<<"DETERMINISM_RESULT", (\d+), (\d+), (\d+), (\d+), (\d+), (\d+)>>', r.out)
    if not m or not os.path.exists(fp):
        raise Inconclusive("Determinism.tla did not reach its postcondition:\n" + r.out[-3000:])
    np_, n2, nne, nw, ntr, nf = map(int, m.groups())
    if n2 < np_ or nne < np_ // 2 or nw < np_ or ntr == 0:
        raise Inconclusive("vacuous run: %d programs, %d (program, cfg) with two runs, %d with a non-empty result, %d with "
                           "two worker counts, %d truncating limited cfgs" % (np_, n2, nne, nw, ntr))
    fails = vlib.read_ndjson(fp)

    # ---- verdicts ---------------------------------------------------------------------------------------------------
    pby = {p["name"]: p for p in progs}
    byprog = {}
    for f in fails:
        byprog.setdefault((f["prog"], f["what"], f["cfg"]), []).append(f)

    def files_of(p, fl):
        fs = {"input.json": json.dumps(p["desc"], indent=1), "failures.json": json.dumps(fl, indent=1)}
        if p["cls"] != "repo":
            for rootd, _, fns in os.walk(p["dir"]):
                for fn in fns:
                    if fn.endswith(".go") and fn != "roles_native.go":
                        fs[os.path.relpath(os.path.join(rootd, fn), p["dir"])] = open(os.path.join(rootd, fn)).read()
            cp = os.path.join(p["mod"], fl[0]["cfg"] + ".yaml")
            if os.path.exists(cp):
                fs["config.yaml"] = open(cp).read()
        c = [c for c in p["cfgs"] if c["cfg"] == fl[0]["cfg"]]
        fs["runs.json"] = json.dumps(c, indent=1)
        return fs

    def known_for(p, what, fl):
        for e in kf:
            if e.get("status") != "known":
                continue
            mt = e.get("match", {})
            if mt.get("what") and what not in mt["what"]:
                continue
            if mt.get("cfg_kinds") and not all(("backtrace" if f["cfg"].startswith("bt") else "taint") in mt["cfg_kinds"] for f in fl):
                continue
            if "hazard" in mt and p["desc"].get("hazard") != mt["hazard"]:
                continue
            if "same_side" in mt:
                # only WHICH origin / escape site is reported varies: the projection on the other component (the entry
                # points that have a trace / the sources that have an escape) is the same in every run
                k = 1 if mt["same_side"] == "right" else 0
                field = "traces" if what == "traces" else "escapes"
                c = [c for c in p["cfgs"] if c["cfg"] == fl[0]["cfg"]][0]
                projs = {frozenset(x.split(">")[k] for x in r_[field]) for r_ in c["runs"] if r_["ok"]}
                if len(projs) != 1:
                    continue
            return e
        return None

    seen_known = {}
    nviol = 0
    for (pn, what, cfgn), fl in sorted(byprog.items()):
        p = pby[pn]
        e = known_for(p, what, fl)
        if e:
            seen_known.setdefault(e["id"], []).append((p, what, fl))
            continue
        nviol += 1
        if nviol > 25:
            continue
        f0 = fl[0]
        nr = len([c for c in p["cfgs"] if c["cfg"] == f0["cfg"]][0]["runs"])
        if what == "drawn-from":
            msg = ("with max-alarms the run (process %s, repetition %d) reports pairs that no untruncated run of the same "
                   "configuration reports: %s" % (f0["proc"], f0["rep"], f0["onlyrun"][:4]))
        else:
            msg = ("%d of %d runs of the same program and configuration (%s) report a different set of %s than the first "
                   "run; e.g. process %s (NumCPU %d, GOMAXPROCS %d) repetition %d lacks %s and adds %s" % (
                       len(fl), nr, f0["cfg"], what, f0["proc"], f0["ncpu"], f0["gmp"], f0["rep"], f0["onlyref"][:4],
                       f0["onlyrun"][:4]))
        ctx.violation("C06 on program %s: %s" % (json.dumps(p["desc"])[:300], msg), files_of(p, fl),
                      key="C06/%s/%s/%s" % (what, f0["cfg"], json.dumps(p["desc"], sort_keys=True)))
    for e in kf:
        if e.get("status") == "known" and e["id"] in seen_known:
            h = seen_known[e["id"]][0]
            ctx.known(e["id"], "%s (program %s, cfg %s: %d differing runs)" % (
                e["what"], json.dumps(h[0]["desc"])[:120], h[2][0]["cfg"], len(h[2])))
        if e.get("status") == "fixed" and e.get("match", {}).get("hazard"):
            for (pn, what, cfgn), fl in byprog.items():
                if pby[pn]["desc"].get("hazard") == e["match"]["hazard"]:
                    ctx.violation("pinned input of the FIXED finding %s fails again (%s)" % (e["id"], what),
                                  files_of(pby[pn], fl), key="C06/fixed/" + e["id"])
    for p, why in dropped[:5]:
        print("NOTE repository program %s not analysed: %s" % (p["desc"], why))

    mid = [p for p in progs if p["cls"] == "multi" and p.get("cfgs")][0]
    c0 = mid["cfgs"][0]
    ctx.sample({"program": mid["desc"], "cfg": c0["cfg"], "runs": len(c0["runs"]),
                "first_run": {k: c0["runs"][0][k] for k in ("proc", "rep", "ncpu", "gmp", "flows")}})
    hz = [p for p in progs if p["cls"] == "hazard" and p.get("cfgs")][0]
    ctx.sample({"program": hz["desc"], "main.go": HAZARDS[hz["desc"]["hazard"]],
                "results_per_cfg": {c["cfg"]: sorted({json.dumps([r_["flows"], r_["traces"]]) for r_ in c["runs"]}) for c in hz["cfgs"]}})
    ctx.extra.update({
        "programs": len(tlc_recs), "multi_chain_programs": len(multis), "kind_programs": len(kinds),
        "hazard_programs": sorted(HAZARDS), "repo_programs": [p["desc"]["repo_testdata"] for p in progs if p["cls"] == "repo" and p.get("cfgs")],
        "processes": [{"name": n, "prefix": " ".join(pre), "GOMAXPROCS": g} for n, pre, g in procs],
        "numcpu_values": sorted(ncpus), "repetitions_per_process": R, "runs_total": nruns,
        "program_cfgs_with_two_runs": n2, "with_nonempty_result": nne, "with_two_worker_counts": nw,
        "truncating_limited_cfgs": ntr, "failing_program_relations": len(byprog),
        "known_clusters": {k: len(v) for k, v in seen_known.items()}, "runs_crashed": crashed, "programs_dropped": len(dropped),
    })
    ctx.assumptions += [
        "schedules and map iteration orders are explored by repetition (Go re-randomises map iteration on every range and "
        "the worker pool is re-scheduled on every run; worker count 2 / 4 / NumCPU through taskset, GOMAXPROCS 1 / 4 / all): "
        "the exploration of orders on the real code is statistical; exhaustive only in the Role-A model",
        "a run that panics is left out (C07's subject) and counted in runs_crashed",
        "results are compared as sets of (source position > sink position), (source > escape position) and "
        "(trace origin position > entry point) -- the canonical form of harness/cmd/optrun",
    ]
    ctx.finish_args = dict(exhaustive=False, evaluations=nruns, distinct=len(tlc_recs) * len(tnames + bnames),
                           rule="one case = one (program, configuration) analysed %d times (%d processes x %d repetitions); "
                                "distinct = distinct (program, configuration) pairs" % (len(procs) * R, len(procs), R))
