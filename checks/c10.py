"""C10 -- user dataflow specifications are applied exactly as written (DESIGN.md section 4, C10).

Pipeline: TLC(ContractSpace) enumerates contract cases (shape, Args/Rets matrices, contract form, call form, body
kind, precedence cases) -> rendered to Go programs + dataflow-specs JSON + config yaml (many independent cases per
program) -> the REAL taint.Analyze (harness/cmd/contractrun; eager and summarize-on-demand) -> observed
(tainted position, target) pairs per case -> TLC(Contracts) decides Expected = Observed per case (both directions).
"""
import json
import os
import random

import vlib
from vlib import Inconclusive

MODULE = "c10prog"
POOL = int(os.environ.get("VERIF_POOL", "4"))     # worker processes of this check (the machine is shared)


# ------------------------------------------------------------------------------------------------ rendering
def _sum(terms):
    return " + ".join(terms) if terms else '"c"'


def render(cases):
    """cases: list of dicts (see spec/ContractSpace.tla).  Returns (main.go, specs.json text, probes) where
    probes is a list of {case, i, srcline, sinks: {target: line}}; target = "r<j>" or "a<k>"."""
    L = ["package main", "", "type box struct{ s string }", "", 'func source() string { return "tainted" }',
         "func sink(x any)      {}", ""]
    probes = []
    contracts = []
    calls = []

    def emit(s):
        L.append(s)
        return len(L)

    for c in cases:
        K, n, m = c["id"], c["n"], c["m"]
        form, call, body = c["form"], c["call"], c["body"]
        args, rets = c["args"], c["rets"]
        kinds = c.get("kinds") or ["p"] * n
        meth = form in ("M", "I", "P")
        ptr = [k for k in range(n) if kinds[k] == "p"]
        # the relation the BODY implements (chosen to differ from the contract)
        if body == "none":
            bargs = [[] for _ in range(n)]
            brets = [[] for _ in range(n)]
        elif body == "all":
            bargs = [[k for k in ptr if k != i] for i in range(n)]
            brets = [list(range(m)) for _ in range(n)]
        elif body == "compl":
            bargs = [[k for k in ptr if k != i and k not in args[i]] for i in range(n)]
            brets = [[j for j in range(m) if j not in rets[i]] for i in range(n)]
        else:
            raise Inconclusive("unknown body kind %r" % body)
        rtypes = {0: "", 1: " string", 2: " (string, string)"}[m]

        def body_lines(ba, br, salt):
            out = []
            for i in range(n):
                out.append("\tv%d := a%d%s" % (i, i, ".s" if kinds[i] == "p" else ""))
            for k in range(n):
                src = ["v%d" % i for i in range(n) if k in ba[i]]
                if src:
                    out.append("\ta%d.s = %s" % (k, _sum(src)))
            for i in range(n):
                out.append("\t_ = v%d" % i)
            if m > 0:
                out.append("\treturn " + ", ".join(_sum(["v%d" % i for i in range(n) if j in br[i]] or ['"%s"' % salt])
                                                    for j in range(m)))
            return out

        if not meth:
            params = ", ".join("a%d %s" % (i, "*box" if kinds[i] == "p" else "string") for i in range(n))
            emit("func f%d(%s)%s {" % (K, params, rtypes))
            for l in body_lines(bargs, brets, "c"):
                emit(l)
            emit("}")
            emit("var g%d = f%d" % (K, K))
            contracts.append({"ObjectPath": MODULE, "Methods": {"f%d" % K: {"Args": args, "Rets": rets}}})
        else:
            params = ", ".join("a%d %s" % (i, "*box" if kinds[i] == "p" else "string") for i in range(1, n))
            emit("type T%d struct{ s string }" % K)
            emit("type U%d struct{ s string }" % K)
            emit("type I%d interface{ m%d(%s)%s }" % (K, K, params, rtypes))
            emit("func (a0 *T%d) m%d(%s)%s {" % (K, K, params, rtypes))
            for l in body_lines(bargs, brets, "c"):
                emit(l)
            emit("}")
            # a second implementation whose body is the opposite extreme
            emit("func (a0 *U%d) m%d(%s)%s {" % (K, K, params, rtypes))
            if body == "all":
                ub = ([[] for _ in range(n)], [[] for _ in range(n)])
            else:
                ub = ([[k for k in ptr if k != i] for i in range(n)], [list(range(m)) for _ in range(n)])
            for l in body_lines(ub[0], ub[1], "u"):
                emit(l)
            emit("}")
            emit("var _ I%d = &U%d{}" % (K, K))
            emit("var h%d = (*T%d).m%d" % (K, K, K))
            emit("var hi%d = I%d.m%d" % (K, K, K))
            if form == "M":
                contracts.append({"ObjectPath": "(*%s.T%d)" % (MODULE, K),
                                  "Methods": {"m%d" % K: {"Args": args, "Rets": rets}}})
            elif form == "I":
                contracts.append({"InterfaceId": "%s.I%d" % (MODULE, K),
                                  "Methods": {"m%d" % K: {"Args": args, "Rets": rets}}})
            else:  # P: interface contract (args/rets) and function contract (fargs/frets) on the implementation
                contracts.append({"InterfaceId": "%s.I%d" % (MODULE, K),
                                  "Methods": {"m%d" % K: {"Args": args, "Rets": rets}}})
                contracts.append({"ObjectPath": "(*%s.T%d)" % (MODULE, K),
                                  "Methods": {"m%d" % K: {"Args": c["fargs"], "Rets": c["frets"]}}})
        # probes: one per tainted position
        for i in range(n):
            emit("func p%d_%d() {" % (K, i))
            srcline = None
            for k in range(n):
                if kinds[k] == "p":
                    emit("\ta%d := &%s{}" % (k, ("T%d" % K) if (meth and k == 0) else "box"))
                elif k == i:
                    srcline = emit("\ta%d := source()" % k)
                else:
                    emit('\ta%d := "x%d"' % (k, k))
            if kinds[i] == "p":
                srcline = emit("\ta%d.s = source()" % i)
            alist = ", ".join("a%d" % k for k in range(n))
            rest = ", ".join("a%d" % k for k in range(1, n))
            if call == "direct":
                ce = "f%d(%s)" % (K, alist)
            elif call == "fvalue" and not meth:
                ce = "g%d(%s)" % (K, alist)
            elif call == "method":
                ce = "a0.m%d(%s)" % (K, rest)
            elif call == "invoke":
                emit("\tvar iv I%d = a0" % K)
                ce = "iv.m%d(%s)" % (K, rest)
            elif call == "fvalue":      # method expression of the concrete type stored in a variable
                ce = "h%d(%s)" % (K, alist)
            elif call == "ifvalue":     # method expression of the interface stored in a variable
                ce = "hi%d(%s)" % (K, alist)
            else:
                raise Inconclusive("unknown call form %r" % call)
            if m == 0:
                emit("\t" + ce)
            else:
                emit("\t%s := %s" % (", ".join("r%d" % j for j in range(m)), ce))
            sinks = {}
            for j in range(m):
                sinks["r%d" % j] = emit("\tsink(r%d)" % j)
            for k in ptr:
                if k != i:
                    sinks["a%d" % k] = emit("\tsink(a%d.s)" % k)
            emit("}")
            calls.append("p%d_%d()" % (K, i))
            probes.append({"case": K, "i": i, "srcline": srcline, "sinks": sinks})
    emit("")
    emit("func main() {")
    for cl in calls:
        emit("\t" + cl)
    emit("}")
    return "\n".join(L) + "\n", json.dumps(contracts), probes


CONFIG = """options:
  log-level: 1
  summarize-on-demand: %s
taint-tracking-problems:
  - sources:
      - package: "%s"
        method: "^source$"
    sinks:
      - package: "%s"
        method: "^sink$"
dataflow-specs:
  - "specs.json"
"""

CONFIGS = {"eager": "false", "ondemand": "true"}


def write_prog(d, cases):
    os.makedirs(d, exist_ok=True)
    src, specs, probes = render(cases)
    with open(os.path.join(d, "go.mod"), "w") as fh:
        fh.write("module %s\n\ngo 1.22\n" % MODULE)
    with open(os.path.join(d, "main.go"), "w") as fh:
        fh.write(src)
    with open(os.path.join(d, "specs.json"), "w") as fh:
        fh.write(specs)
    for name, od in CONFIGS.items():
        with open(os.path.join(d, name + ".yaml"), "w") as fh:
            fh.write(CONFIG % (od, MODULE, MODULE))
    return probes


def observe(binpath, d, cases, timeout):
    """run the real analysis on the program rendered from cases in d.
    Returns {config: {"obs": {case id: set of (i, target)}, "stray": [...], "load_s":, "taint_s":}}"""
    probes = write_prog(d, cases)
    out = os.path.join(d, "flows.ndjson")
    cfgs = ",".join(os.path.join(d, n + ".yaml") for n in CONFIGS)
    # -share: one load, both configurations; -noexport: no compilation of export data (type-checked from source anyway)
    p = vlib.sh([binpath, "-share", "-noexport", "-dir", d, "-configs", cfgs, "-out", out],
                env=dict(vlib.goenv(), GOMAXPROCS="2"), check=False, timeout=timeout)
    if p.returncode != 0 or not os.path.exists(out):
        raise Inconclusive("contractrun failed in %s:\n%s" % (d, p.stdout[-3000:]))
    res = {}
    by_src = {pr["srcline"]: pr for pr in probes}
    for r in vlib.read_ndjson(out):
        name = r["config"].replace(".yaml", "")
        if not r["ok"]:
            raise Inconclusive("taint.Analyze failed on %s (%s): %s" % (d, name, r["err"][:2000]))
        obs = {c["id"]: set() for c in cases}
        stray = []
        for f in r["flows"]:
            pr = by_src.get(f["sl"])
            tgt = None
            if pr is not None:
                for t, ln in pr["sinks"].items():
                    if ln == f["kl"]:
                        tgt = t
            if tgt is None:
                stray.append(f)      # a source reaching a sink of another probe
                continue
            obs[pr["case"]].add((pr["i"], tgt))
        res[name] = {"obs": obs, "stray": stray, "load_s": r["load_s"], "taint_s": r["taint_s"]}
    if set(res) != set(CONFIGS):
        raise Inconclusive("contractrun produced no record for some configuration in %s" % d)
    return res


def obs_record(c, cfg, obs):
    """the record Contracts.tla reads: the case as generated + the observation in matrix form"""
    r = {k: c[k] for k in ("id", "n", "m", "form", "call", "body", "kinds", "args", "rets", "fargs", "frets")}
    r["cfg"] = cfg
    r["obsrets"] = [sorted(int(t[1:]) for (i, t) in obs if i == pos and t[0] == "r") for pos in range(c["n"])]
    r["obsargs"] = [sorted(int(t[1:]) for (i, t) in obs if i == pos and t[0] == "a") for pos in range(c["n"])]
    return r


# ------------------------------------------------------------------------------------------------ case space
ASSERTED = ["Fdirect", "Ffvalue", "Mmethod", "Minvoke", "Mfvalue", "Mifvalue", "Iinvoke", "Iifvalue"]
PREC = ["Pinvoke", "Pifvalue", "Pmethod", "Pfvalue"]
OBSERVED_ONLY = ["Imethod", "Ifvalue"]
ALLB = ["none", "all", "compl"]


def space_cfg(shapes, combos, bodies, diags, freekinds=False, pbodies=("none", "all")):
    def sset(xs):
        return "{" + ", ".join('"%s"' % x for x in xs) + "}"
    return ("SPECIFICATION Spec\nCONSTANTS\n  Shapes = {%s}\n  Combos = %s\n  Bodies = %s\n  PBodies = %s\n"
            "  Diags = %s\n  FreeKinds = %s\nCONSTRAINT Collect\nPOSTCONDITION Post\nCHECK_DEADLOCK FALSE\n" % (
                ", ".join(str(x) for x in shapes), sset(combos), sset(bodies), sset(pbodies), sset(diags),
                "TRUE" if freekinds else "FALSE"))


SMALL = [11, 20, 21, 22, 31]


def spaces(tier):
    """(name, cfg text, simulate-num or None) of the ContractSpace runs of a tier"""
    if tier == "thorough":
        return [
            ("small-free", space_cfg(SMALL, ASSERTED, ["compl"], ["free"]), None),
            ("small-id-none", space_cfg(SMALL, ASSERTED, ["none", "all"], ["id"]), None),
            ("s32-free", space_cfg([32], ["Fdirect", "Iinvoke"], ["compl"], ["free"]), None),
            ("s32-id", space_cfg([32], ASSERTED, ["compl"], ["id"]), None),
            ("prec", space_cfg(SMALL + [32], PREC, ALLB, ["id"]), None),
            ("obsonly", space_cfg([21, 22], OBSERVED_ONLY, ["compl"], ["id"]), None),
            ("sample", space_cfg(SMALL + [32], ASSERTED + PREC, ALLB, ["free"], freekinds=True), 12000),
        ]
    tiny = [11, 20, 21, 22]
    return [
        ("small-id", space_cfg(SMALL, ASSERTED, ["compl"], ["id"]), None),
        ("bodies", space_cfg(tiny, ASSERTED, ["none", "all"], ["id"]), None),
        ("tiny-empty", space_cfg(tiny, ASSERTED, ["compl"], ["empty"]), None),
        ("s31-empty", space_cfg([31], ["Fdirect", "Iinvoke"], ["compl"], ["empty"]), None),
        ("prec-tiny", space_cfg(tiny, PREC, ALLB, ["id"]), None),
        ("prec-s31", space_cfg([31], PREC, ALLB, ["id"], pbodies=["all"]), None),
        ("obsonly", space_cfg([21, 22], OBSERVED_ONLY, ["compl"], ["id"]), None),
        ("sample", space_cfg(SMALL + [32], ASSERTED + PREC, ALLB, ["free"], freekinds=True), 1500),
    ]


def generate(ctx):
    cases, seen, stats = [], set(), {}

    def one(sp):
        name, cfgtxt, sim = sp
        kw = dict(cfg="CS-%s.cfg" % name, data={"CS-%s.cfg" % name: cfgtxt}, subdir="space-" + name, timeout=1500,
                  deadlock=False, xmx="6g")
        if sim:
            kw.update(simulate="num=%d" % sim, depth=24, seed=ctx.seed)
        r = ctx.tlc_must_pass("ContractSpace", **kw)
        f = os.path.join(r.dir, "cases.ndjson")
        if "CONTRACTSPACE" not in r.out or not os.path.exists(f):
            raise Inconclusive("ContractSpace (%s) did not reach its postcondition:\n%s" % (name, r.out[-2000:]))
        return name, vlib.read_ndjson(f), r

    sps = spaces(ctx.tier)
    only = os.environ.get("VERIF_C10_SPACES")      # development aid: restrict to some sub-spaces
    if only:
        sps = [sp for sp in sps if sp[0] in only.split(",")]
    for name, recs, r in vlib.pmap(one, sps, nproc=POOL):
        new = 0
        for c in sorted(recs, key=lambda x: json.dumps(x, sort_keys=True)):
            key = json.dumps(c, sort_keys=True)
            if key in seen:
                continue
            seen.add(key)
            c["space"] = name
            cases.append(c)
            new += 1
        stats[name] = {"cases": len(recs), "new": new, "tlc_states": r.distinct}
    for k, c in enumerate(cases):
        c["id"] = k
    return cases, stats


# ------------------------------------------------------------------------------------------------ the check
def flows_txt(fl):
    return ", ".join("arg%d->%s%d" % (f[0], "result" if f[1] == "r" else "arg", f[2]) for f in sorted(fl)) or "(none)"


def standalone(ctx, bins, c, tag):
    """re-run one case alone (minimal reproducer); returns (dir, {cfg: obs set})"""
    d = os.path.join(ctx.work, "single-%s" % tag)
    c1 = dict(c)
    res = observe(bins["contractrun"], d, [c1], 600)
    return d, {cfg: res[cfg]["obs"][c1["id"]] for cfg in res}


def run(ctx):
    thorough = ctx.tier == "thorough"
    rnd = random.Random(ctx.seed)
    bins = ctx.build(["contractrun"])

    if ctx.replay:
        return replay(ctx, bins)

    # ---- 1. case space from TLC -------------------------------------------------------------------
    cases, gstats = generate(ctx)
    if len(cases) < (1000 if not os.environ.get("VERIF_C10_SPACES") else 10):
        raise Inconclusive("ContractSpace produced only %d cases" % len(cases))
    by_id = {c["id"]: c for c in cases}

    # ---- 2. render + real analysis: many independent cases per program ----------------------------
    order = list(cases)
    rnd.shuffle(order)        # programs mix shapes / forms; the composition of a program depends on the seed
    PER = 110
    chunks = [order[i:i + PER] for i in range(0, len(order), PER)]

    def analyse(ci):
        return observe(bins["contractrun"], os.path.join(ctx.work, "prog%05d" % ci), chunks[ci], 1800)

    results = vlib.pmap(analyse, range(len(chunks)), nproc=POOL)
    recs, nstray, t_load, t_taint = [], 0, 0.0, 0.0
    where = {}
    for ci, res in enumerate(results):
        for cfg in sorted(res):
            nstray += len(res[cfg]["stray"])
            t_load += res[cfg]["load_s"]
            t_taint += res[cfg]["taint_s"]
            for c in chunks[ci]:
                recs.append(obs_record(c, cfg, res[cfg]["obs"][c["id"]]))
                where[c["id"]] = ci
    ctx.traces += len(recs)

    # ---- 3. TLC: Expected = Observed for every record ----------------------------------------------
    NB = 8
    batches = [recs[i::NB] for i in range(NB)]

    def tlc_batch(bi):
        r = ctx.tlc_must_pass("Contracts", data={"obs.ndjson": vlib.ndjson(batches[bi])}, subdir="contracts-b%d" % bi,
                              timeout=1800, deadlock=False)
        fp = os.path.join(r.dir, "contracts_fail.ndjson")
        m = [l for l in r.out.splitlines() if "CONTRACTS_RESULT" in l]
        if not m or not os.path.exists(fp):
            raise Inconclusive("Contracts.tla did not reach its postcondition:\n" + r.out[-3000:])
        nums = [int(x) for x in m[-1].replace("<<", "").replace(">>", "").split(",")[1:]]
        return vlib.read_ndjson(fp), nums

    out = vlib.pmap(tlc_batch, range(NB), nproc=POOL)
    fails = [f for fl, _ in out for f in fl]
    tot = [sum(nums[k] for _, nums in out) for k in range(6)]
    n_records, n_asserted, n_nonempty, n_bodyvisible, n_unasserted, n_fail = tot
    if n_records != len(recs) or n_fail != len(fails):
        raise Inconclusive("Contracts.tla saw %d records / %d failures, expected %d / %d" % (
            n_records, n_fail, len(recs), len(fails)))
    if n_nonempty < n_asserted // 2 or n_bodyvisible < n_asserted // 2:
        raise Inconclusive("vacuous case space: asserted=%d nonempty=%d body-visible=%d" % (
            n_asserted, n_nonempty, n_bodyvisible))

    # ---- 4. verdicts: one VIOLATION per failing construct, confirmed on a one-case program ---------
    groups = {}
    for f in fails:
        kind = "body-consulted" if f["likebody"] else ("lost" if f["missing"] and not f["extra"] else
                                                       "added" if f["extra"] and not f["missing"] else "different")
        groups.setdefault((f["form"], f["call"], f["body"], kind), []).append(f)
    for gi, (key, fl) in enumerate(sorted(groups.items())):
        form, call, body, kind = key
        fl.sort(key=lambda f: (by_id[f["id"]]["n"] + by_id[f["id"]]["m"], f["id"], f["cfg"]))
        f = fl[0]
        c = by_id[f["id"]]
        sdir, sobs = standalone(ctx, bins, c, "g%d" % gi)
        srec = obs_record(c, f["cfg"], sobs[f["cfg"]])
        alone = "reproduced on the one-case program" if (srec["obsrets"], srec["obsargs"]) == (
            next(r for r in recs if r["id"] == c["id"] and r["cfg"] == f["cfg"])["obsrets"],
            next(r for r in recs if r["id"] == c["id"] and r["cfg"] == f["cfg"])["obsargs"]) \
            else "the one-case program behaves differently: %s / %s" % (srec["obsrets"], srec["obsargs"])
        what = ("dataflow spec not applied as written [%s contract, call form %s, body kind %s, %s; %d records fail, "
                "configs %s]: spec Args=%s Rets=%s%s denotes {%s} but taint.Analyze (%s) reported {%s}: lost {%s}, "
                "not listed {%s}%s; %s" % (
                    {"F": "function", "M": "method (function)", "I": "interface-method", "P": "interface + function"}[form],
                    call, body, kind, len(fl), sorted({x["cfg"] for x in fl}), c["args"], c["rets"],
                    (" (function spec Args=%s Rets=%s)" % (c["fargs"], c["frets"])) if form == "P" else "",
                    flows_txt(f["expected"]), f["cfg"], flows_txt(f["observed"]), flows_txt(f["missing"]),
                    flows_txt(f["extra"]), " -- this is exactly what the function BODY does" if f["likebody"] else "", alone))
        files = {"case.json": c, "failure.json": f, "failing_cases.json": [by_id[x["id"]] for x in fl[:50]]}
        for fn in ("main.go", "specs.json", "eager.yaml", "ondemand.yaml", "go.mod"):
            files["program/" + fn] = open(os.path.join(sdir, fn)).read()
        ctx.violation(what, files, key="/".join(key))

    # ---- 5. evidence --------------------------------------------------------------------------------
    per_combo = {}
    for c in cases:
        k = "%s/%s" % (c["form"], c["call"])
        per_combo[k] = per_combo.get(k, 0) + 1
    c0 = cases[len(cases) // 3]
    ctx.sample({"case": {k: c0[k] for k in ("n", "m", "form", "call", "body", "kinds", "args", "rets")},
                "observed": {r["cfg"]: {"obsrets": r["obsrets"], "obsargs": r["obsargs"]} for r in recs if r["id"] == c0["id"]}})
    unasserted = [r for r in recs if r["form"] == "I" and r["call"] in ("method", "fvalue")]
    ctx.extra.update({
        "programs": len(chunks), "cases": len(cases), "configs": sorted(CONFIGS), "records": len(recs),
        "cases_per_space": gstats, "cases_per_form_call": per_combo,
        "asserted_records": n_asserted, "records_with_nonempty_expectation": n_nonempty,
        "records_where_consulting_the_body_is_visible": n_bodyvisible, "observed_only_records": n_unasserted,
        "failing_records": len(fails), "stray_flows": nstray,
        "analysis_cpu_s": {"load": round(t_load, 1), "taint": round(t_taint, 1)},
        "observed_only_note": "interface-method spec + call resolved to the concrete method (static method call, concrete "
                              "method expression): the statement does not fix the meaning; recorded, not judged (%d records)" % len(unasserted),
        "explanation": "states = states of the generator spec (partial + complete cases) + one state per "
                       "(case, configuration) record judged by Contracts.tla",
    })
    ctx.assumptions += [
        "a flow i->target is 'reported' iff taint.Analyze reports the source line of probe (case, i) at the sink line of that target",
        "pointer-like parameters are *struct{ s string }; the tainted datum is a string stored in / read from the pointee",
        "flows of an argument to itself (diagonal of Args) are enumerated in the spec file but not judged",
        "interface-method spec + call statically resolved to an implementation is outside the statement (observed only)",
    ]
    ctx.finish_args = dict(exhaustive=True, evaluations=len(recs), distinct=len(cases),
                           rule="one case = (shape, Args/Rets matrices, contract form, call form, body kind, parameter kinds); "
                                "exhaustive per ContractSpace configuration (see cases_per_space) + seeded simulation ('sample'); "
                                "every case judged under eager and summarize-on-demand")


def replay(ctx, bins):
    """./check C10 --replay <dir>: re-run the recorded case on the current tree and let TLC judge it (plain invariant)"""
    c = json.load(open(os.path.join(ctx.replay, "case.json")))
    sdir, sobs = standalone(ctx, bins, c, "replay")
    recs = [obs_record(c, cfg, sobs[cfg]) for cfg in sorted(sobs)]
    cfgtxt = "SPECIFICATION Spec\nINVARIANT ExactInv\nCHECK_DEADLOCK FALSE\n"
    r = ctx.tlc("Contracts", cfg="ContractsReplay.cfg", data={"ContractsReplay.cfg": cfgtxt, "obs.ndjson": vlib.ndjson(recs)},
                deadlock=False)
    print(r.out[-3000:])
    ctx.traces += len(recs)
    if r.violated:
        ctx.violation("replay: spec not applied as written for case %s: %s" % (
            {k: c[k] for k in ("n", "m", "form", "call", "body", "args", "rets")}, recs), {"case.json": c},
            key="replay/" + json.dumps(c, sort_keys=True))
    elif not r.ok:
        raise Inconclusive("TLC failed on replay:\n" + r.out[-2000:])
