"""C07 -- the analyses terminate without crashing on every well-typed program (DESIGN.md section 4, C07).

Pipeline: TLC(CallShapeSpace) -> call-graph shapes x data shapes -> Go programs; TLC(ProgSpace) -> the C01 chains
(with decorations) -> Go programs;  the REAL process (harness/cmd/crashrun: taint eager / on-demand / field-sensitive
/ use-escape-analysis, backtrace eager / on-demand, reachability (CLI form and pointer-based), defer, may-panic) on
every program with recover(), a CPU-time watchdog that records all goroutine stacks, and a progress file;
TLC(Terminates) decides Returns / Covered over the recorded outcomes;  failures are attributed to known findings by
their crash site (known_findings.d/C07.json), every other failure is a VIOLATION (real-code behaviour, reproduced on
the single program).

Role A (never a verdict): spec/VisitorLive.tla -- the context-sensitive traversal with `seen` + lasso stop terminates on
every call graph of CallShapeSpace's topologies (liveness); without the lasso stop TLC finds the diverging shapes.
"""
import json
import os
import random
import re

import minigo
import optlib
import semgen
import vlib
from vlib import Inconclusive

# analyses run on whole modules (25 programs per process)
MODULE_ANALYSES = ["taint:t000", "taint:t010", "taint:e00", "backtrace:b0", "backtrace:b1",
                   "reach", "reachptr", "defer", "maypanic"]
# the field-sensitive configuration is run program by program on a seeded sample (see design.d/C07.md: its visitor is
# known to blow up, which would make every module-level run useless)
SINGLE_ANALYSES = ["taint:t100"]
POOL = 4
BATCH = 25
SOFT = 8           # CPU seconds, one program: a run that exceeds it is a suspect (stacks recorded)
NREPS = 2          # suspects confirmed with the hard bound per known finding (pinned input first)
MODBOUND = 20      # CPU seconds, module of 25 programs: beyond it the analysis is re-run program by program

CONFIG_TMPL = """options:
  log-level: 1
%(options)s
taint-tracking-problems:
  - sources:
      - package: "(main)|(command-line-arguments)|(prog)"
        method: "^source$"
    sinks:
      - package: "(main)|(command-line-arguments)|(prog)"
        method: "^sink$"
    sanitizers:
      - package: "(main)|(command-line-arguments)|(prog)"
        method: "^sanitize$"
    validators:
      - package: "(main)|(command-line-arguments)|(prog)"
        method: "^validate(Err)?$"
slicing-problems:
  - backtracepoints:
      - package: "(main)|(command-line-arguments)|(prog)"
        method: "^(bt[0-9]|sink)$"
"""
CONFIGS = {
    "t000": {"field-sensitive": False, "summarize-on-demand": False},
    "t010": {"field-sensitive": False, "summarize-on-demand": True},
    "t100": {"field-sensitive": True, "summarize-on-demand": False},
    "e00": {"use-escape-analysis": True},
    "b0": {},
    "b1": {"summarize-on-demand": True},
}


def write_configs(d):
    for name, opts in CONFIGS.items():
        lines = ["  %s: %s" % (k, "true" if v is True else ("false" if v is False else v)) for k, v in opts.items()]
        with open(os.path.join(d, name + ".yaml"), "w") as fh:
            fh.write(CONFIG_TMPL % {"options": "\n".join(lines)})


class Prog:
    def __init__(self, kind, name, mod, d, desc):
        self.kind, self.name, self.mod, self.dir, self.desc = kind, name, mod, d, desc
        self.outs = {}      # analysis -> outcome
        self.detail = {}    # analysis -> text (stack, stderr)
        self.req = []       # analyses that must have an outcome
        self.entry = None


# ------------------------------------------------------------------------------------------------ crash signatures
def frames_of(text):
    """[(function, file, line)] of the frames inside ar-go-tools, innermost first (recovered-panic stacks, the
    runtime's crash reports and runtime.Stack dumps share the two-line frame format)"""
    out = []
    lines = text.split("\n")
    for i, l in enumerate(lines):
        if not l.startswith("github.com/awslabs/ar-go-tools/") or i + 1 >= len(lines):
            continue
        fm = re.match(r"^\s+(\S+\.go):(\d+)", lines[i + 1])
        if not fm:
            continue
        k = l.rfind("(")
        fn = l[:k] if k > 0 else l
        fn = fn.replace("github.com/awslabs/ar-go-tools/", "")
        fn = re.sub(r"^(analysis|internal)/", "", fn)
        out.append((fn, fm.group(1), int(fm.group(2))))
    return out


def site_text(path, line):
    """source text of the line + the enclosing `case` label of the switch it sits in (stable under line shifts)"""
    if path.startswith("/repo/") and vlib.REPO != "/repo":
        path = vlib.REPO.rstrip("/") + path[len("/repo"):]
    try:
        src = open(path).read().split("\n")
    except OSError:
        return "", ""
    if not (0 < line <= len(src)):
        return "", ""
    txt = src[line - 1].strip()
    case = ""
    ind = len(src[line - 1]) - len(src[line - 1].lstrip("\t"))
    for j in range(line - 2, max(0, line - 400), -1):
        s = src[j]
        st = s.strip()
        if st.startswith("case ") and (len(s) - len(s.lstrip("\t"))) < ind:
            case = st.rstrip(":")
            break
        if st.startswith("func "):
            break
    return txt, case


def signature(text):
    """message class + the three innermost ar-go-tools frames, each with its source text and enclosing case label"""
    first = text.strip().split("\n", 1)[0][:200]
    first = re.sub(r"0x[0-9a-f]+", "0x?", first)
    first = re.sub(r"\b[tpsk]\d+\b", "?", first)
    first = re.sub(r"\d+", "N", first)
    parts = []
    for fn, f, ln in frames_of(text)[:3]:
        txt, case = site_text(f, ln)
        parts.append("%s {%s} [%s]" % (fn, case, txt))
    return first + " | " + " <- ".join(parts)


def timeout_signature(stack):
    """where a run that exceeded its CPU bound was executing: the ar-go-tools frames of the main goroutine, outermost
    first, names only (the innermost frames differ from sample to sample, the entry path into the loop does not)"""
    for blk in stack.split("\n\n"):
        if "main.main()" in blk:
            fr = [fn for fn, _, _ in frames_of(blk)]
            fr.reverse()
            out = []
            for fn in fr:
                if not out or out[-1] != fn:
                    out.append(fn)
            return "timeout | " + " > ".join(out[:5])
    return "timeout | (no main goroutine in the dump)"


def sig_of(o, det):
    return timeout_signature(det) if o == "timeout" else signature(det)


def constructs_of(desc):
    """the constructs of an input (never a hash): edge kinds, recursion forms and data shapes of a call-graph shape;
    steps and decorations of a chain"""
    if "shape" in desc:
        return optlib.shape_constructs(desc["shape"])
    return {"step:" + s for s, _ in desc["chain"]} | {"deco:" + d for _, d in desc["chain"]}


def known_for(kf, analysis, sig, constructs):
    """a failure is attributed to a known finding by the analysis it occurs in, its crash site (signature) and -- where
    the entry says so -- a construct the input must contain"""
    for e in kf:
        if e.get("status") != "known":
            continue
        m = e.get("match", {})
        if m.get("analysis") and analysis not in m["analysis"]:
            continue
        if m.get("constructs_any") and not (set(m["constructs_any"]) & constructs):
            continue
        if all(s in sig for s in m.get("signature_contains", ["\0"])):
            return e
    return None


def local_known():
    p = os.path.join(vlib.VERIF, "known_findings.d", "C07.json")
    return json.load(open(p)) if os.path.exists(p) else []


# ------------------------------------------------------------------------------------------------ running
def outcome_of(res, a):
    """outcome of analysis a in a crashrun result covering a set of programs; None = not run"""
    if a in res["runs"]:
        r = res["runs"][a]
        if r["panic"]:
            return "panic", r["panic"]
        return ("error" if r["err"] else "result"), r["err"]
    if res["timeout"] == a:
        return "timeout", res["timeout_stack"]
    if res["running"] == a:
        if res["killed"]:
            return "timeout", "process killed by the outer wall-clock timeout\n" + res["stderr"]
        return "fatal", res["stderr"]
    return None, ""


class Runner:
    def __init__(self, ctx, bins, hard):
        self.ctx, self.bins, self.hard = ctx, bins, hard
        self.runs = 0
        self.combination_only = []
        self.seq = 0

    def run_set(self, mod, plist, analyses, bound):
        self.seq += 1
        out = os.path.join(mod, "crash-%d.ndjson" % self.seq)
        pattern = "./..." if plist is None else ",".join("./" + p.name for p in plist)
        self.runs += 1
        r = optlib.crashrun(self.bins, mod, pattern, analyses, out, timeout=bound)
        if r["load"] is None or r["load"]["err"]:
            raise Inconclusive("crashrun could not load %s of generated module %s: %s %s" % (
                pattern[:200], mod, (r["load"] or {}).get("err"), r["stderr"][-1500:]))
        return r

    def split(self, mod, sub, analyses, whole=None):
        """run `analyses` on the programs `sub` of one module; narrow failures down to single programs.
        crash (panic / fatal): 25 -> 5 groups of 5 -> singles, with the hard bound;
        bound exceeded: straight to singles with the SOFT bound (suspects are confirmed later).
        whole = result already obtained for `sub`."""
        r = whole or self.run_set(mod, sub, analyses, self.hard)
        failed, notrun = [], []
        for a in analyses:
            o, det = outcome_of(r, a)
            if o is None:
                notrun.append(a)          # the process died in an earlier analysis
            elif o in ("result", "error"):
                for p in sub:
                    p.outs.setdefault(a, o)
            else:
                failed.append((a, o, det))
        if len(sub) == 1:
            for a, o, det in failed:
                sub[0].outs[a] = o
                sub[0].detail[a] = det
            if notrun and len(notrun) < len(analyses):
                self.split(mod, sub, notrun)
            elif notrun:
                raise Inconclusive("crashrun ran nothing on %s: %s" % (sub[0].dir, r["stderr"][-1500:]))
            return
        if notrun and len(notrun) < len(analyses):
            self.split(mod, sub, notrun)
        elif notrun:
            raise Inconclusive("crashrun ran nothing on %s: %s" % (mod, r["stderr"][-1500:]))
        slow = [a for a, o, _ in failed if o == "timeout"]
        crash = [a for a, o, _ in failed if o != "timeout"]
        for a in slow:
            for p in sub:
                self.single(p, a)
        if crash:
            step = 5 if len(sub) > 5 else 1
            for i in range(0, len(sub), step):
                self.split(mod, sub[i:i + step], crash)
            for a, o, det in failed:   # a crash of the whole that no part reproduces: attributed to the set
                if a in crash and all(p.outs.get(a) in ("result", "error") for p in sub):
                    self.combination_only.append((mod, [p.name for p in sub], a, o, det[:6000]))

    def module(self, mod, plist):
        r = self.run_set(mod, None, MODULE_ANALYSES, MODBOUND)
        if r["load"]["n"] != len(plist):
            raise Inconclusive("crashrun loaded %d packages, expected %d in %s" % (r["load"]["n"], len(plist), mod))
        self.split(mod, list(plist), MODULE_ANALYSES, whole=r)

    def single(self, p, a):
        """one program, one analysis, soft bound; sets p.outs[a] to an outcome or to "suspect" (exceeded the soft bound)"""
        r = self.run_set(p.mod, [p], [a], SOFT)
        o, det = outcome_of(r, a)
        if o is None:
            raise Inconclusive("crashrun ran nothing on %s" % p.dir)
        if o == "timeout":
            o = "suspect"
        p.outs[a] = o
        p.detail[a] = det

    def confirm(self, p, a):
        """re-run a suspect with the hard bound"""
        r = self.run_set(p.mod, [p], [a], self.hard)
        o, det = outcome_of(r, a)
        if o is None:
            raise Inconclusive("crashrun ran nothing on %s" % p.dir)
        p.outs[a] = o
        p.detail[a] = det if o not in ("result", "error") else ""


def visitor_trace(ctx, mods, thorough):
    """Binding of the Role-A traversal models (VisitorLive / VisitorOrder) to the code by trace validation: the REAL
    forward (taint, FIFO) and backward (backtrace, LIFO) traversals of a few modules of generated programs, recorded
    through the verif hooks taint.VerifOnVisit / backtrace.VerifOnVisit (harness/cmd/vistrace), are validated line by
    line against spec/VisitorTrace.tla.  A rejected trace is specification drift (recorded, never a verdict); a
    corrupted copy of each trace must be rejected (binding self-test, else exit 2)."""
    import subprocess
    bins = ctx.build(["vistrace"])
    chosen = [m for m in sorted(mods) if mods[m] and mods[m][0].kind in ("chain", "shape")]
    chain_m = [m for m in chosen if mods[m][0].kind == "chain"][: (4 if thorough else 2)]
    shape_m = [m for m in chosen if mods[m][0].kind == "shape"][: (4 if thorough else 2)]
    out = {}
    for direction, cfgs, flag, tlccfg in (("forward", ("t000", "t010"), [], "VisitorTrace.cfg"),
                                          ("backward", ("b0", "b1"), ["-backward"], "VisitorTraceBack.cfg")):
        events = []
        for m in chain_m + shape_m:
            of = os.path.join(m, "vtrace-%s.ndjson" % direction)
            subprocess.run([bins["vistrace"], "-dir", m, "-patterns", ",".join("./" + p.name for p in mods[m]),
                            "-taint", ",".join(os.path.join(m, c + ".yaml") for c in cfgs), "-out", of,
                            "-max", "40000" if thorough else "15000"] + flag,
                           env=vlib.goenv(), stdout=subprocess.PIPE, stderr=subprocess.PIPE, text=True, timeout=1200)
            if os.path.exists(of):
                events += vlib.read_ndjson(of)
        ntrav = sum(1 for e in events if e["op"] == "source")
        if ntrav < 10:
            raise Inconclusive("vistrace recorded only %d %s traversals" % (ntrav, direction))
        r = ctx.tlc("VisitorTrace", cfg=tlccfg, data={"vtrace.ndjson": vlib.ndjson(events)}, subdir="vistrace-" + direction,
                    timeout=1500, deadlock=False, xmx="4g")
        accepted = r.ok and "VISITORTRACE" in r.out
        res = {"events": len(events), "traversals": ntrav, "lasso_stops": sum(1 for e in events if e["op"] == "lasso"),
               "seen_stops": sum(1 for e in events if e["op"] == "stop"), "accepted": accepted}
        if not accepted:
            m_ = re.search(r"visitor trace rejected at line\", (\d+)", r.out)
            res["spec_drift"] = ("the real %s traversal is not a behaviour of VisitorTrace.tla" % direction +
                                 (" (first rejected line %s: %s)" % (m_.group(1), events[int(m_.group(1)) - 1]) if m_ else "") +
                                 "; " + r.out[-400:].replace("\n", " "))
            print("NOTE spec drift (Role A, not a verdict): " + res["spec_drift"][:300])
        # binding self-test: the same trace with one admitted element enqueued a second time must be rejected
        k = next((i for i, e in enumerate(events) if e["op"] == "add"), None)
        if accepted and k is not None:
            bad = events[: k + 1] + [dict(events[k])] + events[k + 1:]
            r2 = ctx.tlc("VisitorTrace", cfg=tlccfg, data={"vtrace.ndjson": vlib.ndjson(bad)},
                         subdir="vistrace-selftest-" + direction, timeout=1500, deadlock=False, xmx="4g")
            res["corrupted_trace_rejected"] = not (r2.ok and "VISITORTRACE" in r2.out)
            if not res["corrupted_trace_rejected"]:
                raise Inconclusive("VisitorTrace.tla accepts a corrupted %s trace (an element admitted twice): the trace spec "
                                   "is vacuous" % direction)
        ctx.traces += ntrav
        out[direction] = res
    return out


def run(ctx):
    thorough = ctx.tier == "thorough"
    rnd = random.Random(ctx.seed)
    bins = ctx.build(["crashrun"])
    kf = local_known() or ctx.kf      # the per-property file is the source; known_findings.json is assembled from it
    HARD = 120 if thorough else 45      # CPU seconds per analysis run (median of a module of 25 programs: < 3 s)
    rn = Runner(ctx, bins, HARD)

    # ---- 1. call-graph shapes from TLC ----------------------------------------------------------------------
    def shapes_run(tag, maxf, maxe, maxns, maxsh, names, simulate=None):
        cfg = ("SPECIFICATION Spec\nCONSTANTS MaxF = %d\n MaxE = %d\n MaxNS = %d\n MaxShapes = %d\n ShapeNames = {%s}\n"
               "INVARIANT TypeOK\nCONSTRAINT Collect\nPOSTCONDITION Post\nCHECK_DEADLOCK FALSE\n" % (
                   maxf, maxe, maxns, maxsh, ", ".join('"%s"' % n for n in names)))
        kw = {}
        if simulate:
            kw = dict(simulate="num=%d" % simulate, depth=maxe + maxsh + 1, seed=ctx.seed)
        r = ctx.tlc_must_pass("CallShapeSpace", cfg="CSS_%s.cfg" % tag, data={"CSS_%s.cfg" % tag: cfg},
                              subdir="shapes-" + tag, timeout=1500, deadlock=False, **kw)
        pth = os.path.join(r.dir, "shapes.ndjson")
        if not os.path.exists(pth):
            raise Inconclusive("CallShapeSpace produced no shapes:\n" + r.out[-2000:])
        return vlib.read_ndjson(pth)

    ALL = ["recstruct", "reciface", "generic", "bodyless", "deferloop", "goto", "empty", "switch"]
    shapes = {}
    # exhaustive: every topology over <= 3 functions with at most one (thorough: two) non-static edges
    for rec in shapes_run("topo", 3, 4 if thorough else 3, 2 if thorough else 1, 0, []):
        shapes[optlib.shape_key(rec)] = rec
    # exhaustive: every data shape x every topology over <= 2 functions
    for rec in shapes_run("data", 2, 3 if thorough else 2, 1, 1, ALL):
        shapes[optlib.shape_key(rec)] = rec
    nexh = len(shapes)
    if nexh < 100:
        raise Inconclusive("CallShapeSpace produced only %d shapes" % nexh)
    # seeded simulation of the big space (edges of any kind, two shapes)
    sim = shapes_run("sim", 3, 5, 5, 2, ALL, simulate=1000 if thorough else 60)
    sim = sorted({optlib.shape_key(r): r for r in sim if optlib.shape_key(r) not in shapes}.items())
    rnd.shuffle(sim)
    sim = sim[: (1500 if thorough else 40)]
    for k, rec in sim:
        shapes[k] = rec
    # similar programs next to each other: failures cluster in few modules
    shape_list = sorted(shapes.values(), key=lambda r: (sorted(set(r["shapes"]) & {"recstruct", "reciface", "generic"}),
                                                        sorted(r["shapes"]), optlib.shape_key(r)))

    # ---- 2. the C01 program space (chains with decorations) -------------------------------------------------
    from checks import c01
    chains, simchains, nchexh = c01.chains_for(ctx, thorough)
    one = [list(c) for c in chains if len(c) == 1]
    two = [list(c) for c in chains if len(c) == 2]
    rest = [list(c) for c in chains if len(c) > 2] + [list(c) for c in simchains]
    if not thorough:
        # quick: seeded samples of the one-step (decorated), two-step and longer chains
        rnd.shuffle(one)
        one = one[:150]
        rnd.shuffle(two)
        two = two[:60]
        rnd.shuffle(rest)
        rest = rest[:40]
    else:
        rnd.shuffle(rest)
        rest = rest[:1500]
    chain_items = sorted(one + two + rest, key=lambda c: (sorted({s for s, _ in c} & CLOSURE_STEPS), c))
    pinned = []
    for e in kf:
        pth = e.get("pinned_input")
        if pth and os.path.exists(os.path.join(vlib.VERIF, pth)):
            pinned.append((e, json.load(open(os.path.join(vlib.VERIF, pth)))))

    only = os.environ.get("VERIF_C07_ONLY", "")      # development knob: shapes | chains | pinned
    if only == "shapes":
        chain_items = chain_items[:5]
    elif only == "chains":
        shape_list = shape_list[:50]
    elif only == "pinned":
        chain_items, shape_list = chain_items[:5], shape_list[:50]

    # ---- 3. render --------------------------------------------------------------------------------------------
    progs, pin_progs = [], []
    mods = {}
    root = os.path.join(ctx.work, "c07")
    os.makedirs(root)
    nmod = [0]

    def new_mod():
        mod = os.path.join(root, "m%04d" % nmod[0])
        nmod[0] += 1
        os.makedirs(mod, exist_ok=True)
        with open(os.path.join(mod, "go.mod"), "w") as fh:
            fh.write("module prog\n\ngo 1.22\n")
        write_configs(mod)
        mods[mod] = []
        return mod

    def add(kind, name, mod, desc):
        d = os.path.join(mod, name)
        if "chain" in desc:
            P = semgen.build_chain([tuple(x) for x in desc["chain"]], name=name)
            minigo.write_program(d, P)
        else:
            src, extra = optlib.render_shape(desc["shape"])
            optlib.write_plain_program(d, src, extra)
        p = Prog(kind, name, mod, d, desc)
        mods[mod].append(p)
        return p

    for n, (e, j) in enumerate(pinned):   # pinned inputs of the known findings: one program per module
        p = add("pinned", "k%03d" % n, new_mod(), {"chain": j["chain"]} if "chain" in j else {"shape": j["shape"]})
        p.entry = e
        p.req = list(e.get("match", {}).get("analysis") or MODULE_ANALYSES)
        pin_progs.append(p)
    for i, rec in enumerate(shape_list):
        if i % BATCH == 0:
            mod = new_mod()
        progs.append(add("shape", "s%05d" % i, mod, {"shape": rec}))
    for i, ch in enumerate(chain_items):
        if i % BATCH == 0:
            mod = new_mod()
        progs.append(add("chain", "p%05d" % i, mod, {"chain": [list(x) for x in ch]}))
    for p in progs:
        p.req = list(MODULE_ANALYSES)
    # field-sensitive runs: a seeded sample of the programs
    fs = list(progs)
    rnd.shuffle(fs)
    fs = fs[: (800 if thorough else 100)]
    for p in fs:
        p.req = p.req + SINGLE_ANALYSES

    # ---- 4. the real process ----------------------------------------------------------------------------------
    def do_mod(m):
        plist = mods[m]
        if plist and plist[0].kind == "pinned":
            for p in plist:     # pinned inputs: one program, one analysis per process, soft bound first
                for a in p.req:
                    rn.single(p, a)
        else:
            rn.module(m, plist)
    vlib.pmap(do_mod, sorted(mods), nproc=POOL)
    vlib.pmap(lambda p: [rn.single(p, a) for a in SINGLE_ANALYSES], fs, nproc=POOL)

    # suspects (exceeded the soft bound): those whose stack matches a known finding are confirmed by three
    # representatives per entry (pinned inputs first); every other suspect is confirmed with the hard bound
    allp = pin_progs + progs
    suspects = [(p, a) for p in allp for a in sorted(p.outs) if p.outs[a] == "suspect"]
    to_confirm, reps = [], {}
    for p, a in suspects:
        e = known_for(kf, a, timeout_signature(p.detail[a]), constructs_of(p.desc))
        if e is None:
            to_confirm.append((p, a))
        else:
            reps.setdefault(e["id"], [])
            if len(reps[e["id"]]) < NREPS:
                reps[e["id"]].append((p, a))
                to_confirm.append((p, a))
    vlib.pmap(lambda pa: rn.confirm(*pa), to_confirm, nproc=POOL)
    nsuspect_attr = 0
    for p, a in suspects:
        if p.outs[a] == "suspect":      # attributed to a known finding by its stack, not confirmed individually
            p.outs[a] = "timeout"
            nsuspect_attr += 1
    ctx.traces += sum(len(p.outs) for p in allp)

    # ---- 5. TLC decides Returns / Covered over the recorded outcomes -----------------------------------------
    recs = [{"prog": p.name, "req": p.req, "outs": [{"a": a, "o": o} for a, o in sorted(p.outs.items())]} for p in allp]
    r = ctx.tlc_must_pass("Terminates", data={"outcomes.ndjson": vlib.ndjson(recs)},
                          subdir="terminates", timeout=1200, deadlock=False)
    fp = os.path.join(r.dir, "terminates_fail.ndjson")
    if "TERMINATES_RESULT" not in r.out or not os.path.exists(fp):
        raise Inconclusive("Terminates.tla did not reach its postcondition:\n" + r.out[-3000:])
    fails = vlib.read_ndjson(fp)
    byname = {p.name: p for p in allp}
    missing = [f for f in fails if f["o"] == "missing"]
    if missing:
        raise Inconclusive("no outcome recorded for %d (program, analysis) pairs, e.g. %s" % (len(missing), missing[0]))

    # ---- 6. Role A: liveness of the traversal model on the same topologies (never a verdict) ------------------
    role_a = role_a_model(ctx, thorough)
    role_a["visitor_trace"] = visitor_trace(ctx, mods, thorough)

    # ---- 7. verdicts ------------------------------------------------------------------------------------------
    def files_of(p):
        fs_ = {}
        for fn in sorted(os.listdir(p.dir)):
            if fn.endswith((".go", ".s")) and fn != "roles_native.go":
                fs_[fn] = open(os.path.join(p.dir, fn)).read()
        fs_["input.json"] = json.dumps(p.desc, indent=1)
        return fs_

    seen_known, clusters = {}, {}
    for f in fails:
        p = byname[f["prog"]]
        det = p.detail.get(f["a"], "")
        sig = sig_of(f["o"], det)
        e = known_for(kf, f["a"], sig, constructs_of(p.desc))
        if e:
            seen_known.setdefault(e["id"], []).append((p, f["a"]))
        else:
            clusters.setdefault((f["a"].split(":")[0], f["o"], sig), []).append((p, f["a"], det))
    for e in kf:
        if e.get("status") == "known" and e["id"] in seen_known:
            hits = seen_known[e["id"]]
            ex = next((p for p, a in hits if p.kind == "pinned"), hits[0][0])
            ctx.known(e["id"], "%s (%d programs, e.g. %s)" % (e["what"], len({p.name for p, _ in hits}),
                                                              json.dumps(ex.desc)[:300]))
        if e.get("status") == "fixed":
            for p in pin_progs:
                if p.entry is e and any(o not in ("result", "error") for o in p.outs.values()):
                    ctx.violation("pinned input of the FIXED finding %s fails again: %s" % (e["id"], p.outs), files_of(p),
                                  key="C07/fixed/" + e["id"])
    nviol = 0
    for (akind, o, sig), items in sorted(clusters.items(), key=lambda kv: kv[0]):
        nviol += 1
        if nviol > 20:
            break
        p, a, det = items[0]
        what = {"panic": "panics", "fatal": "kills the process (fatal error / panic in a worker goroutine)",
                "timeout": "does not return within %d CPU seconds (confirmed on the single program; the median of a "
                           "whole module of 25 programs is < 3 s)" % HARD}[o]
        fs_ = files_of(p)
        fs_["crash.txt"] = det
        fs_["others.json"] = json.dumps([{"prog": q.desc, "analysis": b} for q, b, _ in items[1:30]], indent=1)
        ctx.violation("analysis %s %s on the well-typed generated program %s (%d programs with this crash site): %s" % (
            a, what, json.dumps(p.desc)[:400], len({q.name for q, _, _ in items}), sig[:700]), fs_,
            key="C07/%s/%s" % (akind, sig))
    for mod, names, a, o, det in rn.combination_only[:5]:
        sig = sig_of(o, det)
        if known_for(kf, a, sig, set()):
            continue
        ctx.violation("analysis %s fails (%s) on the module of programs %s although it returns on every part: %s" % (
            a, o, names, sig[:400]), {"crash.txt": det, "module.txt": mod}, key="C07/combo/" + sig)

    outs = {}
    for p in allp:
        for a, o in p.outs.items():
            outs.setdefault(a, {}).setdefault(o, 0)
            outs[a][o] += 1
    sp = [p for p in progs if p.kind == "shape"]
    cp = [p for p in progs if p.kind == "chain"]
    if sp:
        q = sp[len(sp) // 2]
        ctx.sample({"shape": q.desc["shape"], "main.go": open(os.path.join(q.dir, "main.go")).read()[-1500:], "outcomes": q.outs})
    if cp:
        q = cp[len(cp) // 2]
        ctx.sample({"chain": q.desc["chain"], "outcomes": q.outs})
    ctx.extra.update({
        "chains_one_step": len(one), "chains_two_steps": len(two), "chains_longer": len(rest),
        "programs": len(allp), "shape_programs": len(sp), "shapes_exhaustive": nexh, "shapes_simulated": len(sim),
        "chain_programs": len(cp), "chains_exhaustive_space": nchexh, "pinned_inputs": len(pin_progs),
        "field_sensitive_sample": len(fs), "process_runs": rn.runs, "outcomes": outs,
        "programs_with_a_failure": len({f["prog"] for f in fails}), "crash_clusters_unknown": len(clusters),
        "known_clusters": {k: len({p.name for p, _ in v}) for k, v in seen_known.items()},
        "suspects_attributed_by_stack_only": nsuspect_attr, "cpu_bound_s": HARD, "soft_bound_s": SOFT,
        "role_a_model": role_a,
    })
    ctx.assumptions += [
        "programs are analysed in modules of %d independent main packages; a failing analysis is narrowed down to the "
        "single program (every subset of the packages is itself a valid input)" % BATCH,
        "bound: %d CPU seconds of the analysing process per analysis run (a module of 25 programs needs < 3 s); CPU time, "
        "not wall clock, so that machine load cannot produce a timeout" % HARD,
        "field-sensitive taint analysis (known to blow up) is run program by program on a seeded sample with a %d s soft "
        "bound; suspects whose stack matches a known finding are confirmed with the full bound by %d representatives "
        "per finding, all other suspects individually" % (SOFT, NREPS),
        "the generated programs are well-typed: the loader type-checks and compiles them (load error = exit 2)",
    ]
    ctx.finish_args = dict(exhaustive=True, evaluations=sum(len(p.outs) for p in allp), distinct=len(allp),
                           rule="one case = one generated program x the analysis runs; shapes: all CallShapeSpace states "
                                "within the bounds + seeded simulation; chains: ProgSpace with decorations + simulation")


CLOSURE_STEPS = {"capread", "callclo", "capwrite", "cloparam", "retclo", "deferclo", "defernamed", "methodval"}


# ------------------------------------------------------------------------------------------------ Role A
def role_a_model(ctx, thorough):
    """VisitorLive.tla: the context-sensitive traversal terminates on every call graph (with the lasso stop) -- liveness,
    exhaustive over the call graphs of <= MaxF functions; recorded in the evidence, never a verdict"""
    if not os.path.exists(os.path.join(vlib.SPEC, "VisitorLive.tla")):
        return {"skipped": "no model"}
    out = {}
    for name, lasso in (("lasso", "TRUE"), ("nolasso", "FALSE")):
        cfg = ("SPECIFICATION Spec\nCONSTANTS MaxF = %d\n MaxE = %d\n Lasso = %s\n Cap = %d\nPROPERTY Terminates\n"
               "INVARIANT NoOverflow\nINVARIANT StackBound\nCHECK_DEADLOCK FALSE\n" % (
                   3 if thorough else 2, 5 if thorough else 6, lasso, 8))
        try:
            r = ctx.tlc("VisitorLive", cfg="VL_%s.cfg" % name, data={"VL_%s.cfg" % name: cfg}, subdir="rolea-" + name,
                        timeout=600, deadlock=False)
        except Inconclusive as e:
            out[name] = {"error": str(e)[:200]}
            continue
        out[name] = {"holds": r.ok, "violated": r.violated, "distinct": r.distinct}
    return out
