"""C07 -- the analyses terminate without crashing on every well-typed program (DESIGN.md section 4, C07).

Pipeline: TLC(CallShapeSpace) -> call-graph shapes x data shapes -> Go programs; TLC(ProgSpace) -> the C01 chains
(with decorations) -> Go programs;  the REAL process (harness/cmd/crashrun: taint eager / on-demand / field-sensitive
/ use-escape-analysis, backtrace eager / on-demand, reachability (CLI form and pointer-based), defer, may-panic) on
every program with recover(), a watchdog and a progress file;  TLC(Terminates) decides Returns / Covered over the
recorded outcomes;  failures are attributed to known findings by their crash site (known_findings.d/C07.json), every
other failure is a VIOLATION (real-code behaviour, reproduced on the single program).

Role A (never a verdict): spec/VisitorLive.tla -- the context-sensitive traversal with `seen` + lasso stop terminates on
every call-graph shape of CallShapeSpace (liveness, <>Done); without the lasso stop TLC finds the diverging shapes.
"""
import json
import os
import random
import re

import optlib
import sem
import semgen
import vlib
from vlib import Inconclusive

ANALYSES = ["taint:t000", "taint:t010", "taint:t100", "taint:e00", "backtrace:b0", "backtrace:b1",
            "reach", "reachptr", "defer", "maypanic"]
REQUIRED = list(ANALYSES)
POOL = 4
BATCH = 25
TIMEOUT = 120

CONFIG_TMPL = """options:
  log-level: 1
%(options)s
taint-tracking-problems:
  - sources:
      - package: "(main)|(command-line-arguments)|(prog)"
        method: "^source$"
    sinks:
      - package: "(main)|(command-line-arguments)|(prog)"
        method: "^sink$"
    sanitizers:
      - package: "(main)|(command-line-arguments)|(prog)"
        method: "^sanitize$"
    validators:
      - package: "(main)|(command-line-arguments)|(prog)"
        method: "^validate(Err)?$"
slicing-problems:
  - backtracepoints:
      - package: "(main)|(command-line-arguments)|(prog)"
        method: "^(bt[0-9]|sink)$"
"""
CONFIGS = {
    "t000": {"field-sensitive": False, "summarize-on-demand": False},
    "t010": {"field-sensitive": False, "summarize-on-demand": True},
    "t100": {"field-sensitive": True, "summarize-on-demand": False},
    "e00": {"use-escape-analysis": True},
    "b0": {},
    "b1": {"summarize-on-demand": True},
}


def write_configs(d):
    for name, opts in CONFIGS.items():
        lines = ["  %s: %s" % (k, "true" if v is True else ("false" if v is False else v)) for k, v in opts.items()]
        with open(os.path.join(d, name + ".yaml"), "w") as fh:
            fh.write(CONFIG_TMPL % {"options": "\n".join(lines)})


class Prog:
    def __init__(self, kind, name, mod, d, desc):
        self.kind, self.name, self.mod, self.dir, self.desc = kind, name, mod, d, desc
        self.outs = {}      # analysis -> outcome
        self.detail = {}    # analysis -> text (stack, stderr)


# ------------------------------------------------------------------------------------------------ crash signatures
FRAME = re.compile(r"^(github\.com/awslabs/ar-go-tools/[^\s(]+(?:\([^)]*\))?[^\s(]*)\(")


def frames_of(text):
    """[(function, file, line)] of the frames inside ar-go-tools, innermost first (both recovered-panic stacks and
    the runtime's crash reports have the same two-line frame format)"""
    out = []
    lines = text.split("\n")
    for i, l in enumerate(lines):
        m = re.match(r"^(github\.com/awslabs/ar-go-tools/\S+?)\((?:0x|\.\.\.|\)|\{)", l)
        if not m:
            m = re.match(r"^(github\.com/awslabs/ar-go-tools/.+?)\(", l)
        if not m or i + 1 >= len(lines):
            continue
        fm = re.match(r"^\s+(\S+\.go):(\d+)", lines[i + 1])
        if not fm:
            continue
        fn = m.group(1).replace("github.com/awslabs/ar-go-tools/", "")
        fn = re.sub(r"^(analysis|internal)/", "", fn)
        out.append((fn, fm.group(1), int(fm.group(2))))
    return out


def site_text(path, line):
    """source text of the line + the enclosing `case` label of the type switch it sits in (stable under line shifts)"""
    path = path.replace("/repo/", vlib.REPO.rstrip("/") + "/") if path.startswith("/repo/") and vlib.REPO != "/repo" else path
    try:
        src = open(path).read().split("\n")
    except OSError:
        return "", ""
    if not (0 < line <= len(src)):
        return "", ""
    txt = src[line - 1].strip()
    case = ""
    ind = len(src[line - 1]) - len(src[line - 1].lstrip("\t"))
    for j in range(line - 2, max(0, line - 400), -1):
        s = src[j]
        st = s.strip()
        if st.startswith("case ") and (len(s) - len(s.lstrip("\t"))) < ind:
            case = st.rstrip(":")
            break
        if st.startswith("func "):
            break
    return txt, case


def signature(text):
    """message class + the three innermost ar-go-tools frames, each with its source text and enclosing case label"""
    first = text.strip().split("\n", 1)[0][:200]
    first = re.sub(r"0x[0-9a-f]+", "0x?", first)
    first = re.sub(r"\b[tp]\d+\b", "?", first)
    first = re.sub(r"\d+", "N", first)
    parts = []
    for fn, f, ln in frames_of(text)[:3]:
        txt, case = site_text(f, ln)
        parts.append("%s {%s} [%s]" % (fn, case, txt))
    return first + " | " + " <- ".join(parts)


def timeout_signature(stack):
    """where a run that exceeded its CPU bound was executing: the ar-go-tools frames of the main goroutine, outermost
    first, names only (the innermost frames differ from sample to sample, the entry path into the loop does not)"""
    for blk in stack.split("\n\n"):
        if "main.main()" in blk:
            fr = [fn for fn, _, _ in frames_of(blk)]
            fr.reverse()
            out = []
            for fn in fr:
                if not out or out[-1] != fn:
                    out.append(fn)
            return "timeout | " + " > ".join(out[:6])
    return "timeout | (no main goroutine in the dump)"


def known_for(ctx, kf, analysis, sig):
    for e in kf:
        if e.get("status") != "known":
            continue
        m = e.get("match", {})
        if m.get("analysis_kind") and not analysis.startswith(m["analysis_kind"]):
            continue
        if all(s in sig for s in m.get("signature_contains", ["\0"])):
            return e
    return None


def local_known():
    p = os.path.join(vlib.VERIF, "known_findings.d", "C07.json")
    return json.load(open(p)) if os.path.exists(p) else []


# ------------------------------------------------------------------------------------------------ running
def outcome_of(res, a):
    """outcome of analysis a in a crashrun result covering a set of programs; None = not run"""
    if a in res["runs"]:
        r = res["runs"][a]
        if r["panic"]:
            return "panic", r["panic"]
        return ("error" if r["err"] else "result"), r["err"]
    if res["timeout"] == a:
        return "timeout", res["timeout_stack"]
    if res["running"] == a:
        if res["killed"]:
            return "timeout", "process killed by the outer timeout"
        return "fatal", res["stderr"]
    return None, ""


def run_set(ctx, bins, mod, plist, analyses, tag):
    out = os.path.join(mod, "crash-%s.ndjson" % tag)
    pattern = "./..." if plist is None else ",".join("./" + p.name for p in plist)
    return optlib.crashrun(bins, mod, pattern, analyses, out, timeout=TIMEOUT)


def analyse_module(ctx, bins, mod, plist, stats):
    """fills p.outs for every program of the module; bisects failing analyses down to single programs"""
    res = run_set(ctx, bins, mod, None, ANALYSES, "all")
    stats["runs"] += 1
    if res["load"] is None or res["load"]["err"]:
        raise Inconclusive("crashrun could not load generated module %s: %s %s" % (
            mod, (res["load"] or {}).get("err"), res["stderr"][-1500:]))
    if res["load"]["n"] != len(plist):
        raise Inconclusive("crashrun loaded %d packages, expected %d in %s" % (res["load"]["n"], len(plist), mod))
    pending = []
    for a in ANALYSES:
        o, det = outcome_of(res, a)
        if o in ("result", "error"):
            for p in plist:
                p.outs[a] = o
        else:
            pending.append(a)     # failed, or not run because the process died before
    seq = [0]

    def bisect(sub, analyses):
        """analyses: those that failed / were not run on a superset of sub"""
        seq[0] += 1
        r = run_set(ctx, bins, mod, sub, analyses, "b%d" % seq[0])
        stats["runs"] += 1
        if r["load"] is None or r["load"]["err"]:
            raise Inconclusive("crashrun could not load %s of %s: %s" % ([p.name for p in sub], mod, r["stderr"][-1500:]))
        failed, notrun = [], []
        for a in analyses:
            o, det = outcome_of(r, a)
            if o is None:
                notrun.append(a)          # the process died in an earlier analysis
            elif o in ("result", "error"):
                for p in sub:
                    p.outs.setdefault(a, o)
            else:
                failed.append((a, o, det))
        if len(sub) == 1:
            for a, o, det in failed:
                sub[0].outs[a] = o
                sub[0].detail[a] = det
            if notrun and len(notrun) < len(analyses):
                bisect(sub, notrun)
            elif notrun:
                raise Inconclusive("crashrun ran nothing on %s: %s" % (sub[0].dir, r["stderr"][-1500:]))
            return
        need = [a for a, _, _ in failed] + notrun
        if not need:
            return
        h = len(sub) // 2
        bisect(sub[:h], need)
        bisect(sub[h:], need)
        # a failure of the whole that no part reproduces: attribute to the set
        for a, o, det in failed:
            if all(p.outs.get(a) in ("result", "error") for p in sub):
                stats["combination_only"].append((mod, [p.name for p in sub], a, o, det[:3000]))

    if pending:
        bisect(list(plist), pending)


def run(ctx):
    thorough = ctx.tier == "thorough"
    rnd = random.Random(ctx.seed)
    bins = ctx.build(["crashrun"])
    kf = ctx.kf or local_known()

    # ---- 1. call-graph shapes from TLC ----------------------------------------------------------------------
    def shapes_run(tag, maxf, maxe, maxns, maxsh, names, simulate=None):
        cfg = ("SPECIFICATION Spec\nCONSTANTS MaxF = %d\n MaxE = %d\n MaxNS = %d\n MaxShapes = %d\n ShapeNames = {%s}\n"
               "INVARIANT TypeOK\nCONSTRAINT Collect\nPOSTCONDITION Post\nCHECK_DEADLOCK FALSE\n" % (
                   maxf, maxe, maxns, maxsh, ", ".join('"%s"' % n for n in names)))
        kw = {}
        if simulate:
            kw = dict(simulate="num=%d" % simulate, depth=maxe + maxsh + 1, seed=ctx.seed)
        r = ctx.tlc_must_pass("CallShapeSpace", cfg="CSS_%s.cfg" % tag, data={"CSS_%s.cfg" % tag: cfg},
                              subdir="shapes-" + tag, timeout=1500, deadlock=False, **kw)
        pth = os.path.join(r.dir, "shapes.ndjson")
        if not os.path.exists(pth):
            raise Inconclusive("CallShapeSpace produced no shapes:\n" + r.out[-2000:])
        return vlib.read_ndjson(pth)

    ALL = ["recstruct", "reciface", "generic", "bodyless", "deferloop", "goto", "empty", "switch"]
    shapes = {}
    # exhaustive: every topology over <= 3 functions with at most one non-static edge, no data shape
    for rec in shapes_run("topo", 3, 4, 1, 0, []):
        shapes[optlib.shape_key(rec)] = rec
    # exhaustive: every data shape x every topology over <= 2 functions (quick: <= 1 non-static edge)
    for rec in shapes_run("data", 2, 3, 2 if thorough else 1, 1, ALL):
        shapes[optlib.shape_key(rec)] = rec
    nexh = len(shapes)
    if thorough:
        for rec in shapes_run("topo2", 3, 4, 2, 0, []):
            shapes[optlib.shape_key(rec)] = rec
        nexh = len(shapes)
    # seeded simulation of the big space (all edges of any kind, two shapes)
    sim = shapes_run("sim", 3, 5, 5, 2, ALL, simulate=4000 if thorough else 400)
    sim = sorted({optlib.shape_key(r): r for r in sim if optlib.shape_key(r) not in shapes}.items())
    rnd.shuffle(sim)
    sim = sim[: (1500 if thorough else 120)]
    for k, rec in sim:
        shapes[k] = rec
    shape_list = [shapes[k] for k in sorted(shapes)]
    if nexh < 100:
        raise Inconclusive("CallShapeSpace produced only %d shapes" % nexh)

    # ---- 2. the C01 program space (chains with decorations) -------------------------------------------------
    from checks import c01
    chains, simchains, nchexh = c01.chains_for(ctx, thorough)
    chain_items = [list(c) for c in chains] + [list(c) for c in simchains]
    pinned = []
    for e in kf:
        pth = e.get("pinned_input")
        if pth and os.path.exists(os.path.join(vlib.VERIF, pth)):
            j = json.load(open(os.path.join(vlib.VERIF, pth)))
            pinned.append((e, j))
    if not thorough:
        # quick: every chain of one decorated step, a seeded third of the two-step chains, the simulated ones
        one = [c for c in chain_items if len(c) == 1]
        two = [c for c in chain_items if len(c) == 2]
        rest = [c for c in chain_items if len(c) > 2]
        rnd.shuffle(two)
        chain_items = one + two[: max(200, len(two) // 3)] + rest

    only = os.environ.get("VERIF_C07_ONLY", "")      # development knob: shapes | chains | pinned
    if only == "shapes":
        chain_items = []
    elif only == "chains":
        shape_list = shape_list[:120]
    elif only == "pinned":
        chain_items, shape_list = chain_items[:5], shape_list[:120]

    # ---- 3. render --------------------------------------------------------------------------------------------
    progs = []
    mods = {}
    root = os.path.join(ctx.work, "c07")
    os.makedirs(root)

    def new_mod(i):
        mod = os.path.join(root, "m%04d" % i)
        os.makedirs(mod, exist_ok=True)
        with open(os.path.join(mod, "go.mod"), "w") as fh:
            fh.write("module prog\n\ngo 1.22\n")
        write_configs(mod)
        return mod

    nmod = 0
    pin_progs = []
    # pinned inputs of the known findings: a module of their own
    if pinned:
        mod = new_mod(nmod); nmod += 1
        for n, (e, j) in enumerate(pinned):
            name = "k%03d" % n
            d = os.path.join(mod, name)
            if "chain" in j:
                P = semgen.build_chain([tuple(x) for x in j["chain"]], name=name)
                import minigo
                minigo.write_program(d, P)
                desc = {"chain": j["chain"]}
            else:
                src, extra = optlib.render_shape(j["shape"])
                optlib.write_plain_program(d, src, extra)
                desc = {"shape": j["shape"]}
            p = Prog("pinned", name, mod, d, desc)
            p.entry = e
            pin_progs.append(p)
            mods.setdefault(mod, []).append(p)
    for i, rec in enumerate(shape_list):
        if i % BATCH == 0:
            mod = new_mod(nmod); nmod += 1
        name = "s%05d" % i
        d = os.path.join(mod, name)
        src, extra = optlib.render_shape(rec)
        optlib.write_plain_program(d, src, extra)
        p = Prog("shape", name, mod, d, {"shape": rec})
        progs.append(p); mods.setdefault(mod, []).append(p)
    import minigo
    for i, ch in enumerate(chain_items):
        if i % BATCH == 0:
            mod = new_mod(nmod); nmod += 1
        name = "p%05d" % i
        d = os.path.join(mod, name)
        P = semgen.build_chain([tuple(x) for x in ch], name=name)
        minigo.write_program(d, P)
        p = Prog("chain", name, mod, d, {"chain": [list(x) for x in ch]})
        progs.append(p); mods.setdefault(mod, []).append(p)

    # ---- 4. the real process ----------------------------------------------------------------------------------
    stats = {"runs": 0, "combination_only": []}
    vlib.pmap(lambda m: analyse_module(ctx, bins, m, mods[m], stats), sorted(mods), nproc=POOL)
    ctx.traces += sum(len(p.outs) for p in progs + pin_progs)

    # ---- 5. TLC decides Returns / Covered over the recorded outcomes -----------------------------------------
    allp = pin_progs + progs
    recs = [{"prog": p.name, "outs": [{"a": a, "o": o} for a, o in sorted(p.outs.items())]} for p in allp]
    r = ctx.tlc_must_pass("Terminates", data={"outcomes.ndjson": vlib.ndjson(recs),
                                              "required.ndjson": vlib.ndjson([{"analyses": REQUIRED}])},
                          subdir="terminates", timeout=1200, deadlock=False)
    fp = os.path.join(r.dir, "terminates_fail.ndjson")
    if "TERMINATES_RESULT" not in r.out or not os.path.exists(fp):
        raise Inconclusive("Terminates.tla did not reach its postcondition:\n" + r.out[-3000:])
    fails = vlib.read_ndjson(fp)
    byname = {p.name: p for p in allp}
    missing = [f for f in fails if f["o"] == "missing"]
    if missing:
        raise Inconclusive("no outcome recorded for %d (program, analysis) pairs, e.g. %s" % (len(missing), missing[0]))

    # ---- 6. Role A: liveness of the traversal model on the same shapes (never a verdict) ----------------------
    role_a = role_a_model(ctx, thorough)

    # ---- 7. verdicts ------------------------------------------------------------------------------------------
    def files_of(p):
        fs = {}
        for fn in sorted(os.listdir(p.dir)):
            if fn.endswith((".go", ".s")) and fn != "roles_native.go":
                fs[fn] = open(os.path.join(p.dir, fn)).read()
        fs["input.json"] = json.dumps(p.desc, indent=1)
        return fs

    seen_known = {}
    clusters = {}
    for f in fails:
        p = byname[f["prog"]]
        det = p.detail.get(f["a"], "")
        sig = signature(det) if f["o"] in ("panic", "fatal") else "timeout"
        e = known_for(ctx, kf, f["a"], sig) if f["o"] != "timeout" else None
        if e:
            seen_known.setdefault(e["id"], []).append((p, f["a"]))
            continue
        if p.kind == "pinned":
            # a pinned input failing in a way its entry does not describe
            pass
        clusters.setdefault((f["a"].split(":")[0], f["o"], sig), []).append((p, f["a"], det))
    # timeouts must reproduce (a generous bound under heavy load is still a wall-clock bound)
    for key in list(clusters):
        if key[1] != "timeout":
            continue
        keep = []
        for p, a, det in clusters[key][:3]:
            r2 = run_set(ctx, bins, p.mod, [p], [a], "retry-" + p.name + a.replace(":", "_"))
            o, det2 = outcome_of(r2, a)
            if o == "timeout":
                keep.append((p, a, det))
        if keep:
            clusters[key] = keep
        else:
            del clusters[key]
            ctx.extra.setdefault("timeouts_not_reproduced", 0)
            ctx.extra["timeouts_not_reproduced"] += 1
    for e in kf:
        if e.get("status") == "known" and e["id"] in seen_known:
            hits = seen_known[e["id"]]
            ex = next((p for p, a in hits if p.kind == "pinned"), hits[0][0])
            ctx.known(e["id"], "%s (%d programs, e.g. %s)" % (e["what"], len({p.name for p, _ in hits}), json.dumps(ex.desc)[:300]))
        if e.get("status") == "fixed":
            for p in pin_progs:
                if p.entry is e and any(o not in ("result", "error") for o in p.outs.values()):
                    ctx.violation("pinned input of the FIXED finding %s fails again: %s" % (e["id"], p.outs), files_of(p),
                                  key="C07/fixed/" + e["id"])
    nviol = 0
    for (akind, o, sig), items in sorted(clusters.items(), key=lambda kv: kv[0]):
        nviol += 1
        if nviol > 20:
            break
        p, a, det = items[0]
        what = {"panic": "panics", "fatal": "kills the process (fatal error / panic in a worker goroutine)",
                "timeout": "does not return within %d s (reproduced)" % TIMEOUT}[o]
        fs = files_of(p)
        fs["crash.txt"] = det
        fs["others.json"] = json.dumps([{"prog": q.desc, "analysis": b} for q, b, _ in items[1:30]], indent=1)
        ctx.violation("analysis %s %s on the well-typed generated program %s (%d programs with this crash site): %s" % (
            a, what, json.dumps(p.desc)[:400], len({q.name for q, _, _ in items}), sig[:600]), fs,
            key="C07/%s/%s" % (akind, sig))
    for mod, names, a, o, det in stats["combination_only"][:5]:
        e = known_for(ctx, kf, a, signature(det))
        if e:
            continue
        ctx.violation("analysis %s fails (%s) on the module of programs %s although it returns on every part: %s" % (
            a, o, names, signature(det)[:400]), {"crash.txt": det, "module.txt": mod}, key="C07/combo/" + signature(det))

    nfail = len({f["prog"] for f in fails})
    outs = {}
    for p in allp:
        for a, o in p.outs.items():
            outs.setdefault(a.split(":")[0], {}).setdefault(o, 0)
            outs[a.split(":")[0]][o] += 1
    ctx.sample({"shape": shape_list[len(shape_list) // 2],
                "main.go": open(os.path.join([p for p in progs if p.kind == "shape"][len(shape_list) // 2].dir, "main.go")).read()[-1500:]})
    ctx.sample({"chain": chain_items[len(chain_items) // 2]})
    ctx.extra.update({
        "programs": len(allp), "shape_programs": len(shape_list), "shapes_exhaustive": nexh, "shapes_simulated": len(sim),
        "chain_programs": len(chain_items), "chains_exhaustive_space": nchexh, "pinned_inputs": len(pin_progs),
        "analyses_per_program": len(ANALYSES), "process_runs": stats["runs"], "outcomes": outs,
        "programs_with_a_failure": nfail, "crash_clusters_unknown": len(clusters),
        "known_clusters": {k: len({p.name for p, _ in v}) for k, v in seen_known.items()}, "role_a_model": role_a,
    })
    ctx.assumptions += [
        "programs are analysed in modules of %d independent main packages; a failing analysis is bisected down to the "
        "single program (every subset of the packages is itself a valid input)" % BATCH,
        "bound: %d s per analysis per module where the median is < 2 s; a timeout is reported only when it reproduces on "
        "the single program" % TIMEOUT,
        "the generated programs are well-typed: the loader type-checks and compiles them (load error = exit 2)",
    ]
    ctx.finish_args = dict(exhaustive=True, evaluations=len(allp) * len(ANALYSES), distinct=len(allp),
                           rule="one case = one generated program x 10 analysis runs; shapes: all CallShapeSpace states "
                                "within the bounds + seeded simulation; chains: ProgSpace K<=2 with decorations + simulation")


# ------------------------------------------------------------------------------------------------ Role A
def role_a_model(ctx, thorough):
    """VisitorLive.tla: the context-sensitive traversal terminates on every shape (with the lasso stop) -- liveness
    under weak fairness, exhaustive over the call graphs of <= MaxF functions; result recorded, never a verdict"""
    if not os.path.exists(os.path.join(vlib.SPEC, "VisitorLive.tla")):
        return {"skipped": "no model"}
    out = {}
    for name, lasso in (("lasso", "TRUE"), ("nolasso", "FALSE")):
        cfg = ("SPECIFICATION Spec\nCONSTANTS MaxF = %d\n Lasso = %s\n MaxDepth = %d\nPROPERTY Terminates\n"
               "INVARIANT DepthBounded\nCHECK_DEADLOCK FALSE\n" % (3 if thorough else 2, lasso, 6))
        try:
            r = ctx.tlc("VisitorLive", cfg="VL_%s.cfg" % name, data={"VL_%s.cfg" % name: cfg}, subdir="rolea-" + name,
                        timeout=600, deadlock=False)
        except Inconclusive as e:
            out[name] = {"error": str(e)[:200]}
            continue
        out[name] = {"ok": r.ok, "violated": r.violated, "distinct": r.distinct}
    return out
