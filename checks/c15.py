"""C15 -- escape graphs form a join-semilattice and transfer functions are monotone (DESIGN.md section 4, C15).

(i)  Exhaustive design-level part: TLC checks the semilattice laws, the closure-operator laws, "every iteration
     order of Merge's loops ends in the join" and the chaotic-iteration theorem on the operators of
     spec/EscapeLattice.tla (EscapeLatticeLaws / EscapeLatticeOrder / EscapeLatticeChaotic).  A failure there is a
     defect of the model (exit 2), never a violation.
(ii) Binding part: harness/cmd/escdump runs the REAL escape analysis (hooks of build tag verif) over a corpus of
     programs and records merge events, real merges of real graphs, applications of the real transfer function
     (recorded, re-applied, on weakened inputs) and final graphs under permuted worklists; TLC
     (spec/EscapeLatticeTrace.tla) checks the laws on what the real code returned.  Every failed check is a
     statement about real output for a concrete input => VIOLATION (or KNOWN-FINDING).
"""
import json
import os
import random
import time
from concurrent.futures import ThreadPoolExecutor

import vlib
from vlib import Inconclusive

# --------------------------------------------------------------------------------------------- generated programs
PRELUDE = '''package main

type Node struct {
	next *Node
	val  *int
	data []byte
}
type Pair struct {
	a, b *Node
	in   Inner
}
type Inner struct {
	p *Node
	k int
}
type Box struct {
	p  *Node
	m  map[string]*Node
	ch chan *Node
	f  func(*Node) *Node
}
type Shape interface {
	Area() *int
	Link(*Node)
}
type Sq struct {
	n *Node
	a int
}
type Ci struct {
	n *Node
	r int
}

func (s *Sq) Area() *int   { return &s.a }
func (s *Sq) Link(n *Node) { s.n = n }
func (c Ci) Area() *int    { x := c.r; return &x }
func (c Ci) Link(n *Node)  { n.next = c.n }

var G *Node
var GM = map[string]*Node{}
var GS Shape

func oracle() bool { return len(GM) > 3 }

func uList(k int) *Node {
	var head *Node
	for i := 0; i < k; i++ {
		v := i
		head = &Node{next: head, val: &v}
	}
	p := head
	for p != nil && p.next != nil {
		p = p.next
	}
	return p
}
'''

# unit name -> (variants of the source, call expression used by main)
UNITS = {
    "selfloop": (['''
func uBuild(head *Node, n int) *Node {
	for {
		head = &Node{next: head}
		n--
		if n == 0 {
			break
		}
	}
	return head
}
func uSelfLoop() *Node { return uBuild(nil, 3) }
''', '''
func uChain(p *Node) *Node {
	for {
		p.next = &Node{next: p, val: p.val}
		p = p.next
		if oracle() {
			break
		}
	}
	return p
}
func uSelfLoop() *Node { v := 1; return uChain(&Node{val: &v}) }
'''], "_ = uSelfLoop()"),
    "backlink": (['''
func backlink(a **Node) {
	t := *a
	t.next.next = t
}
func uBacklink() *Node {
	y := &Node{}
	x1 := &Node{next: y}
	x2 := &Node{next: y}
	a1 := &x1
	a2 := &x2
	a := a1
	if oracle() {
		a = a2
	}
	backlink(a)
	return y.next
}
''', '''
func relink(a *Pair) {
	t := a.a
	t.next.next = a.b
	a.b.next = t
}
func uBacklink() *Node {
	y := &Node{}
	p1 := &Pair{a: &Node{next: y}, b: &Node{next: y}}
	p2 := &Pair{a: &Node{next: y}, b: p1.a}
	p := p1
	if oracle() {
		p = p2
	}
	relink(p)
	return y.next
}
'''], "_ = uBacklink()"),
    "rec": (['''
func walk(n *Node, d int) *Node {
	if d == 0 || n == nil {
		return n
	}
	r := walk(n.next, d-1)
	if oracle() {
		n.next = r
	}
	return r
}
func uRec() *Node { return walk(uList(3), 2) }
''', '''
func walk(n *Node, acc *Node, d int) *Node {
	if d == 0 || n == nil {
		return acc
	}
	acc.next = n
	return walk(n.next, n, d-1)
}
func uRec() *Node { return walk(uList(3), &Node{}, 2) }
'''], "_ = uRec()"),
    "mutual": (['''
func even(n *Node, d int) *Node {
	if d == 0 {
		return n
	}
	return odd(&Node{next: n}, d-1)
}
func odd(n *Node, d int) *Node {
	if d == 0 {
		G = n
		return n
	}
	return even(n.next, d-1)
}
func uMutual() *Node { return even(&Node{}, 3) }
''', '''
func even(n *Node, b *Box, d int) *Node {
	if d == 0 {
		b.p = n
		return n
	}
	return odd(&Node{next: n}, b, d-1)
}
func odd(n *Node, b *Box, d int) *Node {
	if d == 0 {
		return b.p
	}
	m := even(n.next, b, d-1)
	m.next = n
	return m
}
func uMutual() *Node { return even(&Node{}, &Box{}, 3) }
'''], "_ = uMutual()"),
    "go": (['''
func uGo(b *Box) *Node {
	n := &Node{}
	m := &Node{next: n}
	go func() { b.p = n }()
	if oracle() {
		return m
	}
	return &Node{}
}
''', '''
func keep(b *Box, n *Node) { b.p = n.next }
func uGo(b *Box) *Node {
	n := &Node{next: &Node{}}
	m := &Node{next: n}
	if oracle() {
		go keep(b, n)
	}
	return m
}
'''], "_ = uGo(b)"),
    "go2": (['''
func worker(n *Node, c chan *Node) { c <- n.next }
func uGo2() *Node {
	c := make(chan *Node)
	n := &Node{next: &Node{}}
	go worker(n, c)
	return <-c
}
'''], "_ = uGo2()"),
    "chan": (['''
func uChan() *Node {
	c := make(chan *Node, 1)
	d := make(chan *Node, 1)
	x := &Node{}
	c <- x
	y := <-c
	go func() {
		for v := range d {
			G = v
		}
	}()
	if oracle() {
		d <- y
	}
	return x
}
''', '''
func uChan() *Node {
	c := make(chan *Node, 1)
	x := &Node{}
	for i := 0; i < 2; i++ {
		c <- x
		x = &Node{next: <-c}
	}
	return x
}
'''], "_ = uChan()"),
    "map": (['''
func uMap(keys []string) *Node {
	m := map[string]*Node{}
	for _, k := range keys {
		m[k] = &Node{}
	}
	var last *Node
	for k, v := range m {
		if k == "x" {
			last = v
		}
	}
	if n, ok := m["y"]; ok {
		n.next = last
	}
	GM["z"] = m["z"]
	return last
}
''', '''
func uMap(keys []string) *Node {
	m := map[*Node]*Node{}
	a := &Node{}
	for range keys {
		m[a] = &Node{next: a}
		a = m[a]
	}
	for k := range m {
		k.next = m[k]
	}
	return a
}
'''], '_ = uMap([]string{"x", "y"})'),
    "iface": (['''
func pick(n *Node) Shape {
	if oracle() {
		return &Sq{n: n}
	}
	return Ci{n: n}
}
func uIface() *int {
	n := &Node{}
	s := pick(n)
	s.Link(&Node{})
	if oracle() {
		GS = s
	}
	return s.Area()
}
''', '''
func pick(n *Node) Shape {
	var s Shape = Ci{n: n}
	for i := 0; i < 2; i++ {
		if oracle() {
			s = &Sq{n: n}
		}
		s.Link(n)
	}
	return s
}
func uIface() *int { return pick(&Node{}).Area() }
'''], "_ = uIface()"),
    "closure": (['''
func mk(n *Node) func(*Node) *Node {
	cnt := &Node{}
	return func(x *Node) *Node {
		cnt.next = x
		if oracle() {
			return n
		}
		return cnt
	}
}
func uClosure() *Node {
	b := &Box{}
	b.f = mk(&Node{})
	r := b.f(&Node{})
	g := func(y *Node) *Node { y.next = r; return y }
	return g(&Node{})
}
''', '''
func apply(f func(*Node) *Node, n *Node) *Node { return f(f(n)) }
func uClosure() *Node {
	acc := &Node{}
	h := func(x *Node) *Node { acc.next = x; return &Node{next: acc} }
	if oracle() {
		h = func(x *Node) *Node { return x }
	}
	return apply(h, &Node{})
}
'''], "_ = uClosure()"),
    "select": (['''
func uSelect(a, b chan *Node) *Node {
	x := &Node{}
	for i := 0; i < 2; i++ {
		select {
		case v := <-a:
			x.next = v
		case b <- x:
		default:
		}
	}
	return x
}
'''], "_ = uSelect(b.ch, make(chan *Node, 1))"),
    "defer": (['''
func uDefer(b *Box) (r *Node) {
	n := &Node{}
	defer func() {
		if recover() != nil {
			r = n
		}
		b.p = n
	}()
	if oracle() {
		panic(n)
	}
	return &Node{}
}
'''], "_ = uDefer(b)"),
    "append": (['''
func uAppend(xs []*Node) []*Node {
	ys := make([]*Node, 0, 2)
	for _, x := range xs {
		ys = append(ys, x)
	}
	ys = append(ys, &Node{})
	zs := make([]*Node, len(ys))
	copy(zs, ys)
	if len(zs) > 0 {
		zs[0].next = ys[len(ys)-1]
	}
	return zs
}
'''], "_ = uAppend([]*Node{{}, {}})"),
    "tuple": (['''
func two(n *Node) (*Node, *Node) { return n, &Node{next: n} }
func uTuple() *Node {
	a, b := two(&Node{})
	a.next = b
	return b
}
'''], "_ = uTuple()"),
    "global": (['''
func uGlobal(n *Node) *Node {
	old := G
	G = n
	if old != nil {
		old.next = n
	}
	return old
}
''', '''
func uGlobal(n *Node) *Node {
	for p := G; p != nil; p = p.next {
		if oracle() {
			p.next = n
			return p
		}
	}
	return n
}
'''], "_ = uGlobal(&Node{})"),
    "struct": (['''
func fill(p Pair, n *Node) Pair {
	p.a = n
	p.in.p = p.b
	return p
}
func uStruct() *Node {
	var p Pair
	p.b = &Node{}
	q := fill(p, &Node{})
	pp := &q
	pp.in = Inner{p: q.a}
	r := *pp
	return r.in.p
}
'''], "_ = uStruct()"),
    "assert": (['''
func uAssert(v interface{}) *Node {
	switch t := v.(type) {
	case *Node:
		return t
	case *Sq:
		return t.n
	case Shape:
		t.Link(&Node{})
	}
	if s, ok := v.(Ci); ok {
		return s.n
	}
	return nil
}
'''], "_ = uAssert(&Sq{})\n\t_ = uAssert(Ci{})"),
}


def gen_program(rnd):
    names = sorted(UNITS)
    rnd.shuffle(names)
    chosen = names[: rnd.randint(9, len(names))]
    chosen += [n for n in ("selfloop", "backlink") if n not in chosen]   # shapes that need two passes / several representatives
    src = [PRELUDE]
    calls = ["_ = uList(3)"]
    picked = []
    for n in chosen:
        variants, call = UNITS[n]
        v = rnd.randrange(len(variants))
        picked.append("%s/%d" % (n, v))
        src.append(variants[v])
        calls.append(call)
    rnd.shuffle(calls)
    src.append("\nfunc main() {\n\tb := &Box{m: map[string]*Node{}, ch: make(chan *Node)}\n\t_ = b\n\t" + "\n\t".join(calls) + "\n}\n")
    return "".join(src), picked


# --------------------------------------------------------------------------------------------- exhaustive part
def law_jobs(thorough):
    # (module, cfg, workers, timeout)
    if not thorough:
        return [("EscapeLatticeLaws", "EscapeLaws_T2.cfg", 2, 1200), ("EscapeLatticeLaws", "EscapeLaws_S2q.cfg", 1, 1200),
                ("EscapeLatticeLaws", "EscapeClose_2q.cfg", 1, 1200), ("EscapeLatticeOrder", "EscapeOrder_2.cfg", 1, 1200),
                ("EscapeLatticeChaotic", "EscapeChaotic_3.cfg", 1, 1200)]
    jobs = [("EscapeLatticeLaws", "EscapeLaws_T2.cfg", 2, 1700), ("EscapeLatticeLaws", "EscapeLaws_S2.cfg", 2, 1700),
            ("EscapeLatticeLaws", "EscapeClose_2.cfg", 2, 1700), ("EscapeLatticeOrder", "EscapeOrder_2.cfg", 2, 1700),
            ("EscapeLatticeChaotic", "EscapeChaotic_3.cfg", 1, 1700),
            ("EscapeLatticeLaws", "EscapeLaws_P2.cfg", 2, 1700), ("EscapeLatticeLaws", "EscapeLaws_P3.cfg", 2, 1700),
            ("EscapeLatticeLaws", "EscapeClose_3.cfg", 2, 1700), ("EscapeLatticeOrder", "EscapeOrder_3.cfg", 2, 1700)]
    return jobs


KIND_TEXT = {
    "illformed": "a graph produced by the real analysis is not closed under status propagation along its edges (or a "
                 "status is below the node's intrinsic status)",
    "merge-not-join": "the real EscapeGraph.Merge did not return the least upper bound (join) of its operands",
    "not-commutative": "real g.Merge(h) differs from real h.Merge(g)",
    "not-idempotent": "real Merge of a graph with itself changed it",
    "not-associative": "real (g+h)+k differs from real g+(h+k)",
    "not-upper-bound": "the result of the real Merge is not above both operands in the lattice ordering",
    "lessequal-denies-upper-bound": "the real LessEqual says an operand of Merge is not <= the result",
    "not-least": "a real graph k is above both operands of a real Merge but not above its result",
    "lessequal-differs": "the real LessEqual disagrees with the ordering (node presence, edge flags, status)",
    "not-monotone-recorded": "during the analysis the transfer function of one instruction was applied to inputs "
                             "A <= B (A earlier) but the outputs are not ordered (what the built-in, disabled "
                             "monotonicity self-check would log)",
    "not-monotone": "the real transfer function, applied in one fixed environment to inputs A <= B, returned outputs that "
                    "are not ordered",
    "order-dependent": "the final graph differs between the default worklist order and a permuted order",
    "not-a-fixpoint": "the block-end graph the analysis stopped with is not what the real transfer functions of the block "
                      "return for the real Merge of the final block-end graphs of all its predecessors (the fixpoint of "
                      "the block equations was not reached)",
}


def replay(ctx):
    """./check C15 --replay <dir>: re-check the record of one reported violation with EscapeLatticeTrace."""
    fp = os.path.join(ctx.replay, "record.json") if os.path.isdir(ctx.replay) else ctx.replay
    rec = json.load(open(fp))
    kind = "transfer" if "ents" in rec else "final" if "runs" in rec else "fix" if "end" in rec else "merge"
    data = {k + ".ndjson": "" for k in ("merge", "transfer", "final", "fix")}
    data[kind + ".ndjson"] = json.dumps(rec) + "\n"
    r = ctx.tlc_must_pass("EscapeLatticeTrace", data=data, subdir="replay", timeout=900, deadlock=False)
    fails = vlib.read_ndjson(os.path.join(r.dir, "trace_fail.ndjson"))
    ctx.traces += 1
    for f in fails:  # no new replay directory for a replay
        what = "replayed record (%s, program %s, function %s): %s" % (kind, rec.get("prog"), rec.get("fn"), KIND_TEXT[f["kind"]])
        ctx.violations.append({"what": what, "replay": ctx.replay})
        print("VIOLATION property=%s replay=%s\n  reason: %s" % (ctx.prop, ctx.replay, what))
    if not fails:
        print("replay: the recorded data satisfies every check of EscapeLatticeTrace")
    ctx.finish_args = dict(exhaustive=False, evaluations=1, distinct=1, rule="one recorded case replayed")


def run(ctx):
    if ctx.replay:
        return replay(ctx)
    thorough = ctx.tier == "thorough"
    rnd = random.Random(ctx.seed)
    t_start = time.time()
    # the machine is shared: keep every JVM small (inherited by the TLC child processes)
    os.environ["JAVA_TOOL_OPTIONS"] = "-XX:ParallelGCThreads=2 -XX:CICompilerCount=2"
    os.environ["GOMAXPROCS"] = "4"
    bins = ctx.build(["escdump"])

    # ---- corpus ------------------------------------------------------------------------------------
    repo = vlib.REPO
    progs = []  # (name, dir, extra args)
    edir = os.path.join(repo, "analysis", "escape", "testdata")
    for d in sorted(os.listdir(edir)):
        if os.path.exists(os.path.join(edir, d, "main.go")):
            progs.append(("escape/" + d, os.path.join(edir, d), []))
    tdir = os.path.join(repo, "analysis", "taint", "testdata")
    tnames = [d for d in sorted(os.listdir(tdir)) if os.path.exists(os.path.join(tdir, d, "main.go"))]
    skip_taint = {"benchmark", "stdlib", "stdlib_121", "stdlib-no-effect-constraint", "agent-example"}  # slow to load
    tnames = [d for d in tnames if d not in skip_taint]
    rnd.shuffle(tnames)
    tnames = tnames[:20 if thorough else 3]
    for d in tnames:
        progs.append(("taint/" + d, os.path.join(tdir, d), []))
    # pinned inputs of known findings are analysed on every run
    pdir = os.path.join(vlib.VERIF, "corpus", "pinned", "C15")
    for d in sorted(os.listdir(pdir)) if os.path.isdir(pdir) else []:
        if os.path.exists(os.path.join(pdir, d, "main.go")):
            progs.append(("pinned/" + d, os.path.join(pdir, d), []))
    ngen = 12 if thorough else 3
    for k in range(ngen):
        src, picked = gen_program(rnd)
        gdir = os.path.join(ctx.work, "gen", "g%02d" % k)
        os.makedirs(gdir)
        open(os.path.join(gdir, "go.mod"), "w").write("module c15gen%02d\n\ngo 1.22\n" % k)
        open(os.path.join(gdir, "main.go"), "w").write(src)
        progs.append(("gen/g%02d[%s]" % (k, ",".join(picked)), gdir, []))

    only = os.environ.get("VERIF_C15_ONLY")  # development aid: restrict the corpus to programs whose name contains this
    if only:
        progs = [x for x in progs if only in x[0]]
    perms = 20 if thorough else 3
    caps = dict(maxnodes=48 if thorough else 36, maxmerge=200 if thorough else 110, maxinstr=120 if thorough else 70,
                maxpairs=5 if thorough else 4, weak=2 if thorough else 1, maxsynth=200 if thorough else 110,
                maxfinal=90 if thorough else 60)
    outdir = os.path.join(ctx.work, "dump")
    os.makedirs(outdir)

    def dump(i):
        name, d, extra = progs[i]
        out = os.path.join(outdir, "p%03d" % i)
        cmd = [bins["escdump"], "-dir", d, "-name", name, "-out", out, "-seed", str(ctx.seed * 1009 + i),
               "-perms", str(perms), "-budget", "12m" if thorough else "60s"]
        for k, v in caps.items():
            cmd += ["-" + k, str(v)]
        cmd += extra
        try:
            p = vlib.sh(cmd, env=vlib.goenv(), check=False, timeout=1700 if thorough else 600)
        except Exception as e:  # timeout: this program is skipped (never a verdict)
            return {"prog": name, "error": "timeout %r" % e}
        st = {}
        if os.path.exists(out + ".stats.json"):
            st = json.load(open(out + ".stats.json"))
        if p.returncode != 0:
            st.setdefault("error", "exit %d: %s" % (p.returncode, p.stdout[-400:]))
        st["out"] = out
        st["prog"] = name
        return st

    # ---- run the exhaustive TLC jobs and the harness concurrently ----------------------------------------
    jobs = [] if os.environ.get("VERIF_C15_NOLAWS") else law_jobs(thorough)  # development aid

    def law(j):
        mod, cfg, workers, timeout = jobs[j]
        try:
            r = ctx.tlc(mod, cfg=cfg, workers=workers, timeout=timeout, subdir="laws-" + cfg[:-4], deadlock=False, xmx="6g")
        except Inconclusive as e:
            return (cfg, None, str(e))
        return (cfg, r, None)

    # one pool of 4 for both kinds of jobs (the machine is shared)
    with ThreadPoolExecutor(max_workers=4) as pool:
        dumpf = [pool.submit(dump, i) for i in range(len(progs))]
        lawf = [pool.submit(law, j) for j in range(len(jobs))]
        stats = [f.result() for f in dumpf]
        laws = [f.result() for f in lawf]

    law_info = {}
    for cfg, r, err in laws:
        if err or r is None or not r.ok:
            raise Inconclusive("design-level TLC run %s did not pass (model defect or resource problem, not a verdict "
                               "about the code):\n%s" % (cfg, err or r.out[-3000:]))
        if cfg.startswith("EscapeChaotic") and "CHAOTIC_RESULT" not in r.out:
            raise Inconclusive("EscapeLatticeChaotic did not reach its postcondition")
        law_info[cfg[:-4]] = {"distinct": r.distinct, "generated": r.generated}
    t_laws = time.time() - t_start

    failed = [s for s in stats if s.get("error")]
    okstats = [s for s in stats if not s.get("error")]
    if len(okstats) < (1 if only else max(3, len(stats) // 2)):
        raise Inconclusive("escdump failed on %d of %d programs, e.g. %s" % (len(failed), len(stats), failed[:2]))

    # ---- batches for TLC -------------------------------------------------------------------------------------
    recs = {"merge": [], "transfer": [], "final": [], "fix": []}
    for s in okstats:
        for kind in recs:
            fp = "%s.%s.ndjson" % (s["out"], kind)
            if os.path.exists(fp):
                for line in open(fp):
                    if line.strip():
                        recs[kind].append(line)
    if not recs["merge"] or not recs["transfer"] or not recs["final"] or not recs["fix"]:
        raise Inconclusive("dead driver: no records (%s)" % {k: len(v) for k, v in recs.items()})
    NB = 16 if thorough else 8
    batches = [{"merge": [], "transfer": [], "final": [], "fix": []} for _ in range(NB)]
    for kind in recs:
        order = sorted(range(len(recs[kind])), key=lambda i: -len(recs[kind][i]))
        load = [0] * NB
        for i in order:
            b = load.index(min(load))
            batches[b][kind].append(recs[kind][i])
            load[b] += len(recs[kind][i]) ** 1.5  # cost grows faster than size
    def trace(bi):
        b = batches[bi]
        r = ctx.tlc_must_pass("EscapeLatticeTrace", data={k + ".ndjson": "".join(v) for k, v in b.items()},
                              subdir="trace-b%d" % bi, timeout=1700 if thorough else 900, deadlock=False, xmx="3g")
        fp = os.path.join(r.dir, "trace_fail.ndjson")
        if "TRACE_RESULT" not in r.out or not os.path.exists(fp):
            raise Inconclusive("EscapeLatticeTrace did not reach its postcondition:\n" + r.out[-3000:])
        import re
        m = re.search(r'"TRACE_RESULT", (\d+), (\d+), (\d+), (\d+), (\d+), (\d+), (\d+)', r.out)
        return vlib.read_ndjson(fp), [int(x) for x in m.groups()]

    results = vlib.pmap(trace, range(NB), nproc=4)
    fails = []
    tot = [0] * 7
    for bi, (fl, cnt) in enumerate(results):
        tot = [a + b for a, b in zip(tot, cnt)]
        for f in fl:
            f["rec"] = json.loads(batches[bi][f["file"]][f["p"] - 1])
            fails.append(f)
    n_merge, n_transfer, n_final, _, comparable, nontrivial, n_fix = tot
    if comparable == 0 or nontrivial == 0:
        raise Inconclusive("vacuous: no comparable transfer inputs (%d) or no non-trivial merges (%d)" % (comparable, nontrivial))
    ctx.traces += n_merge + n_transfer + n_final + n_fix

    # ---- verdicts ----------------------------------------------------------------------------------------------
    known = {e["id"]: e for e in ctx.kf if e.get("status") == "known"}
    kd = os.path.join(vlib.VERIF, "known_findings.d", "C15.json")
    if os.path.exists(kd):
        for e in json.load(open(kd)):
            if e.get("status") == "known":
                known.setdefault(e["id"], e)

    def graph_of(f, which):
        r = f["rec"]
        if f["file"] == "transfer":
            ix = which
            if ix >= 100:
                w = r["ents"][ix // 100 - 1]["weak"][ix % 100 - 1]
                return {"input": w["pre"], "output": w["post"], "how": "weakened input %d of recorded input %d" % (ix % 100, ix // 100)}
            e = r["ents"][ix - 1]
            if f["kind"] == "not-monotone-recorded":
                return {"input": e["pre"], "output": e["post"], "how": "application %d recorded during the analysis" % ix}
            return {"input": e["pre"], "output": e["re"], "how": "recorded input %d, transfer function re-applied after the analysis" % ix}
        return None

    def only_fresh_var_nodes(f):
        a, b = graph_of(f, f["a"]), graph_of(f, f["b"])
        if not a or not b:
            return False
        return fresh_only(a, b)

    def fresh_only(a, b):
        """output a exceeds output b only by Var nodes that occur in neither input, and edges leaving them"""
        inputs = {n[0] for n in a["input"]["n"]} | {n[0] for n in b["input"]["n"]}
        bn = {n[0]: n for n in b["output"]["n"]}
        fresh = set()
        for n in a["output"]["n"]:
            if n[0] not in bn:
                if n[1] != 5 or n[0] in inputs:
                    return False
                fresh.add(n[0])
            elif n[2] > bn[n[0]][2]:
                return False
        be = {(e[0], e[1]): e[2] for e in b["output"]["e"]}
        for e in a["output"]["e"]:
            if (be.get((e[0], e[1]), 0) & e[2]) != e[2] and e[0] not in fresh:
                return False
        return bool(fresh)

    def match_known(f):
        r = f["rec"]
        for e in known.values():
            m = e.get("match", {})
            if f["kind"] not in m.get("kinds", []):
                continue
            if f["file"] == "fix":
                # a block that contains one of the known call forms, and the two graphs differ only by fresh Var nodes
                if not any(x in i for x in m.get("instr_contains", []) for i in r["instrs"]):
                    continue
                a = {"input": {"n": []}, "output": r["end"]}
                b = {"input": {"n": []}, "output": r["out"]}
                if e["id"] == "json-custom-marshaler-fresh-tmp-node" and not (fresh_only(a, b) and fresh_only(b, a)):
                    continue
                return e
            if m.get("instr_kind") and m["instr_kind"] != r.get("kind"):
                continue
            if m.get("instr_contains") and not any(x in r.get("instr", "") for x in m["instr_contains"]):
                continue
            if e["id"] == "json-custom-marshaler-fresh-tmp-node" and not only_fresh_var_nodes(f):
                continue
            return e
        return None

    seen = set()
    nviol = 0
    by_kind = {}
    for f in sorted(fails, key=lambda x: (x["kind"], x["rec"].get("prog", ""), x["rec"].get("fn", ""), x["p"], x["a"], x["b"])):
        r = f["rec"]
        by_kind[f["kind"]] = by_kind.get(f["kind"], 0) + 1
        if f["file"] == "transfer":
            key = "%s|%s|%s|%s" % (f["kind"], r["prog"].split("[")[0], r["fn"], r["instr"])
            where = "program %s, function %s, instruction %s (%s) at %s" % (r["prog"], r["fn"], r["instr"], r["kind"], r["pos"])
            files = {"A.json": graph_of(f, f["a"]), "B.json": graph_of(f, f["b"]), "record.json": r}
        elif f["file"] == "merge":
            key = "%s|%s|%s" % (f["kind"], r["prog"].split("[")[0], r["fn"])
            where = "program %s, function %s, %s #%d" % (r["prog"], r["fn"], "Merge call" if r["src"] == "event" else "real Merge of two recorded graphs", r["seq"])
            files = {"record.json": r, "detail.json": {"kind": f["kind"], "index": f["a"]}}
        elif f["file"] == "fix":
            key = "%s|%s|%s|b%d" % (f["kind"], r["prog"].split("[")[0], r["fn"], r["block"])
            where = "program %s, function %s, block %d" % (r["prog"], r["fn"], r["block"])
            files = {"record.json": r}
        else:
            key = "%s|%s|%s|%s" % (f["kind"], r["prog"].split("[")[0], r["fn"], r["what"])
            where = "program %s, function %s, %s: run %d (%s order) vs. default order" % (
                r["prog"], r["fn"], r["what"], f["a"], r["order"][f["a"] - 1] if f["a"] - 1 < len(r["order"]) else "?")
            files = {"default.json": r["runs"][0], "permuted.json": r["runs"][f["a"] - 1], "record.json": r}
        if key in seen:
            continue
        seen.add(key)
        e = match_known(f)
        if e is not None:
            ctx.known(e["id"], "%s: %s -- %s" % (e["id"], KIND_TEXT[f["kind"]], where))
            continue
        nviol += 1
        if nviol <= 25:
            ctx.violation("%s -- %s" % (KIND_TEXT[f["kind"]], where), files, key=key)
    if nviol > 25:
        print("  (%d further violations not listed)" % (nviol - 25))

    # ---- evidence -----------------------------------------------------------------------------------------------
    kinds = {}
    for s in okstats:
        for k, v in (s.get("instr_kinds") or {}).items():
            kinds[k] = kinds.get(k, 0) + v
    for line in recs["merge"][:1]:
        r = json.loads(line)
        ctx.sample({"merge": {k: r[k] for k in ("prog", "fn", "src", "pre", "h", "post", "leq")}})
    for line in recs["transfer"][:1]:
        r = json.loads(line)
        ctx.sample({"transfer": {"prog": r["prog"], "fn": r["fn"], "instr": r["instr"], "inputs": len(r["ents"]),
                                 "weakened": sum(len(e["weak"]) for e in r["ents"])}})
    ctx.extra.update({
        "programs": len(okstats), "programs_skipped": [(s["prog"], s.get("error", "")[:120]) for s in failed],
        "merge_records": n_merge, "merge_records_nontrivial": nontrivial, "transfer_records(instructions)": n_transfer,
        "comparable_input_pairs": comparable, "final_records": n_final, "permuted_runs_per_program": perms,
        "fixpoint_records(blocks)": n_fix,
        "instruction_kinds": kinds, "failures_by_kind": by_kind,
        "merge_events_seen": sum(s.get("merge_seen", 0) for s in okstats),
        "skipped_too_big": {"merge": sum(s.get("merge_toobig", 0) for s in okstats),
                            "instr": sum(s.get("instr_toobig", 0) for s in okstats),
                            "final": sum(s.get("final_toobig", 0) for s in okstats)},
        "weakened_inputs": sum(s.get("weak_made", 0) for s in okstats),
        "transfer_panics_on_weakened_inputs": sum(s.get("weak_panics", 0) for s in okstats),
        "design_level_runs": law_info, "design_level_wall_s": round(t_laws, 1),
        "explanation": "states = graphs of the exhaustive law/closure/order/chaotic-iteration state spaces + one state per "
                       "recorded real merge / instruction / final-graph record",
    })
    ctx.assumptions += [
        "nodes are identified by their number within one run; across runs (order independence) graphs are compared up to "
        "node numbering through creation-order-independent labels (kind, debug string, two rounds of neighbourhood "
        "refinement) as bags of (label, status) and (label, label, flags): a necessary condition for isomorphism",
        "monotonicity of a transfer function is checked (a) in time order on the pairs the analysis itself produced "
        "(callee summaries and the node group's load history only grow meanwhile), (b) on all pairs of inputs in one fixed "
        "environment after the analysis, including weakened sub-graphs rebuilt through the real API",
        "graphs larger than the size cap are skipped and counted (skipped_too_big)",
    ]
    ctx.finish_args = dict(exhaustive=True, evaluations=n_merge + comparable + n_final + n_fix,
                           distinct=n_merge + n_transfer + n_final + n_fix,
                           rule="exhaustive: all well-formed graphs over <= 2 (quick) / 3 (thorough) nodes; binding: one case = one "
                                "recorded real merge (8 laws + 8 LessEqual answers), one comparable pair of inputs of one "
                                "instruction, one function/block graph across %d worklist orders" % (perms + 1))
