"""C13 -- with escape analysis on, concurrency cannot hide a flow silently (DESIGN.md section 4, C13).

Program space: the chains of C01 where at least one step (or the source, or the sink) runs in a goroutine that
the launcher waits for on a channel (decoration "go"); GoSem explores all schedules of every program; Obs_Taint
demands for every flow event that the real analysis (use-escape-analysis: true) either reports the flow or reports
the source as escaping its thread."""
import random

import sem
import semgen


def run(ctx):
    if ctx.replay:
        return sem.replay(ctx, ctx.replay, mode="esc")
    thorough = ctx.tier == "thorough"
    rnd = random.Random(ctx.seed)
    CONC = list(semgen.FLOW_FAMS) + ["conc"]      # + steps that contain goroutines of their own
    k1 = sem.enum_chains(ctx, 1, ["plain", "go"], maxdeco=1, tag="k1", fams=CONC)
    k2 = sem.enum_chains(ctx, 2, ["plain", "go"], maxdeco=1, tag="k2", fams=CONC)
    items = []
    for c in sorted({tuple(c) for c in k1}):
        hasgo = any(d == "go" for _, d in c)
        for sg in (False, True):
            for kg in (False, True):
                if hasgo or sg or kg:
                    items.append((list(c), sg, kg))
    k2go = sorted({tuple(c) for c in k2 if len(c) == 2 and any(d == "go" for _, d in c)})
    nexh = len(items) + (len(k2go) if thorough else 0)
    if not thorough:
        rnd.shuffle(k2go)
        k2go = k2go[:250]
    items += [(list(c), False, False) for c in k2go]
    sim = sem.enum_chains(ctx, 4, ["plain", "go", "then", "helper", "iife"], maxdeco=2, simulate=(3000 if thorough else 400),
                          depth=5, tag="sim")
    # a step skipped on one arm of a branch leaves a nil carrier; dereferencing it on ANOTHER goroutine is a fatal error
    # of the native process (a panic cannot be recovered from outside its goroutine): such chains are left out
    sim = sorted({tuple(c) for c in sim if len(c) >= 3 and any(d == "go" for _, d in c)
                  and not any(d == "then" for _, d in c)})
    rnd.shuffle(sim)
    sim = sim[: (800 if thorough else 60)]
    items += [(list(c), rnd.random() < 0.3, rnd.random() < 0.3) for c in sim]
    # pointers handed over through channels (plain receive and select with a non-pointer case first) with one step,
    # the source or the sink on another goroutine
    chanfam = sem.enum_chains(ctx, 4, ["plain", "go"], maxdeco=1, tag="chanfam", fams=["chan", "field"])
    chanfam = sorted({tuple(c) for c in chanfam if len(c) >= 3 and any(semgen.STEPS[s_][2] == "chan" for s_, _ in c)})
    rnd.shuffle(chanfam)
    chanfam = chanfam[: (len(chanfam) if thorough else 100)]
    items += [(list(c), (not any(d == "go" for _, d in c)) and i % 2 == 0, (not any(d == "go" for _, d in c)) and i % 2 == 1)
              for i, c in enumerate(chanfam)]
    items += [(c, False, False) for c in sem.pinned_chains(ctx.prop)]
    sem.taint_flow_check(ctx, items,
                         lambda it, name: semgen.build_chain(it[0], name=name, src_in_go=it[1], sink_in_go=it[2]),
                         nexh, len(sim), configs=sem.ESC_CONFIGS,
                         prop_what="with use-escape-analysis the analysis reports neither the flow nor the escape of the source for")
