"""C02 -- sanitizers and validators only suppress flows that really pass through them (DESIGN.md section 4, C02).

Same engine as C01; the program space is restricted to chains containing at least one role step (family "role":
sanitizer / validator in every position relative to the branch structure).  GoSem gives sanitize() an untagged
result and marks the tags of a validator's argument as validated on this execution when it returns true / nil;
Obs_Taint demands a report exactly for the flow events whose tag was not validated on that execution."""
import random

import sem
import semgen

FAMS = ["value", "field", "call", "closure", "role", "container", "global", "iface", "defer"]


def run(ctx):
    if ctx.replay:
        return sem.replay(ctx, ctx.replay, mode="taint")
    thorough = ctx.tier == "thorough"
    k1 = sem.enum_chains(ctx, 1, semgen.DECORATIONS, maxdeco=1, tag="k1", needfam="role", fams=FAMS)
    k2 = sem.enum_chains(ctx, 2, ["plain"], maxdeco=0, tag="k2", needfam="role", fams=FAMS)
    chains = {tuple(c) for c in k1} | {tuple(c) for c in k2}
    if thorough:
        k2d = sem.enum_chains(ctx, 2, semgen.DECORATIONS, maxdeco=1, tag="k2d", needfam="role", fams=FAMS)
        chains |= {tuple(c) for c in k2d}
    nexh = len(chains)
    sim = sem.enum_chains(ctx, 4, semgen.DECORATIONS, maxdeco=2, simulate=(4000 if thorough else 600), depth=5,
                          tag="sim", needfam="role", fams=FAMS)
    sim = sorted({tuple(c) for c in sim if len(c) >= 3} - chains)
    rnd = random.Random(ctx.seed)
    rnd.shuffle(sim)
    sim = sim[: (1200 if thorough else 100)]
    items = [list(c) for c in sorted(chains)] + [list(c) for c in sim]
    items += [c for c in sem.pinned_chains(ctx.prop) if list(c) not in items]
    sem.taint_flow_check(ctx, items, lambda ch, name: semgen.build_chain(ch, name=name), nexh, len(sim),
                         prop_what="a sanitizer/validator suppresses a flow that does not pass through it:")
