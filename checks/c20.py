"""C20 -- the analyzer's own parallelism is race-free and order-preserving (DESIGN.md section 4, C20).

Engine CONC.  Three parts, each decided by a TLA+ specification and bound to the real code:

 A. spec/ParMap.tla (PlusCal transcription of funcutil.MapParallel): TLC, exhaustive for every
    len(a) in 0..4 and numRoutines in -1..4 -- ResultOrder, NoSendOnClosed, NoPanic, deadlock freedom,
    termination of every goroutine under weak fairness.  With Hist = TRUE TLC exports every completion
    order of the f calls; harness/cmd/parmap (built with -race) replays each of them on the REAL
    verifhooks.MapParallel with f as the scheduler gate; spec/ParMapObs.tla evaluates the same properties
    on what the real code did.
 B. spec/InitConc.tla (the three parallel initialisation steps: field read/write sets, locks, go / wg.Wait):
    NoRace and termination; spec/BuildGraphConc.tla (BuildGraph with its detached summaries writer): TLC finds the counterexamples
    to NoRace / ReportComplete of the pinned design and proves the synchronous variant; the counterexamples
    are forced on the real goroutines through dataflow.VerifGate / VerifOnSummaryConstructed
    (harness/cmd/taintrace, schedules hold / meet), together with free schedules.
 C. the real taint analysis under the race detector for every combination of report-summaries /
    report-coverage / report-paths / summarize-on-demand over several programs; spec/BuildGraphObs.tla
    decides NoRace, ReportComplete, NoLeak, Returns per run and attributes failures (model variant with a
    detached writer + benign twin) to the known finding or not.

A VIOLATION is only ever printed for behaviour of the real code (race-detector report, wrong result,
truncated report, crash, reproducible hang, goroutine leak).  Timeouts that do not reproduce, TLC problems
and a harness that produced nothing are inconclusive (exit 2).
"""
import json
import os
import random
import re
import shutil
import subprocess
import time
from concurrent.futures import ThreadPoolExecutor

import vlib
from vlib import Inconclusive

KF_ID = "report-summaries-writer-goroutine"
MAXREP = 6          # VIOLATION lines printed per failure kind (all failures are counted in the evidence)
PINNED = os.path.join(vlib.VERIF, "corpus", "pinned", "C20", "writer_goroutine")

STD_PROG = '''package main

import (
IMPORTS)

type rec struct {
	name string
	tags []string
}

func source() string { return "tainted" }
func sink(_ string)  {}

func render(r rec) string {
	return FMT("%s[%s]", strings.ToUpper(r.name), strings.Join(r.tags, ","))
}

func clean(s string) string { return strings.TrimSpace(strings.ReplaceAll(s, "x", "y")) }

func each(xs []string, f func(string) string) []string {
	out := make([]string, 0, len(xs))
	for _, x := range xs {
		out = append(out, f(x))
	}
	return out
}

func main() {
	s := source()
	r := rec{name: s, tags: []string{"a", clean(s)}}
	sink(render(r))
	sink(FMT("%d", len(s)))
	for _, t := range each(r.tags, clean) {
		sink(t)
	}
	var b strings.Builder
	b.WriteString(s)
	sink(b.String())
}
'''

# two variants: "strings" only (quick: ~90 reachable functions) and fmt + strings (thorough: ~600)
STD_LITE = STD_PROG.replace("IMPORTS", '\t"strings"\n').replace("FMT(", "sprintf(") + '''
func sprintf(f string, a ...any) string {
	r := f
	for _, x := range a {
		if s, ok := x.(string); ok {
			r += s
		}
	}
	return r
}
'''
STD_FULL = STD_PROG.replace("IMPORTS", '\t"fmt"\n\t"strings"\n').replace("FMT(", "fmt.Sprintf(")

STD_CFG = '''taint-tracking-problems:
  - sources:
      - package: "(main)|(command-line-arguments)|(c20std)$"
        method: "source"
    sinks:
      - package: "(main)|(command-line-arguments)|(c20std)$"
        method: "sink"
'''


GEN_CFG = '''taint-tracking-problems:
  - sources:
      - package: "(main)|(command-line-arguments)|(c20gen)$"
        method: "source[1-9]?"
    sinks:
      - package: "(main)|(command-line-arguments)|(c20gen)$"
        method: "sink[1-9]?"
'''


def gen_program(rnd, nfun):
    """seeded import-free program: a DAG of small functions (direct calls, closures, globals, methods, interface
    calls), so that the summary worker pool, the on-demand construction and the report writer have work to do"""
    L = ["package main", "", "type box struct{ v string }", "type op interface{ do(string) string }", "var g0, g1, g2 string", "",
         "func source1() string { return \"t\" }", "func source2() string { return \"u\" }",
         "func sink1(_ string)    {}", "func sink2(_ string)    {}", "func f0(s string) string { return s }", ""]
    kinds = ["call", "closure", "global", "method", "iface", "branch", "loop", "two"]
    for i in range(1, nfun):
        j, k = rnd.randrange(0, i), rnd.randrange(0, i)
        kind = rnd.choice(kinds)
        if kind == "call":
            L.append("func f%d(s string) string { return f%d(s) }" % (i, j))
        elif kind == "closure":
            L.append("func f%d(s string) string { h := func(x string) string { return f%d(x + s) }; return h(\"c\") }" % (i, j))
        elif kind == "global":
            L.append("func f%d(s string) string { g%d = f%d(s); return g%d }" % (i, i % 3, j, (i + 1) % 3))
        elif kind == "method":
            L.append("type t%d struct{ b box }" % i)
            L.append("func (t t%d) do(s string) string { return f%d(t.b.v + s) }" % (i, j))
            L.append("func f%d(s string) string { return t%d{box{s}}.do(\"m\") }" % (i, i))
        elif kind == "iface":
            L.append("type u%d struct{}" % i)
            L.append("func (u%d) do(s string) string { return f%d(s) }" % (i, j))
            L.append("func f%d(s string) string { var o op = u%d{}; return o.do(s) }" % (i, i))
        elif kind == "branch":
            L.append("func f%d(s string) string { if len(s) > %d { return f%d(s) }; return f%d(\"k\") }" % (i, i % 4, j, k))
        elif kind == "loop":
            L.append("func f%d(s string) string { r := \"\"; for i := 0; i < 2; i++ { r += f%d(s) }; return r }" % (i, j))
        else:
            L.append("func f%d(s string) string { return f%d(s) + f%d(s) }" % (i, j, k))
    L.append("")
    L.append("func main() {")
    for t in range(6):
        a, b = rnd.randrange(nfun // 2, nfun), rnd.randrange(1, 3)
        L.append("\tsink%d(f%d(source%d()))" % (b, a, rnd.randrange(1, 3)))
    L.append("\tsink1(g0 + g1 + g2)")
    L.append("}")
    return "\n".join(L) + "\n"


# ------------------------------------------------------------------------------------------------ helpers

def parse_marked(text):
    """Split the stderr of a harness process by its 'C20RUN begin/end <key>' markers.
    Returns (per_key, outside): per_key[key] = {races: [report text], ended: bool, tail: str}."""
    per = {}
    outside = []
    cur = None
    last = None          # a report printed between two runs belongs to the run that has just ended (left-over goroutine)
    rep = None
    for line in text.splitlines():
        m = re.match(r"C20RUN (begin|end) (.+)$", line)
        if m:
            if m.group(1) == "begin":
                cur = m.group(2)
                per[cur] = {"races": [], "ended": False, "tail": ""}
            else:
                if m.group(2) in per:
                    per[m.group(2)]["ended"] = True
                last = m.group(2)
                cur = None
            continue
        if line.startswith("WARNING: DATA RACE"):
            rep = [line]
            k = cur if cur in per else last
            (per[k]["races"] if k in per else outside).append(rep)
            continue
        if rep is not None:
            if line.startswith("=================="):
                rep = None
            else:
                rep.append(line)
            continue
        if cur in per and not line.startswith("=================="):
            per[cur]["tail"] += line + "\n"
    for v in per.values():
        v["races"] = ["\n".join(r) for r in v["races"]]
    return per, ["\n".join(r) for r in outside]


def writer_race(report):
    """one of the two goroutines of the report was created by BuildGraph (the summaries writer)"""
    return re.search(r"created at:\n\s+\S*\(\*InterProceduralFlowGraph\)\.BuildGraph\(\)", report) is not None


def known_entry(ctx):
    """the committed known-findings entry (known_findings.json, assembled from known_findings.d/*.json)"""
    e = ctx.known_entry(KF_ID)
    if e is None:
        p = os.path.join(vlib.VERIF, "known_findings.d", "C20.json")
        if os.path.exists(p):
            for x in json.load(open(p)):
                if x.get("id") == KF_ID:
                    e = x
    return e


def race_env():
    e = vlib.goenv()
    e["GORACE"] = "halt_on_error=0 history_size=5"
    return e


# ------------------------------------------------------------------------------------------------ part A

PARMAP_INV = "INVARIANTS ResultOrder NoSendOnClosed NoPanic WgNonNegative OnlyAfterAll\n"


def parmap_cfg(n, w, hist, live):
    wline = " W = %d\n" % w if w >= 0 else " W <- MinusOne\n"
    s = "SPECIFICATION Spec\nCONSTANTS N = %d\n%s Hist = %s\n" % (n, wline, "TRUE" if hist else "FALSE")
    s += PARMAP_INV
    if hist:
        s += "CONSTRAINT CollectSchedules\nPOSTCONDITION WriteSchedules\n"
    if live:
        s += "PROPERTIES Returns NoLeak\n"
    return s


def small(n, w):
    """pairs whose state space with the history variable is small enough to check liveness in the same run"""
    return n <= 2 or w <= 2 or (n == 3 and w <= 3)


def tlc_parmap(ctx, n, w, hist, simulate=None, seed=None, timeout=2400):
    tag = "pm-%s-n%d-w%d%s" % ("hist" if hist else "mc", n, w + 1, "-sim" if simulate else "")
    name = "ParMap_%s.cfg" % tag
    big = (n >= 4 and (w >= 3)) or n >= 5
    live = (not hist) or (small(n, w) and not simulate)
    r = ctx.tlc_must_pass("ParMap", cfg=name, data={name: parmap_cfg(n, w, hist, live)}, subdir=tag, timeout=timeout,
                          workers=(2 if big and not hist else 1), xmx="6g" if big else "2g", simulate=simulate,
                          depth=(400 if simulate else None), seed=seed)
    out = {"n": n, "w": w, "hist": hist, "live": live, "sim": bool(simulate), "distinct": r.distinct,
           "generated": r.generated, "scheds": []}
    if hist:
        p = os.path.join(r.dir, "schedules.ndjson")
        if "PARMAP_SCHEDULES" not in r.out or not os.path.exists(p):
            raise Inconclusive("ParMap.tla did not export schedules for N=%d W=%d:\n%s" % (n, w, r.out[-2000:]))
        out["scheds"] = [x["order"] for x in vlib.read_ndjson(p)]
    return out


def run_parmap_batch(ctx, exe, scheds, tag, step_timeout="30s"):
    """replay schedules on the real MapParallel; returns records (one per schedule) with races/crashed added"""
    d = os.path.join(ctx.work, "parmap-" + tag)
    os.makedirs(d, exist_ok=True)
    sf = os.path.join(d, "schedules.ndjson")
    open(sf, "w").write(vlib.ndjson(scheds))
    runs = os.path.join(d, "runs.ndjson")
    start = min(s["id"] for s in scheds)
    last = max(s["id"] for s in scheds)
    recs = {}
    byid = {s["id"]: s for s in scheds}
    launches = 0
    while start <= last:
        launches += 1
        if launches > 60:
            raise Inconclusive("parmap harness restarted too often")
        if os.path.exists(runs):
            os.remove(runs)
        try:
            p = subprocess.run([exe, "-schedules", sf, "-out", runs, "-from", str(start), "-timeout", step_timeout],
                               env=race_env(), stdout=subprocess.PIPE, stderr=subprocess.PIPE, text=True,
                               timeout=900)
        except subprocess.TimeoutExpired:
            raise Inconclusive("parmap harness did not finish (batch %s from %d)" % (tag, start))
        per, outside = parse_marked(p.stderr)
        got = vlib.read_ndjson(runs) if os.path.exists(runs) else []
        for r in got:
            k = str(r["id"])
            r["races"] = len(per.get(k, {}).get("races", []))
            r["race_text"] = "\n\n".join(per.get(k, {}).get("races", []))
            r["crashed"] = False
            recs[r["id"]] = r
        if outside:
            # a report outside every schedule window: attribute it to the last schedule that ran
            if got:
                recs[got[-1]["id"]]["races"] += len(outside)
                recs[got[-1]["id"]]["race_text"] += "\n\n".join(outside)
        if p.returncode in (0, 66):
            break
        # which schedule was running?
        running = [int(k) for k, v in per.items() if not v["ended"]]
        if p.returncode == 3 and got:            # stuck: its record was written
            start = got[-1]["id"] + 1
            if sum(1 for r in recs.values() if r["stuck"]) >= 3:
                break                            # the pool hangs again and again: enough evidence, do not wait for the rest
            continue
        if running:
            k = running[-1]
            s = byid[k]
            recs[k] = {"id": k, "n": s["n"], "w": s["w"], "a": s["a"], "order": s["order"], "gated": s["gated"],
                       "forder": [], "returned": False, "res": [], "seq": [], "gbase": 0, "gafter": 0, "fgor": 0,
                       "oncaller": False, "maxcalls": 0, "mincalls": 0,
                       "stuck": "crash: " + (per[str(k)]["tail"].strip().splitlines() or ["?"])[0],
                       "races": len(per[str(k)]["races"]), "race_text": "\n\n".join(per[str(k)]["races"]),
                       "crashed": True, "crash_text": per[str(k)]["tail"][-6000:]}
            start = k + 1
            continue
        raise Inconclusive("parmap harness failed (rc=%d):\n%s" % (p.returncode, p.stderr[-3000:]))
    missing = [s["id"] for s in scheds if s["id"] not in recs]
    if missing and sum(1 for r in recs.values() if r["stuck"]) < 3:
        raise Inconclusive("parmap harness produced no record for schedules %s" % missing[:5])
    return [recs[s["id"]] for s in scheds if s["id"] in recs]


def part_a(ctx, bins_future, pool, rnd):
    thorough = ctx.tier == "thorough"
    maxn_mc = 5 if thorough else 4
    ws = [-1, 0, 1, 2, 3, 4] + ([5] if thorough else [])
    jobs = []
    todo = []
    # safety + liveness for every pair; with the history variable (schedule export) for len(a) <= 4, numRoutines <= 4.
    # Small pairs: one run does both; large pairs: liveness without the history variable, export without liveness.
    def in_range(n, w):
        # thorough adds len(a) = 5 (numRoutines <= 3) and numRoutines = 5 (len(a) <= 3); larger pairs do not fit the budget
        return not ((n == 5 and w >= 4) or (w == 5 and n >= 4))

    for n in range(0, maxn_mc + 1):
        for w in ws:
            if not in_range(n, w):
                continue
            # quick: the 24 orders of (4, 4) cost 1.8 M states of the 2.6 M of the whole tier: simulated there
            exported = n <= 4 and w <= 4 and (thorough or (n, w) != (4, 4))
            if not (exported and small(n, w)):
                todo.append((n, w, False))
            if exported:
                todo.append((n, w, True))
    todo.sort(key=lambda x: -(x[0] * 10 + max(x[1], 1)) * (3 if x[2] else 1))      # the big ones first
    for n, w, h in todo:
        jobs.append(pool.submit(tlc_parmap, ctx, n, w, h))
    # longer inputs: seeded simulation of the same model
    sims = [(6, 3), (8, 4)] + ([(7, 2), (10, 5), (12, 3), (9, 8)] if thorough else [(4, 4)])
    for k, (n, w) in enumerate(sims):
        jobs.append(pool.submit(tlc_parmap, ctx, n, w, True, "num=%d" % (400 if thorough else 60), ctx.seed + k))
    res = [j.result() for j in jobs]
    mc = [r for r in res if r["live"]]
    hist = [r for r in res if r["hist"]]
    pairs_live = {(r["n"], r["w"]) for r in mc}
    want = {(n, w) for n in range(0, maxn_mc + 1) for w in ws if in_range(n, w)}
    if want - pairs_live:
        raise Inconclusive("liveness was not checked for %s" % sorted(want - pairs_live))

    scheds = []
    sid = 0
    seen = set()
    nexh = 0
    for r in sorted(hist, key=lambda x: (x["sim"], x["n"], x["w"])):
        if not r["sim"]:
            nexh += len(r["scheds"])
        orders = sorted(map(tuple, r["scheds"]))
        for o in orders:
            key = (r["n"], r["w"], o)
            if key in seen:
                continue
            seen.add(key)
            a = [rnd.randrange(0, 5) for _ in range(r["n"])]            # duplicates on purpose
            scheds.append({"id": sid, "n": r["n"], "w": r["w"], "a": a, "order": list(o), "gated": True,
                           "noise": rnd.randrange(1 << 30)})
            sid += 1
    ngated = len(scheds)
    # free-running stress runs (no gate): many natural interleavings under the race detector
    for n, w in [(0, 0), (1, 16), (50, 3), (200, 16), (64, -1), (300, 7)] + ([(2000, 32), (500, 1)] if thorough else []):
        for rep in range(4 if thorough else 2):
            scheds.append({"id": sid, "n": n, "w": w, "a": [rnd.randrange(0, 1000) for _ in range(n)], "order": [],
                           "gated": False, "noise": rnd.randrange(1 << 30)})
            sid += 1
    if nexh < 60:
        raise Inconclusive("ParMap.tla exported only %d schedules" % nexh)

    bins = bins_future.result()
    nb = 4
    batches = [scheds[i::nb] for i in range(nb)]
    outs = list(pool.map(lambda ib: run_parmap_batch(ctx, bins["parmap"], ib[1], "b%d" % ib[0]),
                         [(i, b) for i, b in enumerate(batches) if b]))
    recs = [r for o in outs for r in o]

    # a stuck replay is a deadlock only if the model says the schedule terminates (it does: Returns/NoLeak hold
    # for every N, W) and the hang reproduces
    flaky = []
    unconfirmed = []
    confirmed = 0
    for r in list(recs):
        if r["stuck"] and not r["crashed"]:
            if confirmed >= 3:
                unconfirmed.append(r["id"])          # enough reproduced hangs already: do not wait for more
                recs.remove(r)
                continue
            s = next(x for x in scheds if x["id"] == r["id"])
            again = [run_parmap_batch(ctx, bins["parmap"], [s], "retry%d-%d" % (r["id"], k), "60s")[0] for k in range(2)]
            if all(x["stuck"] for x in again):
                confirmed += 1
                continue
            flaky.append(r["id"])
            good = next(x for x in again if not x["stuck"])
            recs[recs.index(r)] = good
    ctx.extra["parmap_hangs_not_rechecked"] = unconfirmed
    ctx.extra["parmap_timeouts_not_reproduced"] = flaky

    strip = [{k: v for k, v in r.items() if k not in ("race_text", "crash_text")} for r in recs]
    t = ctx.tlc_must_pass("ParMapObs", data={"runs.ndjson": vlib.ndjson(strip)}, subdir="parmapobs", timeout=900,
                          deadlock=False)
    fp = os.path.join(t.dir, "parmap_fail.ndjson")
    if "PARMAPOBS_RESULT" not in t.out or not os.path.exists(fp):
        raise Inconclusive("ParMapObs.tla did not reach its postcondition:\n" + t.out[-3000:])
    fails = vlib.read_ndjson(fp)
    byid = {r["id"]: r for r in recs}
    drift = []
    reported = set()
    perkind = {}
    for f in sorted(fails, key=lambda x: (x["n"], x["id"])):
        r = byid[f["id"]]
        if f["kind"] == "drift":
            drift.append({k: r[k] for k in ("id", "n", "w", "order", "forder", "fgor", "maxcalls", "mincalls", "oncaller")})
            continue
        key = "parmap/%s/n%d/w%d/%s" % (f["kind"], r["n"], r["w"], ",".join(map(str, r["order"])) if r["gated"] else "free")
        if key in reported:
            continue
        reported.add(key)
        perkind[f["kind"]] = perkind.get(f["kind"], 0) + 1
        if perkind[f["kind"]] > MAXREP:
            continue                       # counted in the evidence, not printed again
        what = {
            "order": "MapParallel(a=%s, numRoutines=%d) under completion order %s returned %s; the sequential Map returns %s"
                     % (r["a"][:12], r["w"], (r["order"] if r["gated"] else "(free)"), r["res"][:12], r["seq"][:12]),
            "noreturn": "MapParallel(len(a)=%d, numRoutines=%d) under completion order %s did not return: %s"
                        % (r["n"], r["w"], (r["order"] if r["gated"] else "(free)"), r["stuck"]),
            "leak": "MapParallel(len(a)=%d, numRoutines=%d) under completion order %s left goroutines behind: %d before, %d after"
                    % (r["n"], r["w"], (r["order"] if r["gated"] else "(free)"), r["gbase"], r["gafter"]),
            "race": "race detector report during MapParallel(len(a)=%d, numRoutines=%d), completion order %s"
                    % (r["n"], r["w"], (r["order"] if r["gated"] else "(free)")),
        }[f["kind"]]
        sch = next(x for x in scheds if x["id"] == r["id"])
        ctx.violation(what, {"replay.json": {"kind": "parmap", "schedule": sch}, "record.json": r,
                             "race_report.txt": r.get("race_text", ""), "crash.txt": r.get("crash_text", "")}, key=key)
    ctx.extra["wall_part_a_s"] = round(time.time() - ctx.t0, 1)
    ctx.traces += len(recs)
    if recs:
        ctx.sample({"parmap_schedule": scheds[min(len(scheds) - 1, 40)],
                    "record": {k: v for k, v in recs[min(len(recs) - 1, 40)].items() if k != "race_text"}})
    ctx.extra.update({
        "parmap_safety_liveness_states": {"N%d_W%d" % (r["n"], r["w"]): r["distinct"] for r in mc},
        "parmap_export_states": {"N%d_W%d" % (r["n"], r["w"]): r["distinct"] for r in hist if not r["sim"]},
        "parmap_schedules_exhaustive": nexh, "parmap_schedules_simulated": ngated - nexh, "parmap_replays": len(recs),
        "parmap_spec_drift": drift[:10], "parmap_failures_by_kind": perkind,
    })
    return nexh, len(recs)


# ------------------------------------------------------------------------------------------------ part B

def bg_cfg(extra, detached, rs, od, invs):
    b = lambda x: "TRUE" if x else "FALSE"
    return ("SPECIFICATION Spec\nCONSTANTS Sums = {\"s1\", \"s2\"}\n Extra = %s\n Detached = %s\n ReportSummaries = %s\n"
            " OnDemand = %s\nINVARIANTS %s\nPROPERTIES Finishes\n" % (extra, b(detached), b(rs), b(od), invs))


def part_b(ctx):
    """the model of BuildGraph: counterexamples of the pinned design, proof of the other variants"""
    ALL = "NoRace ReportComplete ReportCompleteAtClose NothingLost"
    variants = [
        # tag, cfg, expectation (None = holds), what the final state of the counterexample must look like
        ("step3", bg_cfg('{"p1"}', True, True, False, "NoRace"), "NoRace", None),
        ("meet", bg_cfg("{}", True, True, True, "NoRace"), "NoRace", r'main \|-> "b6a?"'),
        ("hold", bg_cfg('{"p1"}', True, True, True, "ReportComplete"), "ReportComplete", r'writer \|-> "w[01]"'),
        ("sync", bg_cfg('{"p1"}', False, True, True, ALL), None, None),
        ("off", bg_cfg('{"p1"}', True, False, True, ALL), None, None),
        ("eager-nostd", bg_cfg("{}", True, True, False, "NoRace"), None, None),
    ]
    out = {}
    for tag, cfg, expect, shape in variants:
        name = "BuildGraphConc_%s.cfg" % tag
        r = ctx.tlc("BuildGraphConc", cfg=name, data={name: cfg}, subdir="bg-" + tag, timeout=600)
        if expect is None:
            if not r.ok:
                raise Inconclusive("BuildGraphConc variant %s should satisfy its invariants:\n%s" % (tag, r.out[-3000:]))
            out[tag] = "holds (%d states)" % r.distinct
        else:
            if "Invariant %s is violated" % expect not in r.out:
                raise Inconclusive("BuildGraphConc variant %s: TLC did not find the expected counterexample to %s:\n%s"
                                   % (tag, expect, r.out[-3000:]))
            last_pc = re.findall(r"/\\ pc = \[(.*?)\]", r.out)
            if shape and not (last_pc and re.search(shape, last_pc[-1])):
                raise Inconclusive("BuildGraphConc counterexample %s has an unexpected shape: %s" % (tag, last_pc[-1:]))
            out[tag] = "counterexample to %s, final pc [%s]" % (expect, last_pc[-1] if last_pc else "?")
            open(os.path.join(ctx.work, "cex-%s.txt" % tag), "w").write(r.out)
    ctx.extra["buildgraph_model"] = out
    # the three parallel initialisation steps of the analyzer state (read/write sets, locks, go / wg.Wait)
    r = ctx.tlc_must_pass("InitConc", subdir="initconc", timeout=900)
    ctx.extra["initconc_model"] = "NoRace, WgNonNegative, Joins hold (%d states)" % r.distinct
    return out


# ------------------------------------------------------------------------------------------------ part C

ALL16 = ["%s" % format(i, "04b") for i in range(16)]
OD8 = [c for c in ALL16 if c[3] == "1"]


def prepare_programs(ctx, rnd):
    root = os.path.join(ctx.work, "progs")
    os.makedirs(root, exist_ok=True)
    progs = {}

    def add(name, src):
        dst = os.path.join(root, name)
        shutil.copytree(src, dst)
        if not os.path.exists(os.path.join(dst, "go.mod")):
            open(os.path.join(dst, "go.mod"), "w").write("module %s\n\ngo 1.22\n" % name.replace("-", "_"))
        progs[name] = dst

    add("pinned", PINNED)
    td = os.path.join(vlib.REPO, "analysis", "taint", "testdata")
    light = ["closures_paper", "tuples"]
    heavy = ["defers", "example1", "builtins"] if ctx.tier == "thorough" else []      # single-package, fmt/strings/strconv users
    for n in light + heavy:
        src = os.path.join(td, n)
        if os.path.isdir(src) and not any(os.path.isdir(os.path.join(src, x)) for x in os.listdir(src)):
            add(n, src)
    stds = []
    for name, src in [("c20std", STD_LITE)] + ([("c20stdfmt", STD_FULL)] if ctx.tier == "thorough" else []):
        d = os.path.join(root, name)
        os.makedirs(d)
        open(os.path.join(d, "main.go"), "w").write(src)
        open(os.path.join(d, "config.yaml"), "w").write(STD_CFG)
        open(os.path.join(d, "go.mod"), "w").write("module c20std\n\ngo 1.22\n")
        progs[name] = d
        stds.append(name)
    gens = []
    for k in range(3 if ctx.tier == "thorough" else 1):
        name = "c20gen%d" % k
        d = os.path.join(root, name)
        os.makedirs(d)
        open(os.path.join(d, "main.go"), "w").write(gen_program(rnd, 40 + 30 * k))
        open(os.path.join(d, "config.yaml"), "w").write(GEN_CFG)
        open(os.path.join(d, "go.mod"), "w").write("module c20gen\n\ngo 1.22\n")
        progs[name] = d
        gens.append(name)
    return progs, ["pinned"] + gens + [n for n in light if n in progs], stds + [n for n in heavy if n in progs]


def dead_record(k, name, mode, combo, info, timed_out, timeout):
    """record of a run during which the process died (fatal error / panic) or hung twice"""
    fatal = bool(re.search(r"fatal error: concurrent map|^panic: |fatal error:", info["tail"], re.M))
    return {"key": k, "prog": name, "mode": mode, "rep": int(k.split("/")[3]), "sum": combo[0] == "1",
            "cov": combo[1] == "1", "paths": combo[2] == "1", "ondemand": combo[3] == "1", "returned": False,
            "err": "", "detached": False, "writers": 0, "ended": 0, "heldout": 0, "mainheld": 0,
            "mainout": False, "expected": [], "atreturn": [], "after": [], "sumfiles": 0, "timesrows": 0,
            "covfiles": 0, "flowfiles": 0, "flowsbad": 0, "pairs": 0, "gbase": 0, "gafter": 0, "ms": 0,
            "races": len(info["races"]), "wraces": sum(1 for x in info["races"] if writer_race(x)),
            "fatal": fatal, "race_text": "\n\n".join(info["races"]),
            "crash_text": ("(no output for %ds, twice)\n" % timeout if timed_out else "") + info["tail"][-6000:]}


def run_taintrace(ctx, exe, name, pdir, mode, combos, reps, seed, timeout):
    """one harness process per (program, schedule); restarts after a crash; returns records with races attached"""
    tag = "%s-%s" % (name, mode)
    d = os.path.join(ctx.work, "tr-" + tag)
    os.makedirs(d, exist_ok=True)
    todo = list(combos)
    recs = []
    hung = []
    launches = 0
    while todo:
        launches += 1
        if launches > 8:
            raise Inconclusive("taintrace restarted too often for %s" % tag)
        out = os.path.join(d, "runs-%d.ndjson" % launches)
        cmd = [exe, "-dir", pdir, "-name", name, "-mode", mode, "-combos", ",".join(todo), "-reps", str(reps),
               "-out", out, "-reports", os.path.join(d, "reports"), "-seed", str(seed)]
        timed_out = False
        try:
            p = subprocess.run(cmd, env=race_env(), stdout=subprocess.DEVNULL, stderr=subprocess.PIPE, text=True,
                               timeout=timeout)
            err, rc = p.stderr, p.returncode
        except subprocess.TimeoutExpired as e:
            timed_out = True
            err = e.stderr.decode("utf8", "replace") if isinstance(e.stderr, bytes) else (e.stderr or "")
            rc = -1
        open(os.path.join(d, "stderr-%d.txt" % launches), "w").write(err)
        per, outside = parse_marked(err)
        got = vlib.read_ndjson(out) if os.path.exists(out) else []
        for r in got:
            info = per.get(r["key"], {"races": []})
            r["races"] = len(info["races"])
            r["wraces"] = sum(1 for x in info["races"] if writer_race(x))
            r["fatal"] = False
            r["race_text"] = "\n\n".join(info["races"])
            recs.append(r)
        if outside:
            raise Inconclusive("race report before the first run of %s (while loading the program?):\n%s"
                               % (tag, outside[0][:3000]))
        if rc in (0, 66) and not timed_out:
            break
        running = [k for k, v in per.items() if not v["ended"]]
        if not running:
            raise Inconclusive("taintrace failed for %s (rc=%s):\n%s" % (tag, rc, err[-3000:]))
        k = running[-1]
        combo = k.split("/")[2]
        if k.split("/")[1] == "pre":
            # the pre-pass (real initialisation + summary pool, no report option) died or hung
            if timed_out:
                raise Inconclusive("taintrace pre-pass of %s produced nothing for %ds" % (tag, timeout))
            info = per[k]
            recs.append(dead_record(k, name, "pre", "0000", info, False, timeout))
            break
        if timed_out:
            hung.append(k)
            if hung.count(k) < 2 and len([h for h in hung if h.split("/")[2] == combo]) < 2:
                todo = [combo] + todo[todo.index(combo) + 1:]      # try the same combination once more
                continue
        recs.append(dead_record(k, name, mode, combo, per[k], timed_out, timeout))
        todo = todo[todo.index(combo) + 1:]
    flaky = [k for k in set(hung) if not any(r["key"] == k and not r["returned"] for r in recs)]
    return recs, flaky


def part_c(ctx, bins_future, pool, rnd):
    thorough = ctx.tier == "thorough"
    progs, light, heavy = prepare_programs(ctx, rnd)
    bins = bins_future.result()
    exe = bins["taintrace"]
    jobs = []
    T = 3000 if thorough else 1800
    # heavy (std-using) programs first: they take longest
    for name in heavy:
        if thorough:
            jobs.append((name, "free", ALL16, 1))
            jobs.append((name, "hold", ["0000", "1000", "0001", "1001", "1111", "0111"], 1))
            jobs.append((name, "meet", ["0001", "1001", "0111", "1111"], 2))
        else:
            jobs.append((name, "free", ["0000", "1000", "1001", "0001"], 1))
            jobs.append((name, "hold", ["0000", "1000"], 1))
    for name in light:
        jobs.append((name, "hold", ALL16, 1))
        jobs.append((name, "meet", OD8, 6 if thorough else 2))
        jobs.append((name, "free", ALL16, 6 if thorough else 1))
    futs = [pool.submit(run_taintrace, ctx, exe, n, progs[n], m, c, reps, ctx.seed * 1000 + k, T)
            for k, (n, m, c, reps) in enumerate(jobs)]
    recs = []
    flaky = []
    for f in futs:
        r, fl = f.result()
        recs += r
        flaky += fl
    ctx.extra["analysis_timeouts_not_reproduced"] = flaky
    if not recs:
        raise Inconclusive("taintrace produced no run")
    sums = [r for r in recs if r["sum"] and r["returned"]]
    if not sums or all(r["sumfiles"] == 0 for r in sums):
        raise Inconclusive("no run with report-summaries produced a summaries report: dead driver")
    if all(not r["expected"] for r in sums):
        raise Inconclusive("no expected summaries were computed: dead driver")
    unenforced = [r["key"] for r in recs if r["mode"] == "hold" and r["heldout"] > 0]
    ctx.extra["hold_schedules_not_enforced"] = unenforced

    strip = [{k: v for k, v in r.items() if k not in ("race_text", "crash_text", "err")} for r in recs]
    t = ctx.tlc_must_pass("BuildGraphObs", data={"tr_runs.ndjson": vlib.ndjson(strip)}, subdir="buildgraphobs",
                          timeout=1200, deadlock=False, xmx="6g")
    fp = os.path.join(t.dir, "buildgraph_fail.ndjson")
    if "BUILDGRAPHOBS_RESULT" not in t.out or not os.path.exists(fp):
        raise Inconclusive("BuildGraphObs.tla did not reach its postcondition:\n" + t.out[-3000:])
    fails = vlib.read_ndjson(fp)
    bykey = {r["key"]: r for r in recs}
    kf = known_entry(ctx)
    kf_known = bool(kf) and kf.get("status") == "known"
    known_hits = {"incomplete": 0, "race": 0}
    reported = set()
    perkind = {}
    for f in sorted(fails, key=lambda x: x["key"]):
        r = bykey[f["key"]]
        combo = "".join("1" if r[k] else "0" for k in ("sum", "cov", "paths", "ondemand"))
        if f["attrib"] == "writer" and kf_known:
            known_hits[f["kind"]] += 1
            continue
        key = "analysis/%s/%s/%s/%s" % (f["kind"], r["prog"], r["mode"], combo)
        if key in reported:
            continue
        reported.add(key)
        perkind[f["kind"]] = perkind.get(f["kind"], 0) + 1
        if perkind[f["kind"]] > MAXREP:
            continue                       # counted in the evidence, not printed again
        opts = "report-summaries=%s report-coverage=%s report-paths=%s summarize-on-demand=%s" % (
            r["sum"], r["cov"], r["paths"], r["ondemand"])
        what = {
            "race": "taint.Analyze on program %s (%s, schedule %s): %d race-detector report(s)%s"
                    % (r["prog"], opts, r["mode"], r["races"], ", process died: fatal error" if r["fatal"] else ""),
            "incomplete": "taint.Analyze on program %s (%s, schedule %s) returned with an incomplete summaries report: "
                          "%d of %d summaries that exist before BuildGraph are in the file"
                          % (r["prog"], opts, r["mode"], len(set(r["expected"]) & set(r["atreturn"])), len(r["expected"])),
            "noreturn": "taint.Analyze on program %s (%s, schedule %s) did not return (crash or reproducible hang)"
                        % (r["prog"], opts, r["mode"]),
            "leak": "taint.Analyze on program %s (%s, schedule %s) left goroutines behind: %d before, %d after"
                    % (r["prog"], opts, r["mode"], r["gbase"], r["gafter"]),
            "times": "summary-times report of program %s (%s) has %d rows for %d summaries when the analysis returns"
                     % (r["prog"], opts, r["timesrows"], len(r["expected"])),
            "flows": "report-paths files of program %s (%s): %d files, %d malformed, %d flows"
                     % (r["prog"], opts, r["flowfiles"], r["flowsbad"], r["pairs"]),
        }[f["kind"]]
        if f["attrib"] == "writer":
            what += " [summaries-writer goroutine of BuildGraph; not listed as a known finding]"
        files = {"replay.json": {"kind": "taintrace", "prog": r["prog"], "mode": r["mode"], "combo": combo},
                 "record.json": {k: v for k, v in r.items() if k not in ("race_text", "crash_text")},
                 "race_report.txt": r.get("race_text", ""), "crash.txt": r.get("crash_text", "")}
        pd = progs.get(r["prog"])
        if pd:
            for fn in os.listdir(pd):
                if fn.endswith((".go", ".yaml", ".mod")):
                    files["program/" + fn] = open(os.path.join(pd, fn)).read()
        ctx.violation(what, files, key=key)
    if known_hits["incomplete"] or known_hits["race"]:
        pin = [f for f in fails if f["prog"] == "pinned" and f["attrib"] == "writer"]
        ctx.known(KF_ID, "%s: report-summaries=true -> BuildGraph's detached writer goroutine (inter_procedural.go) -- "
                         "summaries report incomplete when the analysis returns in %d run(s), race-detector reports "
                         "involving that goroutine in %d run(s); pinned input %s %s; twin runs without report-summaries are clean"
                  % (KF_ID, known_hits["incomplete"], known_hits["race"], os.path.relpath(PINNED, vlib.VERIF),
                     "fails" if pin else "passes"))
    elif kf and kf.get("status") == "fixed":
        pass  # nothing to suppress; a failure would have been reported above
    ctx.extra["wall_part_c_s"] = round(time.time() - ctx.t0, 1)
    ctx.traces += len(recs)
    det = sorted({r["detached"] for r in sums})
    ctx.extra.update({
        "analysis_runs": len(recs), "analysis_programs": sorted(progs),
        "analysis_runs_by_schedule": {m: sum(1 for r in recs if r["mode"] == m) for m in ("pre", "free", "hold", "meet")},
        "writer_detached_observed": det, "known_finding_runs": known_hits,
        "analysis_failures_by_kind": {k: sum(1 for f in fails if f["kind"] == k) for k in sorted({f["kind"] for f in fails})},
        "race_reports_total": sum(r["races"] for r in recs),
    })
    smp = next((r for r in recs if r["sum"] and r["mode"] == "hold"), recs[0])
    ctx.sample({"analysis_run": {k: (v if not isinstance(v, list) else v[:3]) for k, v in smp.items()
                                 if k not in ("race_text", "crash_text", "err")}})
    return len(recs)


# ------------------------------------------------------------------------------------------------ replay

def replay(ctx):
    """./check C20 --replay <dir>: re-run the schedule / run of a reported violation three times"""
    spec = json.load(open(os.path.join(ctx.replay, "replay.json")))
    ctx.finish = lambda **kw: None            # a replay must not overwrite the evidence of the last full run
    bins = ctx.build(["parmap", "taintrace"], race=True)
    if spec["kind"] == "parmap":
        s = dict(spec["schedule"])
        for k in range(3):
            s["id"] = k
            r = run_parmap_batch(ctx, bins["parmap"], [s], "replay%d" % k)[0]
            print(json.dumps({x: r[x] for x in ("order", "forder", "returned", "res", "seq", "gbase", "gafter", "races", "stuck")}))
            if r.get("race_text"):
                print(r["race_text"])
            if not r["returned"] or r["res"] != r["seq"] or r["races"] or r["gafter"] > r["gbase"]:
                ctx.violation("replayed: " + open(os.path.join(ctx.replay, "README")).read().strip(), key="replay")
                return
    else:
        d = os.path.join(ctx.work, "replayprog")
        os.makedirs(d)
        pd = os.path.join(ctx.replay, "program")
        for fn in os.listdir(pd):
            shutil.copy(os.path.join(pd, fn), d)
        recs, _ = run_taintrace(ctx, bins["taintrace"], spec["prog"], d, spec["mode"], [spec["combo"]], 3, ctx.seed, 1200)
        for r in recs:
            print(json.dumps({x: r[x] for x in ("key", "returned", "detached", "races", "wraces", "gbase", "gafter")}),
                  len(r["expected"]), len(r["atreturn"]))
            if r.get("race_text"):
                print(r["race_text"][:4000])
        if any((not r["returned"]) or r["races"] or not set(r["expected"]) <= set(r["atreturn"]) for r in recs):
            ctx.violation("replayed: " + open(os.path.join(ctx.replay, "README")).read().strip(), key="replay")


# ------------------------------------------------------------------------------------------------ main

def run(ctx):
    if ctx.replay:
        return replay(ctx)
    rnd = random.Random(ctx.seed)
    t0 = time.time()
    nproc = max(2, int(os.environ.get("VERIF_NPROC", "4")))       # the machine is shared: at most 4 processes of ours at a time
    # every TLC run here is small: keep each JVM to a few threads (16-core default: 13 GC + 12 JIT threads per JVM)
    os.environ.setdefault("JAVA_TOOL_OPTIONS", "-XX:ParallelGCThreads=2 -XX:CICompilerCount=2")
    half = max(1, nproc // 2)

    def build():
        old = os.environ.get("GOMAXPROCS")
        os.environ["GOMAXPROCS"] = str(nproc)                     # go build -p defaults to GOMAXPROCS
        try:
            return ctx.build(["parmap", "taintrace"], True)
        finally:
            if old is None:
                os.environ.pop("GOMAXPROCS", None)
            else:
                os.environ["GOMAXPROCS"] = old

    with ThreadPoolExecutor(max_workers=1) as bpool, ThreadPoolExecutor(max_workers=half) as pool_a, \
            ThreadPoolExecutor(max_workers=nproc - half) as pool_c:
        bins_future = bpool.submit(build)
        parts = os.environ.get("VERIF_C20_PARTS", "ABC").upper()      # development knob (mutation runs); default: everything
        if "B" in parts:
            part_b(ctx)
        # the real analysis runs are the long pole: they start as soon as the build is there, next to the TLC runs
        with ThreadPoolExecutor(max_workers=2) as top:
            fa = top.submit(part_a, ctx, bins_future, pool_a, rnd) if "A" in parts else None
            fc = top.submit(part_c, ctx, bins_future, pool_c, random.Random(ctx.seed + 1)) if "C" in parts else None
            nexh, nrep = fa.result() if fa else (0, 0)
            nruns = fc.result() if fc else 0
        if parts != "ABC":
            ctx.extra["partial_run"] = parts
    ctx.assumptions += [
        "the Go race detector reports the unsynchronised accesses of the schedules that were executed (no claim for others)",
        "the completion order of the f calls, forced through f itself, is the schedule dimension of MapParallel that is "
        "controllable from outside; other interleavings are left to the Go scheduler (seeded Gosched noise, free runs)",
        "expected content of the summaries report = the summaries that exist before BuildGraph (weakest reading of "
        "'complete'); 'when the analysis returns' = when taint.Analyze returns",
        "TLC, the Go runtime and its race detector are trusted",
    ]
    ctx.extra["explanation"] = ("states = ParMap model checking (all N, W) + schedule export + BuildGraphConc variants + one "
                                "state per replayed schedule / analysis run in the observation specs")
    ctx.finish_args = dict(exhaustive=True, evaluations=nrep + nruns, distinct=nexh + nruns,
                           rule="ParMap: every completion order of the f calls for len(a) in 0..4 x numRoutines in -1..4 "
                                "(TLC-exported, replayed on the real MapParallel under -race) + simulated longer inputs + "
                                "free-running stress; analysis: programs x 16 option combinations x schedules "
                                "{free, hold, meet} under -race")
