"""C11 -- pointer analysis never misses an alias that occurs at run time (DESIGN.md section 4, C11)."""
import sem


def run(ctx):
    sem.alias_check(ctx)
