"""C19 -- may-panic analysis reports every goroutine entry without a recovering defer (DESIGN.md section 4, C19).

Pipeline: TLC(LaunchSpace) -> cases (launch form x recover form x exclusion x site) -> Go programs (several
independent cases per program, one go statement per case on its own line) -> the REAL `argot maypanic -json`
front end (harness/cmd/maypanicrun, -exclude lib -exclude libs/ -exclude libf/fx.go) -> the SAME programs
compiled with -tags native and executed once per case and decision script, the crash trace of the dying process
parsed (entry frame, `created by` line) -> TLC(MayPanic) decides, one state per (case, observation), the rule and
its run-time consequence against the recorded report.  ONE DIRECTION: over-reporting is never flagged.
"""
import json
import os
import random
import re
import subprocess

import vlib
from vlib import Inconclusive

MODULE = "launch"
EXCLUDE_ARGS = ["-exclude", "lib", "-exclude", "libs/", "-exclude", "libf/fx.go"]

# excl -> (package name, file, import path, qualifier)
PKG = {
    "none": ("main", "main.go", None),
    "sub": ("sub", "sub/l.go", MODULE + "/sub"),
    "dir": ("lib", "lib/l.go", MODULE + "/lib"),
    "dirnested": ("inner", "lib/inner/l.go", MODULE + "/lib/inner"),
    "neardir": ("lib2", "lib2/l.go", MODULE + "/lib2"),
    "dirslash": ("libs", "libs/l.go", MODULE + "/libs"),
    "file": ("libf", "libf/fx.go", MODULE + "/libf"),
    "nearfile": ("libf", "libf/fy.go", MODULE + "/libf"),
    "nearallow": ("iox", "iox/x.go", "iox"),
}
LIBPKGS = [("sub", "sub", MODULE + "/sub"), ("lib", "lib", MODULE + "/lib"), ("inner", "lib/inner", MODULE + "/lib/inner"),
           ("lib2", "lib2", MODULE + "/lib2"), ("libs", "libs", MODULE + "/libs"), ("libf", "libf", MODULE + "/libf"),
           ("iox", "iox", "iox")]

ROLES_STUB = '''//go:build !native

package main

func oracle() bool    { return false }
func signal()         {}
func wait()           {}
func sel(k int) bool  { return k >= 0 }
'''

ROLES_NATIVE = '''//go:build native

package main

import (
	"os"
	"strconv"
	"sync"
)

var mu sync.Mutex
var script = os.Getenv("MP_SCRIPT")
var pos int
var selected, _ = strconv.Atoi(os.Getenv("MP_CASE"))
var done = make(chan struct{}, 16)

func oracle() bool {
	mu.Lock()
	r := false
	if pos < len(script) {
		r = script[pos] == '1'
		pos++
	}
	mu.Unlock()
	return r
}
func signal()        { done <- struct{}{} }
func wait()          { <-done }
func sel(k int) bool { return k == selected }
'''

# known findings: launch form -> entry id, benign twin launch form
KNOWN_FORMS = {
    "ifaceMethod": ("go-interface-method", "methodVal"),
    "fnGlobal": ("go-fnvalue-global", "fnLocal"),
    "fnField": ("go-fnvalue-field", "fnLocal"),
    "fnParam": ("go-fnvalue-param", "fnLocal"),
    "fnResult": ("go-fnvalue-result", "fnLocal"),
    "fnSlice": ("go-fnvalue-slice-elem", "fnLocal"),
}


# --------------------------------------------------------------------------------------------- rendering
class GoFile:
    def __init__(self, path, header):
        self.path = path
        self.lines = list(header)

    def emit(self, text, indent=0):
        self.lines.append("\t" * indent + text)
        return len(self.lines)  # 1-based line number

    def text(self):
        return "\n".join(self.lines) + "\n"


def T(text, *tags):
    return (text, tags)


def entry_parts(k, rec, inmain):
    """(top-level declarations in the entry's package, prologue statements of the entry) for a recover form"""
    S = "signal()" if inmain else "Signal()"
    O = "oracle()" if inmain else "Oracle()"
    recfn = ["func Rec%d() {" % k, "\tif recover() != nil {", "\t\t" + S, "\t}", "}"]
    decls, pro = [], []
    if rec in ("none", "callerDefer"):
        pass
    elif rec == "deferNoRecover":
        decls = ["func Noop%d() {" % k, "}"]
        pro = ["defer Noop%d()" % k]
    elif rec == "deferClosure":
        pro = ["defer func() {", "\tif recover() != nil {", "\t\t" + S, "\t}", "}()"]
    elif rec == "deferClosureCap":
        pro = ["tag%d := 0" % k, "defer func() {", "\ttag%d++" % k, "\tif recover() != nil {", "\t\t" + S, "\t}", "}()"]
    elif rec == "deferNamed":
        decls = recfn
        pro = ["defer Rec%d()" % k]
    elif rec == "deferMethod":
        decls = ["type R%d struct{}" % k, "func (R%d) Rec() {" % k, "\tif recover() != nil {", "\t\t" + S, "\t}", "}"]
        pro = ["defer R%d{}.Rec()" % k]
    elif rec == "deferIface":
        decls = ["type RI%d interface{ Rec() }" % k, "type R%d struct{}" % k, "func (R%d) Rec() {" % k,
                 "\tif recover() != nil {", "\t\t" + S, "\t}", "}"]
        pro = ["var ri%d RI%d = R%d{}" % (k, k, k), "defer ri%d.Rec()" % k]
    elif rec == "condDefer":
        decls = recfn
        pro = ["if %s {" % O, "\tdefer Rec%d()" % k, "}"]
    elif rec == "nestedRecover":
        decls = ["func Nest%d() {" % k, "\trecover()", "}"]
        pro = ["Nest%d()" % k]
    elif rec == "deferIndirect":
        decls = ["func Rec%d() {" % k, "\trecover()", "}", "func Wrap%d() {" % k, "\tRec%d()" % k, "}"]
        pro = ["defer Wrap%d()" % k]
    elif rec == "deferBuiltin":
        pro = ["defer recover()"]
    elif rec == "deferInCallee":
        decls = recfn + ["func Prot%d() {" % k, "\tdefer Rec%d()" % k, "}"]
        pro = ["Prot%d()" % k]
    else:
        raise Inconclusive("unknown recover form %r" % rec)
    body = pro + ["if %s {" % O, '\tpanic("boom %d")' % k, "}", S]
    return decls, body


def render_case(k, cs, files, mainbody):
    """emit the declarations of case k; append its selection block to mainbody; return meta"""
    launch, rec, excl, site = cs["launch"], cs["rec"], cs["excl"], cs["site"]
    meta = {"entry": {"file": "", "line": 0}, "entry_end": 0, "gosites": []}
    main = files["main.go"]

    def put(fobj, items, indent=0):
        for it in items:
            text, tags = it if isinstance(it, tuple) else (it, ())
            ln = fobj.emit(text, indent)
            for t in tags:
                if t == "entry":
                    meta["entry"] = {"file": fobj.path, "line": ln}
                elif t == "entry_end":
                    meta["entry_end"] = ln
                elif t == "go":
                    meta["gosites"].append({"file": fobj.path, "line": ln})

    if excl == "allow":  # a standard-library function: nothing to declare, nothing to observe natively
        if launch == "named":
            pre, go = [], [T("go runtime.Gosched()", "go")]
        elif launch == "methodPtr":
            pre, go = ["wg%d := &sync.WaitGroup{}" % k], [T("go wg%d.Wait()" % k, "go")]
        else:
            raise Inconclusive("no standard-library rendering for launch form %r" % launch)
        put(main, ["func Launch%d() {" % k] + ["\t" + x for x in pre])
        put(main, go, 1)
        put(main, ["}", ""])
        mainbody.append(["if sel(%d) {" % k, "\tLaunch%d()" % k, "}"])
        return meta

    pkgname, pfile, ipath = PKG[excl]
    inmain_entry = excl == "none"
    q = "" if inmain_entry else pkgname + "."
    P = files[pfile]
    closure_forms = ("closureLit", "closureCap", "closureVar")
    site_in_lib = (not inmain_entry) and launch in closure_forms
    # the package the go statement sits in
    SF = P if site_in_lib else main
    # entry body; for closures the entry lives in the site's package
    entry_in_main = inmain_entry if launch not in closure_forms else not site_in_lib
    decls, body = entry_parts(k, rec, entry_in_main)
    body = ["\t" + x for x in body]
    recfn_site = []
    if rec == "callerDefer":
        S = "signal()" if SF is main else "Signal()"
        recfn_site = ["func Rec%d() {" % k, "\tif recover() != nil {", "\t\t" + S, "\t}", "}"]

    pdecls, sdecls, pre, param, arg = [], [], [], "", ""
    fn_entry = [T("func Entry%d() {" % k, "entry")] + body + [T("}", "entry_end")]
    tdecl = ["type T%d struct{ N int }" % k]
    if launch == "named":
        pdecls, go = fn_entry, [T("go %sEntry%d()" % (q, k), "go")]
    elif launch == "generic":
        pdecls = [T("func Entry%d[X any](v X) {" % k, "entry")] + body + [T("}", "entry_end")]
        go = [T("go %sEntry%d[int](%d)" % (q, k, k), "go")]
    elif launch == "closureLit":
        go = [T("go func() {", "go", "entry")] + body + [T("}()", "entry_end")]
    elif launch == "closureCap":
        pre = ["cap%d := 0" % k]
        go = [T("go func() {", "go", "entry"), "\tcap%d++" % k] + body + [T("}()", "entry_end")]
    elif launch == "closureVar":
        pre = ["cv%d := 0" % k, T("f%d := func() {" % k, "entry"), "\tcv%d++" % k] + body + [T("}", "entry_end")]
        go = [T("go f%d()" % k, "go")]
    elif launch in ("methodVal", "methodEmb", "boundMethod", "methodExpr", "ifaceMethod"):
        pdecls = tdecl + [T("func (t T%d) Run() {" % k, "entry")] + body + [T("}", "entry_end")]
        if launch == "methodVal":
            pre, go = ["x%d := %sT%d{}" % (k, q, k)], [T("go x%d.Run()" % k, "go")]
        elif launch == "methodEmb":
            pdecls = pdecls + ["type E%d struct{ T%d }" % (k, k)]
            pre, go = ["x%d := %sE%d{}" % (k, q, k)], [T("go x%d.Run()" % k, "go")]
        elif launch == "boundMethod":
            pre, go = ["x%d := %sT%d{}" % (k, q, k), "f%d := x%d.Run" % (k, k)], [T("go f%d()" % k, "go")]
        elif launch == "methodExpr":
            pre = ["x%d := %sT%d{}" % (k, q, k), "f%d := %sT%d.Run" % (k, q, k)]
            go = [T("go f%d(x%d)" % (k, k), "go")]
        else:
            pdecls = pdecls + ["type I%d interface{ Run() }" % k]
            pre, go = ["var i%d %sI%d = %sT%d{}" % (k, q, k, q, k)], [T("go i%d.Run()" % k, "go")]
    elif launch == "methodPtr":
        pdecls = tdecl + [T("func (t *T%d) Run() {" % k, "entry")] + body + [T("}", "entry_end")]
        pre, go = ["x%d := &%sT%d{}" % (k, q, k)], [T("go x%d.Run()" % k, "go")]
    elif launch == "fnLocal":
        pdecls, pre, go = fn_entry, ["f%d := %sEntry%d" % (k, q, k)], [T("go f%d()" % k, "go")]
    elif launch == "fnGlobal":
        pdecls, sdecls, go = fn_entry, ["var Fv%d = %sEntry%d" % (k, q, k)], [T("go Fv%d()" % k, "go")]
    elif launch == "fnField":
        pdecls, sdecls = fn_entry, ["type H%d struct{ F func() }" % k]
        pre, go = ["h%d := H%d{F: %sEntry%d}" % (k, k, q, k)], [T("go h%d.F()" % k, "go")]
    elif launch == "fnParam":
        pdecls, param, arg, go = fn_entry, "f%d func()" % k, "%sEntry%d" % (q, k), [T("go f%d()" % k, "go")]
    elif launch == "fnResult":
        pdecls = fn_entry
        sdecls = ["func Mk%d() func() {" % k, "\treturn %sEntry%d" % (q, k), "}"]
        go = [T("go Mk%d()()" % k, "go")]
    elif launch == "fnSlice":
        pdecls, sdecls, go = fn_entry, ["var Tab%d = []func(){%sEntry%d}" % (k, q, k)], [T("go Tab%d[0]()" % k, "go")]
    else:
        raise Inconclusive("unknown launch form %r" % launch)

    # declarations needed by the entry (recover helpers) live next to the entry
    EP = SF if launch in closure_forms else P
    put(EP, decls)
    put(P, pdecls)
    put(SF, sdecls + recfn_site)
    dfr = ["defer Rec%d()" % k] if rec == "callerDefer" else []

    def block(ind):
        """defer of the caller + pre-statements + go statement(s), as items with indentation"""
        return [("\t" * ind + (x[0] if isinstance(x, tuple) else x), x[1] if isinstance(x, tuple) else ()) for x in
                dfr + pre + go]

    def goonly(ind):
        return [("\t" * ind + (x[0] if isinstance(x, tuple) else x), x[1] if isinstance(x, tuple) else ()) for x in go]

    if site_in_lib:
        # the go statement sits in a helper of the library package; main only calls it
        put(P, ["func Spawn%d() {" % k] + block(1) + ["}"])
        put(main, ["func Launch%d() {" % k, "\t%sSpawn%d()" % (q, k), "\twait()", "}", ""])
        mainbody.append(["if sel(%d) {" % k, "\tLaunch%d()" % k, "}"])
        return meta
    if site == "main":
        mainbody.append(["if sel(%d) {" % k] + block(1) + ["\twait()", "}"])
        return meta
    if site == "helper":
        fn = ["func Launch%d(%s) {" % (k, param)] + block(1) + ["\twait()", "}"]
    elif site == "closure":
        fn = (["func Launch%d() {" % k, "\tfunc(%s) {" % param] + block(2) + ["\t}(%s)" % arg, "\twait()", "}"])
        arg = ""
    elif site == "loop":
        fn = (["func Launch%d(%s) {" % (k, param)] + [("\t" + x, ()) for x in dfr] +
              ["\tfor n := 0; n < 2; n++ {"] +
              [("\t\t" + (x[0] if isinstance(x, tuple) else x), x[1] if isinstance(x, tuple) else ()) for x in pre + go] +
              ["\t\twait()", "\t}", "}"])
    elif site == "twice":
        fn = ["func Launch%d(%s) {" % (k, param)] + block(1) + ["\twait()"] + goonly(1) + ["\twait()", "}"]
    elif site == "ingo":
        fn = ["func Launch%d(%s) {" % (k, param), "\tgo func() {"] + block(2) + ["\t}()", "\twait()", "}"]
    else:
        raise Inconclusive("unknown site %r" % site)
    put(main, fn + [""])
    mainbody.append(["if sel(%d) {" % k, "\tLaunch%d(%s)" % (k, arg), "}"])
    return meta


def render_program(cases):
    """cases: list of descriptors.  Returns ({path: text}, [meta per case])"""
    files = {}
    imports = ['\t"iox"'] + ['\t%s "%s"' % (n, ip) for n, _, ip in LIBPKGS if n != "iox"]
    if any(c["excl"] == "allow" and c["launch"] == "named" for c in cases):
        imports.append('\t"runtime"')
    if any(c["excl"] == "allow" and c["launch"] == "methodPtr" for c in cases):
        imports.append('\t"sync"')
    files["main.go"] = GoFile("main.go", ["package main", "", "import ("] + sorted(imports) + [")", ""])
    for name, d, ip in LIBPKGS:
        v = GoFile(d + "/vars.go", ["package " + name, "", "var Oracle func() bool", "var Signal func()", ""])
        files[v.path] = v
    for excl, (name, path, ip) in PKG.items():
        if path not in files:
            files[path] = GoFile(path, ["package " + name, ""])
    mainbody, metas = [], []
    for k, cs in enumerate(cases, 1):
        metas.append(render_case(k, cs, files, mainbody))
    m = files["main.go"]
    m.emit("func init() {")
    for name, d, ip in LIBPKGS:
        m.emit("%s.Oracle, %s.Signal = oracle, signal" % (name, name), 1)
    m.emit("}")
    m.emit("")
    m.emit("func main() {")
    # the selection blocks of site=main cases carry tagged lines: emit through the same tag handling
    for k, blk in enumerate(mainbody, 1):
        for it in blk:
            text, tags = it if isinstance(it, tuple) else (it, ())
            ln = m.emit(text, 1)
            meta = metas[k - 1]
            for t in tags:
                if t == "entry":
                    meta["entry"] = {"file": "main.go", "line": ln}
                elif t == "entry_end":
                    meta["entry_end"] = ln
                elif t == "go":
                    meta["gosites"].append({"file": "main.go", "line": ln})
    m.emit("}")
    out = {p: f.text() for p, f in files.items()}
    out["go.mod"] = "module %s\n\ngo 1.22\n\nrequire iox v0.0.0\n\nreplace iox => ./iox\n" % MODULE
    out["iox/go.mod"] = "module iox\n\ngo 1.22\n"
    out["roles_stub.go"] = ROLES_STUB
    out["roles_native.go"] = ROLES_NATIVE
    return out, metas


def write_tree(d, files):
    for p, text in files.items():
        fp = os.path.join(d, p)
        os.makedirs(os.path.dirname(fp), exist_ok=True)
        with open(fp, "w") as fh:
            fh.write(text)


# --------------------------------------------------------------------------------------------- native runs
def scripts_for(cs):
    """decision scripts of the native runs of a case: list of (script, panic, cond, which)"""
    if cs["excl"] == "allow":
        return []
    cond = cs["rec"] == "condDefer"
    per = 2 if cond else 1  # oracle() calls per launch of the entry
    out = []  # (runs without a panic are not observed per case: one idle run per program checks the plumbing)
    launches = 2 if cs["site"] in ("twice", "loop") else 1
    for w in range(1, launches + 1):
        for cbit in ((False, True) if cond else (False,)):
            bits = "0" * (per * (w - 1)) + (("1" if cbit else "0") if cond else "") + "1"
            out.append((bits, True, cbit, w if cs["site"] == "twice" else 1))
    return out


FRAME_RE = re.compile(r"^\t(.+?):(\d+)(?: \+0x[0-9a-f]+)?$")


def parse_trace(err, root):
    """crash trace of a process that died of a goroutine panic -> (msg, [(func, file, line)], created (func, file, line))"""
    lines = err.splitlines()
    msg = ""
    for l in lines:
        if l.startswith("panic: "):
            msg = l[len("panic: "):].strip()
            break
    start = None
    for i, l in enumerate(lines):
        if l.startswith("goroutine ") and "[running]" in l:
            start = i
            break
    if start is None:
        return msg, [], None
    frames, created = [], None
    j = start + 1
    pre = root.rstrip("/") + "/"

    def relf(f):
        return f[len(pre):] if f.startswith(pre) else f

    while j < len(lines):
        l = lines[j]
        if not l.strip():
            break
        m = FRAME_RE.match(lines[j + 1]) if j + 1 < len(lines) else None
        if l.startswith("created by "):
            if m:
                created = (l[len("created by "):].split(" in goroutine")[0], relf(m.group(1)), int(m.group(2)))
            break
        if m:
            frames.append((l.strip(), relf(m.group(1)), int(m.group(2))))
            j += 2
        else:
            j += 1
    return msg, frames, created


def entry_of(frames, ranges):
    """declaration position of the generated function that contains the bottom user frame of the dying goroutine"""
    for fn, f, ln in reversed(frames):
        if f.startswith("/"):
            continue  # runtime / autogenerated frames
        best = None
        for (ef, a, b) in ranges:
            if ef == f and a <= ln <= b and (best is None or b - a < best[2] - best[1]):
                best = (ef, a, b)
        if best:
            return {"file": best[0], "line": best[1]}, fn
        return {"file": f, "line": ln}, fn
    return {"file": "", "line": 0}, ""


def run(ctx):
    thorough = ctx.tier == "thorough"
    rnd = random.Random(ctx.seed)
    bins = ctx.build(["maypanicrun"])

    # ---- 1. case space from TLC -------------------------------------------------------------------------
    if thorough:
        r = ctx.tlc_must_pass("LaunchSpace", cfg="LaunchSpace.cfg", timeout=900, deadlock=False)
        cases = vlib.read_ndjson(os.path.join(r.dir, "launch_cases.ndjson"))
        exhaustive_n, sim_n = len(cases), 0
    else:
        r = ctx.tlc_must_pass("LaunchSpace", cfg="LaunchSpaceQuick.cfg", timeout=900, deadlock=False)
        cases = vlib.read_ndjson(os.path.join(r.dir, "launch_cases.ndjson"))
        exhaustive_n = len(cases)
        r2 = ctx.tlc_must_pass("LaunchSpace", cfg="LaunchSpace.cfg", timeout=900, simulate="num=200", depth=6,
                               seed=ctx.seed, deadlock=False, subdir="LaunchSpace-sim")
        have = {json.dumps(c, sort_keys=True) for c in cases}
        sim = [c for c in vlib.read_ndjson(os.path.join(r2.dir, "launch_cases.ndjson"))
               if json.dumps(c, sort_keys=True) not in have]
        sim.sort(key=lambda c: json.dumps(c, sort_keys=True))
        rnd.shuffle(sim)
        sim = sim[:60]
        sim_n = len(sim)
        cases += sim
    if exhaustive_n < 100:
        raise Inconclusive("LaunchSpace produced only %d cases" % exhaustive_n)
    cases.sort(key=lambda c: json.dumps(c, sort_keys=True))
    rnd.shuffle(cases)  # which cases share a program depends on the seed

    # benign twins of the known launch forms must be present (attribution, DESIGN 2.6)
    keyset = {(c["launch"], c["rec"], c["excl"], c["site"]) for c in cases}
    for c in list(cases):
        if c["launch"] in KNOWN_FORMS:
            tw = dict(c, launch=KNOWN_FORMS[c["launch"]][1])
            tk = (tw["launch"], tw["rec"], tw["excl"], tw["site"])
            if tk not in keyset:
                keyset.add(tk)
                cases.append(tw)

    # pinned inputs of the known findings (run on every invocation), as a program of their own
    kfd = {}
    kpath = os.path.join(vlib.VERIF, "known_findings.d", "C19.json")
    for e in ctx.kf:
        kfd[e["id"]] = e
    if os.path.exists(kpath):
        for e in json.load(open(kpath)):
            kfd.setdefault(e["id"], e)
    pinned = []
    for e in kfd.values():
        pj = os.path.join(vlib.VERIF, e["pinned_input"], "case.json")
        if not os.path.exists(pj):
            raise Inconclusive("pinned input %s is missing" % pj)
        pc = json.load(open(pj))
        pc = {k_: pc[k_] for k_ in ("launch", "rec", "excl", "site")}
        pinned.append((e, pc))

    PER = 150
    groups = [cases[i:i + PER] for i in range(0, len(cases), PER)]
    npin = 0
    if pinned:
        # + one plain case that must be reported, so that an empty report of this program means a dead driver
        groups.append([pc for _, pc in pinned] + [{"launch": "named", "rec": "none", "excl": "none", "site": "helper"}])
        npin = 1
    progs = []  # {dir, cases, metas}
    for gi, g in enumerate(groups):
        files, metas = render_program(g)
        d = os.path.join(ctx.work, "prog%03d" % gi)
        write_tree(d, files)
        progs.append({"dir": d, "cases": g, "metas": metas, "files": files})
        for cs, m in zip(g, metas):
            if not m["gosites"] or (cs["excl"] != "allow" and not m["entry"]["line"]):
                raise Inconclusive("renderer lost the entry/go statement of %r" % cs)

    # ---- 2. the real tool ---------------------------------------------------------------------------------
    def analyse(gi):
        out = os.path.join(ctx.work, "report%03d.ndjson" % gi)
        p = vlib.sh([bins["maypanicrun"], "-dir", progs[gi]["dir"], "-prog", str(gi + 1), "-out", out, "--"] +
                    EXCLUDE_ARGS + ["."], env=dict(vlib.goenv(), GOMAXPROCS="2"), check=False, timeout=1800)
        if p.returncode != 0 and re.search(r"^(fatal error|panic): ", p.stdout, re.M) and \
                re.search(r"ar-go-tools/(analysis|cmd|internal)/", p.stdout):
            # the process died inside the tool (unrecoverable: stack overflow, concurrent map access, ...)
            m_ = re.search(r"^(fatal error|panic): .*$", p.stdout, re.M)
            return {"prog": gi + 1, "ok": False, "crash": m_.group(0) + "\n" + p.stdout[-3000:], "err": "",
                    "findings": [], "raw": 0}
        if p.returncode != 0 or not os.path.exists(out):
            raise Inconclusive("maypanicrun failed on %s:\n%s" % (progs[gi]["dir"], p.stdout[-3000:]))
        recs = vlib.read_ndjson(out)
        if len(recs) != 1:
            raise Inconclusive("maypanicrun wrote %d records" % len(recs))
        return recs[0]

    reports = vlib.pmap(analyse, range(len(progs)), nproc=4)
    for gi, rp in enumerate(reports):
        if rp["err"]:
            raise Inconclusive("argot maypanic could not analyse %s: %s" % (progs[gi]["dir"], rp["err"][:2000]))
        if rp["ok"] and not rp["findings"]:
            raise Inconclusive("argot maypanic reported nothing at all for %s (dead driver?)" % progs[gi]["dir"])

    # ---- 3. native execution ------------------------------------------------------------------------------
    def build_native(gi):
        d = progs[gi]["dir"]
        p = vlib.sh(["go", "build", "-p", "2", "-tags", "native", "-o", "prog.exe", "."], cwd=d, env=vlib.goenv(),
                    check=False, timeout=1800)
        if p.returncode != 0:
            raise Inconclusive("native build failed in %s:\n%s" % (d, p.stdout[-3000:]))
        return True

    vlib.pmap(build_native, range(len(progs)), nproc=4)

    jobs = []
    for gi, pg in enumerate(progs):
        jobs.append((gi, 0, "1", False, False, 1))  # no case selected: the program must start and exit 0
        for k, cs in enumerate(pg["cases"], 1):
            for (script, pan, cond, which) in scripts_for(cs):
                jobs.append((gi, k, script, pan, cond, which))

    def native(job):
        gi, k, script, pan, cond, which = job
        d = progs[gi]["dir"]
        env = {"MP_CASE": str(k), "MP_SCRIPT": script, "PATH": os.environ.get("PATH", ""), "HOME": d, "GOMAXPROCS": "2"}
        try:
            q = subprocess.run([os.path.join(d, "prog.exe")], cwd=d, env=env, stdout=subprocess.PIPE,
                               stderr=subprocess.PIPE, text=True, timeout=600)
        except subprocess.TimeoutExpired:
            raise Inconclusive("native run of case %d of %s timed out" % (k, d))
        return q.returncode, q.stderr

    results = vlib.pmap(native, jobs, nproc=4)
    obs = {}  # (gi, k) -> list
    traces = {}
    for job, (rc, err) in zip(jobs, results):
        gi, k, script, pan, cond, which = job
        pg = progs[gi]
        ranges = [(m["entry"]["file"], m["entry"]["line"], m["entry_end"]) for m in pg["metas"] if m["entry"]["line"]]
        ob = {"script": script, "panic": pan, "cond": cond, "which": which, "rc": rc, "died": False, "msg": "",
              "entry": {"file": "", "line": 0}, "gosite": {"file": "", "line": 0}, "entryfn": "", "createdby": ""}
        if k == 0:
            if rc != 0:
                raise Inconclusive("idle native run of %s failed (rc=%d):\n%s" % (pg["dir"], rc, err[-2000:]))
            continue
        if rc != 0:
            msg, frames, created = parse_trace(err, pg["dir"])
            if rc != 2 or not msg.startswith("boom") or created is None:
                raise Inconclusive("native run of case %d (%r, script %r) of %s ended unexpectedly (rc=%d):\n%s" % (
                    k, pg["cases"][k - 1], script, pg["dir"], rc, err[-2000:]))
            ob["died"], ob["msg"] = True, msg
            ob["entry"], ob["entryfn"] = entry_of(frames, ranges)
            ob["gosite"] = {"file": created[1], "line": created[2]}
            ob["createdby"] = created[0]
            if msg != "boom %d" % k:
                raise Inconclusive("native run of case %d died of %r" % (k, msg))
            traces[(gi, k, len(obs.get((gi, k), [])) + 1)] = err
        obs.setdefault((gi, k), []).append(ob)
    ctx.traces += len(jobs)

    # ---- 4. TLC decides -----------------------------------------------------------------------------------
    crecs, cid = [], 0
    index = {}
    for gi, pg in enumerate(progs):
        for k, (cs, m) in enumerate(zip(pg["cases"], pg["metas"]), 1):
            cid += 1
            index[cid] = (gi, k)
            crecs.append({"id": cid, "prog": gi + 1, "k": k, "launch": cs["launch"], "rec": cs["rec"], "excl": cs["excl"],
                          "site": cs["site"], "entry": m["entry"], "gosites": m["gosites"],
                          "native": obs.get((gi, k), [])})
    r = ctx.tlc_must_pass("MayPanic", data={"mp_progs.ndjson": vlib.ndjson(reports), "mp_cases.ndjson": vlib.ndjson(crecs)},
                          timeout=1800, deadlock=False, coverage=thorough)
    fp = os.path.join(r.dir, "mp_fail.ndjson")
    mres = re.search(r'"MAYPANIC_RESULT", (\d+), (\d+), (\d+), (\d+), (\d+)', r.out)
    if not mres or not os.path.exists(fp):
        raise Inconclusive("MayPanic.tla did not reach its postcondition:\n" + r.out[-3000:])
    nc, nmust, nobs, ndied, nfail = map(int, mres.groups())
    if nc != len(crecs) or nmust == 0 or ndied == 0:
        raise Inconclusive("vacuous MayPanic run: cases=%d obligations=%d deaths=%d" % (nc, nmust, ndied))
    fails = vlib.read_ndjson(fp)
    # Role A (transcription of the algorithm): measured, never decides (DESIGN 2.3 rule 3)
    drift = vlib.read_ndjson(os.path.join(r.dir, "mp_drift.ndjson"))
    gaps = vlib.read_ndjson(os.path.join(r.dir, "mp_gaps.ndjson"))

    # ---- 5. verdicts --------------------------------------------------------------------------------------
    model = [f for f in fails if f["kind"].startswith("model-")]
    if model:
        f = model[0]
        gi, k = index[f["case"]]
        raise Inconclusive("MODEL-MISMATCH (%s): native run %d of case %r in %s does not behave as MayPanic.tla assumes: %s"
                           % (f["kind"], f["obs"], progs[gi]["cases"][k - 1], progs[gi]["dir"],
                              json.dumps(obs[(gi, k)][f["obs"] - 1])))

    failed_cases = {}
    for f in fails:
        failed_cases.setdefault(f["case"], []).append(f)
    bykey = {}
    for cr in crecs:
        if cr["prog"] <= len(progs) - npin:
            bykey[(cr["launch"], cr["rec"], cr["excl"], cr["site"])] = cr["id"]

    def material(cidx, fl):
        gi, k = index[cidx]
        pg = progs[gi]
        cs, m = pg["cases"][k - 1], pg["metas"][k - 1]
        solo_files, solo_meta = render_program([cs])
        mat = {"case.json": dict(cs, note="minimal rendering of the failing case; run: argot maypanic -json %s ." %
                                 " ".join(EXCLUDE_ARGS)),
               "failure.json": fl, "report_of_shared_program.json": reports[gi],
               "native_observations.json": obs.get((gi, k), [])}
        for p, t in solo_files.items():
            mat["program/" + p] = t
        for p, t in pg["files"].items():
            mat["shared_program/" + p] = t
        mat["shared_program/CASE"] = "case %d: entry %s go sites %s\n" % (k, m["entry"], m["gosites"])
        for (g2, k2, n), tr in traces.items():
            if (g2, k2) == (gi, k):
                mat["native_trace_%d.txt" % n] = tr
        return mat

    tool_failed = set()
    known_hits = {}
    for cidx in sorted(failed_cases):
        fl = failed_cases[cidx]
        gi, k = index[cidx]
        pg = progs[gi]
        cs = pg["cases"][k - 1]
        desc = "launch=%s rec=%s excl=%s site=%s" % (cs["launch"], cs["rec"], cs["excl"], cs["site"])
        kinds = sorted({f["kind"] for f in fl})
        if "tool-failed" in kinds:
            if gi not in tool_failed:
                tool_failed.add(gi)
                ctx.violation("argot maypanic crashed on a generated program (%d go statements): %s" % (
                    len(pg["cases"]), reports[gi]["crash"][:400]),
                    {("program/" + p): t for p, t in pg["files"].items()} | {"report.json": reports[gi]},
                    key="crash/%s" % reports[gi]["crash"][:80])
            continue
        is_pinned = gi >= len(progs) - npin
        form = cs["launch"]
        m_ = pg["metas"][k - 1]
        absent = not [x for x in reports[gi]["findings"]
                      if x["file"] == m_["entry"]["file"] and x["line"] == m_["entry"]["line"]]
        # signature of an ignored launch form: the entry function is absent from the report altogether
        if form in KNOWN_FORMS and absent and set(kinds) <= {"not-reported", "native-uncovered"}:
            eid, twin = KNOWN_FORMS[form]
            ent = kfd.get(eid)
            tkey = (twin, cs["rec"], cs["excl"], cs["site"])
            twin_id = bykey.get(tkey)
            twin_ok = twin_id is not None and twin_id not in failed_cases
            if is_pinned:
                twin_ok = True  # the pinned input is the canonical witness; its twin is checked in the enumerated space
            if ent and ent.get("status") == "known" and twin_ok:
                known_hits.setdefault(eid, []).append(desc)
                continue
        f0 = fl[0]
        what = {
            "not-reported": "the launched function is not in the report of argot maypanic at all",
            "creator-missing": "the launched function is reported but this go statement is not among its creation sites",
            "native-uncovered": "a native run died of a panic in this goroutine and (entry, go statement) of the crash "
                                "trace is not in the report",
        }[f0["kind"]]
        nat = [o_ for o_ in obs.get((gi, k), []) if o_["died"]]
        ctx.violation("go statement %s:%d launching %s:%d (%s): %s; the entry does not defer a recovering function and is "
                      "not excluded%s" % (f0["gofile"], f0["goline"], f0["entryfile"], f0["entryline"], desc, what,
                                          ("; natively the process dies of its panic (created by %s)" % nat[0]["createdby"])
                                          if nat else ""),
                      material(cidx, fl), key="%s/%s/%s/%s/%s" % (f0["kind"], cs["launch"], cs["rec"], cs["excl"], cs["site"]))
        if len(ctx.violations) >= 25:
            break

    for eid, descs in sorted(known_hits.items()):
        ent = kfd[eid]
        ctx.known(eid, "%s: %s -- %d case(s) not reported, e.g. %s (benign twin reported); pinned %s" % (
            eid, ent["match"]["construct"], len(descs), descs[0], ent["pinned_input"]))
    # a "fixed" entry's pinned input must pass
    for e, pc in pinned:
        if e.get("status") == "fixed":
            pass  # its pinned case is part of the pinned program: a failure was reported above as a VIOLATION

    # ---- evidence -----------------------------------------------------------------------------------------
    forms = sorted({c["launch"] for c in cases})
    s0 = crecs[len(crecs) // 3]
    ctx.sample({"case": {k_: s0[k_] for k_ in ("launch", "rec", "excl", "site")}, "entry": s0["entry"],
                "gosites": s0["gosites"], "native": s0["native"][:2]})
    died0 = next((cr for cr in crecs if any(o_["died"] for o_ in cr["native"])), None)
    if died0:
        gi, k = index[died0["id"]]
        tr = next((t for (g2, k2, n), t in traces.items() if (g2, k2) == (gi, k)), "")
        ctx.sample({"case": {k_: died0[k_] for k_ in ("launch", "rec", "excl", "site")},
                    "crash_trace": [l.replace(progs[gi]["dir"], "<module>") for l in tr.splitlines()[:12]]})
    ctx.extra.update({
        "programs": len(progs), "cases": len(crecs), "cases_exhaustive": exhaustive_n, "cases_simulated": sim_n,
        "cases_with_obligation": nmust, "native_runs": len(jobs), "native_runs_died": ndied,
        "launch_forms": forms, "findings_total": sum(len(rp["findings"]) for rp in reports),
        "known_finding_cases": {k_: len(v) for k_, v in known_hits.items()},
        "exclude_args": EXCLUDE_ARGS,
        "spec_drift": {"cases": len(drift), "examples": drift[:5],
                       "meaning": "cases where the Role-A transcription of findGoFunctions/doesDeferRecover in MayPanic.tla "
                                  "does not predict the real report (informational)"},
        "design_gaps": sorted("%s (%s)" % (g["launch"], g["kind"]) for g in gaps),
        "explanation": "states = (case, observation) points checked by MayPanic.tla + states of the generator spec",
    })
    if thorough:
        zero = r.coverage_zero()
        ctx.extra["maypanic_spec_zero_coverage"] = zero[:20]
    ctx.assumptions += [
        "the Go runtime's crash trace (bottom user frame of the dying goroutine, `created by` file:line) identifies the "
        "entry function and the go statement; checked against the renderer's own bookkeeping in every dying run (Sanity)",
        "a report identifies a function by the position of its declaration (bound-method and method-expression wrappers "
        "are reported at the method's position under the names m$bound / m$thunk and are accepted)",
        "weakest reading: an entry whose defer of a recovering function is only conditionally executed counts as "
        "recovering; excluded = entry function's package directory/file matched by -exclude or package path allow-listed",
    ]
    ctx.finish_args = dict(exhaustive=thorough, evaluations=nobs + nc, distinct=len(crecs),
                           rule="one case = one go statement (launch form x recover form x exclusion placement x site), "
                                "enumerated by TLC from LaunchSpace (%s); native runs under every decision script of the case"
                                % ("full constrained product" if thorough else
                                   "pairwise core exhaustively + seeded simulation of the full space"))
