"""C03 -- backtrace reports every backward data flow from a backtrace point (DESIGN.md section 4, C03).

Program space of C01 with `origin()` as first statement and a backtrace point `bt1(x)` as terminal step;
GoSem emits a `bt` event (origin site, backtrace-point site, argument index) whenever the argument (or memory
reachable from it) carries the origin's tag; Obs_Back demands that some reported trace for that call and argument
contains a node at the origin's position, eager and on-demand, and that every reported trace ends at the call."""
import random

import sem
import semgen
from checks import c01


def run(ctx):
    if ctx.replay:
        return sem.replay(ctx, ctx.replay, mode="bt")
    chains, sim, nexh = c01.chains_for(ctx, ctx.tier == "thorough")
    if ctx.tier != "thorough":
        sim = sim[:80]
    items = [list(c) for c in chains] + [list(c) for c in sim]
    items += [c for c in sem.pinned_chains(ctx.prop) if list(c) not in items]
    # placement of the backtrace point: direct call in main (argument 0), second argument, inside a helper
    kinds = ["bt", "bt_arg1", "bt_helper"]
    items = [(c, kinds[0]) for c in items] + [(c, kinds[1 + (i % 2)]) for i, c in enumerate(items) if len(c) <= 2]
    sem.taint_flow_check(ctx, items,
                         lambda it, name: semgen.build_chain(it[0], name=name, sink_kind=it[1], source_kind="origin"),
                         nexh, len(sim), mode="bt",
                         prop_what="backtrace reports no trace containing the origin for the backward flow")
